#!/usr/bin/env python3
"""dbg.py <PROP> <case index> <coq expr over `c`>: evaluate an expression on one case of the last run."""
import sys, re, subprocess, os
prop, idx, expr = sys.argv[1], int(sys.argv[2]), sys.argv[3]
ROOT = os.path.dirname(os.path.abspath(__file__))
d = ROOT + '/_work/%s' % prop
for f in sorted(os.listdir(d)):
    if not (f.startswith('cases_') and f.endswith('.v')): continue
    src = open(os.path.join(d, f)).read()
    m = re.search(r'^\(%d%%N, ' % idx, src, re.M)
    if not m: continue
    start = m.start()
    end = src.find('\n(%d%%N, ' % (idx + 1), start)
    if end < 0: end = src.find('\n].', start)
    case = src[start:end].rstrip().rstrip(';')
    header = src[:src.find('Definition cases')]
    body = header + 'Definition c := snd ' + case + '.\nEval vm_compute in (' + expr + ').\n'
    open(ROOT + '/_work/dbg.v', 'w').write(body)
    out = subprocess.run('coqc -noglob -Q %s/coq/theories IweV %s/_work/dbg.v' % (ROOT, ROOT), shell=True, capture_output=True, text=True)
    print(out.stdout[-int(os.environ.get("DBG_TAIL","6000")):], out.stderr[-2000:])
    break
