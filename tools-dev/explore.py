#!/usr/bin/env python3
"""explore.py PROP [seed]: run harness + evaluation (no verdict), print a histogram of
(failing sub-properties, classes) with the smallest example of each."""
import sys, json, os, importlib.util, collections
from importlib.machinery import SourceFileLoader
chk = SourceFileLoader("chk", os.path.join(os.path.dirname(os.path.abspath(__file__)), "check")).load_module()
prop = sys.argv[1]; seed = int(sys.argv[2]) if len(sys.argv) > 2 else 1
tier = sys.argv[3] if len(sys.argv) > 3 else "quick"
ok, out = chk.build_harness()
if not ok: print(out[-3000:]); sys.exit(1)
outdir = os.path.join(chk.WORK, prop)
meta, o = chk.run_harness(prop, seed, tier, outdir)
if meta is None: print(o[-3000:]); sys.exit(1)
agg = chk.evaluate(outdir)
inputs = chk.read_inputs(outdir)
print("total", agg["total"], "corr", len(agg["corr"]), "prop", len(agg["prop"]), "errors", len(agg["errors"]))
for e in agg["errors"][:2]: print(e[-1500:])
h = collections.defaultdict(list)
for (i, p, c) in agg["prop"]: h[(tuple(p), tuple(c))].append(i)
for k, v in sorted(h.items(), key=lambda kv: -len(kv[1])):
    best = min(v, key=lambda i: len(json.dumps(inputs[i])))
    print("props", k[0], "classes", k[1], "count", len(v), "e.g. case", best)
    print("    ", json.dumps(inputs[best], ensure_ascii=False)[:700])
hc = collections.defaultdict(list)
for (i, st) in agg["corr"]: hc[tuple(st)].append(i)
for k, v in hc.items():
    best = min(v, key=lambda i: len(json.dumps(inputs[i])))
    print("corr stages", k, "count", len(v), "e.g. case", best, json.dumps(inputs[best], ensure_ascii=False)[:500])
