#!/bin/sh
# resolve merge conflicts in the registry files by keeping both sides (they are line lists)
for f in coq/_CoqProject harness/src/main.rs known_findings.txt; do
  if grep -q '^<<<<<<<' "$f" 2>/dev/null; then
    sed -i -e '/^<<<<<<< /d' -e '/^=======$/d' -e '/^>>>>>>> /d' "$f"
    git add "$f"
  fi
done
