"""Per-property configuration of ./check, one JSON file per property under props.d/:
names of correspondence stages and sub-properties (the numbers the Coq side reports), the
non-triviality rule, the claim text for MANIFEST.json, extra trusted-base entries.
A file with "claim": "dev" is a development stage and is not listed in MANIFEST.json."""
import glob, json, os

ROOT = os.path.dirname(os.path.abspath(__file__))

COMMON_TRUSTED = [
    "Coq 8.16.1 kernel incl. the vm_compute reduction machine (no native_compute, no extraction)",
    "hand-written Gallina model under coq/theories, tied to /repo's current tree by differential execution on this run's cases only",
    "the Rust harness (generators, value printers, LSP client) and the python driver ./check",
]

PROPS = {}
for f in sorted(glob.glob(os.path.join(ROOT, "props.d", "*.json"))):
    PROPS[os.path.basename(f)[:-5]] = json.load(open(f))

# reasons for properties that are not claimed (MANIFEST.not_applicable)
NOT_CLAIMED = {}
_nc = os.path.join(ROOT, "not_claimed.json")
if os.path.exists(_nc):
    NOT_CLAIMED = json.load(open(_nc))
