"""Per-property configuration of ./check: names of correspondence stages and sub-properties
(the numbers the Coq side reports), the non-triviality rule, extra trusted-base entries."""

COMMON_TRUSTED = [
    "Coq 8.16.1 kernel incl. the vm_compute reduction machine (no native_compute, no extraction)",
    "hand-written Gallina model under coq/theories, tied to /repo's current tree by differential execution on this run's cases only",
    "the Rust harness (generators, value printers, LSP client) and the python driver ./check",
]

LIB_STAGES = {
    "1": "arena after import (every slot: kind, prev, next, child, line)", "2": "title cache (get_key_title)",
    "3": "collected tree per note (Graph::collect, with ids)", "4": "formatted text per note (Graph::to_markdown)",
    "5": "line -> node map (get_node_id_at for every line)", "6": "second formatting: update_key(formatted text) then to_markdown",
}

PROPS = {
    "C01": dict(level="proof", claim="dev", note="", stages=LIB_STAGES, props={}, rule="dev"),
    "C02": dict(level="proof", claim="dev", note="", stages=LIB_STAGES, props={}, rule="dev"),
    "C06": dict(level="proof", claim="dev", note="", stages=LIB_STAGES, props={}, rule="dev"),
    "C07": dict(level="proof", claim="dev", note="", stages=LIB_STAGES, props={}, rule="dev"),
    "NORM": dict(level="proof", claim="development stage", note="", stages=LIB_STAGES, props={"1":"fixpoint","2":"skeleton","3":"well nested","4":"identity"}, rule="dev"),
    "LIB": dict(level="proof", claim="development stage", note="", stages=LIB_STAGES, props={}, rule="dev"),
    "C15": dict(
        level="proof",
        claim="Theorem C15_roundtrip (Rocq, closed under the global context): for every key and every linking directory given as segment lists of any length and in any relation, from_rel_link_url (to_rel_link_url K D) D = K, about a model of liwe::model::Key and of the relative-path crate functions it calls; every run compares 14 model functions with the real Key API / crate on an exhaustive small scope plus random deep and hostile paths and evaluates the round-trip predicates on the implementation's own results. A theorem is the right level because the claim is an algebraic law over all path pairs.",
        note="Trusted: Coq kernel + vm_compute; the hand model of Key/relative-path is validated by differential execution, not verified; canonical-key hypothesis (segments non-empty, no `/`, not `.`/`..`, key not ending in `.md`). The rewrite law (sub-property 2) is checked on observations only until its theorem is added.",
        stages={
            "1": "Key::to_rel_link_url", "2": "from_rel(to_rel(K,D),D)", "3": "Key::from_rel_link_url",
            "4": "rewrite of a resolved url", "5": "Key::parent (keys)", "6": "Key::parent (arbitrary text)",
            "7": "Key::from_file_name", "8": "Key::to_path", "9": "is_ref_url",
            "10": "relative-path join", "11": "relative-path join_normalized", "12": "relative-path relative",
            "13": "relative-path normalize", "14": "link from a note's own directory",
        },
        props={
            "1": "the link written for K from D resolves, from D, back to K",
            "2": "resolving a url and re-writing it from the same directory names the same note",
            "3": "the link written from a note's own directory resolves to the note",
        },
        rule="exhaustive (key, directory) pairs over <= 3 segments of a 3-name alphabet (1 560) with rotating `.`/`..`/`.md` url forms, every url form against 3 directories, plus seeded random deeper / hostile paths; inputs are de-duplicated, non-trivial = canonical key and non-empty directory different from the key",
        trusted=["relative-path 1.9.3 is modelled from its source (components, relative_traversal, push/pop, join, join_normalized, relative, parent) and compared function by function on every run"],
        assumptions=["keys are canonical (`/`-joined non-empty segments other than `.`/`..`, not ending in `.md`), which is what Key::from_file_name / the fs loader produce"],
    ),
}
