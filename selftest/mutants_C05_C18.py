#!/usr/bin/env python3
import subprocess, sys, re, os, json
W='/root/work/index/repo'
V='/root/work/index/verif'
def sh(cmd, cwd=None, timeout=3600):
    p=subprocess.run(cmd, cwd=cwd, shell=True, stdout=subprocess.PIPE, stderr=subprocess.STDOUT, timeout=timeout)
    return p.returncode, p.stdout.decode('utf-8','replace')
MUT = {
 'm1_quote_next': ('C05','crates/liwe/src/graph/index.rs',
    '''                quote.next_id().map(|child_id| {
                    self.index_node(graph, child_id);
                });
''', ''),
 'm2_strong_refkeys': ('C05','crates/liwe/src/model/graph.rs',
    '''            GraphInline::Strong(strong) => {
                strong.iter().flat_map(|inline| inline.ref_keys()).collect()
            }''', '''            GraphInline::Strong(_) => vec![],'''),
 'm3_inline_getter_unfiltered': ('C05','crates/liwe/src/graph.rs',
    '''        self.index
            .get_inline_references_to(key)
            .iter()
            .filter(|id| !self.graph_node(**id).is_empty())
            .cloned()
            .collect()''', '''        self.index.get_inline_references_to(key)'''),
 'm4_search_ascending': ('C18','crates/liwe/src/database.rs',
    '''                    rank_b
                        .cmp(&rank_a)
                        .then_with''', '''                    rank_a
                        .cmp(&rank_b)
                        .then_with'''),
 'm5_take10': ('C18','crates/liwe/src/database.rs', '.take(100)', '.take(10)'),
 'm6_guard_not_released': ('C18','crates/liwe/src/graph/path.rs', '''    nodes.remove(&id);

''', ''),
 'm7_refs_in_lists_count': ('C18','crates/liwe/src/graph/path.rs',
    '''        .filter(|node| !graph.node(node.id()).is_in_list())
''', ''),
 'm8_leaf_not_indexed_after_rule': ('C05','crates/liwe/src/graph/index.rs',
    '''            GraphNode::HorizontalRule(horizontal_rule) => {
                horizontal_rule.next_id().map(|child_id| {
                    self.index_node(graph, child_id);
                });
            }''', '''            GraphNode::HorizontalRule(_) => {}'''),
 'm9_rank_block_only': ('C18','crates/liwe/src/model/rank.rs', 'return inline_refs_count + block_refs_count;', 'return block_refs_count;'),
}
MUT.update({
 'm10_root_filter_raw_index': ('C18','crates/liwe/src/graph/path.rs',
    """            graph
                .get_block_references_to(&graph.node_key(path.first_id()))""", """            graph
                .index
                .get_block_references_to(&graph.node_key(path.first_id()))"""),
 'm11_referrer_prev_not_parent': ('C18','crates/liwe/src/graph/path.rs',
    """.flat_map(|reference| reference.to_parent())""", """.flat_map(|reference| reference.to_prev())"""),
 'm12_root_flag': ('C18','crates/liwe/src/graph.rs', "root: path.ids().len() == 1,", "root: path.ids().len() <= 2,"),
 'm13_empty_query_no_length_tiebreak': ('C18','crates/liwe/src/database.rs',
    """                    path_b
                        .node_rank
                        .cmp(&path_a.node_rank)
                        .then_with(|| path_a.search_text.len().cmp(&path_b.search_text.len()))""", """                    path_b
                        .node_rank
                        .cmp(&path_a.node_rank)"""),
})
names = sys.argv[1:] or list(MUT)
for name in names:
    prop, f, old, new = MUT[name]
    sh('git checkout .', cwd=W)
    src = open(os.path.join(W,f)).read()
    if old not in src:
        print(name, 'PATTERN NOT FOUND'); continue
    open(os.path.join(W,f),'w').write(src.replace(old,new,1))
    rc,out = sh('CARGO_TARGET_DIR=/root/work/index/repo-target timeout 3000 cargo test --workspace --no-fail-fast --offline 2>&1', cwd=W)
    passed = sum(int(x) for x in re.findall(r'test result: \w+\. (\d+) passed', out))
    failed = sum(int(x) for x in re.findall(r'test result: \w+\. \d+ passed; (\d+) failed', out))
    comp = 'error' if re.search(r'^error', out, re.M) else ''
    print(name, 'suite: passed=%d failed=%d %s' % (passed, failed, comp), flush=True)
    if failed or comp:
        fails = re.findall(r'^test (\S+) \.\.\. FAILED', out, re.M)
        print('   suite catches it:', fails[:5]); continue
    rc,out = sh('./check %s' % prop, cwd=V)
    lines = [l for l in out.split('\n') if l.startswith('VIOLATION') or 'failing input' in l or 'failing sub' in l or 'first disagreeing' in l or l.startswith(prop+' quick')]
    print('   check exit=%d' % rc)
    for l in lines: print('   ', l[:600])
sh('git checkout .', cwd=W)
