#!/usr/bin/env python3
"""Writes MANIFEST.json from props.py (claimed properties) and the list of all properties."""
import json, os, sys
ROOT = os.path.dirname(os.path.abspath(__file__))
sys.path.insert(0, ROOT)
from props import PROPS
all_ids = [json.loads(l)["id"] for l in open(os.path.join(ROOT, "properties.jsonl"))]
NOT_YET = {}
try:
    from props import NOT_CLAIMED
    NOT_YET = NOT_CLAIMED
except ImportError:
    pass
checks = []
for pid in all_ids:
    if pid not in PROPS or PROPS[pid].get('claim') in ('dev', 'development stage'): continue
    c = PROPS[pid]
    checks.append(dict(
        property_id=pid,
        quick_cmd="./check %s --tier quick" % pid,
        thorough_cmd="./check %s --tier thorough" % pid,
        evidence_file="/verif/evidence/%s.json" % pid,
        replay_cmd_template="./check %s --replay {path}" % pid,
        engine="rocq-model+correspondence",
        level_claimed=dict(category=c.get("level", "proof"), text=c["claim"], design_ref=c.get("design_ref", "DESIGN.md section 7, " + pid)),
        level_note=c["note"],
        technique=c.get("technique", "machine-checked proof in Rocq (Coq 8.16) about a hand-written Gallina model, tied to the code by per-run differential execution (vm_compute inside coqc)"),
    ))
m = dict(
    version=1,
    setup_cmd="./setup.sh",
    hooks=dict(guard="--cfg iwe_verif", enable="RUSTFLAGS=\"--cfg iwe_verif\" (set in harness/.cargo/config.toml; the harness crate has path dependencies on /repo/crates/liwe and /repo/crates/iwes, so cargo rebuilds them from the current working tree)",
               baseline_off_cmd="cd /repo && cargo test --workspace --no-fail-fast --offline",
               source_commits=json.load(open(os.path.join(ROOT, "hooks.json")))["source_commits"] if os.path.exists(os.path.join(ROOT, "hooks.json")) else [],
               add_only=True),
    engines=[dict(name="rocq-model+correspondence", path="/verif/coq + /verif/harness + /verif/check",
                  serves_properties=[c["property_id"] for c in checks],
                  kind_free_text="Rocq (Coq 8.16.1) development: executable Gallina model of iwe + theorems per property; Rust harness runs the real code on generated inputs and writes observations as Gallina case files; coqc evaluates model and property predicates on them")],
    checks=checks,
    notes="See DESIGN.md. Known findings: known_findings.txt. Seeded changes used to test the checks: seeded/.",
    not_applicable=[dict(property_id=p, reason=NOT_YET.get(p, "not claimed yet: the model for this property is not built; nothing is asserted about it")) for p in all_ids if p not in [c['property_id'] for c in checks]],
)
json.dump(m, open(os.path.join(ROOT, "MANIFEST.json"), "w"), indent=1)
print("claimed:", [c["property_id"] for c in checks])
