#!/usr/bin/env python3
"""mkprops.py <Props file stem> "<imports>" "<header comment>" name[=Module.name] ...
Development aid: writes coq/theories/Props/<stem>.v with `Theorem n : <stmt>. Proof. exact M.n. Qed.
Check n : <stmt>. Print Assumptions n.` for each name, the statement being what Coq prints for it."""
import os, re, subprocess, sys
ROOT = os.path.dirname(os.path.abspath(__file__)); COQ = os.path.join(ROOT, "coq")
stem, imports, header = sys.argv[1:4]; names = sys.argv[4:]
header = header.replace("*)", "* )").replace("(*", "( *")
pre = "From Coq Require Import ZArith Permutation List.\nFrom IweV Require Import %s.\nLocal Open Scope string_scope.\nLocal Open Scope list_scope.\n" % imports
tmp = os.path.join(COQ, "_mkprops_tmp.v")
body = pre + "Set Printing Width 100.\n"
pairs = []
for n in names:
    new, _, old = n.partition("=")
    old = old or new
    pairs.append((new, old))
    body += 'Check %s.\n' % old
open(tmp, "w").write(body)
out = subprocess.run("coqc -Q theories IweV _mkprops_tmp.v", shell=True, cwd=COQ, stdout=subprocess.PIPE, stderr=subprocess.STDOUT).stdout.decode()
for f in ("_mkprops_tmp.v", "_mkprops_tmp.vo", "_mkprops_tmp.glob", "_mkprops_tmp.vok", "_mkprops_tmp.vos", "._mkprops_tmp.aux"):
    try: os.remove(os.path.join(COQ, f))
    except OSError: pass
chunks = re.split(r"^(?=\S+\s*\n?\s*:)", out, flags=re.M)
stm = {}
for c in chunks:
    m = re.match(r"(\S+)\s*:\s*(.*)", c, re.S)
    if m: stm[m.group(1)] = m.group(2).strip()
txt = "(* Props/%s.v - %s\n   Only statements, each closed by an `exact`, pinned by a `Check`, followed by `Print Assumptions`. *)\n" % (stem, header) + pre + "\n"
for new, old in pairs:
    key = old.split(".")[-1] if old not in stm else old
    if key not in stm:
        sys.exit("no statement for %s in:\n%s" % (old, out))
    s = stm[key]
    txt += "Theorem %s :\n  %s.\nProof. exact %s. Qed.\nCheck %s :\n  %s.\nPrint Assumptions %s.\n\n" % (new, s.replace("\n", "\n  "), old, new, s.replace("\n", "\n  "), new)
open(os.path.join(COQ, "theories", "Props", stem + ".v"), "w").write(txt)
print("wrote Props/%s.v with %d theorems" % (stem, len(pairs)))
