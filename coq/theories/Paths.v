(* Paths.v — outline paths and search:
     graph/path.rs:80-140        graph_to_paths, paths_for_node (cycle guard = set of the ids on
                                 the current recursion stack)
     model/node.rs:342-357,383-389,444-452   is_primary_section, to_parent, to_document, is_in_list
     graph.rs:74-98,556-565      search_paths (since the repair of F-SEARCHTIE the comparator goes on after
                                 rank and key: search text, line, texts of the chain), path_texts, render_search_text
     model/rank.rs:5-25          node_rank
     database.rs:43-77           global_search (fuzzy score = oracle, stable sort, take 100)
     iwes server.rs:222-233,649-688   workspace symbols: path_to_symbol / render_path
   [filt] selects the variant of the two index reads of path.rs: false = as found (raw
   RefIndex, tombstones included), true = R3 (Graph::get_block_references_to, /repo since
   81d1287).  No proofs in this file. *)
From Coq Require Import ZArith.
From IweV Require Import Str Text Ast RelPath Arena Project Library Index.
Local Open Scope string_scope.
Local Open Scope list_scope.

(* ---------- NodePointer navigation ------------------------------------------------------------- *)

(* NodePointer::to_parent: walk the prev links until the node whose child is where we came from *)
Fixpoint to_parent (fuel : nat) (a : arena) (id : nat) : res (option nat) :=
  match fuel with
  | O => Panic "out of fuel"
  | S f =>
      match get a id with
      | None => Panic "arena index out of bounds"
      | Some n =>
          match prev_of n with
          | None => Ok None
          | Some p =>
              match get a p with
              | None => Panic "arena index out of bounds"
              | Some pn =>
                  let child := match g_kind pn with
                               | KDocument _ | KSection _ | KQuote | KBList | KOList => g_child pn
                               | _ => None
                               end in
                  if onat_eqb child (Some id) then Ok (Some p) else to_parent f a p
              end
          end
      end
  end.

Definition nav_fuel (a : arena) : nat := S (length a).
Definition parent_of (a : arena) (id : nat) : res (option nat) := to_parent (nav_fuel a) a id.

Definition kind_at (a : arena) (id : nat) : res gkind :=
  match get a id with Some n => Ok (g_kind n) | None => Panic "arena index out of bounds" end.

Definition is_sectionk (k : gkind) : bool := match k with KSection _ => true | _ => false end.
Definition is_documentk (k : gkind) : bool := match k with KDocument _ => true | _ => false end.
Definition is_listk (k : gkind) : bool := match k with KBList | KOList => true | _ => false end.

(* NodePointer::is_in_list *)
Fixpoint is_in_list (fuel : nat) (a : arena) (id : nat) : res bool :=
  match fuel with
  | O => Panic "out of fuel"
  | S f =>
      do k <- kind_at a id;
      if is_listk k then Ok true
      else if is_documentk k then Ok false
      else do p <- parent_of a id;
           match p with Some p => is_in_list f a p | None => Ok false end
  end.

(* NodePointer::is_primary_section *)
Definition is_primary_section (a : arena) (id : nat) : res bool :=
  match get a id with
  | None => Panic "arena index out of bounds"
  | Some n =>
      if is_sectionk (g_kind n) then
        match prev_of n with
        | Some p => do k <- kind_at a p; Ok (is_documentk k)
        | None => Ok false
        end
      else Ok false
  end.

(* Graph::node_key (graph.rs:125-130): `expect("to have a prev_id")` *)
Fixpoint graph_node_key (fuel : nat) (a : arena) (id : nat) : res string :=
  match fuel with
  | O => Panic "out of fuel"
  | S f =>
      match get a id with
      | None => Panic "arena index out of bounds"
      | Some n =>
          match g_kind n with
          | KDocument k => Ok k
          | _ => match prev_of n with
                 | Some p => graph_node_key f a p
                 | None => Panic "to have a prev_id"
                 end
          end
      end
  end.

(* ---------- graph_to_paths ----------------------------------------------------------------------- *)

(* the block references to [k] as path.rs reads them *)
Definition path_refs (filt : bool) (s : gstate) (k : string) : res (list nat) :=
  if filt then block_refs_to s k else Ok (sort_ids (raw_block_refs (gs_index s) k)).

Definition concat_res {A} (l : list (res (list A))) : res (list A) :=
  fold_right (fun r acc => do x <- r; do y <- acc; Ok (x ++ y)) (Ok []) l.

Fixpoint paths_for_node (filt : bool) (fuel : nat) (s : gstate) (id : nat) (visited : list nat)
  : res (list (list nat)) :=
  match fuel with
  | O => Panic "out of fuel"
  | S f =>
      if mem id visited then Ok []
      else
        let a := gr_arena (gs_graph s) in
        let visited' := id :: visited in
        do k <- kind_at a id;
        match k with
        | KDocument key =>
            do refs <- path_refs filt s key;
            concat_res (map (fun r => do p <- parent_of a r;
                                      match p with
                                      | Some p => paths_for_node filt f s p visited'
                                      | None => Ok []
                                      end) refs)
        | KSection _ =>
            do p <- parent_of a id;
            do ps <- match p with
                     | Some p => paths_for_node filt f s p visited'
                     | None => Ok []
                     end;
            Ok (map (fun q => q ++ [id]) ps ++ [[id]])
        | _ => Ok []
        end
  end.

Definition paths_fuel (a : arena) : nat := S (S (length a)).

(* lexicographic order of Vec<NodeId> *)
Fixpoint path_cmp (p q : list nat) : comparison :=
  match p, q with
  | [], [] => Eq
  | [], _ => Lt
  | _, [] => Gt
  | x :: p', y :: q' => match Nat.compare x y with Eq => path_cmp p' q' | c => c end
  end.

Fixpoint insert_path (p : list nat) (l : list (list nat)) : list (list nat) :=
  match l with
  | [] => [p]
  | q :: r => match path_cmp p q with
              | Lt => p :: l
              | Eq => l                      (* sorted().dedup() *)
              | Gt => q :: insert_path p r
              end
  end.
Definition sort_paths (l : list (list nat)) : list (list nat) := fold_right insert_path [] l.

(* the filter on the first id of a path (path.rs:88-99); `&&` does not evaluate
   `to_parent().unwrap()` when the note has references *)
Definition root_ok (filt : bool) (s : gstate) (p : list nat) : res bool :=
  match p with
  | [] => Ok false
  | first :: _ =>
      let a := gr_arena (gs_graph s) in
      do key <- graph_node_key (nav_fuel a) a first;
      do refs <- path_refs filt s key;
      match refs with
      | _ :: _ => Ok false
      | [] => do par <- parent_of a first;
              match par with
              | None => Panic "unwrap on None"
              | Some d => do k <- kind_at a d; Ok (is_documentk k)
              end
      end
  end.

Definition filter_res {A} (f : A -> res bool) (l : list A) : res (list A) :=
  fold_right (fun x acc => do r <- acc; do b <- f x; Ok (if b then x :: r else r)) (Ok []) l.

Definition graph_to_paths (filt : bool) (s : gstate) : res (list (list nat)) :=
  let a := gr_arena (gs_graph s) in
  do starts <- filter_res (fun id => do k <- kind_at a id;
                                     if is_emptyk k then Ok false
                                     else do il <- is_in_list (nav_fuel a) a id; Ok (negb il))
                          (seq 0 (length a));
  do all <- concat_res (map (fun id => paths_for_node filt (paths_fuel a) s id []) starts);
  do kept <- filter_res (root_ok filt s) all;
  Ok (sort_paths kept).

(* ---------- search_paths ------------------------------------------------------------------------- *)

Record spath := SP {
  sp_text : string;      (* search_text *)
  sp_rank : nat;         (* node_rank *)
  sp_key : string;
  sp_root : bool;
  sp_line : nat;
  sp_ids : list nat
}.

(* GraphContext::get_text *)
Definition get_text (a : arena) (id : nat) : res string :=
  do k <- kind_at a id;
  Ok (match k with KSection l | KLeaf l => inlines_plain_text l | _ => "" end).

Definition texts_of (a : arena) (ids : list nat) : res (list string) :=
  fold_right (fun id acc => do r <- acc; do t <- get_text a id; Ok (trim t :: r)) (Ok []) ids.

(* render_search_text (graph.rs) and render_path (server.rs): the heading texts of the chain *)
Definition render_search_text (a : arena) (ids : list nat) : res string :=
  do ts <- texts_of a ids; Ok (join " " ts).
Definition render_path (a : arena) (ids : list nat) : res string :=
  do ts <- texts_of a ids; Ok (join " • " ts).

(* model/rank.rs node_rank *)
Definition node_rank (s : gstate) (id : nat) : res nat :=
  let a := gr_arena (gs_graph s) in
  do prim <- is_primary_section a id;
  if prim then
    do d <- to_document (nav_fuel a) a id;
    match d with
    | Some d => do k <- kind_at a d;
                match k with
                | KDocument key => do i <- inline_refs_to s key; do b <- block_refs_to s key;
                                   Ok (length i + length b)
                | _ => Ok 0
                end
    | None => Ok 0
    end
  else Ok 0.

Fixpoint last_id (p : list nat) : res nat :=
  match p with
  | [] => Panic "unwrap on None"
  | [x] => Ok x
  | _ :: r => last_id r
  end.

Definition str_leb (x y : string) : bool := match String.compare x y with Gt => false | _ => true end.

(* stable sort: an element goes before the first one it is not greater than *)
Section StableSort.
  Context {A : Type} (le : A -> A -> bool).
  Fixpoint insert_stable (x : A) (l : list A) : list A :=
    match l with
    | [] => [x]
    | y :: r => if le x y then x :: l else y :: insert_stable x r
    end.
  Definition stable_sort (l : list A) : list A := fold_right insert_stable [] l.
End StableSort.

(* Ordering::then_with *)
Definition then_with (c d : comparison) : comparison := match c with Eq => d | _ => c end.

(* Ord for Vec<String>: lexicographic, the elements by Ord for str *)
Fixpoint strs_cmp (l m : list string) : comparison :=
  match l, m with
  | [], [] => Eq
  | [], _ => Lt
  | _, [] => Gt
  | x :: l', y :: m' => then_with (String.compare x y) (strs_cmp l' m')
  end.

(* what the comparator of search_paths (graph.rs:87-96) reads of an entry: node_rank, key, search_text, line
   and the heading texts of the chain (path_texts, graph.rs:556-561) - nothing that depends on node ids *)
Definition sview := (nat * string * string * nat * list string)%type.

(* b.node_rank.cmp(&a.node_rank) .then_with(key) .then_with(search_text) .then_with(line) .then_with(path_texts):
   rank descending, then key, search text, line, texts of the chain ascending *)
Definition sv_cmp (x y : sview) : comparison :=
  let '(rx, kx, tx, lx, cx) := x in let '(ry, ky, ty, ly, cy) := y in
  then_with (Nat.compare ry rx)
    (then_with (String.compare kx ky)
       (then_with (String.compare tx ty)
          (then_with (Nat.compare lx ly) (strs_cmp cx cy)))).

(* the stable sort puts x before y unless the comparator answers Greater *)
Definition sv_le (x y : sview) : bool := match sv_cmp x y with Gt => false | _ => true end.

(* a search path together with the texts of its chain (the comparator reads them from the graph) *)
Definition sentry := (spath * list string)%type.
Definition sp_view (e : sentry) : sview :=
  (sp_rank (fst e), sp_key (fst e), sp_text (fst e), sp_line (fst e), snd e).
Definition sp_le (x y : sentry) : bool := sv_le (sp_view x) (sp_view y).

(* the `par_iter().map(..)` of search_paths: one entry per path, in path order *)
Definition sp_entries (s : gstate) (paths : list (list nat)) : res (list sentry) :=
  let a := gr_arena (gs_graph s) in
  fold_right (fun p acc =>
            do r <- acc;
            do ts <- texts_of a p;
            do target <- last_id p;
            do rk <- node_rank s target;
            do key <- graph_node_key (nav_fuel a) a target;
            Ok ((SP (join " " ts) rk key (Nat.eqb (length p) 1)
                    (match node_line_range s target with Some r => fst r | None => 0 end) p, ts) :: r))
          (Ok []) paths.

Definition search_paths_of (s : gstate) (paths : list (list nat)) : res (list spath) :=
  do l <- sp_entries s paths;
  Ok (map fst (stable_sort sp_le l)).

Definition search_paths (filt : bool) (s : gstate) : res (list spath) :=
  do ps <- graph_to_paths filt s; search_paths_of s ps.

(* ---------- global_search -------------------------------------------------------------------------- *)

(* the comparator of database.rs:57-69 on (path, fuzzy score) *)
Definition gs_le (query_empty : bool) (x y : spath * Z) : bool :=
  let '(px, sx) := x in let '(py, sy) := y in
  let lenx := String.length (sp_text px) in let leny := String.length (sp_text py) in
  if query_empty then
    if Nat.ltb (sp_rank py) (sp_rank px) then true
    else if Nat.ltb (sp_rank px) (sp_rank py) then false
    else Nat.leb lenx leny
  else
    if Z.ltb sy sx then true
    else if Z.ltb sx sy then false
    else if Nat.ltb lenx leny then true
    else if Nat.ltb leny lenx then false
    else Nat.leb (sp_rank py) (sp_rank px).

(* [scored]: Database.paths with the score SkimMatcherV2 gave each (oracle; 0 for no match) *)
Definition global_search (query_empty : bool) (scored : list (spath * Z)) : list spath :=
  firstn 100 (map fst (stable_sort (gs_le query_empty) scored)).

(* workspace symbols (server.rs:222-233): name = render_path, entries with an empty name dropped *)
Definition symbol_names (a : arena) (found : list spath) : res (list string) :=
  do names <- fold_right (fun p acc => do r <- acc; do n <- render_path a (sp_ids p); Ok (n :: r)) (Ok []) found;
  Ok (filter (fun n => negb (sempty n)) names).
