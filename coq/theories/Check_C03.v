(* Check_C03.v — no document can crash, hang or kill the server: what the harness observed when
   it ran every operation of the server on one text (outcome per operation group), the
   correspondence of the builder model's panic prediction, and the known-finding classifiers. *)
From IweV Require Export Check_Norm BuilderFacts.
Local Open Scope string_scope.
Local Open Scope list_scope.

Record c3case := C3 {
  c3_shape : string;                        (* generator shape tag *)
  c3_size : nat;
  c3_crlf : bool;                           (* the text has CR LF line endings *)
  c3_blocks : res (list dblock);            (* reader output (not dumped for the big inputs) *)
  c3_out : list (nat * option string)       (* operation group -> panic message, if any *)
}.

(* operation groups: 1 reader, 2 load (Server::new = import + paths), 3 format, 4 symbols,
   5 hints, 6 references, 7 definition, 8 prepare_rename, 9 completion, 10 code_action,
   11 code_action_resolve, 12 did_change, 13 requests after the edits *)
Definition group_panicked (c : c3case) (g : nat) : bool :=
  existsb (fun o => Nat.eqb (fst o) g && match snd o with Some _ => true | None => false end) (c3_out c).

Definition panicked_groups (c : c3case) : list N :=
  dedup_N (flat_map (fun o => match snd o with Some _ => [N.of_nat (fst o)] | None => [] end) (c3_out c)).

(* the model's prediction for the builder: does SectionsBuilder panic on these blocks? *)
Definition model_build_panics (bs : list dblock) : bool :=
  negb (is_ok (build_document [] "n" bs)).

(* (formerly classes 1 and 2, F-LEADPANIC and F-ITEMLEAD, repaired: a list item that starts with a
   code block, quote, table or rule, or with a list that further blocks follow, is built as a
   section without text over all its blocks; BuilderFacts.build_document_total has no hypothesis
   left, so a builder panic or a corrupted arena on such an input is a violation now) *)

(* (formerly class 3, F-EMPTYFIRST, repaired in d2c35b3: `DocumentBlock::line_range` of a list
   whose first item is empty no longer unwraps; Pos.line_range with [v_empty_item],
   PosFacts.link_at_total) *)

(* (formerly class 5, F-INLINEREF, repaired: inline actions are no longer offered on references that
   cannot be inlined) the note holds a block reference *)
Fixpoint has_block_ref (b : dblock) {struct b} : bool :=
  let fix go (l : list dblock) : bool := match l with [] => false | x :: r => has_block_ref x || go r end in
  let fix goi (l : list (list dblock)) : bool := match l with [] => false | x :: r => go x || goi r end in
  match b with
  | DPara _ l => para_is_ref l
  | DQuote _ bs => go bs
  | DOList its | DBList its => goi its
  | _ => false
  end.

Definition c3_classes (c : c3case) : list N :=
  match c3_blocks c with
  | Ok bs => flag 6 (negb (c3_crlf c))
  | Panic _ => flag 4 (negb (starts_with "long" (c3_shape c) || starts_with "deep" (c3_shape c) ||
                             starts_with "wide" (c3_shape c)))
  end.

Definition c3_corr (c : c3case) : list N :=
  match c3_blocks c with
  | Ok bs => if group_panicked c 1 then [] else flag 1 (Bool.eqb (model_build_panics bs) (group_panicked c 2))
  | Panic _ => []
  end.

(* which operation groups a class can explain: a failure in a group that no class of the input
   explains stays unclassified (and is reported) *)
Definition explains (cls g : N) : bool :=
  match cls with
  | 4 => true                            (* too large to dump: stack *)
  | 6 => N.eqb g 8                       (* key_range with shifted columns *)
  | _ => false
  end%N.

Definition c3_explained (c : c3case) : list N :=
  let cls := c3_classes c in
  let failing := panicked_groups c in
  if forallb (fun g => existsb (fun k => explains k g) cls) failing
  then filter (fun k => existsb (explains k) failing) cls
  else [].

Definition run_C03 (c : c3case) : verdict :=
  V (c3_corr c) (panicked_groups c) (c3_explained c) (Nat.ltb 20 (c3_size c)).
