(* RouterFacts.v — theorems about the router LTS of Router.v, for ALL message lists, ALL
   schedules (inductive reachability [steps], no bound) and ALL servers / handlers
   (Section variables = universally quantified parameters). *)
From IweV Require Import Str Arena Router.
From Coq Require Import Permutation.
Local Open Scope list_scope.

(* ---------- lists -------------------------------------------------------------------- *)

Lemma skipn_cons_inv {A} : forall (n : nat) (l : list A) m rest,
  skipn n l = m :: rest ->
  firstn (S n) l = firstn n l ++ [m] /\ skipn (S n) l = rest /\
  nth_error l n = Some m /\ length (firstn n l) = n.
Proof.
  induction n as [|n IH]; intros l m rest H.
  - destruct l as [|x l]; simpl in H; [discriminate|]. inversion H; subst. repeat split; reflexivity.
  - destruct l as [|x l]; [simpl in H; discriminate|].
    change (skipn (S n) (x :: l)) with (skipn n l) in H.
    destruct (IH l m rest H) as (H1 & H2 & H3 & H4).
    repeat split.
    + change (firstn (S (S n)) (x :: l)) with (x :: firstn (S n) l). rewrite H1. reflexivity.
    + exact H2.
    + exact H3.
    + simpl. rewrite H4. reflexivity.
Qed.

Lemma NoDup_snoc {A} : forall (l : list A) x, NoDup l -> ~ In x l -> NoDup (l ++ [x]).
Proof.
  induction l as [|y l IH]; intros x Hnd Hin; simpl.
  - constructor; [intros []|constructor].
  - inversion Hnd; subst. constructor.
    + intros H. apply in_app_or in H. destruct H as [H|[H|[]]]; [contradiction|]. subst. apply Hin. left. reflexivity.
    + apply IH; [assumption|]. intros H. apply Hin. right. assumption.
Qed.

Section Facts.
  Variable server : Type.
  Variable note : Type.
  Variable req : Type.
  Variable val : Type.
  Variable apply : server -> note -> server.
  Variable handler : server -> req -> res val.

  Notation State := (state server note req val).
  Notation Msg := (msg note req).
  Notation Worker := (worker req val).
  Notation Step := (@step server note req val apply handler).
  Notation Steps := (@steps server note req val apply handler).
  Notation Quiescent := (@quiescent server note req val apply handler).

  (* ---------- specification functions ---------------------------------------------- *)

  Lemma notes_of_app : forall a b : list Msg, notes_of (a ++ b) = notes_of a ++ notes_of b.
  Proof. induction a as [|m a IH]; intros b; simpl; [reflexivity|]. destruct m; simpl; rewrite IH; reflexivity. Qed.

  Lemma req_keys_app : forall (a b : list Msg) base,
    req_keys base (a ++ b) = req_keys base a ++ req_keys (base + length a) b.
  Proof.
    induction a as [|m a IH]; intros b base; simpl.
    - rewrite Nat.add_0_r. reflexivity.
    - destruct m; simpl; rewrite IH; rewrite Nat.add_succ_r; reflexivity.
  Qed.

  Lemma resp_keys_app : forall a b : list (out val), resp_keys (a ++ b) = resp_keys a ++ resp_keys b.
  Proof. intros. unfold resp_keys. apply flat_map_app. Qed.

  Lemma pending_keys_app : forall a b : list Worker, pending_keys (a ++ b) = pending_keys a ++ pending_keys b.
  Proof. intros. unfold pending_keys. apply flat_map_app. Qed.

  Lemma served_no_exit : forall l : list Msg, no_exit l -> served l = l.
  Proof.
    induction l as [|m l IH]; intros H; [reflexivity|].
    inversion H; subst. destruct m; simpl in *; try discriminate; rewrite IH; auto.
  Qed.

  Lemma served_app_exit : forall (pre post : list Msg), no_exit pre -> served (pre ++ MExit :: post) = pre ++ [MExit].
  Proof.
    induction pre as [|m l IH]; intros post H; [reflexivity|].
    inversion H; subst. destruct m; simpl in *; try discriminate; rewrite IH; auto.
  Qed.

  Lemma no_exit_app : forall (a b : list Msg), no_exit a -> no_exit b -> no_exit (a ++ b).
  Proof. intros. unfold no_exit. apply Forall_app. split; assumption. Qed.

  (* emit *)
  Lemma emit_pos : forall wv p (q : request req) (r : res (option val)) o, In o (emit wv p q r) -> out_pos o = p.
  Proof.
    intros wv p q r o H. unfold emit in H.
    destruct r as [[v|]|s]; [destruct (r_kind q); [|destruct wv|] | | destruct wv]; simpl in H;
      repeat (destruct H as [H|H]; [subst o; reflexivity|]); contradiction.
  Qed.

  Lemma resp_keys_emit_repaired : forall p (q : request req) (r : res (option val)),
    resp_keys (emit Repaired p q r) = [(p, r_id q)].
  Proof. intros. unfold emit. destruct r as [[v|]|s]; [destruct (r_kind q)| |]; reflexivity. Qed.

  Lemma emit_repaired_resp : forall p p' id b (q : request req) (r : res (option val)),
    In (Resp p id b) (emit Repaired p' q r) -> p = p' /\ id = r_id q /\ b = resp_body q r.
  Proof.
    intros p p' id b q r H. unfold emit, resp_body in *.
    destruct r as [[v|]|s]; [destruct (r_kind q)| |]; simpl in H;
      repeat (destruct H as [H|H]; [inversion H; subst; auto|]); try contradiction.
  Qed.

  (* split_w *)
  Lemma split_w_spec : forall p (l a b : list Worker) w,
    split_w p l = Some (a, w, b) -> l = a ++ w :: b /\ w_pos w = p.
  Proof.
    induction l as [|x l IH]; intros a b w H; simpl in H; [discriminate|].
    destruct (Nat.eqb (w_pos x) p) eqn:E.
    - inversion H; subst. apply Nat.eqb_eq in E. auto.
    - destruct (split_w p l) as [[[a' x'] b']|] eqn:E2; [|discriminate].
      inversion H; subst. destruct (IH _ _ _ eq_refl) as [-> Hp]. auto.
  Qed.

  Lemma split_w_head : forall (w : Worker) r, split_w (w_pos w) (w :: r) = Some ([], w, r).
  Proof. intros. simpl. rewrite Nat.eqb_refl. reflexivity. Qed.

  (* ---------- inversion of the step function ------------------------------------------ *)

  Lemma loop_take_inv : forall nv (s s' : State),
    loop_take apply nv s = Some s' ->
    stopped s = false /\ waiting s = None /\ exists m rest, inbox s = m :: rest /\
    ( (exists q, m = MReq q /\
         s' = St rest (S (taken s)) (srv s) None (live s ++ [Wk (taken s) q Spawned]) (S (arc s)) (outbox s) (dropped s) false)
      \/ (exists n, m = MNote n /\ arc s = 1 /\
         s' = St rest (S (taken s)) (apply (srv s) n) None (live s) (arc s) (outbox s) (dropped s) false)
      \/ (exists n, m = MNote n /\ arc s <> 1 /\ nv = Repaired /\
         s' = St rest (S (taken s)) (srv s) (Some n) (live s) (arc s) (outbox s) (dropped s) false)
      \/ (exists n, m = MNote n /\ arc s <> 1 /\ nv = AsFound /\
         s' = St rest (S (taken s)) (srv s) None (live s) (arc s) (outbox s) (taken s :: dropped s) false)
      \/ (m = MOther /\
         s' = St rest (S (taken s)) (srv s) None (live s) (arc s) (outbox s) (dropped s) false)
      \/ (m = MExit /\
         s' = St rest (S (taken s)) (srv s) None (live s) (arc s) (outbox s) (dropped s) true) ).
  Proof.
    intros nv s s' H. unfold loop_take in H.
    destruct (stopped s); [discriminate|].
    destruct (waiting s); [discriminate|].
    destruct (inbox s) as [|m rest]; [discriminate|].
    split; [reflexivity|]. split; [reflexivity|]. exists m, rest. split; [reflexivity|].
    destruct m as [q|n| |].
    - inversion H. left. eauto.
    - destruct (Nat.eqb (arc s) 1) eqn:E.
      + apply Nat.eqb_eq in E. inversion H. right. left. eauto.
      + apply Nat.eqb_neq in E. destruct nv; inversion H.
        * right. right. right. left. eauto.
        * right. right. left. eauto.
    - inversion H. right. right. right. right. left. auto.
    - inversion H. right. right. right. right. right. auto.
  Qed.

  Lemma loop_resume_inv : forall (s s' : State),
    loop_resume apply s = Some s' ->
    exists n, waiting s = Some n /\ arc s = 1 /\
      s' = St (inbox s) (taken s) (apply (srv s) n) None (live s) (arc s) (outbox s) (dropped s) (stopped s).
  Proof.
    intros s s' H. unfold loop_resume in H.
    destruct (waiting s) as [n|]; [|discriminate].
    destruct (Nat.eqb (arc s) 1) eqn:E; [|discriminate].
    apply Nat.eqb_eq in E. inversion H. eauto.
  Qed.

  Lemma wstep_inv : forall wv (s s' : State) p wl,
    wstep handler wv s p wl = Some s' ->
    exists a w b, live s = a ++ w :: b /\ w_pos w = p /\
    ( (wl = LStart /\ w_phase w = Spawned /\ s' = with_live s (a ++ set_phase w Started :: b))
      \/ (wl = LCompute /\ w_phase w = Started /\
          s' = with_live s (a ++ set_phase w (Computed (compute handler (srv s) (w_req w))) :: b))
      \/ (exists r, wl = LRespond /\ w_phase w = Computed r /\
          s' = St (inbox s) (taken s) (srv s) (waiting s) (a ++ set_phase w Responded :: b) (arc s)
                  (outbox s ++ emit wv (w_pos w) (w_req w) r) (dropped s) (stopped s))
      \/ (wl = LExit /\ w_phase w = Responded /\
          s' = St (inbox s) (taken s) (srv s) (waiting s) (a ++ b) (pred (arc s))
                  (outbox s) (dropped s) (stopped s)) ).
  Proof.
    intros wv s s' p wl H. unfold wstep in H.
    destruct (split_w p (live s)) as [[[a w] b]|] eqn:E; [|discriminate].
    apply split_w_spec in E. destruct E as [E1 E2].
    exists a, w, b. split; [assumption|]. split; [assumption|].
    destruct wl; destruct (w_phase w) eqn:P; try discriminate; inversion H.
    - left. auto.
    - right. left. auto.
    - right. right. left. eauto.
    - right. right. right. auto.
  Qed.

  Definition wlabel_of (l : label) : option (nat * wlabel) :=
    match l with
    | WStart p => Some (p, LStart) | WCompute p => Some (p, LCompute)
    | WRespond p => Some (p, LRespond) | WExit p => Some (p, LExit)
    | _ => None
    end.

  Lemma step_cases : forall nv wv (s s' : State) l,
    Step nv wv s l = Some s' ->
    (l = LoopTake /\ loop_take apply nv s = Some s')
    \/ (l = LoopResume /\ loop_resume apply s = Some s')
    \/ (exists p wl, wlabel_of l = Some (p, wl) /\ wstep handler wv s p wl = Some s').
  Proof.
    intros nv wv s s' l H. destruct l; simpl in H; auto; right; right; eexists _, _; split; simpl; eauto.
  Qed.

  (* ---------- the invariants ------------------------------------------------------------ *)

  Variable msgs : list Msg.
  Variable s0 : server.

  Definition served_inv (s : State) : Prop :=
    if stopped s
    then exists pre, firstn (taken s) msgs = pre ++ [MExit] /\ no_exit pre
    else no_exit (firstn (taken s) msgs).

  (* holds for every variant of both rules *)
  Definition InvB (s : State) : Prop :=
    inbox s = skipn (taken s) msgs
    /\ arc s = S (length (live s))
    /\ Forall (fun w : Worker => nth_error msgs (w_pos w) = Some (MReq (w_req w))) (live s)
    /\ served_inv s.

  Lemma InvB_init : InvB (init msgs s0).
  Proof. unfold InvB, served_inv, init; simpl. repeat split; auto. constructor. Qed.

  Lemma Forall_replace : forall (P : Worker -> Prop) a w w' b,
    Forall P (a ++ w :: b) -> (P w -> P w') -> Forall P (a ++ w' :: b).
  Proof.
    intros P a w w' b H Hw. apply Forall_app in H. destruct H as [Ha Hb].
    inversion Hb; subst. apply Forall_app. split; [assumption|]. constructor; auto.
  Qed.

  Lemma Forall_remove : forall (P : Worker -> Prop) a w b,
    Forall P (a ++ w :: b) -> Forall P (a ++ b).
  Proof.
    intros P a w b H. apply Forall_app in H. destruct H as [Ha Hb].
    inversion Hb; subst. apply Forall_app. split; assumption.
  Qed.

  Lemma length_replace : forall a (w w' : Worker) b, length (a ++ w' :: b) = length (a ++ w :: b).
  Proof. intros. rewrite !app_length. reflexivity. Qed.

  Lemma InvB_step : forall nv wv s l s', InvB s -> Step nv wv s l = Some s' -> InvB s'.
  Proof.
    intros nv wv s l s' (Hin & Harc & Hw & Hsv) H.
    apply step_cases in H. destruct H as [[_ H]|[[_ H]|(p & wl & _ & H)]].
    - (* LoopTake *)
      apply loop_take_inv in H. destruct H as (Hst & Hwt & m & rest & Hm & Hc).
      rewrite Hin in Hm. destruct (skipn_cons_inv _ _ _ _ Hm) as (F1 & F2 & F3 & F4).
      unfold served_inv in Hsv. rewrite Hst in Hsv.
      assert (Hne : is_exit m = false -> no_exit (firstn (S (taken s)) msgs)).
      { intros E. rewrite F1. apply no_exit_app; [assumption|]. constructor; [assumption|constructor]. }
      unfold InvB, served_inv.
      destruct Hc as [(q & -> & ->)|[(n & -> & Ha & ->)|[(n & -> & Ha & _ & ->)|[(n & -> & Ha & _ & ->)|[(-> & ->)|(-> & ->)]]]]];
        simpl; (split; [symmetry; exact F2|]); (split; [try assumption|]); try (split; [assumption|]); try (apply Hne; reflexivity).
      + rewrite app_length. simpl. rewrite Harc. rewrite Nat.add_1_r. reflexivity.
      + split.
        * apply Forall_app. split; [assumption|]. constructor; [|constructor]. simpl. exact F3.
        * apply Hne. reflexivity.
      + exists (firstn (taken s) msgs). split; assumption.
    - (* LoopResume *)
      apply loop_resume_inv in H. destruct H as (n & Hwt & Ha & ->).
      unfold InvB, served_inv in *. simpl. auto.
    - (* worker *)
      apply wstep_inv in H. destruct H as (a & w & b & Hl & Hp & Hc).
      unfold InvB, served_inv in *.
      destruct Hc as [(_ & _ & ->)|[(_ & _ & ->)|[(r & _ & _ & ->)|(_ & _ & ->)]]]; simpl;
        (split; [assumption|]).
      + rewrite length_replace with (w := w). rewrite <- Hl. split; [assumption|]. split; [|assumption].
        rewrite Hl in Hw. eapply Forall_replace; eauto.
      + rewrite length_replace with (w := w). rewrite <- Hl. split; [assumption|]. split; [|assumption].
        rewrite Hl in Hw. eapply Forall_replace; eauto.
      + rewrite length_replace with (w := w). rewrite <- Hl. split; [assumption|]. split; [|assumption].
        rewrite Hl in Hw. eapply Forall_replace; eauto.
      + rewrite Harc, Hl. rewrite !app_length. simpl. rewrite Nat.add_succ_r. split; [reflexivity|].
        split; [|assumption]. rewrite Hl in Hw. eapply Forall_remove; eauto.
  Qed.

  Lemma InvB_steps : forall nv wv s tr s', Steps nv wv s tr s' -> InvB s -> InvB s'.
  Proof. induction 1; intros; auto. apply IHsteps. eapply InvB_step; eauto. Qed.

  Lemma live_nil_of_arc : forall s : State, InvB s -> arc s = 1 -> live s = [].
  Proof.
    intros s (_ & Harc & _) H. rewrite H in Harc. destruct (live s); [reflexivity|simpl in Harc; discriminate].
  Qed.

  (* ---------- server invariant (repaired notification rule) ----------------------------- *)

  Definition eff_server (s : State) : server :=
    match waiting s with None => srv s | Some n => apply (srv s) n end.

  Definition justified (wv : variant) (o : out val) : Prop :=
    exists q, nth_error msgs (out_pos o) = Some (MReq q)
              /\ In o (emit wv (out_pos o) q (compute handler (server_at apply msgs s0 (out_pos o)) q)).

  Definition worker_ok (s : State) (w : Worker) : Prop :=
    server_at apply msgs s0 (w_pos w) = srv s
    /\ forall r, w_phase w = Computed r -> r = compute handler (srv s) (w_req w).

  Definition InvS (wv : variant) (s : State) : Prop :=
    eff_server s = server_at apply msgs s0 (taken s)
    /\ Forall (worker_ok s) (live s)
    /\ Forall (justified wv) (outbox s).

  Lemma InvS_init : forall wv, InvS wv (init msgs s0).
  Proof. intros. unfold InvS, eff_server, init, server_at; simpl. repeat split; constructor. Qed.

  Lemma server_at_S_note : forall t n,
    firstn (S t) msgs = firstn t msgs ++ [MNote n] ->
    server_at apply msgs s0 (S t) = apply (server_at apply msgs s0 t) n.
  Proof. intros t n H. unfold server_at. rewrite H, notes_of_app, fold_left_app. reflexivity. Qed.

  Lemma server_at_S_other : forall t m,
    firstn (S t) msgs = firstn t msgs ++ [m] -> notes_of [m] = [] ->
    server_at apply msgs s0 (S t) = server_at apply msgs s0 t.
  Proof. intros t m H Hm. unfold server_at. rewrite H, notes_of_app, Hm, app_nil_r. reflexivity. Qed.

  Lemma worker_ok_same_srv : forall (s s' : State) w, srv s' = srv s -> worker_ok s w -> worker_ok s' w.
  Proof. intros s s' w E [H1 H2]. unfold worker_ok. rewrite E. auto. Qed.

  Lemma InvS_step : forall wv s l s', InvB s -> InvS wv s -> Step Repaired wv s l = Some s' -> InvS wv s'.
  Proof.
    intros wv s l s' HB (Heff & Hw & Ho) H.
    pose proof HB as (Hin & Harc & Hnth & _).
    apply step_cases in H. destruct H as [[_ H]|[[_ H]|(p & wl & _ & H)]].
    - apply loop_take_inv in H. destruct H as (Hst & Hwt & m & rest & Hm & Hc).
      rewrite Hin in Hm. destruct (skipn_cons_inv _ _ _ _ Hm) as (F1 & F2 & F3 & F4).
      unfold eff_server in Heff. rewrite Hwt in Heff.
      unfold InvS, eff_server.
      destruct Hc as [(q & -> & ->)|[(n & -> & Ha & ->)|[(n & -> & Ha & _ & ->)|[(n & -> & Ha & Hnv & ->)|[(-> & ->)|(-> & ->)]]]]];
        simpl; try discriminate.
      + rewrite (server_at_S_other _ _ F1 eq_refl). split; [assumption|]. split; [|assumption].
        apply Forall_app. split.
        * eapply Forall_impl; [|exact Hw]. intros w0. apply worker_ok_same_srv. reflexivity.
        * constructor; [|constructor]. split; simpl; [symmetry; assumption|discriminate].
      + rewrite (server_at_S_note _ _ F1), <- Heff. split; [reflexivity|].
        rewrite (live_nil_of_arc _ HB Ha). split; [constructor|assumption].
      + rewrite (server_at_S_note _ _ F1), <- Heff. split; [reflexivity|]. split; [|assumption].
        eapply Forall_impl; [|exact Hw]. intros w0. apply worker_ok_same_srv. reflexivity.
      + rewrite (server_at_S_other _ _ F1 eq_refl). split; [assumption|]. split; [|assumption].
        eapply Forall_impl; [|exact Hw]. intros w0. apply worker_ok_same_srv. reflexivity.
      + rewrite (server_at_S_other _ _ F1 eq_refl). split; [assumption|]. split; [|assumption].
        eapply Forall_impl; [|exact Hw]. intros w0. apply worker_ok_same_srv. reflexivity.
    - apply loop_resume_inv in H. destruct H as (n & Hwt & Ha & ->).
      unfold InvS, eff_server in *. rewrite Hwt in Heff. simpl.
      split; [assumption|]. rewrite (live_nil_of_arc _ HB Ha). split; [constructor|assumption].
    - apply wstep_inv in H. destruct H as (a & w & b & Hl & Hp & Hc).
      rewrite Hl in Hw, Hnth.
      assert (Hww : worker_ok s w).
      { apply Forall_app in Hw. destruct Hw as [_ Hw]. inversion Hw; assumption. }
      assert (Hwn : nth_error msgs (w_pos w) = Some (MReq (w_req w))).
      { apply Forall_app in Hnth. destruct Hnth as [_ Hn]. inversion Hn; assumption. }
      unfold InvS, eff_server in *.
      destruct Hc as [(_ & Hph & ->)|[(_ & Hph & ->)|[(r & _ & Hph & ->)|(_ & Hph & ->)]]]; simpl.
      + split; [assumption|]. split; [|assumption].
        eapply Forall_replace; [exact Hw|]. intros [H1 H2]. split; [exact H1|]. simpl. discriminate.
      + split; [assumption|]. split; [|assumption].
        eapply Forall_replace; [exact Hw|]. intros [H1 H2]. split; [exact H1|]. simpl. intros r E. inversion E. reflexivity.
      + split; [assumption|]. split.
        * eapply Forall_replace; [exact Hw|]. intros [H1 H2]. split; [exact H1|]. simpl. discriminate.
        * apply Forall_app. split; [assumption|]. apply Forall_forall. intros o Hin'.
          destruct Hww as [H1 H2]. specialize (H2 _ Hph). subst r.
          pose proof (emit_pos _ _ _ _ _ Hin') as Hpos.
          exists (w_req w). rewrite Hpos. split; [assumption|]. rewrite H1. assumption.
      + split; [assumption|]. split; [|assumption]. eapply Forall_remove; eauto.
  Qed.

  Lemma InvS_steps : forall wv s tr s', Steps Repaired wv s tr s' -> InvB s -> InvS wv s -> InvS wv s'.
  Proof.
    induction 1; intros; auto. apply IHsteps.
    - eapply InvB_step; eauto.
    - eapply InvS_step; eauto.
  Qed.

  (* ---------- exactly-once invariant (repaired worker rule) ----------------------------- *)

  Definition InvP (s : State) : Prop :=
    Permutation (resp_keys (outbox s) ++ pending_keys (live s)) (req_keys 0 (firstn (taken s) msgs)).

  Lemma InvP_init : InvP (init msgs s0).
  Proof. unfold InvP, init. simpl. constructor. Qed.

  Lemma pending_keys_replace : forall a (w w' : Worker) b,
    w_pos w' = w_pos w -> w_req w' = w_req w ->
    w_phase w <> Responded -> w_phase w' <> Responded ->
    pending_keys (a ++ w' :: b) = pending_keys (a ++ w :: b).
  Proof.
    intros a w w' b E1 E2 N1 N2. rewrite !pending_keys_app. f_equal.
    unfold pending_keys. simpl. rewrite E1, E2.
    destruct (w_phase w); destruct (w_phase w'); try reflexivity; contradiction.
  Qed.

  Lemma InvP_step : forall nv s l s', InvB s -> InvP s -> Step nv Repaired s l = Some s' -> InvP s'.
  Proof.
    intros nv s l s' HB HP H.
    pose proof HB as (Hin & Harc & Hnth & _).
    apply step_cases in H. destruct H as [[_ H]|[[_ H]|(p & wl & _ & H)]].
    - apply loop_take_inv in H. destruct H as (Hst & Hwt & m & rest & Hm & Hc).
      rewrite Hin in Hm. destruct (skipn_cons_inv _ _ _ _ Hm) as (F1 & F2 & F3 & F4).
      unfold InvP in *.
      destruct Hc as [(q & -> & ->)|[(n & -> & Ha & ->)|[(n & -> & Ha & _ & ->)|[(n & -> & Ha & Hnv & ->)|[(-> & ->)|(-> & ->)]]]]];
        cbn [taken outbox live]; rewrite F1, req_keys_app; simpl; try (rewrite app_nil_r; assumption).
      rewrite F4, pending_keys_app. simpl. rewrite app_assoc. apply Permutation_app_tail. assumption.
    - apply loop_resume_inv in H. destruct H as (n & Hwt & Ha & ->). unfold InvP in *. simpl. assumption.
    - apply wstep_inv in H. destruct H as (a & w & b & Hl & Hp & Hc).
      unfold InvP in *. rewrite Hl in HP.
      destruct Hc as [(_ & Hph & ->)|[(_ & Hph & ->)|[(r & _ & Hph & ->)|(_ & Hph & ->)]]]; simpl.
      + rewrite pending_keys_replace with (w := w); auto; try (rewrite Hph; discriminate); simpl; discriminate.
      + rewrite pending_keys_replace with (w := w); auto; try (rewrite Hph; discriminate); simpl; discriminate.
      + rewrite resp_keys_app, resp_keys_emit_repaired.
        eapply Permutation_trans; [|exact HP].
        rewrite <- app_assoc. apply Permutation_app_head.
        rewrite !pending_keys_app. unfold pending_keys at 2 4. simpl. rewrite Hph. simpl.
        apply Permutation_middle.
      + eapply Permutation_trans; [|exact HP]. apply Permutation_app_head.
        rewrite !pending_keys_app. unfold pending_keys at 4. simpl. rewrite Hph. simpl. apply Permutation_refl.
  Qed.

  Lemma InvP_steps : forall nv s tr s', Steps nv Repaired s tr s' -> InvB s -> InvP s -> InvP s'.
  Proof.
    induction 1; intros; auto. apply IHsteps.
    - eapply InvB_step; eauto.
    - eapply InvP_step; eauto.
  Qed.

  (* ---------- quiescence, progress, termination ----------------------------------------- *)

  Lemma next_label_enabled : forall wv (s : State) w r,
    live s = w :: r -> exists s', Step Repaired wv s (next_label w) = Some s'.
  Proof.
    intros wv s w r Hl. unfold next_label.
    destruct (w_phase w) eqn:P; simpl; unfold wstep; rewrite Hl, split_w_head, P; eauto.
  Qed.

  Lemma next_label_enabled_any : forall nv wv (s : State) w r,
    live s = w :: r -> exists s', Step nv wv s (next_label w) = Some s'.
  Proof.
    intros nv wv s w r Hl. unfold next_label.
    destruct (w_phase w) eqn:P; simpl; unfold wstep; rewrite Hl, split_w_head, P; eauto.
  Qed.

  Lemma quiescent_inv : forall nv wv (s : State),
    InvB s -> Quiescent nv wv s ->
    live s = [] /\ waiting s = None /\ (stopped s = true \/ inbox s = []).
  Proof.
    intros nv wv s HB Q.
    assert (Hl : live s = []).
    { destruct (live s) as [|w r] eqn:E; [reflexivity|].
      destruct (next_label_enabled_any nv wv s w r E) as [s' Hs]. rewrite Q in Hs. discriminate. }
    pose proof HB as (_ & Harc & _). rewrite Hl in Harc. simpl in Harc.
    assert (Hw : waiting s = None).
    { destruct (waiting s) as [n|] eqn:E; [|reflexivity].
      specialize (Q LoopResume). simpl in Q. unfold loop_resume in Q. rewrite E, Harc in Q. simpl in Q. discriminate. }
    split; [assumption|]. split; [assumption|].
    destruct (stopped s) eqn:Es; [left; reflexivity|right].
    destruct (inbox s) as [|m rest] eqn:Ei; [reflexivity|].
    specialize (Q LoopTake). simpl in Q. unfold loop_take in Q. rewrite Es, Hw, Ei, Harc in Q.
    destruct m; simpl in Q; discriminate.
  Qed.

  Lemma quiescentb_sound : forall nv wv (s : State), quiescentb s = true -> Quiescent nv wv s.
  Proof.
    intros nv wv s H l. unfold quiescentb in H.
    destruct (live s) eqn:El; [|discriminate]. destruct (waiting s) eqn:Ew; [discriminate|].
    destruct l; simpl; unfold loop_take, loop_resume, wstep; rewrite ?El, ?Ew; simpl; try reflexivity.
    destruct (stopped s); [reflexivity|]. simpl in H. destruct (inbox s); [reflexivity|discriminate].
  Qed.

  Lemma quiescentb_complete : forall nv wv (s : State), InvB s -> Quiescent nv wv s -> quiescentb s = true.
  Proof.
    intros nv wv s HB Q. destruct (quiescent_inv _ _ _ HB Q) as (Hl & Hw & Hs).
    unfold quiescentb. rewrite Hl, Hw. destruct Hs as [->| ->]; [reflexivity|apply orb_true_r].
  Qed.

  (* progress: unless quiescent, some label is enabled; workers can always step, and the loop is
     blocked only while it waits with arc > 1 *)
  Lemma progress : forall nv wv (s : State), InvB s -> quiescentb s = false -> exists l s', Step nv wv s l = Some s'.
  Proof.
    intros nv wv s HB H.
    destruct (live s) as [|w r] eqn:El.
    - pose proof HB as (_ & Harc & _). rewrite El in Harc. simpl in Harc.
      unfold quiescentb in H. rewrite El in H.
      destruct (waiting s) as [n|] eqn:Ew.
      + exists LoopResume. simpl. unfold loop_resume. rewrite Ew, Harc. simpl. eauto.
      + destruct (stopped s) eqn:Es; [discriminate|]. simpl in H.
        destruct (inbox s) as [|m rest] eqn:Ei; [discriminate|].
        exists LoopTake. simpl. unfold loop_take. rewrite Es, Ew, Ei, Harc. destruct m; simpl; eauto.
    - exists (next_label w). eapply next_label_enabled_any; eauto.
  Qed.

  Definition phase_rank (ph : phase val) : nat :=
    match ph with Spawned => 4 | Started => 3 | Computed _ => 2 | Responded => 1 end.

  Fixpoint live_rank (l : list Worker) : nat :=
    match l with [] => 0 | w :: r => phase_rank (w_phase w) + live_rank r end.

  Definition measure (s : State) : nat :=
    5 * length (inbox s) + (match waiting s with Some _ => 1 | None => 0 end) + live_rank (live s).

  Lemma live_rank_app : forall a b, live_rank (a ++ b) = live_rank a + live_rank b.
  Proof. induction a; intros; simpl; [reflexivity|]. rewrite IHa. lia. Qed.

  Lemma measure_step : forall nv wv (s s' : State) l, Step nv wv s l = Some s' -> measure s' < measure s.
  Proof.
    intros nv wv s s' l H.
    apply step_cases in H. destruct H as [[_ H]|[[_ H]|(p & wl & _ & H)]].
    - apply loop_take_inv in H. destruct H as (Hst & Hwt & m & rest & Hm & Hc).
      unfold measure. rewrite Hm, Hwt.
      destruct Hc as [(q & -> & ->)|[(n & -> & Ha & ->)|[(n & -> & Ha & _ & ->)|[(n & -> & Ha & Hnv & ->)|[(-> & ->)|(-> & ->)]]]]];
        simpl; rewrite ?live_rank_app; simpl; lia.
    - apply loop_resume_inv in H. destruct H as (n & Hwt & Ha & ->). unfold measure. rewrite Hwt. simpl. lia.
    - apply wstep_inv in H. destruct H as (a & w & b & Hl & Hp & Hc).
      unfold measure. rewrite Hl.
      destruct Hc as [(_ & Hph & ->)|[(_ & Hph & ->)|[(r & _ & Hph & ->)|(_ & Hph & ->)]]];
        simpl; rewrite !live_rank_app; simpl; rewrite Hph; simpl; lia.
  Qed.

  Lemma steps_bounded : forall nv wv (s s' : State) tr, Steps nv wv s tr s' -> length tr + measure s' <= measure s.
  Proof.
    induction 1; simpl; [lia|]. apply measure_step in H. lia.
  Qed.

  (* every reachable state can be run to quiescence: no deadlock *)
  Lemma completion : forall nv wv n (s : State), measure s <= n -> InvB s ->
    exists tr s', Steps nv wv s tr s' /\ Quiescent nv wv s'.
  Proof.
    induction n as [|n IH]; intros s Hm HB.
    - destruct (quiescentb s) eqn:Q.
      + exists [], s. split; [constructor|]. apply quiescentb_sound; assumption.
      + destruct (progress nv wv s HB Q) as (l & s' & Hs). apply measure_step in Hs. lia.
    - destruct (quiescentb s) eqn:Q.
      + exists [], s. split; [constructor|]. apply quiescentb_sound; assumption.
      + destruct (progress nv wv s HB Q) as (l & s' & Hs).
        pose proof (measure_step _ _ _ _ _ Hs) as Hlt.
        destruct (IH s') as (tr & s'' & Hst & Hq); [lia|eapply InvB_step; eauto|].
        exists (l :: tr), s''. split; [econstructor; eauto|assumption].
  Qed.

  (* clones of the Arc are created by the loop only, when it takes a request *)
  Lemma only_loop_clones : forall nv wv (s s' : State) l,
    Step nv wv s l = Some s' -> arc s < arc s' ->
    l = LoopTake /\ exists q rest, inbox s = MReq q :: rest.
  Proof.
    intros nv wv s s' l H Hlt.
    pose proof H as H0.
    apply step_cases in H. destruct H as [[-> H]|[[_ H]|(p & wl & _ & H)]].
    - split; [reflexivity|].
      apply loop_take_inv in H. destruct H as (Hst & Hwt & m & rest & Hm & Hc).
      destruct Hc as [(q & -> & ->)|[(n & -> & Ha & ->)|[(n & -> & Ha & _ & ->)|[(n & -> & Ha & Hnv & ->)|[(-> & ->)|(-> & ->)]]]]];
        simpl in Hlt; try lia. eauto.
    - apply loop_resume_inv in H. destruct H as (n & Hwt & Ha & ->). simpl in Hlt. lia.
    - apply wstep_inv in H. destruct H as (a & w & b & Hl & Hp & Hc).
      destruct Hc as [(_ & Hph & ->)|[(_ & Hph & ->)|[(r & _ & Hph & ->)|(_ & Hph & ->)]]]; simpl in Hlt; lia.
  Qed.

  (* while the loop waits, the count cannot grow and the loop takes nothing *)
  Lemma waiting_blocks_loop : forall nv wv (s s' : State) l n,
    waiting s = Some n -> Step nv wv s l = Some s' -> l <> LoopTake /\ arc s' <= arc s.
  Proof.
    intros nv wv s s' l n Hw H. split.
    - intros ->. simpl in H. unfold loop_take in H. rewrite Hw in H. destruct (stopped s); discriminate.
    - destruct (Nat.le_gt_cases (arc s') (arc s)) as [|Hlt]; [assumption|].
      destruct (only_loop_clones _ _ _ _ _ H Hlt) as [-> _].
      simpl in H. unfold loop_take in H. rewrite Hw in H. destruct (stopped s); discriminate.
  Qed.

  (* a worker's computation — panicking or not — touches nothing but its own phase *)
  Lemma compute_step_frame : forall nv wv (s s' : State) p,
    Step nv wv s (WCompute p) = Some s' ->
    srv s' = srv s /\ arc s' = arc s /\ inbox s' = inbox s /\ waiting s' = waiting s
    /\ outbox s' = outbox s /\ stopped s' = stopped s /\ length (live s') = length (live s).
  Proof.
    intros nv wv s s' p H. simpl in H. apply wstep_inv in H. destruct H as (a & w & b & Hl & Hp & Hc).
    destruct Hc as [(E & _)|[(_ & Hph & ->)|[(r & E & _)|(E & _)]]]; try discriminate.
    simpl. rewrite Hl, !app_length. simpl. repeat split; reflexivity.
  Qed.

  (* ---------- end states --------------------------------------------------------------- *)

  Lemma quiescent_taken : forall nv wv (s : State),
    InvB s -> Quiescent nv wv s -> firstn (taken s) msgs = served msgs.
  Proof.
    intros nv wv s HB Q. destruct (quiescent_inv _ _ _ HB Q) as (Hl & Hw & Hs).
    destruct HB as (Hin & _ & _ & Hsv). unfold served_inv in Hsv.
    destruct (stopped s) eqn:Es.
    - destruct Hsv as (pre & Hpre & Hne).
      rewrite <- (firstn_skipn (taken s) msgs) at 2. rewrite Hpre, <- app_assoc. simpl.
      symmetry. apply served_app_exit. assumption.
    - destruct Hs as [Hs|Hs]; [discriminate|].
      rewrite Hs in Hin. pose proof (firstn_skipn (taken s) msgs) as F. rewrite <- Hin, app_nil_r in F.
      rewrite F in *. symmetry. apply served_no_exit. assumption.
  Qed.

  (* C11 *)
  Theorem no_loss : forall wv tr (s : State),
    Steps Repaired wv (init msgs s0) tr s -> Quiescent Repaired wv s ->
    srv s = fold_left apply (notes_of (served msgs)) s0.
  Proof.
    intros wv tr s Hst Q.
    pose proof (InvB_steps _ _ _ _ _ Hst InvB_init) as HB.
    pose proof (InvS_steps _ _ _ _ Hst InvB_init (InvS_init wv)) as (Heff & _ & _).
    destruct (quiescent_inv _ _ _ HB Q) as (_ & Hw & _).
    unfold eff_server in Heff. rewrite Hw in Heff. rewrite Heff. unfold server_at.
    rewrite (quiescent_taken _ _ _ HB Q). reflexivity.
  Qed.

  Theorem read_your_writes : forall wv tr (s : State) o,
    Steps Repaired wv (init msgs s0) tr s -> In o (outbox s) ->
    exists q, nth_error msgs (out_pos o) = Some (MReq q)
              /\ In o (emit wv (out_pos o) q (compute handler (server_at apply msgs s0 (out_pos o)) q)).
  Proof.
    intros wv tr s o Hst Hin.
    pose proof (InvS_steps _ _ _ _ Hst InvB_init (InvS_init wv)) as (_ & _ & Ho).
    rewrite Forall_forall in Ho. exact (Ho _ Hin).
  Qed.

  (* a worker that has computed (but perhaps not yet answered) also computed from that state *)
  Theorem computed_from_prefix : forall wv tr (s : State) w r,
    Steps Repaired wv (init msgs s0) tr s -> In w (live s) -> w_phase w = Computed r ->
    nth_error msgs (w_pos w) = Some (MReq (w_req w))
    /\ r = compute handler (server_at apply msgs s0 (w_pos w)) (w_req w).
  Proof.
    intros wv tr s w r Hst Hin Hph.
    pose proof (InvB_steps _ _ _ _ _ Hst InvB_init) as (_ & _ & Hn & _).
    pose proof (InvS_steps _ _ _ _ Hst InvB_init (InvS_init wv)) as (_ & Hw & _).
    rewrite Forall_forall in Hn, Hw. split; [exact (Hn _ Hin)|].
    destruct (Hw _ Hin) as [H1 H2]. rewrite H1. exact (H2 _ Hph).
  Qed.

  Theorem arc_invariant : forall nv wv tr (s : State),
    Steps nv wv (init msgs s0) tr s -> arc s = 1 + length (live s).
  Proof. intros nv wv tr s Hst. pose proof (InvB_steps _ _ _ _ _ Hst InvB_init) as (_ & H & _). exact H. Qed.

  Theorem server_invariant : forall wv tr (s : State),
    Steps Repaired wv (init msgs s0) tr s ->
    match waiting s with None => srv s | Some n => apply (srv s) n end
    = fold_left apply (notes_of (firstn (taken s) msgs)) s0.
  Proof.
    intros wv tr s Hst.
    pose proof (InvS_steps _ _ _ _ Hst InvB_init (InvS_init wv)) as (Heff & _ & _). exact Heff.
  Qed.

  (* positions of live workers are distinct (they are inbox positions) *)
  Definition InvD (s : State) : Prop :=
    Forall (fun w : Worker => w_pos w < taken s) (live s) /\ NoDup (map (@w_pos req val) (live s)).

  Lemma InvD_init : InvD (init msgs s0).
  Proof. unfold InvD, init. simpl. split; constructor. Qed.

  Lemma InvD_step : forall nv wv s l s', InvD s -> Step nv wv s l = Some s' -> InvD s'.
  Proof.
    intros nv wv s l s' (Hlt & Hnd) H.
    apply step_cases in H. destruct H as [[_ H]|[[_ H]|(p & wl & _ & H)]].
    - apply loop_take_inv in H. destruct H as (Hst & Hwt & m & rest & Hm & Hc).
      assert (Hlt' : Forall (fun w : Worker => w_pos w < S (taken s)) (live s)).
      { eapply Forall_impl; [|exact Hlt]. simpl. intros. lia. }
      unfold InvD.
      destruct Hc as [(q & -> & ->)|[(n & -> & Ha & ->)|[(n & -> & Ha & _ & ->)|[(n & -> & Ha & Hnv & ->)|[(-> & ->)|(-> & ->)]]]]];
        simpl; try (split; assumption).
      split.
      + apply Forall_app. split; [assumption|]. constructor; [simpl; lia|constructor].
      + rewrite map_app. simpl. apply NoDup_snoc; [assumption|].
        intros Hin. apply in_map_iff in Hin. destruct Hin as (w & E & Hin).
        rewrite Forall_forall in Hlt. specialize (Hlt _ Hin). lia.
    - apply loop_resume_inv in H. destruct H as (n & Hwt & Ha & ->). unfold InvD in *. simpl. auto.
    - apply wstep_inv in H. destruct H as (a & w & b & Hl & Hp & Hc).
      unfold InvD in *. rewrite Hl in Hlt, Hnd.
      destruct Hc as [(_ & _ & ->)|[(_ & _ & ->)|[(r & _ & _ & ->)|(_ & _ & ->)]]]; simpl.
      + split; [eapply Forall_replace; eauto|]. rewrite map_app in *. simpl in *. assumption.
      + split; [eapply Forall_replace; eauto|]. rewrite map_app in *. simpl in *. assumption.
      + split; [eapply Forall_replace; eauto|]. rewrite map_app in *. simpl in *. assumption.
      + split; [eapply Forall_remove; eauto|]. rewrite map_app in *. simpl in Hnd.
        eapply NoDup_remove_1; eauto.
  Qed.

  Lemma InvD_steps : forall nv wv s tr s', Steps nv wv s tr s' -> InvD s -> InvD s'.
  Proof. induction 1; intros; auto. apply IHsteps. eapply InvD_step; eauto. Qed.

  Lemma split_w_unique : forall a (w : Worker) b,
    NoDup (map (@w_pos req val) (a ++ w :: b)) -> split_w (w_pos w) (a ++ w :: b) = Some (a, w, b).
  Proof.
    induction a as [|x a IH]; intros w b Hnd.
    - apply split_w_head.
    - simpl in Hnd. inversion Hnd; subst. simpl.
      destruct (Nat.eqb (w_pos x) (w_pos w)) eqn:E.
      + apply Nat.eqb_eq in E. exfalso. apply H1. rewrite E. rewrite map_app. apply in_or_app. right. left. reflexivity.
      + rewrite (IH _ _ H2). reflexivity.
  Qed.

  Lemma live_worker_enabled : forall nv wv (s : State) w,
    InvD s -> In w (live s) -> exists s', Step nv wv s (next_label w) = Some s'.
  Proof.
    intros nv wv s w (_ & Hnd) Hin. apply in_split in Hin. destruct Hin as (a & b & Hl).
    rewrite Hl in Hnd. pose proof (split_w_unique _ _ _ Hnd) as Hs.
    unfold next_label. destruct (w_phase w) eqn:P; simpl; unfold wstep; rewrite Hl, Hs, P; eauto.
  Qed.

  Theorem no_deadlock : forall nv wv tr (s : State),
    Steps nv wv (init msgs s0) tr s ->
    (* some step is enabled unless quiescent *)
    (quiescentb s = false -> exists l s', Step nv wv s l = Some s')
    (* every live worker can step *)
    /\ (forall w, In w (live s) -> exists s', Step nv wv s (next_label w) = Some s')
    (* the loop is blocked only while it waits for arc = 1, with arc > 1 *)
    /\ (stopped s = false -> inbox s <> [] -> Step nv wv s LoopTake = None -> exists n, waiting s = Some n)
    /\ (forall n, waiting s = Some n -> Step nv wv s LoopResume = None -> 1 < arc s /\ live s <> [])
    (* it can always be run to quiescence, and no run from here is longer than [measure s] *)
    /\ (exists tr' s', Steps nv wv s tr' s' /\ Quiescent nv wv s')
    /\ (forall tr' s', Steps nv wv s tr' s' -> length tr' <= measure s).
  Proof.
    intros nv wv tr s Hst.
    pose proof (InvB_steps _ _ _ _ _ Hst InvB_init) as HB.
    pose proof (InvD_steps _ _ _ _ _ Hst InvD_init) as HD.
    split; [intros; apply progress; assumption|].
    split; [intros; apply live_worker_enabled; assumption|].
    split.
    { intros Hs Hi H. simpl in H. unfold loop_take in H. rewrite Hs in H.
      destruct (waiting s) as [n|]; [eauto|]. exfalso.
      destruct (inbox s) as [|m rest]; [contradiction|].
      destruct m; try discriminate. destruct (Nat.eqb (arc s) 1); [discriminate|]. destruct nv; discriminate. }
    split.
    { intros n Hw H. simpl in H. unfold loop_resume in H. rewrite Hw in H.
      destruct (Nat.eqb (arc s) 1) eqn:E; [discriminate|]. apply Nat.eqb_neq in E.
      destruct HB as (_ & Harc & _). destruct (live s); simpl in Harc; [contradiction|]. split; [lia|discriminate]. }
    split; [eapply completion; eauto|].
    intros tr' s' H. apply steps_bounded in H. lia.
  Qed.

  (* C12 *)
  Theorem exactly_once : forall nv tr (s : State),
    Steps nv Repaired (init msgs s0) tr s -> Quiescent nv Repaired s ->
    Permutation (resp_keys (outbox s)) (req_keys 0 (served msgs)).
  Proof.
    intros nv tr s Hst Q.
    pose proof (InvB_steps _ _ _ _ _ Hst InvB_init) as HB.
    pose proof (InvP_steps _ _ _ _ Hst InvB_init InvP_init) as HP.
    destruct (quiescent_inv _ _ _ HB Q) as (Hl & _ & _).
    unfold InvP in HP. rewrite Hl in HP. simpl in HP. rewrite app_nil_r in HP.
    rewrite (quiescent_taken _ _ _ HB Q) in HP. exact HP.
  Qed.

  (* before quiescence: nothing is answered twice, nothing is answered that was not asked *)
  Theorem at_most_once : forall nv tr (s : State),
    Steps nv Repaired (init msgs s0) tr s ->
    Permutation (resp_keys (outbox s) ++ pending_keys (live s)) (req_keys 0 (firstn (taken s) msgs)).
  Proof. intros nv tr s Hst. exact (InvP_steps _ _ _ _ Hst InvB_init InvP_init). Qed.

  Theorem shutdown_and_exit : forall nv wv tr (s : State),
    Steps nv wv (init msgs s0) tr s ->
    (* once `exit` has been taken the loop takes nothing more *)
    (stopped s = true -> Step nv wv s LoopTake = None)
    (* at quiescence the loop has returned iff an `exit` was sent, and what follows the first
       `exit` is still in the inbox, untouched *)
    /\ (Quiescent nv wv s ->
        (stopped s = true <-> exists m, In m msgs /\ is_exit m = true)
        /\ inbox s = skipn (length (served msgs)) msgs).
  Proof.
    intros nv wv tr s Hst.
    pose proof (InvB_steps _ _ _ _ _ Hst InvB_init) as HB.
    split.
    { intros H. simpl. unfold loop_take. rewrite H. reflexivity. }
    intros Q. pose proof (quiescent_taken _ _ _ HB Q) as HT.
    destruct (quiescent_inv _ _ _ HB Q) as (_ & _ & Hs).
    destruct HB as (Hin & _ & _ & Hsv). unfold served_inv in Hsv.
    split.
    - split.
      + intros E. rewrite E in Hsv. destruct Hsv as (pre & Hpre & _).
        exists MExit. split; [|reflexivity].
        rewrite <- (firstn_skipn (taken s) msgs), Hpre. apply in_or_app. left. apply in_or_app. right. left. reflexivity.
      + intros (m & Hm & Hex). destruct (stopped s) eqn:Es; [reflexivity|].
        destruct Hs as [Hs|Hs]; [discriminate|]. exfalso.
        rewrite Hs in Hin. pose proof (firstn_skipn (taken s) msgs) as F. rewrite <- Hin, app_nil_r in F.
        rewrite F in Hsv. unfold no_exit in Hsv. rewrite Forall_forall in Hsv. rewrite (Hsv _ Hm) in Hex. discriminate.
    - rewrite Hin. f_equal. rewrite <- HT.
      destruct (Nat.le_gt_cases (taken s) (length msgs)) as [Hle|Hgt].
      + rewrite firstn_length_le; auto.
      + (* taken never exceeds the length: inbox = skipn taken msgs with taken > length is [] and taken counts takes *)
        rewrite firstn_length. rewrite Nat.min_r; [|lia].
        (* both skipn are [] *)
        exfalso. clear - Hst Hgt. 
        assert (G : forall tr (s1 s2 : State), Steps nv wv s1 tr s2 -> taken s1 + length (inbox s1) = length msgs -> taken s2 + length (inbox s2) = length msgs).
        { induction 1; intros; auto. apply IHsteps.
          apply step_cases in H. destruct H as [[_ H]|[[_ H]|(p & wl & _ & H)]].
          - apply loop_take_inv in H. destruct H as (_ & _ & m & rest & Hm & Hc). rewrite Hm in H1. simpl in H1.
            destruct Hc as [(q & -> & ->)|[(n & -> & Ha & ->)|[(n & -> & Ha & _ & ->)|[(n & -> & Ha & Hnv & ->)|[(-> & ->)|(-> & ->)]]]]]; simpl; lia.
          - apply loop_resume_inv in H. destruct H as (n & _ & _ & ->). simpl. assumption.
          - apply wstep_inv in H. destruct H as (a & w & b & _ & _ & Hc).
            destruct Hc as [(_ & _ & ->)|[(_ & _ & ->)|[(r & _ & _ & ->)|(_ & _ & ->)]]]; simpl; assumption. }
        specialize (G _ _ _ Hst eq_refl). lia.
  Qed.
  Lemma run_steps : forall nv wv tr (s s' : State), run apply handler nv wv s tr = Some s' <-> Steps nv wv s tr s'.
  Proof.
    induction tr as [|l tr IH]; intros s s'; simpl; split; intros H.
    - inversion H. constructor.
    - inversion H. reflexivity.
    - destruct (Step nv wv s l) as [s1|] eqn:E; [|discriminate]. econstructor; [exact E|]. apply IH. assumption.
    - inversion H; subst. rewrite H3. apply IH. assumption.
  Qed.
End Facts.

Arguments measure {server note req val} s.

(* ---------- statements in the form the property files pin -------------------------------- *)

Lemma response_body :
  forall (server note req val : Type) (apply : server -> note -> server)
         (handler : server -> req -> res val) (msgs : list (msg note req)) (s0 : server)
         (tr : list label) (s : state server note req val) (p : nat) (id : N) (b : body val),
    steps apply handler Repaired Repaired (init msgs s0) tr s ->
    In (Resp p id b) (outbox s) ->
    exists q, nth_error msgs p = Some (MReq q) /\ id = r_id q
              /\ b = resp_body q (compute handler (server_at apply msgs s0 p) q).
Proof.
  intros until b. intros Hst Hin.
  destruct (read_your_writes _ _ _ _ _ _ _ _ _ _ _ _ Hst Hin) as (q & Hn & He). simpl in *.
  exists q. split; [assumption|]. apply emit_repaired_resp in He. tauto.
Qed.

Lemma loop_clones :
  forall (server note req val : Type) (apply : server -> note -> server)
         (handler : server -> req -> res val) (nv wv : variant)
         (s s' : state server note req val) (l : label),
    step apply handler nv wv s l = Some s' ->
    (arc s < arc s' -> l = LoopTake /\ exists q rest, inbox s = MReq q :: rest)
    /\ (forall n, waiting s = Some n -> l <> LoopTake /\ arc s' <= arc s).
Proof.
  intros. split; [eapply only_loop_clones; eassumption|intros; eapply waiting_blocks_loop; eassumption].
Qed.

(* ---------- a concrete server: key -> text, last writer wins ------------------------------ *)

Definition kv_server := string -> option string.
Definition kv_apply (sv : kv_server) (n : string * string) : kv_server :=
  fun k => if String.eqb (fst n) k then Some (snd n) else sv k.

Fixpoint last_write (k : string) (notes : list (string * string)) : option string :=
  match notes with
  | [] => None
  | n :: r =>
      match last_write k r with
      | Some t => Some t
      | None => if String.eqb (fst n) k then Some (snd n) else None
      end
  end.

Lemma kv_fold_last_write : forall notes sv k,
  fold_left kv_apply notes sv k = match last_write k notes with Some t => Some t | None => sv k end.
Proof.
  induction notes as [|n r IH]; intros sv k; simpl; [reflexivity|].
  rewrite IH. destruct (last_write k r); [reflexivity|]. unfold kv_apply. destruct (String.eqb (fst n) k); reflexivity.
Qed.

(* once the server is idle every note equals the last text sent for it *)
Theorem last_text_wins : forall (req val : Type) (handler : kv_server -> req -> res val)
    (msgs : list (msg (string * string) req)) (s0 : kv_server) wv tr s k,
  steps kv_apply handler Repaired wv (init msgs s0) tr s ->
  quiescent kv_apply handler Repaired wv s ->
  srv s k = match last_write k (notes_of (served msgs)) with Some t => Some t | None => s0 k end.
Proof.
  intros. erewrite no_loss by eauto. apply kv_fold_last_write.
Qed.

(* ---------- the rules as found: concrete counterexamples --------------------------------- *)

Definition ex_apply (sv n : nat) : nat := n.
Definition ex_handler (sv r : nat) : res nat := if Nat.eqb r 0 then Panic "handler panics" else Ok sv.

(* a request is still alive when the edit arrives: get_mut fails, the edit is dropped *)
Definition ex11_msgs : list (msg nat nat) := [MReq (Rq 1%N (KPlain 1)); MNote 7].
Definition ex11_sched : list label := [LoopTake; LoopTake; WStart 0; WCompute 0; WRespond 0; WExit 0].

Theorem as_found_loses_edit :
  exists s, steps ex_apply ex_handler AsFound Repaired (init ex11_msgs 0) ex11_sched s
            /\ quiescent ex_apply ex_handler AsFound Repaired s
            /\ srv s = 0 /\ fold_left ex_apply (notes_of (served ex11_msgs)) 0 = 7 /\ dropped s = [1].
Proof.
  destruct (run ex_apply ex_handler AsFound Repaired (init ex11_msgs 0) ex11_sched) as [s|] eqn:E; [|vm_compute in E; discriminate].
  exists s. split; [apply run_steps; exact E|].
  vm_compute in E. inversion E; subst. split; [apply quiescentb_sound; reflexivity|]. repeat split.
Qed.

(* the same schedule prefix under the repaired rule: the loop waits and the edit lands *)
Example repaired_keeps_edit :
  exists s, steps ex_apply ex_handler Repaired Repaired (init ex11_msgs 0)
              [LoopTake; LoopTake; WStart 0; WCompute 0; WRespond 0; WExit 0; LoopResume] s
            /\ srv s = 7 /\ outbox s = [Resp 0 1%N (BResult 0)].
Proof.
  eexists. split; [apply run_steps; vm_compute; reflexivity|]. split; reflexivity.
Qed.

(* a handler panic loses the response; executeCommand never answers its id *)
Definition ex12_msgs : list (msg nat nat) := [MReq (Rq 1%N (KPlain 0)); MReq (Rq 2%N (KCmd 1)); MReq (Rq 3%N (KPlain 1))].
Definition ex12_sched : list label :=
  [LoopTake; WStart 0; WCompute 0; WRespond 0; WExit 0;
   LoopTake; WStart 1; WCompute 1; WRespond 1; WExit 1;
   LoopTake; WStart 2; WCompute 2; WRespond 2; WExit 2].

Theorem as_found_loses_response :
  exists s, steps ex_apply ex_handler Repaired AsFound (init ex12_msgs 0) ex12_sched s
            /\ quiescent ex_apply ex_handler Repaired AsFound s
            /\ resp_keys (outbox s) = [(2, 3%N)]
            /\ req_keys 0 (served ex12_msgs) = [(0, 1%N); (1, 2%N); (2, 3%N)].
Proof.
  destruct (run ex_apply ex_handler Repaired AsFound (init ex12_msgs 0) ex12_sched) as [s|] eqn:E; [|vm_compute in E; discriminate].
  exists s. split; [apply run_steps; exact E|].
  vm_compute in E. inversion E; subst. split; [apply quiescentb_sound; reflexivity|]. split; reflexivity.
Qed.

Example repaired_answers_all :
  exists s, steps ex_apply ex_handler Repaired Repaired (init ex12_msgs 0) ex12_sched s
            /\ outbox s = [Resp 0 1%N BError; ApplyEdit 1 0; Resp 1 2%N BNull; Resp 2 3%N (BResult 0)].
Proof.
  eexists. split; [apply run_steps; vm_compute; reflexivity|]. reflexivity.
Qed.
