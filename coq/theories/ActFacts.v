(* ActFacts.v — facts that speak about the written text (Project.tree_to_markdown) and about the
   action providers (Actions.v): the refutations with concrete witnesses, the oracle statement
   for fresh keys, and the lifting of content conservation to the projected blocks. *)
From IweV Require Import RelPathFacts Check_Norm NormFacts TreeOps Actions TreeOpsFacts Check_Act Check_C10.
Local Open Scope string_scope.
Local Open Scope list_scope.

Definition md (t : tree) : string := tree_to_markdown (Opts "") [] "" t.

Definition leaf (i : nat) (s : string) : tree := T (Some i) (NLeaf [Str s]) [].
Definition sec (i : nat) (s : string) (c : list tree) : tree := T (Some i) (NSection [Str s]) c.
Definition doc (i : nat) (c : list tree) : tree := T (Some i) (NDocument "k") c.

(* ---------- C10: why the text-level round trip carries hypotheses ------------------------------- *)

(* section -> list next to a bullet list: the blocks written for the result hold two bullet
   lists side by side (a blank line apart), which the original did not; CommonMark reads that
   text as one list (observed on the real reader by the witness of class 3, not provable here:
   the reader is not modelled) *)
Lemma wrap_creates_adjacent_lists :
  let t := doc 0 [sec 1 "s" [T (Some 2) NBList [sec 3 "x" []]; sec 4 "b" []]] in
  tree_is_header 4 t = true /\
  adjacent_lists (project "" t) = false /\
  adjacent_lists (project "" (wrap_into_list 4 t)) = true /\
  md (wrap_into_list 4 t) = "# s" +++ LFS +++ LFS +++ "- x" +++ LFS +++ LFS +++ "- b" +++ LFS.
Proof. cbv zeta. repeat split; vm_compute; reflexivity. Qed.

(* section -> list after a sibling section: the text of the result is also the text of the tree
   in which the list belongs to that sibling; list -> sections there gives a deeper heading *)
Lemma wrap_after_section_ambiguous :
  let t := doc 0 [sec 1 "a" []; sec 2 "b" []] in
  let t2 := doc 0 [sec 1 "a" [T (Some 9) NBList [sec 2 "b" []]]] in
  tree_is_header 2 t = true /\
  adjacent_lists (project "" (wrap_into_list 2 t)) = false /\
  md (wrap_into_list 2 t) = md t2 /\
  get_top_level_surrounding_list_id 2 t2 = Some 9 /\
  md (unwrap_list 9 t2) <> md t.
Proof. cbv zeta. repeat split; try (vm_compute; reflexivity). vm_compute. discriminate. Qed.

(* at the root the tree-level law fails too (never reached: the root is the document node) *)
Lemma unwrap_wrap_root_refuted :
  exists t id, id_eq t id = true /\ unwrap_list id (wrap_into_list id t) <> t.
Proof. exists (sec 1 "a" [leaf 2 "p"]), 1. split; [reflexivity|]. vm_compute. discriminate. Qed.

(* list -> sections below a level-6 heading writes a level-7 heading *)
Lemma unwrap_depth7 :
  let t := doc 0 [sec 1 "1" [sec 2 "2" [sec 3 "3" [sec 4 "4" [sec 5 "5" [sec 6 "6" [T (Some 7) NBList [sec 8 "x" []]]]]]]]] in
  max_levels (project "" t) = 6 /\ max_levels (project "" (unwrap_list 7 t)) = 7.
Proof. cbv zeta. split; vm_compute; reflexivity. Qed.

(* ---------- conservation on the projected blocks (what is written) ----------------------------- *)

Theorem change_list_type_blocks parent id t :
  flat_map gcontent (project parent (change_list_type id t)) = flat_map gcontent (project parent t).
Proof. now rewrite !project_conserves, change_list_type_content. Qed.

Theorem wrap_into_list_blocks parent id t : wrap_dom id t = true ->
  flat_map gcontent (project parent (wrap_into_list id t)) = flat_map gcontent (project parent t).
Proof. intros D. now rewrite !project_conserves, wrap_into_list_content. Qed.

Theorem unwrap_list_blocks parent id t : unwrap_dom id t = true ->
  flat_map gcontent (project parent (unwrap_list id t)) = flat_map gcontent (project parent t).
Proof. intros D. now rewrite !project_conserves, unwrap_list_content. Qed.

(* ---------- C09: keys ------------------------------------------------------------------------ *)

Definition created (l : list change) : list string :=
  flat_map (fun c => match c with Create k => [k] | _ => [] end) l.

Section Fresh.
  (* the draw that leaves the loop of Graph::random_key (graph.rs:516): not among the keys *)
  Variable fresh : list string -> string.
  Hypothesis fresh_spec : forall ks, ~ In (fresh ks) ks.

  Theorem extract_key_fresh cx target ks rest l :
    changes cx SectionExtract (KRand (fresh ks :: rest)) target = Ok (Some l) ->
    created l = [fresh ks] /\ ~ In (fresh ks) ks.
  Proof.
    intros H. split; [|apply fresh_spec]. unfold changes in H.
    destruct (cx_key_of cx target) as [key|]; [|discriminate]. cbn [bind] in H.
    unfold ctx_collect in H. destruct (cx_collect cx key) as [tree|]; [|discriminate]. cbn [bind] in H.
    destruct (get_surrounding_section_id target tree); [|discriminate].
    destruct (tree_is_header target tree); [|discriminate].
    cbn [random_key bind fst] in H.
    destruct (extract_rec target n (fresh ks) tree); [|discriminate]. cbn [bind] in H.
    destruct (tget tree target); [|discriminate]. cbn [bind] in H.
    inversion H. reflexivity.
  Qed.
End Fresh.

(* sequential-key mode (in-memory state): every sub-section gets the same key, and the key is
   `number of notes + 1` whatever the notes are called *)
Definition cx1 : actx :=
  ACtx (fun _ => Ok "a")
       (fun _ => Ok (doc 0 [sec 1 "a" [sec 2 "b" [leaf 3 "one"]; sec 4 "c" [leaf 5 "two"]]]))
       (fun _ => true)
       1.

Lemma subsections_seq_reuse :
  exists k s1 s2 rest,
    changes cx1 SubSectionsExtract KSeq 1 = Ok (Some (Create k :: Update k "" s1 :: Create k :: Update k "" s2 :: rest))
    /\ s1 <> s2.
Proof.
  eexists _, _, _, _. split; [vm_compute; reflexivity|]. discriminate.
Qed.

Lemma seq_key_ignores_names : forall cx parent, random_key cx KSeq parent = Ok (from_rel_link_url (dec (cx_nkeys cx + 1)) parent, KSeq).
Proof. reflexivity. Qed.

(* ---------- C09: the recursion of append_pre_header as found ----------------------------------- *)

Lemma append_pre_header_as_found_diverges :
  forall fuel, exists s, append_pre_header_as_found fuel 1 (sec 1 "s" []) (sec 1 "s" []) = Panic s.
Proof.
  induction fuel as [|f [s IH]]; [eexists; reflexivity|].
  exists s. change (append_pre_header_as_found (S f) 1 (sec 1 "s" []) (sec 1 "s" []))
    with (do kids <- (do r <- Ok [] ; do x <- append_pre_header_as_found f 1 (sec 1 "s" []) (sec 1 "s" []); Ok (x :: r));
          Ok (T (Some 1) (NSection [Str "s"]) kids)).
  cbn [bind]. rewrite IH. reflexivity.
Qed.

Lemma append_pre_header_self_terminates :
  append_pre_header 1 (sec 1 "s" []) (sec 1 "s" []) = sec 1 "s" [sec 1 "s" []].
Proof. reflexivity. Qed.

(* cross-directory inline (F-C09-cross-dir-inline, repaired): the inlined note's tree holds its inline links by
   KEY, and the projector writes them relative to the note they are written INTO; what is written resolves, from
   that note's directory, to the same key - for every key and directory made of legal names, either extension
   (RelPathFacts.roundtrip_written, C15).  In the pinned tree the link was copied as typed and named another note
   from the new directory ([inline_cross_dir_link]: `c` typed in d/ is d/c, in the root it is c). *)
Lemma inline_cross_dir_link :
  let url := "c" in from_rel_link_url url "d" = "d/c" /\ from_rel_link_url url "" = "c".
Proof. cbv zeta. split; vm_compute; reflexivity. Qed.

Theorem inline_cross_dir_kept ks ds ext title lt l :
  Forall RelPathFacts.good_name ks -> Forall RelPathFacts.good_name ds -> ext = MD \/ ext = "" ->
  let K := join SEPS ks in let D := join SEPS ds in
  is_ref_url K = true ->
  rel_inline D (Link K title lt l) = Link (to_rel_link_url K D) title lt (map (rel_inline D) l) /\
  from_rel_link_url (ref_url (to_rel_link_url K D) ext) D = K.
Proof.
  intros Hk Hd He K D Hr. split.
  - cbn [rel_inline]. now rewrite Hr.
  - now apply RelPathFacts.roundtrip_written.
Qed.

(* the witness of the finding: `[c](c)` of d/b, inlined into the root note a, is written `[c](d/c)` and still
   names d/c *)
Example inline_cross_dir_witness :
  rel_inline (key_parent "a") (to_ginline (key_parent "d/b") (Link "c" "" Regular [Str "c"])) = Link "d/c" "" Regular [Str "c"] /\
  from_rel_link_url "d/c" (key_parent "a") = from_rel_link_url "c" (key_parent "d/b").
Proof. split; vm_compute; reflexivity. Qed.
