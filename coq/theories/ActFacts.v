(* ActFacts.v — facts that speak about the written text (Project.tree_to_markdown) and about the
   action providers (Actions.v): the refutations with concrete witnesses, the oracle statement
   for fresh keys, and the lifting of content conservation to the projected blocks. *)
From IweV Require Import Check_Norm NormFacts TreeOps Actions TreeOpsFacts Check_Act Check_C10.
Local Open Scope string_scope.
Local Open Scope list_scope.

Definition md (t : tree) : string := tree_to_markdown (Opts "") [] "" t.

Definition leaf (i : nat) (s : string) : tree := T (Some i) (NLeaf [Str s]) [].
Definition sec (i : nat) (s : string) (c : list tree) : tree := T (Some i) (NSection [Str s]) c.
Definition doc (i : nat) (c : list tree) : tree := T (Some i) (NDocument "k") c.

(* ---------- C10: why the text-level round trip carries hypotheses ------------------------------- *)

(* section -> list next to a bullet list: the blocks written for the result hold two bullet
   lists side by side (a blank line apart), which the original did not; CommonMark reads that
   text as one list (observed on the real reader by the witness of class 3, not provable here:
   the reader is not modelled) *)
Lemma wrap_creates_adjacent_lists :
  let t := doc 0 [sec 1 "s" [T (Some 2) NBList [sec 3 "x" []]; sec 4 "b" []]] in
  tree_is_header 4 t = true /\
  adjacent_lists (project "" t) = false /\
  adjacent_lists (project "" (wrap_into_list 4 t)) = true /\
  md (wrap_into_list 4 t) = "# s" +++ LFS +++ LFS +++ "- x" +++ LFS +++ LFS +++ "- b" +++ LFS.
Proof. cbv zeta. repeat split; vm_compute; reflexivity. Qed.

(* section -> list after a sibling section: the text of the result is also the text of the tree
   in which the list belongs to that sibling; list -> sections there gives a deeper heading *)
Lemma wrap_after_section_ambiguous :
  let t := doc 0 [sec 1 "a" []; sec 2 "b" []] in
  let t2 := doc 0 [sec 1 "a" [T (Some 9) NBList [sec 2 "b" []]]] in
  tree_is_header 2 t = true /\
  adjacent_lists (project "" (wrap_into_list 2 t)) = false /\
  md (wrap_into_list 2 t) = md t2 /\
  get_top_level_surrounding_list_id 2 t2 = Some 9 /\
  md (unwrap_list 9 t2) <> md t.
Proof. cbv zeta. repeat split; try (vm_compute; reflexivity). vm_compute. discriminate. Qed.

(* at the root the tree-level law fails too (never reached: the root is the document node) *)
Lemma unwrap_wrap_root_refuted :
  exists t id, id_eq t id = true /\ unwrap_list id (wrap_into_list id t) <> t.
Proof. exists (sec 1 "a" [leaf 2 "p"]), 1. split; [reflexivity|]. vm_compute. discriminate. Qed.

(* list -> sections below a level-6 heading writes a level-7 heading *)
Lemma unwrap_depth7 :
  let t := doc 0 [sec 1 "1" [sec 2 "2" [sec 3 "3" [sec 4 "4" [sec 5 "5" [sec 6 "6" [T (Some 7) NBList [sec 8 "x" []]]]]]]]] in
  max_levels (project "" t) = 6 /\ max_levels (project "" (unwrap_list 7 t)) = 7.
Proof. cbv zeta. split; vm_compute; reflexivity. Qed.

(* ---------- conservation on the projected blocks (what is written) ----------------------------- *)

Theorem change_list_type_blocks parent id t :
  flat_map gcontent (project parent (change_list_type id t)) = flat_map gcontent (project parent t).
Proof. now rewrite !project_conserves, change_list_type_content. Qed.

Theorem wrap_into_list_blocks parent id t : wrap_dom id t = true ->
  flat_map gcontent (project parent (wrap_into_list id t)) = flat_map gcontent (project parent t).
Proof. intros D. now rewrite !project_conserves, wrap_into_list_content. Qed.

Theorem unwrap_list_blocks parent id t : unwrap_dom id t = true ->
  flat_map gcontent (project parent (unwrap_list id t)) = flat_map gcontent (project parent t).
Proof. intros D. now rewrite !project_conserves, unwrap_list_content. Qed.
