(* SectionsSpec.v — the short specification of what SectionsBuilder + GraphBuilder + collect do
   with the blocks of a note (DESIGN section 4, `tree_of_blocks`): a pure function from reader
   blocks to the note's tree, without cursor, arena or ids.

     - the blocks before the first heading are leaves, in order;
     - then sections: the first heading's level L splits the rest at every heading of level <= L;
       each chunk is a section node over (recursively) the tree of its body;
     - a quote is a node over the tree of its blocks; a list is a node over its items;
     - an item that starts with text (paragraph or heading) is a section node titled with that
       text over the tree of the remaining blocks; an empty item is nothing; an item that is just
       a list is merged into the enclosing list; any other item (it starts with a code block,
       quote, table or rule, or with a list that further blocks follow) is a section node without
       text over the tree of ALL its blocks.

   The specification is claimed for every input (it is compared with the transliterated cursor
   machine of Arena.v and, through it, with the implementation, on every run; SectionsRefine.v
   proves the machine refines it for every block list). *)
From IweV Require Import Str Ast RelPath Arena.
Local Open Scope string_scope.
Local Open Scope list_scope.

Section Spec.
  Variable dir : string.

  Definition leaf_node (b : dblock) : node :=
    match b with
    | DPara _ l =>
        match l with
        | [Link url _ lt ils] =>
            if is_ref_url url then NRef (from_rel_link_url url dir) (inlines_plain_text ils) lt
            else NLeaf (to_ginlines dir l)
        | _ => NLeaf (to_ginlines dir l)
        end
    | DCode _ lang text => NRaw lang text
    | DRule _ => NRule
    | DTable _ h al rows => NTable (map (to_ginlines dir) h) al (map (map (to_ginlines dir)) rows)
    | _ => NRule      (* containers and headings are not leaves; never used for them *)
    end.

  Definition lead_inlines (b : dblock) : list inline :=
    match b with
    | DPara _ l | DHeader _ _ l => to_ginlines dir l
    | _ => []
    end.

  Fixpoint blocks_tree (fuel : nat) (bs : list dblock) {struct fuel} : list tree :=
    match fuel with
    | O => []
    | S f =>
        let '(pre, rest) := span_pre bs in
        flat_map (block_tree f) pre ++
        match rest with
        | [] => []
        | h :: _ => match header_level h with
                    | Some L => sections_tree f L rest
                    | None => []
                    end
        end
    end

  with sections_tree (fuel : nat) (L : nat) (bs : list dblock) {struct fuel} : list tree :=
    match fuel with
    | O => []
    | S f =>
        match bs with
        | [] => []
        | h :: r =>
            let '(body, rest) := span_section L r in
            T None (NSection (lead_inlines h)) (blocks_tree f body) :: sections_tree f L rest
        end
    end

  with block_tree (fuel : nat) (b : dblock) {struct fuel} : list tree :=
    match fuel with
    | O => []
    | S f =>
        match b with
        | DQuote _ bs => [T None NQuote (blocks_tree f bs)]
        | DBList items => [T None NBList (flat_map (item_tree f) items)]
        | DOList items => [T None NOList (flat_map (item_tree f) items)]
        | DHeader _ _ _ => []        (* headings never reach `block` *)
        | _ => [T None (leaf_node b) []]
        end
    end

  with item_tree (fuel : nat) (it : list dblock) {struct fuel} : list tree :=
    match fuel with
    | O => []
    | S f =>
        match it with
        | [] => []
        | [DBList inner] | [DOList inner] => flat_map (item_tree f) inner      (* merged *)
        | ((DPara _ _ | DHeader _ _ _) as h) :: body => [T None (NSection (lead_inlines h)) (blocks_tree f body)]
        | _ => [T None (NSection []) (blocks_tree f it)]
        end
    end.

  Definition note_tree (key : string) (bs : list dblock) : tree :=
    T None (NDocument key) (blocks_tree (fuel_for bs) bs).
End Spec.

(* the tree a note's key and blocks specify *)
Definition spec_tree (key : string) (bs : list dblock) : tree := note_tree (key_parent key) key bs.
