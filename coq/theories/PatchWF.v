(* PatchWF.v — C20 for patch graphs built from trees: the theorems behind sub-properties 4-7 and
   stage 11 of the history check (Check_Patch.v).

   1. In EVERY arena + key map satisfying the executable invariant [wf_b], the two other per-run
      predicates hold: [partition_ok] (the walks from the roots of the key map visit every live node
      exactly once: sorted, they ARE the list of live ids) and [owners_ok] (every node of a note's
      walk answers that note's root when asked for its document).  So on a well-formed arena the
      sub-properties 2, 3 (history states) and 5, 6 (patch graphs) cannot fail; they are evaluated on
      the IMPLEMENTATION's arenas, where [wf_b] is what is being tested.
   2. `Graph::build_key_from_iter(key, tree.iter())` (TreeBuild.build_key_from_iter) on any
      well-formed graph whose key map does not root the new id, for any tree in which only containers
      have children: returns, and arena + extended key map satisfy all three predicates again.
   3. The patch graph `new_patch()` + `build_key_from_iter`: the model passes every predicate the
      check evaluates on a patch observation (sub-properties 4-7, stage 11), for EVERY tree - on a
      tree that is not [buildable] it panics with "cant set child" and nothing is claimed.  Hence a
      failure of 4-7 on an observed patch arena is never the model's doing. *)
From IweV Require Import Str Ast RelPath Arena ArenaWF ArenaFacts ForestFacts HistoryWF SectionsRefine
  TreeBuild TreeBuildFacts Check_Patch.
From Coq Require Import Lia Permutation Sorted List.
Local Open Scope string_scope.
Local Open Scope list_scope.

(* ---------- insertion sort on nat ------------------------------------------------------------ *)

Lemma insert_sorted_perm x l : Permutation (insert_sorted x l) (x :: l).
Proof.
  induction l as [|y l IH]; cbn [insert_sorted]; [apply Permutation_refl|].
  destruct (Nat.leb x y); [apply Permutation_refl|].
  eapply Permutation_trans; [apply perm_skip, IH | apply perm_swap].
Qed.

Lemma sort_nat_perm l : Permutation (sort_nat l) l.
Proof.
  induction l as [|x l IH]; cbn [sort_nat fold_right]; [apply Permutation_refl|].
  eapply Permutation_trans; [apply insert_sorted_perm | apply perm_skip, IH].
Qed.

Lemma insert_sorted_sorted x l : StronglySorted le l -> StronglySorted le (insert_sorted x l).
Proof.
  induction 1 as [|y l Hs IH Hall]; cbn [insert_sorted].
  - constructor; constructor.
  - destruct (Nat.leb x y) eqn:E.
    + apply Nat.leb_le in E. constructor; [constructor; assumption|].
      constructor; [exact E|]. eapply Forall_impl; [|exact Hall]. intros z Hz. lia.
    + apply Nat.leb_gt in E. constructor; [exact IH|].
      rewrite Forall_forall in *. intros z Hz.
      apply (Permutation_in _ (insert_sorted_perm x l)) in Hz. destruct Hz as [<-|Hz]; [lia | auto].
Qed.

Lemma sort_nat_sorted l : StronglySorted le (sort_nat l).
Proof.
  induction l as [|x l IH]; cbn [sort_nat fold_right]; [constructor|]. now apply insert_sorted_sorted.
Qed.

Lemma sorted_perm_eq l1 : forall l2,
  StronglySorted le l1 -> StronglySorted le l2 -> Permutation l1 l2 -> l1 = l2.
Proof.
  induction l1 as [|x l1 IH]; intros l2 H1 H2 P.
  - apply Permutation_nil in P. now subst.
  - destruct l2 as [|y l2]; [apply Permutation_sym, Permutation_nil in P; discriminate|].
    apply StronglySorted_inv in H1 as [H1 F1]. apply StronglySorted_inv in H2 as [H2 F2].
    assert (E : x = y).
    { assert (Hx : In x (y :: l2)) by (eapply Permutation_in; [exact P | now left]).
      assert (Hy : In y (x :: l1)) by (eapply Permutation_in; [apply Permutation_sym; exact P | now left]).
      rewrite Forall_forall in F1, F2.
      destruct Hx as [Hx|Hx]; [now symmetry|]. destruct Hy as [Hy|Hy]; [exact Hy|].
      specialize (F1 _ Hy). specialize (F2 _ Hx). lia. }
    subst y. f_equal. apply IH; auto. eapply Permutation_cons_inv; exact P.
Qed.

Lemma seq_sorted n : forall s, StronglySorted le (seq s n).
Proof.
  induction n as [|n IH]; intros s; cbn [seq]; constructor; [apply IH|].
  rewrite Forall_forall. intros z Hz. apply in_seq in Hz. lia.
Qed.

Lemma filter_sorted (f : nat -> bool) l : StronglySorted le l -> StronglySorted le (filter f l).
Proof.
  induction 1 as [|y l Hs IH Hall]; cbn [filter]; [constructor|].
  destruct (f y); [|exact IH]. constructor; [exact IH|].
  rewrite Forall_forall in *. intros z Hz. apply filter_In in Hz as [Hz _]. auto.
Qed.

(* ---------- wf_b implies the partition and the owner predicates ------------------------------- *)

Lemma live_lv a y : live a y = true <-> lv a y.
Proof.
  unfold live, lv. destruct (get a y) as [n|].
  - rewrite Bool.negb_true_iff. split; [intros H; now exists n | intros (m & Hm & He); now inversion Hm; subst].
  - split; [discriminate | intros (m & Hm & _); discriminate].
Qed.

Lemma live_ids_iff a y : In y (live_ids a) <-> lv a y.
Proof.
  unfold live_ids. rewrite filter_In, in_seq, live_lv. split; [tauto|].
  intros H. split; [|exact H]. destruct H as (n & Hn & _). pose proof (get_lt _ _ _ Hn). lia.
Qed.

Section WF.
  Variable a : arena.
  Variable keys : list (string * nat).
  Hypothesis Hwf : wf_b a keys = true.

  Let Hok : arena_ok a = true.
  Proof. now apply wf_b_spec in Hwf. Qed.

  Lemma root_doc kv : In kv keys -> exists rn, get a (snd kv) = Some rn /\ g_kind rn = KDocument (fst kv).
  Proof. intros Hin. apply key_ok_spec. apply wf_b_spec in Hwf as (_ & H & _). now apply H. Qed.

  Lemma reach_iff y : In y (reachable_ids a keys) <-> lv a y.
  Proof.
    unfold reachable_ids. rewrite in_flat_map. split.
    - intros (kv & Hin & Hy). destruct (root_doc kv Hin) as (rn & Hr & Hk).
      assert (Hlr : lv a (snd kv)) by (exists rn; split; [exact Hr | now rewrite Hk]).
      now destruct (subtree_sound a Hok _ _ _ Hlr Hy) as (_ & H & _).
    - intros Hy. pose proof Hy as (n & Hn & He).
      destruct (to_document_total a Hok y n Hn He) as (r & rn & key & Ho & _ & Hr & Hk).
      apply wf_b_spec in Hwf as (_ & _ & _ & Hd).
      destruct (Hd r rn Hr) as (kv & Hin & E); [now rewrite Hk|].
      exists kv. split; [exact Hin|]. rewrite E.
      apply (subtree_owner_iff a Hok r rn key Hr Hk). now split.
  Qed.

  Lemma reach_nodup_sub ks :
    incl ks keys -> NoDup (map snd ks) ->
    NoDup (flat_map (fun kv => subtree_ids (S (length a)) a (snd kv)) ks).
  Proof.
    induction ks as [|kv ks IH]; intros Hi Hn; cbn [flat_map]; [constructor|].
    cbn [map] in Hn. apply NoDup_cons_iff in Hn as [Hnot Hn].
    assert (Hkv : In kv keys) by (apply Hi; now left).
    destruct (root_doc kv Hkv) as (rn & Hr & Hk).
    assert (Hlr : lv a (snd kv)) by (exists rn; split; [exact Hr | now rewrite Hk]).
    apply NoDup_app_intro.
    - now apply subtree_NoDup.
    - apply IH; [|exact Hn]. intros x Hx. apply Hi. now right.
    - intros y Hy1 Hy2. apply in_flat_map in Hy2 as (kv' & Hin' & Hy2).
      assert (Hkv' : In kv' keys) by (apply Hi; now right).
      destruct (root_doc kv' Hkv') as (rn' & Hr' & Hk').
      apply (subtree_owner_iff a Hok _ rn _ Hr Hk) in Hy1 as [_ O1].
      apply (subtree_owner_iff a Hok _ rn' _ Hr' Hk') in Hy2 as [_ O2].
      rewrite O1 in O2. inversion O2 as [E]. apply Hnot. rewrite E. now apply in_map.
  Qed.

  Lemma reach_nodup : NoDup (reachable_ids a keys).
  Proof.
    apply reach_nodup_sub; [apply incl_refl|]. now apply wf_b_spec in Hwf as (_ & _ & H & _).
  Qed.

  (* every live node is reached exactly once from exactly one root: the walks from the roots,
     sorted, are the list of live ids *)
  Theorem wf_partition : partition_ok a keys = true.
  Proof.
    unfold partition_ok.
    assert (E : sort_nat (reachable_ids a keys) = live_ids a).
    { apply sorted_perm_eq; [apply sort_nat_sorted | apply filter_sorted, seq_sorted |].
      eapply Permutation_trans; [apply sort_nat_perm|].
      apply NoDup_Permutation; [apply reach_nodup | apply NoDup_filter, seq_NoDup |].
      intros y. now rewrite reach_iff, live_ids_iff. }
    rewrite E. apply list_eqb_refl. intros x. apply Nat.eqb_refl.
  Qed.

  (* the owner of every node of a note's walk is that note's root *)
  Theorem wf_owners : owners_ok a keys = true.
  Proof.
    unfold owners_ok. apply forallb_forall. intros kv Hin. apply forallb_forall. intros y Hy.
    destruct (root_doc kv Hin) as (rn & Hr & Hk).
    apply (subtree_owner_iff a Hok _ rn _ Hr Hk) in Hy as [(n & Hn & _) Ho].
    pose proof (get_lt _ _ _ Hn) as Hlt.
    rewrite (to_document_more _ _ _ _ Ho (S (length a))) by lia. apply Nat.eqb_refl.
  Qed.
End WF.

(* ---------- build_key_from_iter keeps all three predicates ----------------------------------- *)

Lemma nth_error_firstn_lt {A} (l : list A) : forall n i, i < n -> nth_error (firstn n l) i = nth_error l i.
Proof.
  induction l as [|x l IH]; intros [|n] [|i] H; cbn [firstn nth_error]; try lia; try reflexivity.
  apply IH. lia.
Qed.

Lemma get_prefix (a a' : arena) id : firstn (length a) a' = a -> id < length a -> get a' id = get a id.
Proof.
  intros H Hlt. unfold get. rewrite <- (nth_error_firstn_lt a' (length a) id Hlt). now rewrite H.
Qed.

(* Graph::build_key_from_iter on a graph: the key map gets the new key at the next id.  (In the Rust
   HashMap an existing entry of that key would be replaced, and its old tree left live and unrooted;
   the callers build into patch graphs and fresh graphs, where the key is new.) *)
Theorem build_key_from_iter_wf (a : arena) (keys : list (string * nat)) (key : string) (t : tree) :
  wf_b a keys = true -> buildable t = true ->
  exists st, build_key_from_iter a key t = Ok st /\
    wf_b (b_arena st) ((key, length a) :: keys) = true /\
    partition_ok (b_arena st) ((key, length a) :: keys) = true /\
    owners_ok (b_arena st) ((key, length a) :: keys) = true /\
    firstn (length a) (b_arena st) = a /\
    collect_raw (b_arena st) (length a) = Ok (Some (label (built_tree key t) (length a))).
Proof.
  intros Hwf Hb. pose proof Hwf as Hwf0. apply wf_b_spec in Hwf as (Hok & Hkeys & Hnd & Hdocs).
  destruct (collect_build a key t Hok Hb) as (st & Hbuild & Hok' & Hpre & Hlen & (n & Hn & Hk & _) & Hrest & Hcol).
  exists st. split; [exact Hbuild|].
  assert (Hroots : forall kv, In kv keys -> snd kv < length a).
  { intros kv Hin. apply Hkeys, key_ok_spec in Hin as (m & Hm & _). now apply get_lt in Hm. }
  assert (W : wf_b (b_arena st) ((key, length a) :: keys) = true).
  { apply wf_b_spec. split; [exact Hok'|]. split; [|split].
    - intros kv [<-|Hin]; apply key_ok_spec.
      + exists n. now split.
      + apply Hkeys, key_ok_spec in Hin as (m & Hm & Hkm). exists m. split; [|exact Hkm].
        rewrite (get_prefix a _ _ Hpre); [exact Hm | now apply get_lt in Hm].
    - cbn [map snd]. constructor; [|exact Hnd]. intros Hin. apply in_map_iff in Hin as (kv & E & Hin).
      apply Hroots in Hin. lia.
    - intros id m Hm Hd. destruct (Nat.lt_trichotomy id (length a)) as [Hlt|[->|Hgt]].
      + rewrite (get_prefix a _ _ Hpre Hlt) in Hm. destruct (Hdocs id m Hm Hd) as (kv & Hin & E).
        exists kv. split; [now right | exact E].
      + exists (key, length a). split; [now left | reflexivity].
      + destruct (Hrest id m Hgt Hm) as [_ H]. congruence. }
  split; [exact W|]. split; [now apply wf_partition|]. split; [now apply wf_owners|]. now split.
Qed.

(* ---------- the patch graph ----------------------------------------------------------------- *)

Lemma po_pre_ids_eq t : po_pre_ids t = pre_ids t.
Proof.
  (* the two fixpoints have the same body *)
  reflexivity.
Qed.

(* `new_patch()` + `build_key_from_iter(key, tree.iter())`: what the check demands of a patch
   observation (sub-properties 4, 5, 6 with the patch's key map, and the read-back of stage 11) *)
Theorem patch_graph_wf (key : string) (t : tree) :
  buildable t = true ->
  exists st, build_key_from_iter patch_arena0 key t = Ok st /\
    wf_b (b_arena st) [(key, 0)] = true /\
    partition_ok (b_arena st) [(key, 0)] = true /\
    owners_ok (b_arena st) [(key, 0)] = true /\
    collect_raw (b_arena st) 0 = Ok (Some (label (built_tree key t) 0)) /\
    length (b_arena st) = tree_nodes (built_tree key t).
Proof.
  intros Hb. destruct (build_key_from_iter_wf [] [] key t eq_refl Hb) as (st & H & W & P & O & _ & C).
  exists st. repeat split; try assumption.
  destruct (collect_build [] key t eq_refl Hb) as (st' & H' & _ & _ & L & _).
  unfold patch_arena0 in H. rewrite H in H'. inversion H'; subst st'. rewrite tree_nodes_tsz. exact L.
Qed.

(* the observation the model itself would give *)
Definition model_obs (kind : nat) (key : string) (t : tree) : patch_obs :=
  let o := POT kind key t (Panic "") [] in
  POT kind key t (po_model_arena o) (po_model_keys o).

(* the model passes everything the check evaluates on a patch observation, for EVERY tree *)
Theorem patch_model_passes (kind : nat) (key : string) (t : tree) :
  patch_props_of [model_obs kind key t] = [] /\
  po_corr_back (model_obs kind key t) = true /\
  po_corr_arena (model_obs kind key t) = true.
Proof.
  unfold patch_props_of, model_obs, po_wf, po_partition, po_owners, po_returns, po_corr_back, po_corr_arena,
    po_model_arena, po_model, po_model_keys.
  cbn [forallb po_arena po_keys po_key po_tree andb].
  change patch_arena0 with (@nil gnode). cbn [length].
  destruct (buildable t) eqn:Hb.
  - destruct (patch_graph_wf key t Hb) as (st & H & W & P & O & C & L).
    change patch_arena0 with (@nil gnode) in H. rewrite H. cbn [bind existsb fst].
    rewrite W, P, O, C, String.eqb_refl. cbn [orb andb flag app].
    split; [reflexivity|]. split.
    + rewrite tree_eqb_noid_label, po_pre_ids_eq, pre_ids_label, L, <- tree_nodes_tsz, Nat.eqb_refl.
      cbn [andb]. rewrite Bool.andb_true_r. apply list_eqb_refl. intros [x|]; cbn; [apply Nat.eqb_refl | reflexivity].
    + rewrite Bool.andb_true_iff. split.
      * apply list_eqb_refl. intros x. unfold gnode_eqb.
        assert (R : forall o, onat_eqb o o = true) by (intros [y|]; cbn; [apply Nat.eqb_refl | reflexivity]).
        rewrite !R, !Bool.andb_true_r. unfold gkind_eqb. destruct (g_kind x); cbn [kind_node]; try reflexivity; apply node_eqb_refl.
      * unfold keymap_eqb. cbn. now rewrite String.eqb_refl.
  - rewrite (build_panics [] key t eq_refl Hb). cbn [bind negb flag app].
    split; [reflexivity|]. split; reflexivity.
Qed.

(* non-vacuity: the tree an inline refactoring builds (README of the seeded change r3-C20): a list with
   two items, then the Document node of the inlined note *)
Example ex_inlined : tree :=
  T (Some 0) (NDocument "1")
    [T (Some 1) (NSection [Str "Shopping"])
       [T (Some 2) NBList [T (Some 3) (NSection [Str "apples"]) []; T (Some 4) (NSection [Str "pears"]) []];
        T (Some 6) (NDocument "2") [T (Some 7) (NSection [Str "Errands"]) [T (Some 8) (NLeaf [Str "post office"]) []]]]].

Example ex_inlined_built :
  buildable ex_inlined = true /\
  match build_key_from_iter patch_arena0 "1" ex_inlined with
  | Ok st => length (b_arena st) = 7 /\
             subtree_ids 8 (b_arena st) 0 = [0; 1; 2; 3; 4; 5; 6] /\
             wf_b (b_arena st) [("1", 0)] = true
  | Panic _ => False
  end.
Proof. vm_compute. repeat split; reflexivity. Qed.

(* the arena the seeded change leaves for that tree (the list's child pointer overwritten by the first
   block of the inlined note; the items 3, 4 live and unreachable): refused by 4 and 5, not by 6 *)
Example ex_overwritten : arena :=
  [GN (KDocument "1") None None (Some 1);
   GN (KSection [Str "Shopping"]) (Some 0) None (Some 2);
   GN KBList (Some 1) None (Some 5);
   GN (KSection [Str "apples"]) (Some 2) (Some 4) None;
   GN (KSection [Str "pears"]) (Some 3) None None;
   GN (KSection [Str "Errands"]) (Some 2) None (Some 6);
   GN (KLeaf [Str "post office"]) (Some 5) None None].

Example ex_overwritten_refused :
  wf_b ex_overwritten [("1", 0)] = false /\ partition_ok ex_overwritten [("1", 0)] = false /\
  owners_ok ex_overwritten [("1", 0)] = true.
Proof. vm_compute. repeat split; reflexivity. Qed.

Print Assumptions wf_partition.
Print Assumptions wf_owners.
Print Assumptions build_key_from_iter_wf.
Print Assumptions patch_graph_wf.
Print Assumptions patch_model_passes.
