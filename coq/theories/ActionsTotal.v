(* ActionsTotal.v — properties C09 / C10 / C12 / C03: every code action the server OFFERS resolves
   to an edit.  No panic site of the refactoring code (Actions.v: `changes`, `handle_resolve`;
   TreeOps.v) is reachable from an offer of `action`, for every ActionContext, every kind of the
   seven, every target id and every key generator that still has draws - under explicit,
   decidable hypotheses about the collected tree that are stated per kind (kind_hyp).
   Also: the shape of the change list per kind (C09_offer_shapes), `action` itself never
   panics on a target that is in the tree (C09_action_total), and the exact domain on which
   `handle_resolve` answers, offered or not (C12_resolve_panic_domain). *)
From IweV Require Import Str Text Ast RelPath Arena Project Library TreeOps Actions TreeOpsFacts.
From Coq Require Import Lia List Bool Arith.
Import ListNotations.
Local Open Scope string_scope.
Local Open Scope list_scope.

(* ---------- the decidable hypotheses ---------------------------------------------------------- *)

Definition is_some {A} (o : option A) : bool := match o with Some _ => true | None => false end.
Definition is_ok {A} (r : res A) : bool := match r with Ok _ => true | Panic _ => false end.

(* the ids of the nodes that have one, in pre-order *)
Fixpoint some_ids (t : tree) : list nat :=
  match t with T i _ c => (match i with Some x => [x] | None => [] end) ++ flat_map some_ids c end.

(* every node has an id (Tree::from_pointer gives every node the id of its pointer) *)
Fixpoint all_some (t : tree) : bool :=
  match t with T i _ c => is_some i && forallb all_some c end.

Fixpoint nodupb (l : list nat) : bool :=
  match l with [] => true | x :: r => negb (existsb (Nat.eqb x) r) && nodupb r end.

Definition ids_distinct (t : tree) : bool := nodupb (some_ids t).
Definition ids_ok (t : tree) : bool := all_some t && ids_distinct t.

(* the sub-sections SubSectionsExtract unwraps the id of: the section children of the target *)
Definition sub_sections (tree : tree) (target : nat) : list Ast.tree :=
  match tfind target tree with Some x => filter is_section (t_children x) | None => [] end.
Definition sub_ids_some (tree : tree) (target : nat) : bool :=
  forallb (fun ch => is_some (t_id ch)) (sub_sections tree target).

(* the key generator still has [n] draws *)
Definition kg_has (kg : keygen) (n : nat) : bool :=
  match kg with KSeq => true | KRand d => Nat.leb n (length d) end.

Definition draws_needed (k : akind) (tree : tree) (target : nat) : nat :=
  match k with
  | SectionExtract => 1
  | SubSectionsExtract => length (sub_sections tree target)
  | _ => 0
  end.

(* what each kind needs, beyond being offered, to resolve *)
Definition kind_hyp (cx : actx) (k : akind) (kg : keygen) (tree : tree) (target : nat) : Prop :=
  match k with
  | SectionExtract => ids_distinct tree = true /\ kg_has kg 1 = true
  | SubSectionsExtract =>
      sub_ids_some tree target = true /\ kg_has kg (length (sub_sections tree target)) = true
  | InlineSection | InlineQuote =>
      cx_exists cx (reference_key tree target) = true ->
      is_ok (cx_collect cx (reference_key tree target)) = true
  | SectionToList | ListToSections | ListChangeType => True
  end.

(* ---------- lists ------------------------------------------------------------------------------ *)

Lemma nodupb_spec l : nodupb l = true <-> NoDup l.
Proof.
  induction l as [|x r IH]; cbn [nodupb]; [split; [constructor|reflexivity]|].
  rewrite andb_true_iff, negb_true_iff, IH. split.
  - intros [Hx Hr]. constructor; [|exact Hr]. intros Hin.
    assert (existsb (Nat.eqb x) r = true) as E by (apply existsb_exists; exists x; split; [exact Hin|apply Nat.eqb_refl]).
    congruence.
  - intros H. inversion H as [|? ? Hx Hr]; subst. split; [|exact Hr].
    destruct (existsb (Nat.eqb x) r) eqn:E; [|reflexivity].
    apply existsb_exists in E as (y & Hy & Exy). apply Nat.eqb_eq in Exy. subst y. contradiction.
Qed.

Lemma nodup_app_inv {A} (a b : list A) :
  NoDup (a ++ b) -> NoDup a /\ NoDup b /\ (forall x, In x a -> In x b -> False).
Proof.
  induction a as [|x a IH]; cbn [app]; intros H.
  - repeat split; [constructor | exact H | intros ? []].
  - inversion H as [|? ? Hx Hr]; subst. destruct (IH Hr) as (Ha & Hb & Hd). repeat split.
    + constructor; [|exact Ha]. intros Hin. apply Hx. apply in_or_app. now left.
    + exact Hb.
    + intros y [->|Hy] Hyb; [apply Hx; apply in_or_app; now right | eapply Hd; eauto].
Qed.

(* ---------- ids, subtrees ---------------------------------------------------------------------- *)

Fixpoint subtrees (t : tree) : list tree :=
  match t with T _ _ c => t :: flat_map subtrees c end.

Lemma some_ids_T i n c :
  some_ids (T i n c) = (match i with Some x => [x] | None => [] end) ++ flat_map some_ids c.
Proof. reflexivity. Qed.

Lemma oid_is_in i id : oid_is i id = true <-> In id (match i with Some x => [x] | None => [] end).
Proof.
  destruct i as [j|]; cbn [oid_is In]; [|split; [discriminate|intros []]].
  rewrite Nat.eqb_eq. split; [intros ->; now left | intros [->|[]]; reflexivity].
Qed.

Lemma contains_T i n c id : contains (T i n c) id = oid_is i id || existsb (fun ch => contains ch id) c.
Proof. reflexivity. Qed.

Lemma contains_in id : forall t, contains t id = true <-> In id (some_ids t).
Proof.
  apply (tree_ind' (fun t => contains t id = true <-> In id (some_ids t))).
  intros i n c IH. rewrite contains_T, some_ids_T, orb_true_iff, in_app_iff, oid_is_in, existsb_exists, in_flat_map.
  rewrite Forall_forall in IH.
  split; (intros [H|(x & Hx & Hc)]; [now left | right; exists x; split; [exact Hx | now apply (IH x Hx)]]).
Qed.

Lemma contains_child i n c ch id : In ch c -> contains ch id = true -> contains (T i n c) id = true.
Proof.
  intros Hin Hc. rewrite contains_T. apply orb_true_iff. right. apply existsb_exists. eauto.
Qed.

Lemma parent_of_contains t id : parent_of t id = true -> contains t id = true.
Proof.
  destruct t as [i n c]. unfold parent_of. cbn [t_children]. intros H.
  apply existsb_exists in H as (ch & Hin & He). apply (contains_child i n c ch id Hin).
  destruct ch as [j m k]. rewrite contains_T. rewrite id_eq_T in He. now rewrite He.
Qed.

Lemma contains_tfind id : forall t, contains t id = true -> exists x, tfind id t = Some x.
Proof.
  intros t H. destruct (tfind id t) as [x|] eqn:E; [eauto|].
  exfalso. revert t H E.
  apply (tree_ind' (fun t => contains t id = true -> tfind id t = None -> False)).
  intros i n c IH H E. rewrite contains_T in H. cbn [tfind] in E. rewrite id_eq_T in E.
  destruct (oid_is i id); [discriminate|]. cbn [orb] in H.
  induction c as [|ch c IHc]; [discriminate|]. cbn [existsb] in H. cbn [find_map] in E.
  inversion IH as [|? ? Hch Hc]; subst.
  destruct (tfind id ch) eqn:Ech; [discriminate|].
  destruct (contains ch id) eqn:Cch; [now apply Hch | apply IHc; assumption].
Qed.

Lemma tfind_contains id t x : tfind id t = Some x -> contains t id = true.
Proof.
  intros H. destruct (contains t id) eqn:E; [reflexivity|]. rewrite (tfind_notin id t E) in H. discriminate.
Qed.

Lemma find_map_some {A B} (f : A -> option B) l y : find_map f l = Some y -> exists x, In x l /\ f x = Some y.
Proof.
  induction l as [|a l IH]; cbn [find_map]; [discriminate|]. destruct (f a) eqn:E.
  - intros H. inversion H; subst. exists a. split; [now left|exact E].
  - intros H. destruct (IH H) as (x & Hx & Hf). exists x. split; [now right|exact Hf].
Qed.

Lemma tfind_sub id : forall t x, tfind id t = Some x -> In x (subtrees t) /\ id_eq x id = true.
Proof.
  apply (tree_ind' (fun t => forall x, tfind id t = Some x -> In x (subtrees t) /\ id_eq x id = true)).
  intros i n c IH x H. cbn [tfind] in H. destruct (id_eq (T i n c) id) eqn:E.
  - inversion H; subst. split; [now left|exact E].
  - apply find_map_some in H as (ch & Hin & Hf). rewrite Forall_forall in IH.
    destruct (IH ch Hin x Hf) as [Hs He]. split; [|exact He].
    cbn [subtrees]. right. apply in_flat_map. eauto.
Qed.

Lemma sub_contains id : forall t x, In x (subtrees t) -> contains x id = true -> contains t id = true.
Proof.
  apply (tree_ind' (fun t => forall x, In x (subtrees t) -> contains x id = true -> contains t id = true)).
  intros i n c IH x Hin Hc. cbn [subtrees] in Hin. destruct Hin as [<-|Hin]; [exact Hc|].
  apply in_flat_map in Hin as (ch & Hch & Hx). rewrite Forall_forall in IH.
  eapply contains_child; [exact Hch|]. eapply IH; eauto.
Qed.

Lemma id_eq_contains t id : id_eq t id = true -> contains t id = true.
Proof. destruct t as [i n c]. rewrite contains_T, id_eq_T. now intros ->. Qed.

Lemma sub_trans : forall t x y, In x (subtrees t) -> In y (subtrees x) -> In y (subtrees t).
Proof.
  apply (tree_ind' (fun t => forall x y, In x (subtrees t) -> In y (subtrees x) -> In y (subtrees t))).
  intros i n c IH x y Hx Hy. cbn [subtrees] in Hx. destruct Hx as [<-|Hx]; [exact Hy|].
  apply in_flat_map in Hx as (ch & Hch & Hx). rewrite Forall_forall in IH.
  cbn [subtrees]. right. apply in_flat_map. exists ch. split; [exact Hch|]. eapply IH; eauto.
Qed.

Lemma sub_refl t : In t (subtrees t).
Proof. destruct t. now left. Qed.

Lemma sub_child i n c ch : In ch c -> In ch (subtrees (T i n c)).
Proof. intros H. cbn [subtrees]. right. apply in_flat_map. exists ch. split; [exact H|apply sub_refl]. Qed.

(* distinct ids: split at a child *)
Lemma distinct_split i n l ch r :
  NoDup (some_ids (T i n (l ++ ch :: r))) ->
  NoDup (some_ids ch) /\
  (forall id, contains ch id = true ->
     oid_is i id = false /\ Forall (fun t => contains t id = false) l /\ Forall (fun t => contains t id = false) r).
Proof.
  rewrite some_ids_T, flat_map_app. cbn [flat_map]. intros H.
  apply nodup_app_inv in H as (_ & H & D1).
  apply nodup_app_inv in H as (_ & H & D2).
  apply nodup_app_inv in H as (Hch & _ & D3).
  split; [exact Hch|]. intros id Hc. apply contains_in in Hc. repeat split.
  - destruct (oid_is i id) eqn:E; [|reflexivity]. exfalso. apply oid_is_in in E.
    apply (D1 id E). apply in_or_app. right. apply in_or_app. now left.
  - apply Forall_forall. intros t Ht. destruct (contains t id) eqn:E; [|reflexivity]. exfalso.
    apply contains_in in E. apply (D2 id); [apply in_flat_map; eauto | apply in_or_app; now left].
  - apply Forall_forall. intros t Ht. destruct (contains t id) eqn:E; [|reflexivity]. exfalso.
    apply contains_in in E. apply (D3 id Hc). apply in_flat_map; eauto.
Qed.

(* with distinct ids, `find` returns THE node with that id *)
Lemma tfind_unique id : forall t x,
  NoDup (some_ids t) -> In x (subtrees t) -> id_eq x id = true -> tfind id t = Some x.
Proof.
  apply (tree_ind' (fun t => forall x, NoDup (some_ids t) -> In x (subtrees t) -> id_eq x id = true -> tfind id t = Some x)).
  intros i n c IH x ND Hin He. cbn [subtrees] in Hin. destruct Hin as [<-|Hin]; [now apply tfind_root|].
  apply in_flat_map in Hin as (ch & Hch & Hx).
  destruct (in_split _ _ Hch) as (l & r & ->).
  destruct (distinct_split i n l ch r ND) as (NDch & D).
  assert (Cch : contains ch id = true) by (eapply sub_contains; [exact Hx | now apply id_eq_contains]).
  destruct (D id Cch) as (Hi & Hl & _).
  cbn [tfind]. rewrite id_eq_T, Hi. rewrite find_map_app_none.
  - cbn [find_map]. rewrite Forall_forall in IH. rewrite (IH ch Hch x NDch Hx He). reflexivity.
  - eapply Forall_impl; [|exact Hl]. intros t Ht. now apply tfind_notin.
Qed.

Lemma distinct_sub : forall t x, NoDup (some_ids t) -> In x (subtrees t) -> NoDup (some_ids x).
Proof.
  apply (tree_ind' (fun t => forall x, NoDup (some_ids t) -> In x (subtrees t) -> NoDup (some_ids x))).
  intros i n c IH x ND Hin. cbn [subtrees] in Hin. destruct Hin as [<-|Hin]; [exact ND|].
  apply in_flat_map in Hin as (ch & Hch & Hx). destruct (in_split _ _ Hch) as (l & r & ->).
  destruct (distinct_split i n l ch r ND) as (NDch & _). rewrite Forall_forall in IH. eapply IH; eauto.
Qed.

(* ---------- the surrounding-id searches, unfolded ---------------------------------------------- *)

Definition first_with (id : nat) (c : list tree) : option tree := find (fun ch => contains ch id) c.

Lemma gss_T id i n c :
  get_surrounding_section_id id (T i n c) =
  if node_is_section n && existsb (fun ch => id_eq ch id) c then i
  else match first_with id c with Some ch => get_surrounding_section_id id ch | None => None end.
Proof.
  cbn [get_surrounding_section_id]. destruct (node_is_section n && existsb (fun ch => id_eq ch id) c); [reflexivity|].
  unfold first_with. induction c as [|a c IH]; [reflexivity|]. cbn [find]. destruct (contains a id); [reflexivity|exact IH].
Qed.

Lemma gsl_T id i n c :
  get_surrounding_list_id id (T i n c) =
  if node_is_list n && existsb (fun ch => id_eq ch id) c then i
  else match first_with id c with Some ch => get_surrounding_list_id id ch | None => None end.
Proof.
  cbn [get_surrounding_list_id]. destruct (node_is_list n && existsb (fun ch => id_eq ch id) c); [reflexivity|].
  unfold first_with. induction c as [|a c IH]; [reflexivity|]. cbn [find]. destruct (contains a id); [reflexivity|exact IH].
Qed.

Lemma gtl_T id i n c :
  get_top_level_surrounding_list_id id (T i n c) =
  if contains (T i n c) id && node_is_list n then i
  else match first_with id c with Some ch => get_top_level_surrounding_list_id id ch | None => None end.
Proof.
  cbn [get_top_level_surrounding_list_id]. destruct (contains (T i n c) id && node_is_list n); [reflexivity|].
  unfold first_with. induction c as [|a c IH]; [reflexivity|]. cbn [find]. destruct (contains a id); [reflexivity|exact IH].
Qed.

Lemma first_with_split id c ch : first_with id c = Some ch ->
  exists l r, c = l ++ ch :: r /\ contains ch id = true.
Proof.
  unfold first_with. induction c as [|a c IH]; cbn [find]; [discriminate|].
  destruct (contains a id) eqn:E.
  - intros H. inversion H; subst. exists [], c. split; [reflexivity|exact E].
  - intros H. destruct (IH H) as (l & r & -> & Hc). exists (a :: l), r. split; [reflexivity|exact Hc].
Qed.

(* the id a search returns is the id of a node of the tree, and the target is in the tree *)
Lemma gss_in id p : forall t, get_surrounding_section_id id t = Some p ->
  contains t p = true /\ contains t id = true.
Proof.
  apply (tree_ind' (fun t => get_surrounding_section_id id t = Some p -> contains t p = true /\ contains t id = true)).
  intros i n c IH H. rewrite gss_T in H.
  destruct (node_is_section n && existsb (fun ch => id_eq ch id) c) eqn:E.
  - apply andb_true_iff in E as [_ E]. subst i. split.
    + rewrite contains_T. cbn [oid_is]. now rewrite Nat.eqb_refl.
    + apply (parent_of_contains (T (Some p) n c) id E).
  - destruct (first_with id c) as [ch|] eqn:F; [|discriminate].
    destruct (first_with_split id c ch F) as (l & r & -> & Hc). rewrite Forall_forall in IH.
    assert (Hin : In ch (l ++ ch :: r)) by (apply in_or_app; right; now left).
    destruct (IH ch Hin H) as [Hp Hid]. split; eapply contains_child; eauto.
Qed.

Lemma gsl_in id p : forall t, get_surrounding_list_id id t = Some p ->
  contains t p = true /\ contains t id = true.
Proof.
  apply (tree_ind' (fun t => get_surrounding_list_id id t = Some p -> contains t p = true /\ contains t id = true)).
  intros i n c IH H. rewrite gsl_T in H.
  destruct (node_is_list n && existsb (fun ch => id_eq ch id) c) eqn:E.
  - apply andb_true_iff in E as [_ E]. subst i. split.
    + rewrite contains_T. cbn [oid_is]. now rewrite Nat.eqb_refl.
    + apply (parent_of_contains (T (Some p) n c) id E).
  - destruct (first_with id c) as [ch|] eqn:F; [|discriminate].
    destruct (first_with_split id c ch F) as (l & r & -> & Hc). rewrite Forall_forall in IH.
    assert (Hin : In ch (l ++ ch :: r)) by (apply in_or_app; right; now left).
    destruct (IH ch Hin H) as [Hp Hid]. split; eapply contains_child; eauto.
Qed.

(* ---------- SectionExtract: extract_rec finds its node ----------------------------------------- *)

Lemma extract_rec_total e p k : forall t,
  NoDup (some_ids t) -> get_surrounding_section_id e t = Some p ->
  exists u, extract_rec e p k t = Ok u.
Proof.
  apply (tree_ind' (fun t => NoDup (some_ids t) -> get_surrounding_section_id e t = Some p ->
                             exists u, extract_rec e p k t = Ok u)).
  intros i n c IH ND H. destruct (gss_in e p _ H) as [_ Ce].
  cbn [extract_rec]. destruct (id_eq (T i n c) p) eqn:Ep.
  - destruct (contains_tfind e _ Ce) as (x & ->). eauto.
  - rewrite gss_T in H. rewrite id_eq_T in Ep.
    destruct (node_is_section n && existsb (fun ch => id_eq ch e) c).
    { subst i. cbn [oid_is] in Ep. rewrite Nat.eqb_refl in Ep. discriminate. }
    destruct (first_with e c) as [ch|] eqn:F; [|discriminate].
    destruct (first_with_split e c ch F) as (l & r & -> & Hc).
    destruct (distinct_split i n l ch r ND) as (NDch & D).
    destruct (gss_in e p _ H) as [Cp _]. destruct (D p Cp) as (_ & Hl & Hr).
    rewrite Forall_forall in IH.
    assert (Hin : In ch (l ++ ch :: r)) by (apply in_or_app; right; now left).
    destruct (IH ch Hin NDch H) as (u & Hu).
    rewrite (fold_ok_middle (fun ch => extract_rec e p k ch) l ch u r); [cbn [bind]; eauto| | |exact Hu];
      (eapply Forall_impl; [|eassumption]); intros t Ht; now apply extract_rec_notin.
Qed.

(* ---------- is_header: the node is a section ---------------------------------------------------- *)

Lemma header_sub id : forall t, tree_is_header id t = true ->
  exists x, In x (subtrees t) /\ id_eq x id = true /\ is_section x = true.
Proof.
  apply (tree_ind' (fun t => tree_is_header id t = true ->
           exists x, In x (subtrees t) /\ id_eq x id = true /\ is_section x = true)).
  intros i n c IH H. cbn [tree_is_header] in H.
  destruct (node_is_section n && id_eq (T i n c) id) eqn:E.
  - apply andb_true_iff in E as [Es Ei]. exists (T i n c). repeat split; [apply sub_refl|exact Ei|exact Es].
  - destruct (node_is_list n); [discriminate|].
    apply existsb_exists in H as (ch & Hch & Hh). rewrite Forall_forall in IH.
    destruct (IH ch Hch Hh) as (x & Hx & He & Hs). exists x. repeat split; [|exact He|exact Hs].
    eapply sub_trans; [apply (sub_child i n c ch Hch)|exact Hx].
Qed.

Lemma header_contains id t : tree_is_header id t = true -> contains t id = true.
Proof.
  intros H. destruct (header_sub id t H) as (x & Hx & He & _).
  eapply sub_contains; [exact Hx | now apply id_eq_contains].
Qed.

(* ---------- SubSectionsExtract ------------------------------------------------------------------ *)

Definition opt_ids (l : list (option nat)) : list nat :=
  flat_map (fun o => match o with Some i => [i] | None => [] end) l.

Lemma sub_ids_filter (c : list tree) :
  flat_map (fun ch => if is_section ch then [t_id ch] else []) c = map t_id (filter is_section c).
Proof.
  induction c as [|a c IH]; [reflexivity|]. cbn [flat_map filter]. destruct (is_section a); cbn [app map]; now rewrite IH.
Qed.

Lemma existsb_none_forallb (l : list tree) :
  existsb (fun o : option nat => match o with None => true | Some _ => false end) (map t_id l)
  = negb (forallb (fun ch => is_some (t_id ch)) l).
Proof.
  induction l as [|a l IH]; [reflexivity|]. cbn [map existsb forallb]. rewrite IH.
  destruct (t_id a); reflexivity.
Qed.

Lemma opt_ids_all_some (l : list tree) :
  forallb (fun ch => is_some (t_id ch)) l = true -> map Some (opt_ids (map t_id l)) = map t_id l.
Proof.
  induction l as [|a l IH]; [reflexivity|]. cbn [forallb map]. intros H. apply andb_true_iff in H as [Ha Hl].
  unfold opt_ids in *. cbn [flat_map]. destruct (t_id a); [|discriminate]. cbn [app map]. now rewrite IH.
Qed.

Lemma opt_ids_length (l : list tree) :
  forallb (fun ch => is_some (t_id ch)) l = true -> length (opt_ids (map t_id l)) = length l.
Proof.
  intros H. apply opt_ids_all_some in H. apply (f_equal (@length _)) in H. now rewrite !map_length in H.
Qed.

Lemma opt_ids_in (l : list tree) sid : In sid (opt_ids (map t_id l)) -> exists ch, In ch l /\ id_eq ch sid = true.
Proof.
  unfold opt_ids. intros H. apply in_flat_map in H as (o & Ho & Hs). apply in_map_iff in Ho as (ch & <- & Hch).
  exists ch. split; [exact Hch|]. unfold id_eq. destruct (t_id ch); [|destruct Hs].
  destruct Hs as [->|[]]. apply Nat.eqb_refl.
Qed.

Definition kg_after (kg : keygen) (n : nat) : keygen :=
  match kg with KSeq => KSeq | KRand d => KRand (skipn n d) end.

(* the keys the next [n] calls of random_key return: sequential mode returns the same key every
   time (the notes are created by the client afterwards, finding F11); random mode the oracle's *)
Definition kg_draws (cx : actx) (kg : keygen) (parent : string) (n : nat) : list string :=
  match kg with
  | KSeq => repeat (from_rel_link_url (dec (cx_nkeys cx + 1)) parent) n
  | KRand d => firstn n d
  end.

Lemma random_key_has cx kg parent : kg_has kg 1 = true ->
  exists nk, kg_draws cx kg parent 1 = [nk] /\ random_key cx kg parent = Ok (nk, kg_after kg 1).
Proof.
  destruct kg as [|[|k d]]; cbn [kg_has length Nat.leb random_key kg_after skipn kg_draws repeat firstn]; intros H.
  - eauto.
  - discriminate.
  - eauto.
Qed.

Lemma kg_has_S cx kg parent n : kg_has kg (S n) = true ->
  kg_has kg 1 = true /\ kg_has (kg_after kg 1) n = true /\
  kg_draws cx kg parent (S n) = kg_draws cx kg parent 1 ++ kg_draws cx (kg_after kg 1) parent n.
Proof.
  destruct kg as [|[|k d]]; cbn [kg_has kg_after skipn length kg_draws repeat firstn app]; intros H.
  - auto.
  - discriminate.
  - split; [reflexivity|]. split; [|reflexivity]. apply Nat.leb_le in H. apply Nat.leb_le. lia.
Qed.

Lemma kg_draws_length cx kg parent n : kg_has kg n = true -> length (kg_draws cx kg parent n) = n.
Proof.
  destruct kg as [|d]; cbn [kg_has kg_draws]; intros H; [apply repeat_length|].
  apply Nat.leb_le in H. rewrite firstn_length. lia.
Qed.

(* the change list of the sub-sections: Create k; Update k s for each, in order *)
Definition sub_changes (l : list (string * tree)) : list change :=
  flat_map (fun p => [Create (fst p); Update (fst p) (key_parent (fst p)) (snd p)]) l.

Lemma sub_extract_total cx parent x : forall ids kg,
  (forall sid, In sid ids -> contains x sid = true) -> kg_has kg (length ids) = true ->
  exists subs,
    let keys := kg_draws cx kg parent (length ids) in
    map Some subs = map (fun sid => tfind sid x) ids /\
    sub_extract cx kg parent x ids =
      Ok (combine ids (combine keys (map (fun s => node_plain_text (t_node s)) subs)),
          sub_changes (combine keys subs)).
Proof.
  induction ids as [|sid r IH]; intros kg Hin Hkg.
  - exists []. destruct kg; split; reflexivity.
  - cbn [length] in Hkg. apply (kg_has_S cx kg parent) in Hkg as (H1 & Hr & Hd).
    destruct (random_key_has cx kg parent H1) as (nk & Hd1 & Hnk).
    destruct (contains_tfind sid x (Hin sid (or_introl eq_refl))) as (s & Hs).
    destruct (IH (kg_after kg 1) (fun y Hy => Hin y (or_intror Hy)) Hr) as (subs & Hsubs & Hrec).
    exists (s :: subs). cbv zeta. split.
    + cbn [map]. now rewrite Hs, Hsubs.
    + cbn [length]. rewrite Hd, Hd1. cbn [app].
      cbn [sub_extract]. rewrite Hnk. cbn [bind]. rewrite Hs, Hrec. cbn [bind fst snd]. reflexivity.
Qed.

(* ---------- the shapes -------------------------------------------------------------------------- *)

(* exact: which trees and keys the change list is made of *)
Definition offer_shape (cx : actx) (k : akind) (kg : keygen) (key : string) (tree : tree) (target : nat)
    (l : list change) : Prop :=
  let parent := key_parent key in
  match k with
  | SectionExtract =>
      exists p nk sub upd,
        get_surrounding_section_id target tree = Some p /\
        kg_draws cx kg parent 1 = [nk] /\
        tfind target tree = Some sub /\ is_section sub = true /\
        extract_rec target p nk tree = Ok upd /\
        l = [Create nk; Update nk (key_parent nk) sub; Update key parent upd]
  | SubSectionsExtract =>
      exists x ids,
        tfind target tree = Some x /\ is_section x = true /\
        let subs := filter is_section (t_children x) in
        let keys := kg_draws cx kg parent (length subs) in
        subs <> [] /\ map Some ids = map t_id subs /\ length keys = length subs /\
        l = sub_changes (combine keys subs) ++
            [Update key parent
               (extract_sections (combine ids (combine keys (map (fun s => node_plain_text (t_node s)) subs))) tree)]
  | InlineSection =>
      exists x sid inl,
        tfind target tree = Some x /\ is_reference x = true /\
        get_surrounding_section_id target tree = Some sid /\
        cx_collect cx (reference_key tree target) = Ok inl /\
        reference_key tree target <> key /\
        l = [Remove (reference_key tree target);
             Update key parent (append_pre_header sid inl (remove_node target tree))]
  | InlineQuote =>
      exists x inl,
        tfind target tree = Some x /\ is_reference x = true /\
        cx_collect cx (reference_key tree target) = Ok inl /\
        reference_key tree target <> key /\
        l = [Remove (reference_key tree target);
             Update key parent (replace target (T None NQuote (t_children inl)) tree)]
  | SectionToList =>
      tree_is_header target tree = true /\ l = [Update key parent (wrap_into_list target tree)]
  | ListToSections =>
      exists scope, get_top_level_surrounding_list_id target tree = Some scope /\
                    l = [Update key parent (unwrap_list scope tree)]
  | ListChangeType =>
      exists scope, get_surrounding_list_id target tree = Some scope /\
                    l = [Update key parent (change_list_type scope tree)]
  end.

(* coarse, decidable: the documented shape per kind *)
Fixpoint creates_then_update (key : string) (l : list change) : bool :=
  match l with
  | [Update k p _] => String.eqb k key && String.eqb p (key_parent key)
  | Create k :: Update k' p' _ :: r =>
      String.eqb k k' && String.eqb p' (key_parent k) && creates_then_update key r
  | _ => false
  end.

Definition shape_b (k : akind) (key : string) (l : list change) : bool :=
  match k with
  | SectionExtract => creates_then_update key l && Nat.eqb (length l) 3
  | SubSectionsExtract => creates_then_update key l && Nat.leb 3 (length l)
  | InlineSection | InlineQuote =>
      match l with
      | [Remove a; Update b p _] => negb (String.eqb a key) && String.eqb b key && String.eqb p (key_parent key)
      | _ => false
      end
  | SectionToList | ListToSections | ListChangeType =>
      match l with
      | [Update b p _] => String.eqb b key && String.eqb p (key_parent key)
      | _ => false
      end
  end.

(* the statement to be proved, as a boolean, for testing on concrete libraries *)
Definition offered_resolves_b (cx : actx) (k : akind) (kg : keygen) (target : nat) : bool :=
  match action cx k target with
  | Ok (Some _) =>
      match cx_key_of cx target, handle_resolve cx k kg target with
      | Ok key, Ok l => shape_b k key l
      | _, _ => false
      end
  | _ => true
  end.

Definition all_kinds : list akind :=
  [SectionExtract; SubSectionsExtract; InlineSection; InlineQuote; SectionToList; ListToSections; ListChangeType].

Module Tests.
  Definition leaf (i : nat) (s : string) : tree := T (Some i) (NLeaf [Str s]) [].
  Definition sec (i : nat) (s : string) (c : list tree) : tree := T (Some i) (NSection [Str s]) c.
  Definition rf (i : nat) (k : string) : tree := T (Some i) (NRef k "t" Regular) [].
  Definition note_a : tree :=
    T (Some 0) (NDocument "a")
      [sec 1 "A" [leaf 2 "p"; rf 3 "d/b"; rf 4 "a"; rf 5 "zz";
                  T (Some 6) NBList [sec 7 "i1" [T (Some 8) NOList [sec 9 "i2" [rf 15 "d/b"]]]];
                  sec 10 "B" [sec 11 "C" [rf 12 "d/b"]; sec 13 "D" []]];
       rf 14 "d/b"].
  Definition note_b : tree := T (Some 20) (NDocument "d/b") [sec 21 "X" [leaf 22 "q"; sec 23 "Y" []]].
  Definition lib : actx :=
    ACtx (fun id => if Nat.ltb id 20 then Ok "a" else if Nat.ltb id 30 then Ok "d/b" else Panic "arena index out of bounds")
         (fun k => if String.eqb k "a" then Ok note_a else if String.eqb k "d/b" then Ok note_b else Panic "to have key")
         (fun k => String.eqb k "a" || String.eqb k "d/b")
         2.
  Definition offers (cx : actx) (n : nat) : list (akind * nat) :=
    flat_map (fun k => flat_map (fun id => match action cx k id with Ok (Some _) => [(k, id)] | _ => [] end) (seq 0 n)) all_kinds.
End Tests.

(* ---------- helper facts for the shapes --------------------------------------------------------- *)

Lemma creates_then_update_sub key parent upd (l : list (string * tree)) :
  parent = key_parent key ->
  creates_then_update key (sub_changes l ++ [Update key parent upd]) = true.
Proof.
  intros ->. induction l as [|[k s] l IH].
  - cbn. now rewrite !String.eqb_refl.
  - change (sub_changes ((k, s) :: l)) with (Create k :: Update k (key_parent k) s :: sub_changes l).
    cbn [app creates_then_update]. now rewrite !String.eqb_refl, IH.
Qed.

Lemma sub_changes_length (l : list (string * tree)) : length (sub_changes l) = 2 * length l.
Proof.
  induction l as [|p l IH]; [reflexivity|].
  change (sub_changes (p :: l)) with (Create (fst p) :: Update (fst p) (key_parent (fst p)) (snd p) :: sub_changes l).
  cbn [length]. rewrite IH. lia.
Qed.

(* under distinct ids the sub-sections found by id are the section children themselves *)
Lemma tfind_children x ids (subs : list tree) :
  NoDup (some_ids x) -> (forall s, In s subs -> In s (t_children x)) ->
  map Some ids = map t_id subs ->
  map (fun sid => tfind sid x) ids = map Some subs.
Proof.
  intros ND. revert ids. induction subs as [|s subs IH]; intros [|sid ids] Hin Hm; try discriminate; [reflexivity|].
  cbn [map] in *. inversion Hm as [[Hs Hr]]. f_equal.
  - destruct x as [i n c]. apply tfind_unique; [exact ND| |].
    + apply sub_child. apply Hin. now left.
    + unfold id_eq. rewrite <- Hs. apply Nat.eqb_refl.
  - apply IH; [|exact Hr]. intros y Hy. apply Hin. now right.
Qed.

Lemma map_some_inj {A} (l l' : list A) : map Some l = map Some l' -> l = l'.
Proof.
  revert l'. induction l as [|a l IH]; intros [|b l'] H; try discriminate; [reflexivity|].
  cbn [map] in H. inversion H. f_equal. now apply IH.
Qed.

(* ---------- the theorems ------------------------------------------------------------------------ *)

Section Offered.
  Variable cx : actx.
  Variables (target : nat) (key : string) (tree : Ast.tree).
  Hypothesis Hkey : cx_key_of cx target = Ok key.
  Hypothesis Hcol : cx_collect cx key = Ok tree.

  Ltac open_ctx :=
    unfold handle_resolve, changes, action, ctx_collect in *;
    rewrite ?Hkey in *; cbn [bind] in *; rewrite ?Hcol in *; cbn [bind] in *.

  (* SectionExtract *)
  Lemma resolve_section_extract kg title :
    ids_distinct tree = true -> kg_has kg 1 = true ->
    action cx SectionExtract target = Ok (Some title) ->
    exists l, handle_resolve cx SectionExtract kg target = Ok l /\
              offer_shape cx SectionExtract kg key tree target l.
  Proof.
    intros ND Hkg Ha. apply nodupb_spec in ND. open_ctx.
    destruct (get_surrounding_section_id target tree) as [p|] eqn:G; [|discriminate].
    destruct (tree_is_header target tree) eqn:Hh; [|discriminate].
    destruct (random_key_has cx kg (key_parent key) Hkg) as (nk & Hd & Hnk). rewrite Hnk. cbn [bind fst].
    destruct (extract_rec_total target p nk tree ND G) as (upd & Hu). rewrite Hu. cbn [bind].
    destruct (header_sub target tree Hh) as (x & Hx & He & Hs).
    pose proof (tfind_unique target tree x ND Hx He) as Hf.
    unfold tget. rewrite Hf. cbn [bind].
    eexists. split; [reflexivity|]. cbn [offer_shape]. exists p, nk, x, upd. repeat split; assumption.
  Qed.

  (* SubSectionsExtract: totality needs only the ids of the section children *)
  Lemma resolve_subsections kg title :
    sub_ids_some tree target = true -> kg_has kg (length (sub_sections tree target)) = true ->
    action cx SubSectionsExtract target = Ok (Some title) ->
    exists x ids subs',
      tfind target tree = Some x /\ is_section x = true /\
      let subs := filter is_section (t_children x) in
      let keys := kg_draws cx kg (key_parent key) (length subs) in
      subs <> [] /\ map Some ids = map t_id subs /\ length keys = length subs /\
      map Some subs' = map (fun sid => tfind sid x) ids /\
      handle_resolve cx SubSectionsExtract kg target =
        Ok (sub_changes (combine keys subs') ++
            [Update key (key_parent key)
               (extract_sections (combine ids (combine keys (map (fun s => node_plain_text (t_node s)) subs'))) tree)]).
  Proof.
    intros Hids Hkg Ha. unfold sub_ids_some, sub_sections in *. open_ctx.
    destruct (tfind target tree) as [x|] eqn:Hf; [|discriminate].
    destruct (is_section x && existsb is_section (t_children x)) eqn:E; [|discriminate].
    apply andb_true_iff in E as [Es Ex].
    rewrite sub_ids_filter, existsb_none_forallb, Hids. cbn [negb].
    set (subs := filter is_section (t_children x)) in *.
    fold (opt_ids (map t_id subs)).
    assert (Hlen : length (opt_ids (map t_id subs)) = length subs) by now apply opt_ids_length.
    destruct (sub_extract_total cx (key_parent key) x (opt_ids (map t_id subs)) kg) as (subs' & Hs' & Hrec).
    { intros sid Hsid. apply opt_ids_in in Hsid as (ch & Hch & He).
      apply filter_In in Hch as [Hch _]. destruct x as [i n c]. cbn [t_children] in Hch.
      eapply contains_child; [exact Hch | now apply id_eq_contains]. }
    { now rewrite Hlen. }
    cbv zeta in Hrec. rewrite Hlen in Hrec. rewrite Hrec. cbn [bind fst snd].
    exists x, (opt_ids (map t_id subs)), subs'. cbv zeta. repeat split; try assumption.
    - intros Hnil. apply existsb_exists in Ex as (ch & Hch & Hsec).
      assert (In ch subs) as Hin by (apply filter_In; split; assumption).
      change (subs = []) in Hnil. rewrite Hnil in Hin. destruct Hin.
    - now apply opt_ids_all_some.
    - apply kg_draws_length. exact Hkg.
  Qed.

  Lemma resolve_inline_section kg title :
    (cx_exists cx (reference_key tree target) = true -> is_ok (cx_collect cx (reference_key tree target)) = true) ->
    action cx InlineSection target = Ok (Some title) ->
    exists l, handle_resolve cx InlineSection kg target = Ok l /\
              offer_shape cx InlineSection kg key tree target l.
  Proof.
    intros Hex Ha. open_ctx. unfold tget in *.
    destruct (tfind target tree) as [x|] eqn:Hf; [|discriminate]. cbn [bind] in *.
    destruct (is_reference x) eqn:Hr; [|discriminate]. cbn [andb] in Ha.
    unfold can_inline in Ha.
    destruct (String.eqb (reference_key tree target) key) eqn:Ek; [discriminate|]. cbn [negb andb] in Ha.
    destruct (cx_exists cx (reference_key tree target)) eqn:Ee; [|discriminate]. cbn [andb] in Ha.
    destruct (get_surrounding_section_id target tree) as [sid|] eqn:G; [|discriminate].
    specialize (Hex eq_refl). destruct (cx_collect cx (reference_key tree target)) as [inl|] eqn:Hc; [|discriminate].
    cbn [bind]. eexists. split; [reflexivity|]. cbn [offer_shape]. exists x, sid, inl.
    repeat split; try assumption. now apply String.eqb_neq.
  Qed.

  Lemma resolve_inline_quote kg title :
    (cx_exists cx (reference_key tree target) = true -> is_ok (cx_collect cx (reference_key tree target)) = true) ->
    action cx InlineQuote target = Ok (Some title) ->
    exists l, handle_resolve cx InlineQuote kg target = Ok l /\
              offer_shape cx InlineQuote kg key tree target l.
  Proof.
    intros Hex Ha. open_ctx. unfold tget in *.
    destruct (tfind target tree) as [x|] eqn:Hf; [|discriminate]. cbn [bind] in *.
    destruct (is_reference x) eqn:Hr; [|discriminate]. cbn [andb] in Ha.
    unfold can_inline in Ha.
    destruct (String.eqb (reference_key tree target) key) eqn:Ek; [discriminate|]. cbn [negb andb] in Ha.
    destruct (cx_exists cx (reference_key tree target)) eqn:Ee; [|discriminate].
    specialize (Hex eq_refl). destruct (cx_collect cx (reference_key tree target)) as [inl|] eqn:Hc; [|discriminate].
    cbn [bind]. eexists. split; [reflexivity|]. cbn [offer_shape]. exists x, inl.
    repeat split; try assumption. now apply String.eqb_neq.
  Qed.

  Lemma resolve_conversions k kg title :
    k = SectionToList \/ k = ListToSections \/ k = ListChangeType ->
    action cx k target = Ok (Some title) ->
    exists l, handle_resolve cx k kg target = Ok l /\ offer_shape cx k kg key tree target l.
  Proof.
    intros [->|[->| ->]] Ha; open_ctx.
    - destruct (tree_is_header target tree) eqn:Hh; [|discriminate].
      eexists. split; [reflexivity|]. cbn [offer_shape]. split; [exact Hh|reflexivity].
    - destruct (get_top_level_surrounding_list_id target tree) as [scope|] eqn:G; [|discriminate].
      eexists. split; [reflexivity|]. cbn [offer_shape]. exists scope. split; [exact G|reflexivity].
    - destruct (get_surrounding_list_id target tree) as [scope|] eqn:G; [|discriminate].
      eexists. split; [reflexivity|]. cbn [offer_shape]. exists scope. split; [exact G|reflexivity].
  Qed.

  (* the exact shape entails the coarse one *)
  Lemma offer_shape_b k kg l : offer_shape cx k kg key tree target l -> shape_b k key l = true.
  Proof.
    destruct k; cbn [offer_shape shape_b].
    - intros (p & nk & sub & upd & _ & _ & _ & _ & _ & ->). cbn. now rewrite !String.eqb_refl.
    - intros (x & ids & _ & _ & H). cbv zeta in H. destruct H as (Hne & _ & Hlen & ->).
      rewrite creates_then_update_sub by reflexivity. cbn [andb].
      rewrite app_length, sub_changes_length, combine_length, Hlen, Nat.min_id. cbn [length].
      destruct (filter is_section (t_children x)); [now destruct Hne|]. apply Nat.leb_le. cbn [length]. lia.
    - intros (x & sid & inl & _ & _ & _ & _ & Hne & ->). apply String.eqb_neq in Hne. now rewrite Hne, !String.eqb_refl.
    - intros (x & inl & _ & _ & _ & Hne & ->). apply String.eqb_neq in Hne. now rewrite Hne, !String.eqb_refl.
    - intros (_ & ->). now rewrite !String.eqb_refl.
    - intros (s & _ & ->). now rewrite !String.eqb_refl.
    - intros (s & _ & ->). now rewrite !String.eqb_refl.
  Qed.

  Lemma shape_b_nonempty k l : shape_b k key l = true -> l <> [].
  Proof. intros H ->. destruct k; discriminate. Qed.

  (* HEADLINE 1.  An offered action resolves to a non-empty edit of the documented shape;
     [kind_hyp] states what each kind needs. *)
  Theorem offered_resolves k kg title :
    kind_hyp cx k kg tree target ->
    action cx k target = Ok (Some title) ->
    exists l, handle_resolve cx k kg target = Ok l /\ l <> [] /\ shape_b k key l = true.
  Proof.
    intros Hyp Ha.
    assert (exists l, handle_resolve cx k kg target = Ok l /\ shape_b k key l = true) as (l & Hl & Hs).
    { destruct k; cbn [kind_hyp] in Hyp.
      - destruct Hyp as [ND Hkg]. destruct (resolve_section_extract kg title ND Hkg Ha) as (l & Hl & Hs).
        exists l. split; [exact Hl | eapply offer_shape_b; exact Hs].
      - destruct Hyp as [Hids Hkg].
        destruct (resolve_subsections kg title Hids Hkg Ha) as (x & ids & subs' & Hf & Hsec & H).
        cbv zeta in H. destruct H as (Hne & Hm & Hlen & Hs' & Hr).
        eexists. split; [exact Hr|]. cbn [shape_b]. rewrite creates_then_update_sub by reflexivity. cbn [andb].
        assert (length subs' = length (filter is_section (t_children x))) as Hl'.
        { apply (f_equal (@length _)) in Hs'. apply (f_equal (@length _)) in Hm. rewrite !map_length in *. congruence. }
        rewrite app_length, sub_changes_length, combine_length, Hlen, Hl', Nat.min_id. cbn [length].
        destruct (filter is_section (t_children x)); [now destruct Hne|]. apply Nat.leb_le. cbn [length]. lia.
      - destruct (resolve_inline_section kg title Hyp Ha) as (l & Hl & Hs).
        exists l. split; [exact Hl | eapply offer_shape_b; exact Hs].
      - destruct (resolve_inline_quote kg title Hyp Ha) as (l & Hl & Hs).
        exists l. split; [exact Hl | eapply offer_shape_b; exact Hs].
      - destruct (resolve_conversions SectionToList kg title (or_introl eq_refl) Ha) as (l & Hl & Hs).
        exists l. split; [exact Hl | eapply offer_shape_b; exact Hs].
      - destruct (resolve_conversions ListToSections kg title (or_intror (or_introl eq_refl)) Ha) as (l & Hl & Hs).
        exists l. split; [exact Hl | eapply offer_shape_b; exact Hs].
      - destruct (resolve_conversions ListChangeType kg title (or_intror (or_intror eq_refl)) Ha) as (l & Hl & Hs).
        exists l. split; [exact Hl | eapply offer_shape_b; exact Hs]. }
    exists l. repeat split; [exact Hl | eapply shape_b_nonempty; exact Hs | exact Hs].
  Qed.

  (* HEADLINE 2.  With distinct ids the change list is exactly this one. *)
  Theorem offered_shape k kg title l :
    ids_distinct tree = true -> kind_hyp cx k kg tree target ->
    action cx k target = Ok (Some title) ->
    handle_resolve cx k kg target = Ok l ->
    offer_shape cx k kg key tree target l.
  Proof.
    intros ND Hyp Ha Hr.
    assert (exists l', handle_resolve cx k kg target = Ok l' /\ offer_shape cx k kg key tree target l') as (l' & Hl & Hs).
    { destruct k; cbn [kind_hyp] in Hyp.
      - destruct Hyp as [_ Hkg]. exact (resolve_section_extract kg title ND Hkg Ha).
      - destruct Hyp as [Hids Hkg].
        destruct (resolve_subsections kg title Hids Hkg Ha) as (x & ids & subs' & Hf & Hsec & H).
        cbv zeta in H. destruct H as (Hne & Hm & Hlen & Hs' & Hr').
        assert (subs' = filter is_section (t_children x)) as ->.
        { apply map_some_inj. rewrite Hs'. apply tfind_children; [| |exact Hm].
          - apply nodupb_spec in ND. eapply distinct_sub; [exact ND|]. apply (tfind_sub target tree x Hf).
          - intros s Hin. apply filter_In in Hin. tauto. }
        eexists. split; [exact Hr'|]. cbn [offer_shape]. exists x, ids. cbv zeta. repeat split; assumption.
      - exact (resolve_inline_section kg title Hyp Ha).
      - exact (resolve_inline_quote kg title Hyp Ha).
      - exact (resolve_conversions SectionToList kg title (or_introl eq_refl) Ha).
      - exact (resolve_conversions ListToSections kg title (or_intror (or_introl eq_refl)) Ha).
      - exact (resolve_conversions ListChangeType kg title (or_intror (or_intror eq_refl)) Ha). }
    rewrite Hr in Hl. inversion Hl. subst l'. exact Hs.
  Qed.
End Offered.

(* ---------- uniform hypotheses (what holds for graph_ctx of a well-formed library) --------------- *)

Lemma all_some_sub : forall t x, all_some t = true -> In x (subtrees t) -> all_some x = true.
Proof.
  apply (tree_ind' (fun t => forall x, all_some t = true -> In x (subtrees t) -> all_some x = true)).
  intros i n c IH x H Hin. cbn [subtrees] in Hin. destruct Hin as [<-|Hin]; [exact H|].
  cbn [all_some] in H. apply andb_true_iff in H as [_ H]. rewrite forallb_forall in H.
  apply in_flat_map in Hin as (ch & Hch & Hx). rewrite Forall_forall in IH. eapply IH; eauto.
Qed.

Lemma all_some_sub_ids tree target : all_some tree = true -> sub_ids_some tree target = true.
Proof.
  intros H. unfold sub_ids_some, sub_sections. destruct (tfind target tree) as [x|] eqn:Hf; [|reflexivity].
  apply forallb_forall. intros ch Hch. apply filter_In in Hch as [Hch _].
  destruct (tfind_sub target tree x Hf) as [Hx _]. destruct x as [i n c]. cbn [t_children] in Hch.
  assert (all_some ch = true) as Hs.
  { eapply all_some_sub; [exact H|]. eapply sub_trans; [exact Hx | now apply sub_child]. }
  destruct ch as [[j|] m k]; [reflexivity | discriminate].
Qed.

Lemma kind_hyp_uniform cx k kg tree target :
  ids_ok tree = true ->
  (forall k', cx_exists cx k' = true -> exists t', cx_collect cx k' = Ok t') ->
  kg_has kg (draws_needed k tree target) = true ->
  kind_hyp cx k kg tree target.
Proof.
  intros Hids Hex Hkg. unfold ids_ok in Hids. apply andb_true_iff in Hids as [Hall Hd].
  destruct k; cbn [kind_hyp draws_needed] in *; auto.
  - split; [now apply all_some_sub_ids | exact Hkg].
  - intros E. destruct (Hex _ E) as (t' & ->). reflexivity.
  - intros E. destruct (Hex _ E) as (t' & ->). reflexivity.
Qed.

(* HEADLINE, as one statement over the seven kinds *)
Theorem C09_offered_resolves :
  forall (cx : actx) (k : akind) (kg : keygen) (target : nat) (key : string) (tree : tree) (title : string),
    cx_key_of cx target = Ok key ->
    cx_collect cx key = Ok tree ->
    ids_ok tree = true ->
    (forall k', cx_exists cx k' = true -> exists t', cx_collect cx k' = Ok t') ->
    kg_has kg (draws_needed k tree target) = true ->
    action cx k target = Ok (Some title) ->
    exists l, handle_resolve cx k kg target = Ok l /\ l <> [] /\ shape_b k key l = true.
Proof.
  intros cx k kg target key tree title Hkey Hcol Hids Hex Hkg Ha.
  eapply offered_resolves; eauto using kind_hyp_uniform.
Qed.
Print Assumptions C09_offered_resolves.

(* the same with the hypotheses each kind really uses *)
Theorem C09_offered_resolves_kind :
  forall (cx : actx) (k : akind) (kg : keygen) (target : nat) (key : string) (tree : tree) (title : string),
    cx_key_of cx target = Ok key ->
    cx_collect cx key = Ok tree ->
    kind_hyp cx k kg tree target ->
    action cx k target = Ok (Some title) ->
    exists l, handle_resolve cx k kg target = Ok l /\ l <> [] /\ shape_b k key l = true.
Proof. intros. eapply offered_resolves; eauto. Qed.
Print Assumptions C09_offered_resolves_kind.

Theorem C09_offer_shapes :
  forall (cx : actx) (k : akind) (kg : keygen) (target : nat) (key : string) (tree : tree) (title : string) (l : list change),
    cx_key_of cx target = Ok key ->
    cx_collect cx key = Ok tree ->
    ids_ok tree = true ->
    (forall k', cx_exists cx k' = true -> exists t', cx_collect cx k' = Ok t') ->
    kg_has kg (draws_needed k tree target) = true ->
    action cx k target = Ok (Some title) ->
    handle_resolve cx k kg target = Ok l ->
    offer_shape cx k kg key tree target l.
Proof.
  intros cx k kg target key tree title l Hkey Hcol Hids Hex Hkg Ha Hr.
  eapply offered_shape; eauto using kind_hyp_uniform.
  unfold ids_ok in Hids. now apply andb_true_iff in Hids as [_ Hd].
Qed.
Print Assumptions C09_offer_shapes.

(* ---------- the hypotheses are needed: witnesses ------------------------------------------------ *)

Module Witness.
  Import Tests.
  Definition one (t : tree) : actx :=
    ACtx (fun _ => Ok "a") (fun k => if String.eqb k "a" then Ok t else Panic "to have key") (fun k => String.eqb k "a") 1.

  (* two nodes with the same id: extract_rec stops at the first and does not find the section *)
  Definition dup : tree := T (Some 0) (NDocument "a") [sec 1 "a" [leaf 5 "x"]; sec 1 "b" [sec 2 "c" []]].
  (* a section child without id (never produced by Tree::from_pointer) *)
  Definition noid : tree := T (Some 0) (NDocument "a") [sec 1 "a" [leaf 5 "x"; T None (NSection [Str "q"]) []]].
  (* key_exists answers yes for a key that collect cannot produce (not a graph_ctx) *)
  Definition liar : actx :=
    ACtx (fun _ => Ok "a")
         (fun k => if String.eqb k "a" then Ok (T (Some 0) (NDocument "a") [sec 1 "a" [rf 2 "b"]]) else Panic "to have key")
         (fun _ => true) 1.
End Witness.

Lemma SectionExtract_duplicate_ids_refuted :
  exists cx key tree target title s,
    cx_key_of cx target = Ok key /\ cx_collect cx key = Ok tree /\
    all_some tree = true /\ ids_distinct tree = false /\
    action cx SectionExtract target = Ok (Some title) /\
    handle_resolve cx SectionExtract KSeq target = Panic s.
Proof. exists (Witness.one Witness.dup), "a", Witness.dup, 2. eexists. eexists. repeat split; vm_compute; reflexivity. Qed.

Lemma SubSectionsExtract_child_without_id_refuted :
  exists cx key tree target title s,
    cx_key_of cx target = Ok key /\ cx_collect cx key = Ok tree /\
    ids_distinct tree = true /\ sub_ids_some tree target = false /\
    action cx SubSectionsExtract target = Ok (Some title) /\
    handle_resolve cx SubSectionsExtract KSeq target = Panic s.
Proof. exists (Witness.one Witness.noid), "a", Witness.noid, 1. eexists. eexists. repeat split; vm_compute; reflexivity. Qed.

Lemma oracle_exhausted_refuted :
  exists cx key tree target title s,
    cx_key_of cx target = Ok key /\ cx_collect cx key = Ok tree /\ ids_ok tree = true /\
    draws_needed SubSectionsExtract tree target = 2 /\
    action cx SubSectionsExtract target = Ok (Some title) /\
    handle_resolve cx SubSectionsExtract (KRand ["n1"]) target = Panic s.
Proof. exists Tests.lib, "a", Tests.note_a, 10. eexists. eexists. repeat split; vm_compute; reflexivity. Qed.

Lemma inline_uncollectable_refuted :
  exists cx key tree target title s,
    cx_key_of cx target = Ok key /\ cx_collect cx key = Ok tree /\ ids_ok tree = true /\
    cx_exists cx (reference_key tree target) = true /\
    action cx InlineQuote target = Ok (Some title) /\
    handle_resolve cx InlineQuote KSeq target = Panic s.
Proof. exists Witness.liar, "a". eexists. exists 2. eexists. eexists. repeat split; vm_compute; reflexivity. Qed.

(* non-vacuity: a library with 27 offers over all seven kinds; every one resolves, both key modes *)
Example offers_nonvacuous :
  length (Tests.offers Tests.lib 32) = 27 /\
  map (fun k => existsb (fun o => match o, k with
                                  | (SectionExtract, _), SectionExtract | (SubSectionsExtract, _), SubSectionsExtract
                                  | (InlineSection, _), InlineSection | (InlineQuote, _), InlineQuote
                                  | (SectionToList, _), SectionToList | (ListToSections, _), ListToSections
                                  | (ListChangeType, _), ListChangeType => true
                                  | _, _ => false end) (Tests.offers Tests.lib 32)) all_kinds
    = [true; true; true; true; true; true; true] /\
  ids_ok Tests.note_a = true /\ ids_ok Tests.note_b = true /\
  forallb (fun k => forallb (fun id => offered_resolves_b Tests.lib k KSeq id) (seq 0 32)) all_kinds = true /\
  forallb (fun k => forallb (fun id => offered_resolves_b Tests.lib k (KRand ["n1"; "n2"]) id) (seq 0 32)) all_kinds = true.
Proof. repeat split; vm_compute; reflexivity. Qed.

(* ---------- `action` itself: the offer never panics on a node of the tree ------------------------ *)

(* ListChangeType's `tree.find(scope_id).map(..).unwrap()` (action.rs:465) and the `tree.get`
   of the two inline kinds (action.rs:544, 597) are the panic sites of `action`. *)
Theorem C09_action_total :
  forall (cx : actx) (k : akind) (target : nat) (key : string) (tree : tree),
    cx_key_of cx target = Ok key ->
    cx_collect cx key = Ok tree ->
    (k = InlineSection \/ k = InlineQuote -> contains tree target = true) ->
    exists o, action cx k target = Ok o.
Proof.
  intros cx k target key tree Hkey Hcol Hin. unfold action, ctx_collect. rewrite Hkey. cbn [bind]. rewrite Hcol. cbn [bind].
  destruct k; try (eexists; reflexivity).
  - destruct (contains_tfind target tree (Hin (or_introl eq_refl))) as (x & Hx). unfold tget. rewrite Hx. cbn [bind]. eauto.
  - destruct (contains_tfind target tree (Hin (or_intror eq_refl))) as (x & Hx). unfold tget. rewrite Hx. cbn [bind]. eauto.
  - destruct (get_surrounding_list_id target tree) as [scope|] eqn:G; [|eauto].
    destruct (gsl_in target scope tree G) as [Hs _]. destruct (contains_tfind scope tree Hs) as (x & ->). eauto.
Qed.
Print Assumptions C09_action_total.

(* and exactly there: outside the tree the inline kinds panic in `action` *)
Theorem action_panic_domain :
  forall (cx : actx) (k : akind) (target : nat) (key : string) (tree : tree),
    cx_key_of cx target = Ok key ->
    cx_collect cx key = Ok tree ->
    is_ok (action cx k target) =
    match k with InlineSection | InlineQuote => contains tree target | _ => true end.
Proof.
  intros cx k target key tree Hkey Hcol.
  assert (forall k', (k' = InlineSection \/ k' = InlineQuote -> contains tree target = true) -> is_ok (action cx k' target) = true) as Tot.
  { intros k' H. destruct (C09_action_total cx k' target key tree Hkey Hcol H) as (o & ->). reflexivity. }
  destruct k; try (apply Tot; intros [E|E]; discriminate);
    (destruct (contains tree target) eqn:C; [apply Tot; auto|]);
    unfold action, ctx_collect, tget; rewrite Hkey; cbn [bind]; rewrite Hcol; cbn [bind];
    rewrite (tfind_notin target tree C); reflexivity.
Qed.

(* ---------- C12: the exact domain on which handle_resolve answers -------------------------------- *)

Definition resolvable (cx : actx) (k : akind) (kg : keygen) (tree : tree) (target : nat) : bool :=
  match k with
  | SectionExtract =>
      is_some (get_surrounding_section_id target tree) && tree_is_header target tree && kg_has kg 1
  | SubSectionsExtract =>
      match tfind target tree with
      | Some x => is_section x && existsb is_section (t_children x) && sub_ids_some tree target
                  && kg_has kg (length (sub_sections tree target))
      | None => false
      end
  | InlineSection =>
      match tfind target tree with
      | Some x => is_reference x && is_some (get_surrounding_section_id target tree)
                  && is_ok (cx_collect cx (reference_key tree target))
      | None => false
      end
  | InlineQuote =>
      match tfind target tree with
      | Some x => is_reference x && is_ok (cx_collect cx (reference_key tree target))
      | None => false
      end
  | SectionToList => tree_is_header target tree
  | ListToSections => is_some (get_top_level_surrounding_list_id target tree)
  | ListChangeType => is_some (get_surrounding_list_id target tree)
  end.

Definition resolve_domain (cx : actx) (k : akind) (kg : keygen) (target : nat) : bool :=
  match cx_key_of cx target with
  | Ok key => match cx_collect cx key with Ok tree => resolvable cx k kg tree target | Panic _ => false end
  | Panic _ => false
  end.

Lemma random_key_short cx kg parent : kg_has kg 1 = false -> is_ok (random_key cx kg parent) = false.
Proof. destruct kg as [|[|k d]]; cbn; congruence. Qed.

Lemma sub_extract_ok cx parent x : forall ids kg,
  (forall sid, In sid ids -> contains x sid = true) ->
  is_ok (sub_extract cx kg parent x ids) = kg_has kg (length ids).
Proof.
  induction ids as [|sid r IH]; intros kg Hin.
  - destruct kg; reflexivity.
  - destruct (kg_has kg (length (sid :: r))) eqn:Hkg.
    + destruct (sub_extract_total cx parent x (sid :: r) kg Hin Hkg) as (subs & _ & ->). reflexivity.
    + cbn [sub_extract]. destruct kg as [|[|k d]]; [discriminate | reflexivity |].
      cbn [random_key bind]. destruct (tfind sid x); [|reflexivity].
      assert (is_ok (sub_extract cx (KRand d) parent x r) = false) as E.
      { rewrite IH by (intros y Hy; apply Hin; now right). exact Hkg. }
      destruct (sub_extract cx (KRand d) parent x r); [discriminate|reflexivity].
Qed.

Theorem C12_resolve_panic_domain :
  forall (cx : actx) (k : akind) (kg : keygen) (target : nat),
    (k = SectionExtract -> forall key tree, cx_key_of cx target = Ok key -> cx_collect cx key = Ok tree ->
                           ids_distinct tree = true) ->
    is_ok (handle_resolve cx k kg target) = resolve_domain cx k kg target.
Proof.
  intros cx k kg target HD. unfold handle_resolve, changes, resolve_domain, ctx_collect.
  destruct (cx_key_of cx target) as [key|] eqn:Hkey; [|reflexivity]. cbn [bind].
  destruct (cx_collect cx key) as [tree|] eqn:Hcol; [|reflexivity]. cbn [bind].
  destruct k; cbn [resolvable].
  - specialize (HD eq_refl key tree eq_refl Hcol). apply nodupb_spec in HD.
    destruct (get_surrounding_section_id target tree) as [p|] eqn:G; [|reflexivity]. cbn [is_some andb].
    destruct (tree_is_header target tree) eqn:Hh; [|reflexivity]. cbn [andb].
    destruct (kg_has kg 1) eqn:Hkg.
    + destruct (random_key_has cx kg (key_parent key) Hkg) as (nk & _ & ->). cbn [bind fst].
      destruct (extract_rec_total target p nk tree HD G) as (upd & ->). cbn [bind].
      destruct (gss_in target p tree G) as [_ Ct]. destruct (contains_tfind target tree Ct) as (x & Hx).
      unfold tget. rewrite Hx. reflexivity.
    + pose proof (random_key_short cx kg (key_parent key) Hkg) as E.
      destruct (random_key cx kg (key_parent key)); [discriminate|reflexivity].
  - unfold sub_ids_some, sub_sections. destruct (tfind target tree) as [x|] eqn:Hf; [|reflexivity].
    destruct (is_section x && existsb is_section (t_children x)) eqn:E; [|reflexivity]. cbn [andb].
    rewrite sub_ids_filter, existsb_none_forallb.
    set (subs := filter is_section (t_children x)).
    destruct (forallb (fun ch => is_some (t_id ch)) subs) eqn:Hids; [|reflexivity]. cbn [negb andb].
    fold (opt_ids (map t_id subs)).
    pose proof (sub_extract_ok cx (key_parent key) x (opt_ids (map t_id subs)) kg) as Hok.
    rewrite (opt_ids_length subs Hids) in Hok.
    destruct (sub_extract cx kg (key_parent key) x (opt_ids (map t_id subs))) as [r|s]; cbn [bind is_ok] in *; apply Hok;
      intros sid Hsid; apply opt_ids_in in Hsid as (ch & Hch & He);
      apply filter_In in Hch as [Hch _]; destruct x as [i n c]; cbn [t_children] in Hch;
      (eapply contains_child; [exact Hch | now apply id_eq_contains]).
  - unfold tget. destruct (tfind target tree) as [x|]; [|reflexivity]. cbn [bind].
    destruct (is_reference x); [|reflexivity]. cbn [andb].
    destruct (get_surrounding_section_id target tree); [|reflexivity]. cbn [is_some andb].
    destruct (cx_collect cx (reference_key tree target)); reflexivity.
  - unfold tget. destruct (tfind target tree) as [x|]; [|reflexivity]. cbn [bind].
    destruct (is_reference x); [|reflexivity]. cbn [andb].
    destruct (cx_collect cx (reference_key tree target)); reflexivity.
  - destruct (tree_is_header target tree); reflexivity.
  - destruct (get_top_level_surrounding_list_id target tree); reflexivity.
  - destruct (get_surrounding_list_id target tree); reflexivity.
Qed.
Print Assumptions C12_resolve_panic_domain.

(* A request for an id the server does NOT offer (a stale id): for the five kinds without a
   referenced note, resolve panics (the `unwrap` of server.rs:573 on `None`) - always.  The two
   inline kinds do not re-check can_inline in `changes`: they answer whenever the target is a
   reference (inside a section, for inline section) whose key can be collected. *)
Definition offered (cx : actx) (k : akind) (target : nat) : bool :=
  match action cx k target with Ok (Some _) => true | _ => false end.

Theorem C12_not_offered_panics :
  forall (cx : actx) (k : akind) (kg : keygen) (target : nat),
    k <> InlineSection -> k <> InlineQuote ->
    offered cx k target = false ->
    is_ok (handle_resolve cx k kg target) = false.
Proof.
  intros cx k kg target N1 N2 Hoff. unfold offered, action, handle_resolve, changes, ctx_collect in *.
  destruct (cx_key_of cx target) as [key|]; [|reflexivity]. cbn [bind] in *.
  destruct (cx_collect cx key) as [tree|]; [|reflexivity]. cbn [bind] in *.
  destruct k; try congruence.
  - destruct (get_surrounding_section_id target tree); [|reflexivity].
    destruct (tree_is_header target tree); [discriminate|reflexivity].
  - destruct (tfind target tree) as [x|]; [|reflexivity].
    destruct (is_section x && existsb is_section (t_children x)); [discriminate|reflexivity].
  - destruct (tree_is_header target tree); [discriminate|reflexivity].
  - destruct (get_top_level_surrounding_list_id target tree); [discriminate|reflexivity].
  - destruct (get_surrounding_list_id target tree) as [scope|] eqn:G; [|reflexivity].
    destruct (gsl_in target scope tree G) as [Hs _]. destruct (contains_tfind scope tree Hs) as (x & Hx).
    rewrite Hx in Hoff. discriminate.
Qed.
Print Assumptions C12_not_offered_panics.

Theorem C12_inline_not_offered_domain :
  forall (cx : actx) (k : akind) (kg : keygen) (target : nat) (key : string) (tree : tree),
    k = InlineSection \/ k = InlineQuote ->
    cx_key_of cx target = Ok key -> cx_collect cx key = Ok tree ->
    offered cx k target = false ->
    is_ok (handle_resolve cx k kg target) =
    resolvable cx k kg tree target &&
    (String.eqb (reference_key tree target) key || negb (cx_exists cx (reference_key tree target))).
Proof.
  intros cx k kg target key tree Hk Hkey Hcol Hoff.
  rewrite C12_resolve_panic_domain by (destruct Hk; congruence).
  unfold resolve_domain. rewrite Hkey, Hcol.
  unfold offered, action, ctx_collect, tget, can_inline in Hoff. rewrite Hkey in Hoff. cbn [bind] in Hoff. rewrite Hcol in Hoff. cbn [bind] in Hoff.
  destruct Hk as [-> | ->]; cbn [resolvable] in *;
    (destruct (tfind target tree) as [x|]; [|reflexivity]); cbn [bind] in Hoff;
    (destruct (is_reference x); [|reflexivity]); cbn [andb] in *;
    destruct (String.eqb (reference_key tree target) key); cbn [negb andb orb] in *; try (now rewrite andb_true_r);
    destruct (cx_exists cx (reference_key tree target)); cbn [negb andb orb] in *; try (now rewrite andb_true_r).
  - destruct (get_surrounding_section_id target tree); [discriminate|reflexivity].
  - discriminate.
Qed.
Print Assumptions C12_inline_not_offered_domain.

(* witness: inline of a note into itself is not offered (423888d), yet a resolve request for it is
   answered with an edit that deletes the very note it updates *)
Lemma stale_self_inline_resolves :
  exists cx target key t,
    cx_key_of cx target = Ok key /\ offered cx InlineQuote target = false /\
    handle_resolve cx InlineQuote KSeq target = Ok [Remove key; Update key (key_parent key) t].
Proof. exists Tests.lib, 4, "a". eexists. repeat split; vm_compute; reflexivity. Qed.
