(* Library.v — liwe::graph::Graph as a whole: arena + keys + per-key line maps + title cache
   + metadata; `import`, `from_markdown`, `update_key`, `to_markdown`, `get_node_id_at`,
   `get_key_title`.  (The reference index lives in Index.v.) *)
From IweV Require Import Str Text Ast RelPath Arena Project.
Local Open Scope string_scope.
Local Open Scope list_scope.

(* association lists keyed by strings stand for the Rust HashMaps; insertion replaces *)
Fixpoint alookup {A} (k : string) (l : list (string * A)) : option A :=
  match l with
  | [] => None
  | (k', v) :: r => if String.eqb k k' then Some v else alookup k r
  end.
Fixpoint aremove {A} (k : string) (l : list (string * A)) : list (string * A) :=
  match l with
  | [] => []
  | (k', v) :: r => if String.eqb k k' then aremove k r else (k', v) :: aremove k r
  end.
Definition ainsert {A} (k : string) (v : A) (l : list (string * A)) : list (string * A) :=
  aremove k l ++ [(k, v)].

Record graph := G {
  gr_arena : arena;
  gr_keys : list (string * nat);                       (* key -> root id *)
  gr_maps : list (string * list (nat * lrange));       (* nodes_map *)
  gr_titles : list (string * string);                  (* keys_to_ref_text *)
  gr_meta : list (string * string)                     (* metadata *)
}.

Definition empty_graph : graph := G [] [] [] [] [].

Definition get_key_title (g : graph) : titles := fun k => alookup k (gr_titles g).

(* Graph::extract_ref_text *)
Definition extract_ref_text (a : arena) (root : nat) : option string :=
  match get a root with
  | Some n =>
      match g_child n with
      | Some c => match get a c with
                  | Some cn => match g_kind cn with KSection l => Some (inlines_plain_text l) | _ => None end
                  | None => None
                  end
      | None => None
      end
  | None => None
  end.

(* Arena::delete_branch *)
Fixpoint delete_branch (fuel : nat) (a : arena) (id : nat) : res arena :=
  match fuel with
  | O => Panic "out of fuel"
  | S f =>
      match get a id with
      | None => Panic "arena index out of bounds"
      | Some n =>
          do a1 <- (match g_child n with Some c => delete_branch f a c | None => Ok a end);
          (* `self.node(from_id).next_id()` reads the slot again, after the child branch is gone *)
          do a2 <- (match get a1 id with
                    | None => Panic "arena index out of bounds"
                    | Some n1 =>
                        match g_kind n1 with
                        | KEmpty => Panic "next_id of Empty"
                        | _ => match g_next n1 with Some nx => delete_branch f a1 nx | None => Ok a1 end
                        end
                    end);
          Ok (set_nth a2 id empty_node)
      end
  end.

(* the part of `from_markdown` / `import` that builds one note: metadata, build, nodes_map.
   [title_mode]: how keys_to_ref_text is maintained — the pinned tree only ever inserts. *)
Definition build_note (g : graph) (key : string) (meta : option string) (bs : list dblock) : res graph :=
  let metas := match meta with Some m => ainsert key m (gr_meta g) | None => aremove key (gr_meta g) end in
  do st <- build_document (gr_arena g) key bs;
  Ok (G (b_arena st) (ainsert key (length (gr_arena g)) (gr_keys g))
        (ainsert key (b_map st) (gr_maps g)) (gr_titles g) metas).

Definition refresh_title (g : graph) (key : string) : graph :=
  match alookup key (gr_keys g) with
  | Some root =>
      match extract_ref_text (gr_arena g) root with
      | Some t => G (gr_arena g) (gr_keys g) (gr_maps g) (ainsert key t (gr_titles g)) (gr_meta g)
      | None => G (gr_arena g) (gr_keys g) (gr_maps g) (aremove key (gr_titles g)) (gr_meta g)
      end
  | None => g
  end.

(* as found in the pinned tree: the cache was only inserted into, a stale title stayed *)
Definition refresh_title_as_found (g : graph) (key : string) : graph :=
  match alookup key (gr_keys g) with
  | Some root =>
      match extract_ref_text (gr_arena g) root with
      | Some t => G (gr_arena g) (gr_keys g) (gr_maps g) (ainsert key t (gr_titles g)) (gr_meta g)
      | None => g
      end
  | None => g
  end.

(* Graph::from_markdown on already-read blocks *)
Definition from_blocks (g : graph) (key : string) (meta : option string) (bs : list dblock) : res graph :=
  do g' <- build_note g key meta bs;
  Ok (refresh_title g' key).

(* Graph::update_key *)
Definition update_key (g : graph) (key : string) (meta : option string) (bs : list dblock) : res graph :=
  do a <- (match alookup key (gr_keys g) with
           | Some root => delete_branch (S (length (gr_arena g))) (gr_arena g) root
           | None => Ok (gr_arena g)
           end);
  from_blocks (G a (gr_keys g) (gr_maps g) (gr_titles g) (gr_meta g)) key meta bs.

(* Graph::import on notes already in import order (sorted by state name) *)
Definition import (notes : list (string * option string * list dblock)) : res graph :=
  do g <- fold_left (fun acc n => do g <- acc;
                       let '(name, meta, bs) := n in
                       build_note g (key_name name) meta bs) notes (Ok empty_graph);   (* graph.rs:316 Key::name *)
  Ok (fold_left (fun g kv => refresh_title g (fst kv)) (gr_keys g) g).

(* Graph::to_markdown *)
Definition to_markdown (o : opts) (tables : list string) (g : graph) (key : string) : res string :=
  match alookup key (gr_keys g) with
  | None => Panic "to have key"
  | Some root =>
      do t <- collect (get_key_title g) (gr_arena g) root;
      Ok (wrap_metadata (alookup key (gr_meta g)) (tree_to_markdown o tables (key_parent key) t))
  end.

Definition collect_key (g : graph) (key : string) : res tree :=
  match alookup key (gr_keys g) with
  | None => Panic "to have key"
  | Some root => collect (get_key_title g) (gr_arena g) root
  end.

(* GraphContext::get_node_id_at: the last entry of the key's map whose range contains the line *)
Definition range_contains (r : lrange) (line : nat) : bool := Nat.leb (fst r) line && Nat.ltb line (snd r).
Definition get_node_id_at (g : graph) (key : string) (line : nat) : res (option nat) :=
  match alookup key (gr_maps g) with
  | None => Panic "to have key"
  | Some m => Ok (match find (fun e => range_contains (snd e) line) (rev m) with
                  | Some e => Some (fst e)
                  | None => None
                  end)
  end.
