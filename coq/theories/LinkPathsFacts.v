(* LinkPathsFacts.v — the third leg of C14: the note other notes reach by linking to <path> is the
   note loaded from the file <path>.md.

   [LinkPaths.link_target] resolves a link from the directory of the linking FILE (directory
   names taken from the tree on disk).  iwe resolves it on key text: SectionsBuilder keys a block
   reference by `Key::from_rel_link_url(url, key.parent())` where `key` is the loader's key of the
   linking file.  [link_reaches]: for every linking file with legal names and every url, when
   the link names a file inside the library, that key IS the loader's key of the named file -
   at any depth of the linking file (the seeded change r3-C14, `Key::parent` cutting at the first
   slash, falsifies exactly this: [first_slash_parent_refuted]). *)
From IweV Require Import Str Ast RelPath RelPathFacts RelPathLaws Arena Url UrlFacts LinkPaths.
Local Open Scope string_scope.
Local Open Scope list_scope.

Lemma norm_names_spec B names : norm_names B = Some names -> B = map Norm names.
Proof.
  revert names; induction B as [|c B IH]; intros names H; cbn [norm_names] in H.
  - now inversion H.
  - destruct c as [| |s]; try discriminate. destruct (norm_names B) as [l|] eqn:E; [|discriminate].
    inversion H; subst. cbn [map]. now rewrite (IH l eq_refl).
Qed.

Lemma as_str_norms l : map as_str (map Norm l) = l.
Proof. induction l as [|x l IH]; cbn [map as_str]; [reflexivity | now rewrite IH]. Qed.

Lemma render_norms names : render (map Norm names) = join SEPS (rev names).
Proof. unfold render, render_comps. now rewrite <- map_rev, as_str_norms. Qed.

Lemma dir_of_snoc dirs stem : dir_of (dirs ++ [stem]) = dirs.
Proof. unfold dir_of. apply removelast_last. Qed.

Lemma disk_key_snoc dirs stem : disk_key (dirs ++ [stem]) = join SEPS (dirs ++ [stem]).
Proof.
  unfold disk_key, loader_key. rewrite rev_app_distr. cbn [rev app].
  now rewrite rev_involutive, strip_md_app.
Qed.

Lemma disk_key_file_key t : t <> [] -> disk_key t = file_key t.
Proof.
  intros H. destruct (exists_last_str t H) as (xs & x & ->). apply disk_key_snoc.
Qed.

Lemma names_a_file_last cs : names_a_file cs = true -> exists cs' s, cs = cs' ++ [Norm s].
Proof.
  unfold names_a_file. destruct cs as [|c cs'] using rev_ind; [discriminate|]. clear IHcs'.
  rewrite rev_app_distr. cbn [rev app]. destruct c as [| |s]; try discriminate. intros _. now exists cs', s.
Qed.

(* what iwe's resolver computes from the loader key of the linking file is the buffer of
   [link_target], rendered *)
Lemma resolver_buffer dirs stem url :
  Forall good_name dirs -> good_name stem ->
  from_rel_link_url url (key_parent (disk_key (dirs ++ [stem]))) =
  render (traverse (rev (map Norm dirs)) (components (strip_md url))).
Proof.
  intros Hd Hs. rewrite disk_key_snoc, C15_parent_canonical by assumption.
  unfold from_rel_link_url, join_normalized. rewrite comps_join_good by exact Hd.
  now rewrite traverse_norms, app_nil_r.
Qed.

(* HEADLINE.  The key under which the graph files a link `url` written in the note file
   <dirs>/<stem>.md is the loader's key of the file that the link names from the directory <dirs>. *)
Theorem link_reaches dirs stem url t :
  Forall good_name dirs -> good_name stem ->
  link_target (dirs ++ [stem]) url = Some t ->
  t <> [] /\ from_rel_link_url url (key_parent (disk_key (dirs ++ [stem]))) = disk_key t.
Proof.
  intros Hd Hs H. unfold link_target in H. rewrite dir_of_snoc in H.
  destruct (is_ref_url url); [|discriminate].
  destruct (names_a_file (components (strip_md url))) eqn:Hf; [|discriminate].
  destruct (norm_names _) as [names|] eqn:Hn; [|discriminate]. inversion H; subst t; clear H.
  pose proof (norm_names_spec _ _ Hn) as HB.
  assert (Hne : rev names <> []).
  { destruct (names_a_file_last _ Hf) as (cs' & s & E). rewrite E, traverse_app in HB. cbn [traverse] in HB.
    destruct names as [|x names]; [discriminate|]. cbn [rev]. now destruct (rev names). }
  split; [exact Hne|].
  rewrite (disk_key_file_key _ Hne). unfold file_key.
  rewrite resolver_buffer by assumption. rewrite HB. apply render_norms.
Qed.
Print Assumptions link_reaches.

(* ... for an INLINE link as for a block reference: the url the graph holds for a link inside a sentence of the
   note file <dirs>/<stem>.md is that same key (Arena.to_ginline: `Key::from_rel_link_url(url, key.parent())`;
   `GraphInline::ref_key` reads it as it is), so find-references of the named file lists the linking file.  In the
   pinned tree the graph held the url as typed (finding F-C14-inline-dir, repaired). *)
Theorem inline_link_reaches dirs stem url title lt ils t :
  Forall good_name dirs -> good_name stem ->
  link_target (dirs ++ [stem]) url = Some t ->
  to_ginline (key_parent (disk_key (dirs ++ [stem]))) (Link url title lt ils) =
  Link (disk_key t) title lt (map (to_ginline (key_parent (disk_key (dirs ++ [stem])))) ils).
Proof.
  intros Hd Hs H. destruct (link_reaches dirs stem url t Hd Hs H) as [_ E].
  cbn [to_ginline]. rewrite E.
  unfold link_target in H. destruct (is_ref_url url); [reflexivity | discriminate].
Qed.
Print Assumptions inline_link_reaches.

(* the same for a link that stays inside the library but names no file of it: the key is still the
   loader key the file WOULD have, so it is a note exactly when that file exists; a link that leaves
   the library (its buffer keeps a `..`) gets a key starting with `..`, which no file has *)
Theorem link_outside dirs stem url :
  Forall good_name dirs -> good_name stem ->
  is_ref_url url = true -> names_a_file (components (strip_md url)) = true ->
  link_target (dirs ++ [stem]) url = None ->
  forall t, Forall good_name t -> t <> [] ->
  from_rel_link_url url (key_parent (disk_key (dirs ++ [stem]))) <> disk_key t.
Proof.
  intros Hd Hs Hr Hf H t Ht Hne E.
  rewrite resolver_buffer in E by assumption. rewrite (disk_key_file_key _ Hne) in E. unfold file_key in E.
  unfold link_target in H. rewrite dir_of_snoc, Hr, Hf in H.
  destruct (norm_names _) as [names|] eqn:Hn; [discriminate|]. clear H.
  (* both sides read back as component lists *)
  set (B := traverse (rev (map Norm dirs)) (components (strip_md url))) in *.
  assert (HB : exists rns j, B = map Norm rns ++ repeat Par j /\ Forall good_name rns).
  { subst B.
    destruct (traverse_nfb (components (strip_md url)) (rev dirs) 0 (components_okc _) (good_rev _ Hd))
      as (r & j & E' & Hr' & _).
    cbn [repeat] in E'. rewrite app_nil_r, map_rev in E'. exists r, j. split; assumption. }
  destruct HB as (rns & j & HB & Hg).
  assert (C : components (render B) = rev B).
  { unfold render. apply components_render_comps. rewrite HB, rev_buffer. apply okn_forward. now apply good_rev. }
  rewrite E, comps_join_good in C by exact Ht.
  assert (B = map Norm (rev t)) as HBt.
  { rewrite <- (rev_involutive B), <- C, <- map_rev. reflexivity. }
  rewrite HBt in Hn. clear -Hn. revert Hn. generalize (rev t) as l.
  induction l as [|x l IH]; cbn [map norm_names]; [discriminate|].
  destruct (norm_names (map Norm l)); [discriminate | auto].
Qed.
Print Assumptions link_outside.

(* the seeded change r3-C14 (`Key::parent` = text before the FIRST slash) as a model variant: it
   agrees with the directory of the file for notes at depth 0 and 1 and breaks the headline for a
   sibling link two directories down *)
Definition key_parent_first_slash (k : string) : string :=
  match split_on SEP k with
  | d :: _ :: _ => d
  | _ => ""
  end.

Theorem first_slash_parent_refuted :
  exists dirs stem url t,
    Forall good_name dirs /\ good_name stem /\ link_target (dirs ++ [stem]) url = Some t /\
    from_rel_link_url url (key_parent_first_slash (disk_key (dirs ++ [stem]))) <> disk_key t.
Proof.
  exists ["areas"; "work"], "log", "topic", ["areas"; "work"; "topic"].
  split; [|split; [|split]].
  - repeat constructor; discriminate.
  - repeat constructor; discriminate.
  - reflexivity.
  - vm_compute. discriminate.
Qed.
Print Assumptions first_slash_parent_refuted.

(* non-vacuity: sibling, `../x`, the long way round, `.md`, a url out of the library, an external one *)
Example link_target_examples :
  link_target ["areas"; "work"; "log"] "topic" = Some ["areas"; "work"; "topic"] /\
  link_target ["areas"; "work"; "log"] "../topic.md" = Some ["areas"; "topic"] /\
  link_target ["areas"; "work"; "log"] "./../work/./x.md.md" = Some ["areas"; "work"; "x.md"] /\
  link_target ["index"] "areas/work/topic" = Some ["areas"; "work"; "topic"] /\
  link_target ["areas"; "log"] "../../up" = None /\
  link_target ["areas"; "log"] ".." = None /\
  link_target ["areas"; "log"] "https://example.com/a" = None.
Proof. repeat split. Qed.
