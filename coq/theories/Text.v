(* Text.v — more Rust `str` operations: `lines`, `trim` (Unicode White_Space on UTF-8 bytes),
   `trim_matches('\n')`, decimal rendering of numbers. *)
From IweV Require Import Str.
Local Open Scope string_scope.
Local Open Scope list_scope.

Definition LF : ascii := "010"%char.
Definition CR : ascii := "013"%char.
Definition LFS : string := String LF EmptyString.

(* Rust `str::lines()`: split_inclusive('\n'); a piece that ends in '\n' loses it and then a
   '\r' if there is one; a last piece without '\n' is kept as it is. *)
Fixpoint lines_aux (s : string) (cur : string) : list string :=
  match s with
  | EmptyString => if sempty cur then [] else [srev cur]
  | String a r =>
      if Ascii.eqb a LF then
        let line := match cur with
                    | String c cur' => if Ascii.eqb c CR then cur' else cur
                    | EmptyString => cur
                    end in
        srev line :: lines_aux r EmptyString
      else lines_aux r (String a cur)
  end.
Definition lines (s : string) : list string := lines_aux s EmptyString.

(* Unicode White_Space, recognised at the front of a UTF-8 byte string; returns the rest *)
Definition byte (n : nat) : ascii := ascii_of_nat n.
Definition ws_prefix (s : string) : option string :=
  match s with
  | String a r =>
      let n := nat_of_ascii a in
      if orb (andb (Nat.leb 9 n) (Nat.leb n 13)) (Nat.eqb n 32) then Some r
      else if Nat.eqb n 194 then (* C2 85, C2 A0 *)
        match r with
        | String b r' => let m := nat_of_ascii b in if orb (Nat.eqb m 133) (Nat.eqb m 160) then Some r' else None
        | _ => None
        end
      else if Nat.eqb n 225 then (* E1 9A 80 *)
        match r with
        | String b (String c r') => if andb (Nat.eqb (nat_of_ascii b) 154) (Nat.eqb (nat_of_ascii c) 128) then Some r' else None
        | _ => None
        end
      else if Nat.eqb n 226 then (* E2 80 80..8A, E2 80 A8, A9, AF; E2 81 9F *)
        match r with
        | String b (String c r') =>
            let m := nat_of_ascii b in let k := nat_of_ascii c in
            if andb (Nat.eqb m 128) (orb (andb (Nat.leb 128 k) (Nat.leb k 138)) (orb (Nat.eqb k 168) (orb (Nat.eqb k 169) (Nat.eqb k 175)))) then Some r'
            else if andb (Nat.eqb m 129) (Nat.eqb k 159) then Some r' else None
        | _ => None
        end
      else if Nat.eqb n 227 then (* E3 80 80 *)
        match r with
        | String b (String c r') => if andb (Nat.eqb (nat_of_ascii b) 128) (Nat.eqb (nat_of_ascii c) 128) then Some r' else None
        | _ => None
        end
      else None
  | EmptyString => None
  end.

(* the same at the front of a *reversed* byte string (i.e. at the end of the text) *)
Definition ws_suffix_rev (s : string) : option string :=
  match s with
  | String a r =>
      let n := nat_of_ascii a in
      if orb (andb (Nat.leb 9 n) (Nat.leb n 13)) (Nat.eqb n 32) then Some r
      else
        match r with
        | String b r' =>
            let m := nat_of_ascii b in
            if andb (Nat.eqb m 194) (orb (Nat.eqb n 133) (Nat.eqb n 160)) then Some r'
            else
              match r' with
              | String c r'' =>
                  let k := nat_of_ascii c in
                  (* bytes in text order: k m n *)
                  if andb (Nat.eqb k 225) (andb (Nat.eqb m 154) (Nat.eqb n 128)) then Some r''
                  else if andb (Nat.eqb k 226) (andb (Nat.eqb m 128)
                            (orb (andb (Nat.leb 128 n) (Nat.leb n 138)) (orb (Nat.eqb n 168) (orb (Nat.eqb n 169) (Nat.eqb n 175))))) then Some r''
                  else if andb (Nat.eqb k 226) (andb (Nat.eqb m 129) (Nat.eqb n 159)) then Some r''
                  else if andb (Nat.eqb k 227) (andb (Nat.eqb m 128) (Nat.eqb n 128)) then Some r''
                  else None
              | _ => None
              end
        | _ => None
        end
  | EmptyString => None
  end.

Fixpoint iter_strip (f : string -> option string) (fuel : nat) (s : string) : string :=
  match fuel with
  | O => s
  | S k => match f s with Some r => iter_strip f k r | None => s end
  end.

Definition trim_start (s : string) : string := iter_strip ws_prefix (String.length s) s.
Definition trim_end (s : string) : string := srev (iter_strip ws_suffix_rev (String.length s) (srev s)).
Definition trim (s : string) : string := trim_end (trim_start s).

(* `s.trim_matches('\n')` *)
Fixpoint drop_lf (s : string) : string :=
  match s with
  | String a r => if Ascii.eqb a LF then drop_lf r else s
  | EmptyString => s
  end.
Definition trim_lf (s : string) : string := srev (drop_lf (srev (drop_lf s))).

(* decimal rendering *)
Definition digit (n : nat) : ascii := ascii_of_nat (48 + n).
Fixpoint dec_aux (fuel n : nat) (acc : string) : string :=
  match fuel with
  | O => acc
  | S f =>
      let acc' := String (digit (Nat.modulo n 10)) acc in
      if Nat.ltb n 10 then acc' else dec_aux f (Nat.div n 10) acc'
  end.
Definition dec (n : nat) : string := dec_aux (S n) n EmptyString.

Definition eq_ignore_ascii_case (a b : string) : bool :=
  String.eqb (lower_ascii_str a) (lower_ascii_str b).
