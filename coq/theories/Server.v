(* Server.v — the handlers of iwes (crates/iwes/src/router/server.rs, dispatch in router.rs:167-273)
   assembled from the model functions of the other files, one constructor of [request] per
   advertised method, parameters already mapped to keys / lines / positions (URI -> key is C14):

     textDocument/inlayHint      server.rs:287-343   Index getters, node_key, node_line_range
     textDocument/inlineValues   server.rs:345       `vec![]`
     textDocument/documentSymbol server.rs:349-389   Paths.graph_to_paths, extensions.rs:230-258
     textDocument/definition     server.rs:243-271   Pos.link_at, RelPath.rjoin, Url.relative_to_full_path
     workspace/symbol            server.rs:230-241   Paths.global_search on the cached Database.paths
     textDocument/completion     server.rs:135-215
     completionItem/resolve      server.rs:217
     textDocument/codeAction     server.rs:567-586   Library.get_node_id_at, Actions.action
     codeAction/resolve          server.rs:588-627   Actions.handle_resolve
     textDocument/formatting     server.rs:273-285   Library.to_markdown
     textDocument/references     server.rs:521-565   Index getters, Index.location_of
     textDocument/prepareRename  server.rs:391-404   Pos.link_at, Pos.key_range
     textDocument/rename         server.rs:395-502   Rename.handle_rename
     workspace/executeCommand    command.rs          NOT modelled (LLM): a function of the configuration
     anything else               router.rs:249-251   `panic!("unhandled request")`
   and the two notifications (server.rs:119-133, database.rs:106-116: update_key, content, cached
   search paths).  Every reachable unwrap / expect / index / panic! of the handlers is a [Panic].
   Responses keep what decides about panics (every URL that is built, every node that is looked up)
   and are abstract otherwise (`sorted` / `dedup` of the answers are left out: they are total).
   No proofs in this file (ServerFacts.v). *)
From Coq Require Import ZArith.
From IweV Require Import Str Text Ast RelPath Arena Project Library Index Paths TreeOps Actions ActionsTotal.
From IweV Require Rename Url.
From IweV Require Pos.
Local Open Scope string_scope.
Local Open Scope list_scope.

(* ---------- configuration ------------------------------------------------------------------------ *)

(* a position-annotated document: what `Parser::new(content, MarkdownReader::new())` holds
   (database.rs:29-33); the reader itself is C03 / C13 *)
Definition doc := list IweV.Pos.pblock.

Record cmd := Cmd { cmd_new : string; cmd_prompt : string; cmd_target : string }.

Record config := CF {
  cf_opts : opts;                          (* configuration.markdown *)
  cf_tables : string -> list string;       (* oracle: the text of the tables of a note (pulldown-cmark-to-cmark) *)
  cf_fx : Rename.fixes;                    (* which rename repairs the tree has (/repo: FX false true true true) *)
  cf_pos : IweV.Pos.variant;               (* which position repairs the tree has (/repo: Pos.repaired) *)
  cf_base : string;                        (* ServerConfig.base_path: the library directory *)
  cf_helix : bool;                         (* lsp_client == LspClient::Helix *)
  cf_prefix : option string;               (* configuration.prompt_key_prefix *)
  cf_command : gstate -> cmd -> res (list change)   (* command.rs GenerateCommand::execute: not modelled *)
}.

(* Database: graph + reference index + line map, the texts, the cached search paths *)
Record sstate := SS { ss_gs : gstate; ss_docs : list (string * doc); ss_paths : list spath }.

(* ---------- small helpers -------------------------------------------------------------------------- *)

Fixpoint mapm {A B} (f : A -> res B) (l : list A) : res (list B) :=
  match l with
  | [] => Ok []
  | x :: r => do y <- f x; do ys <- mapm f r; Ok (y :: ys)
  end.

Definition key_exists (g : graph) (k : string) : bool :=
  match alookup k (gr_keys g) with Some _ => true | None => false end.

(* BasePath::key_to_url (server.rs:56-58):
   `Url::from_file_path(self.dir.join(..)).expect("to work")`; Err for a relative path *)
Definition key_url (base key : string) : res string :=
  match Url.file_uri (base +++ SEPS +++ to_path key) with
  | Some u => Ok u
  | None => Panic "key_to_url: to work"
  end.

(* the library directory is an absolute path (or empty: then `/` + key is) *)
Definition base_ok (base : string) : bool := starts_with SEPS (base +++ SEPS).

(* GraphNode::child_id (graph_node.rs:471-480): only containers have one *)
Definition child_of (n : gnode) : option nat :=
  match g_kind n with
  | KDocument _ | KSection _ | KQuote | KBList | KOList => g_child n
  | _ => None
  end.

Definition node_at (a : arena) (id : nat) : res gnode :=
  match get a id with Some n => Ok n | None => Panic "arena index out of bounds" end.

(* ---------- textDocument/inlayHint ----------------------------------------------------------------- *)

(* NodePointer::get_all_sub_nodes (node.rs:400-411): the node, its child's walk, its next's walk;
   `next_id()` of an Empty slot panics (graph_node.rs:449) *)
Fixpoint all_sub_nodes (fuel : nat) (a : arena) (id : nat) : res (list nat) :=
  match fuel with
  | O => Panic "out of fuel"
  | S f =>
      do n <- node_at a id;
      do c <- match child_of n with Some c => all_sub_nodes f a c | None => Ok [] end;
      do x <- match g_kind n with
              | KEmpty => Panic "next_id of Empty"
              | KDocument _ => Ok []
              | _ => match g_next n with Some x => all_sub_nodes f a x | None => Ok [] end
              end;
      Ok (id :: c ++ x)
  end.

Definition is_refk (k : gkind) : bool := match k with KRef _ _ _ => true | _ => false end.

(* Graph::get_block_references_in (graph.rs:393-401): `maybe_key(key).expect("to have key")` *)
Definition block_references_in (g : graph) (key : string) : res (list nat) :=
  let a := gr_arena g in
  match alookup key (gr_keys g) with
  | None => Panic "to have key"
  | Some root =>
      do ids <- all_sub_nodes (S (length a)) a root;
      do lv <- filter_live a ids;
      filter_res (fun id => do k <- kind_at a id; Ok (is_refk k)) lv
  end.

(* server.rs:297-321: (number of references to the same note, line) per block reference of the note
   that has a line *)
Definition block_reference_hints (s : gstate) (key : string) : res (list (nat * nat)) :=
  let a := gr_arena (gs_graph s) in
  do refs <- block_references_in (gs_graph s) key;
  mapm (fun il : nat * nat =>
          do k <- kind_at a (fst il);
          do cnt <- match k with
                    | KRef rk _ _ => do l <- block_refs_to s rk; Ok (length l)
                    | _ => Ok 0
                    end;
          Ok (cnt, snd il))
       (flat_map (fun id => match node_line_range s id with Some r => [(id, fst r)] | None => [] end) refs).

(* GraphContext::get_container_document_ref_text (graph.rs:516-521):
   `self.node(id).to_document().unwrap().document_key().unwrap()` *)
Definition container_ref_text (g : graph) (id : nat) : res string :=
  do k <- node_key (gr_arena g) id;
  Ok (match get_key_title g k with Some t => t | None => "" end).

(* server.rs:323-333 *)
Definition container_hint (s : gstate) (key : string) : res (list string) :=
  do ids <- block_refs_to s key; mapm (container_ref_text (gs_graph s)) ids.

(* server.rs:287-295: the three lists are computed in this order *)
Definition handle_inlay_hints (s : gstate) (key : string) : res (list string * nat * list (nat * nat)) :=
  do c <- container_hint s key;
  do i <- inline_refs_to s key;
  do b <- block_reference_hints s key;
  Ok (c, length i, b).

(* ---------- textDocument/documentSymbol ------------------------------------------------------------- *)

(* the indentation of nested_render (extensions.rs:223) is two EM SPACEs (U+2003) per level *)
Fixpoint spaces (n : nat) : string := match n with O => "" | S k => "  " +++ spaces k end.

(* NodePath::to_nested_symbol / nested_render (extensions.rs:213-258): name, uri, line *)
Definition nested_symbol (base : string) (s : gstate) (p : list nat) : res (string * string * nat) :=
  let a := gr_arena (gs_graph s) in
  do target <- last_id p;
  do t <- get_text a target;
  do k <- node_key a target;
  do u <- key_url base k;
  Ok (spaces (length p - 1) +++ trim t, u, match node_line_range s target with Some r => fst r | None => 0 end).

Definition name_nonempty {B C} (x : string * B * C) : bool := negb (sempty (fst (fst x))).

(* server.rs:349-389.  `graph().paths()` is sorted ascending and duplicate-free (path.rs:100), the
   comparator of the handler is the reverse of that order: `rev` of the filtered list *)
Definition handle_document_symbols (base : string) (s : gstate) (key : string) : res (list (string * string * nat)) :=
  let g := gs_graph s in let a := gr_arena g in
  match alookup key (gr_keys g) with
  | None => Ok []
  | Some root =>
      do n <- node_at a root;
      match child_of n with
      | None => Ok []
      | Some id =>
          do paths <- graph_to_paths true s;
          let sel := filter (fun p => (mem id p || mem root p) && Nat.ltb 1 (length p)) paths in
          let shown := filter (fun p => Nat.ltb (length p) 4) (map (@tl nat) (rev sel)) in
          do syms <- mapm (nested_symbol base s) shown;
          Ok (filter name_nonempty syms)
      end
  end.

(* ---------- textDocument/definition, prepareRename: the link under the cursor ----------------------- *)

Definition url_of_link (i : IweV.Pos.pinl) : option string :=
  match i with IweV.Pos.PNode (IweV.Pos.KLink _ url) _ _ => Some url | _ => None end.

(* Parser::url_at (parser.rs:22-24) *)
Definition url_at (v : IweV.Pos.variant) (d : doc) (p : IweV.Pos.pos) : res (option string) :=
  do l <- IweV.Pos.link_at v d p;
  Ok (match l with Some i => url_of_link i | None => None end).

(* DatabaseContext::parser(key).and_then(|parser| parser.url_at(..)): no text, no link *)
Definition site_of (v : IweV.Pos.variant) (docs : list (string * doc)) (key : string) (p : IweV.Pos.pos)
  : res (option string) :=
  match alookup key docs with
  | None => Ok None
  | Some d => url_at v d p
  end.

(* server.rs:243-271; `relative_to_full_path` is still `Url::parse(&self.base_path).unwrap().join(..)
   .expect("to work")` (server.rs:61-66): Url.relative_to_full_path_as_found; None inside = a URL
   outside the modelled part of the `url` crate *)
Definition handle_definition (cf : config) (sv : sstate) (key : string) (p : IweV.Pos.pos)
  : res (option (option string)) :=
  do u <- site_of (cf_pos cf) (ss_docs sv) key p;
  match u with
  | None => Ok None
  | Some url =>
      do full <- Url.relative_to_full_path_as_found (Url.server_prefix (cf_base cf)) (rjoin (key_parent key) url);
      Ok (Some full)
  end.

(* server.rs:391-404 *)
Definition handle_prepare_rename (cf : config) (sv : sstate) (key : string) (p : IweV.Pos.pos)
  : res (option (IweV.Pos.irange * string)) :=
  match alookup key (ss_docs sv) with
  | None => Ok None
  | Some d =>
      do l <- IweV.Pos.link_at (cf_pos cf) d p;
      match l with
      | None => Ok None
      | Some i =>
          do r <- IweV.Pos.key_range i;
          Ok (match r with
              | Some r => Some (r, match url_of_link i with Some u => u | None => "" end)
              | None => None
              end)
      end
  end.

(* ---------- workspace/symbol -------------------------------------------------------------------------- *)

(* server.rs:230-241 + path_to_symbol (server.rs:674-705): name, is-root, uri, line.
   [score] is SkimMatcherV2 on (search_text, query): an oracle *)
Definition handle_workspace_symbols (base : string) (sv : sstate) (query_empty : bool) (score : string -> Z)
  : res (list (string * bool * string * nat)) :=
  let a := gr_arena (gs_graph (ss_gs sv)) in
  let found := global_search query_empty (map (fun p => (p, score (sp_text p))) (ss_paths sv)) in
  do syms <- mapm (fun p => do n <- render_path a (sp_ids p);
                           do u <- key_url base (sp_key p);
                           Ok (n, sp_root p, u, sp_line p)) found;
  Ok (filter (fun x => negb (sempty (fst (fst (fst x))))) syms).

(* ---------- textDocument/completion --------------------------------------------------------------------- *)

Definition title_or_empty (g : graph) (k : string) : string :=
  match get_key_title g k with Some t => t | None => "" end.

(* server.rs:135-215: label and inserted text.  The prompt completions carry a `new_key` drawn by
   `random_key` (not part of the answer's shape; in random mode the draw loops until the key is free) *)
Definition handle_completion (cf : config) (s : gstate) (key : string) : list (string * string) :=
  let g := gs_graph s in
  let keys := map fst (gr_keys g) in
  let parent := key_parent key in
  map (fun k => (title_or_empty g k, "[...]"))
      (filter (fun k => match cf_prefix cf with Some p => starts_with p k | None => false end) keys)
  (* extensions.rs:274-280 to_link: `ref_url(.., "")` - no configured extension, `.md` where the key ends in `.md` *)
  ++ map (fun k => (title_or_empty g k, "[" +++ title_or_empty g k +++ "](" +++ ref_url (to_rel_link_url k parent) "" +++ ")")) keys.

(* ---------- textDocument/codeAction, codeAction/resolve --------------------------------------------------- *)

(* action.rs:33-42 all_action_types, for a configuration without LLM actions *)
Definition action_kinds : list akind :=
  [ListChangeType; ListToSections; InlineSection; InlineQuote; SectionToList; SectionExtract; SubSectionsExtract].

Definition akind_eqb (x y : akind) : bool :=
  match x, y with
  | SectionExtract, SectionExtract | SubSectionsExtract, SubSectionsExtract | InlineSection, InlineSection
  | InlineQuote, InlineQuote | SectionToList, SectionToList | ListToSections, ListToSections
  | ListChangeType, ListChangeType => true
  | _, _ => false
  end.

(* extensions.rs:17-23 only_includes *)
Definition only_includes (only : option (list akind)) (k : akind) : bool :=
  match only with None => true | Some l => existsb (akind_eqb k) l end.

(* server.rs:567-586: (kind, title, data = node id) per offered action *)
Definition handle_code_action (cf : config) (s : gstate) (key : string) (line : nat) (empty_range : bool)
           (only : option (list akind)) : res (list (akind * string * nat)) :=
  let g := gs_graph s in
  do id <- get_node_id_at g key line;
  match id with
  | None => Ok []
  | Some target =>
      if empty_range || cf_helix cf then
        do l <- mapm (fun k => do o <- action (graph_ctx g) k target;
                               Ok (match o with Some t => [(k, t, target)] | None => [] end))
                     (filter (only_includes only) action_kinds);
        Ok (concat l)
      else Ok []
  end.

Inductive dchange :=
| DDelete (uri : string)
| DCreate (uri : string)
| DEdit (uri text : string).

(* Change::to_document_change (extensions.rs:71-103) after the front-matter step of
   server.rs:606-613 *)
Definition doc_change (cf : config) (g : graph) (c : change) : res dchange :=
  match c with
  | Remove key => do u <- key_url (cf_base cf) key; Ok (DDelete u)
  | Create key => do u <- key_url (cf_base cf) key; Ok (DCreate u)
  | Update key parent t =>
      do u <- key_url (cf_base cf) key;
      Ok (DEdit u (wrap_metadata (alookup key (gr_meta g)) (tree_to_markdown (cf_opts cf) (cf_tables cf key) parent t)))
  end.

(* server.rs:588-627.  [data] = `code_action.data.unwrap().as_u64().unwrap()`, [k] = the provider
   `find(..).unwrap()` returns for `kind.unwrap()`; None = the field is missing / of another type /
   names no provider; [kg] = how random_key draws (Actions.keygen) *)
Definition handle_code_action_resolve (cf : config) (s : gstate) (k : option akind) (data : option nat) (kg : keygen)
  : res (list dchange) :=
  let g := gs_graph s in
  match data with
  | None => Panic "resolve: data.unwrap().as_u64().unwrap()"
  | Some target =>
      match k with
      | None => Panic "resolve: kind.unwrap() / find(..).unwrap()"
      | Some k =>
          do changes <- handle_resolve (graph_ctx g) k kg target;
          mapm (doc_change cf g) changes
      end
  end.

(* ---------- textDocument/formatting, references ----------------------------------------------------------- *)

(* server.rs:273-285: collect, rebuild in a patch graph, export.  The patch round trip is
   TreeBuild.v (C08_patch_export_is_export_tree); the text is Library.to_markdown *)
Definition handle_formatting (cf : config) (s : gstate) (key : string) : res string :=
  to_markdown (cf_opts cf) (cf_tables cf key) (gs_graph s) key.

(* server.rs:521-565 *)
Definition handle_references (base : string) (s : gstate) (key : string) : res (list (string * lrange)) :=
  do b <- block_refs_to s key;
  do i <- inline_refs_to s key;
  mapm (fun id => do kl <- location_of s id; do u <- key_url base (fst kl); Ok (u, snd kl)) (b ++ i).

(* ---------- textDocument/rename ------------------------------------------------------------------------------ *)

(* the operations with their URIs: key_to_url for the notes that exist and - since the one-key
   repair of handle_rename - for the new one (`new_key.to_full_url`); as found the new file was
   name_to_url(new_name), the same `Url::from_file_path(dir.join(..)).expect("to work")` *)
Definition op_url (base : string) (o : Rename.op) : res Rename.op :=
  match o with
  | Rename.OpOverride k t => do u <- key_url base k; Ok (Rename.OpOverride u t)
  | Rename.OpDelete k => do u <- key_url base k; Ok (Rename.OpDelete u)
  | Rename.OpCreate k => do u <- key_url base k; Ok (Rename.OpCreate u)
  | Rename.OpInsert k t => do u <- key_url base k; Ok (Rename.OpInsert u t)
  | Rename.OpOther w => Ok (Rename.OpOther w)
  end.

Definition handle_rename (cf : config) (sv : sstate) (key : string) (p : IweV.Pos.pos) (new_name : string)
  : res Rename.rresult :=
  do r <- Rename.handle_rename (cf_fx cf) (cf_opts cf) (gs_graph (ss_gs sv)) (cf_tables cf) key
            (site_of (cf_pos cf) (ss_docs sv) key p) new_name;
  match r with
  | Rename.REdits ops => do ops' <- mapm (op_url (cf_base cf)) ops; Ok (Rename.REdits ops')
  | _ => Ok r
  end.

(* ---------- requests, responses, the handler ------------------------------------------------------------------- *)

Inductive request :=
| RInlayHint (key : string)
| RInlineValues
| RDocumentSymbol (key : string)
| RDefinition (key : string) (p : IweV.Pos.pos)
| RWorkspaceSymbol (query_empty : bool) (score : string -> Z)
| RCompletion (key : string)
| RCompletionResolve
| RCodeAction (key : string) (line : nat) (empty_range : bool) (only : option (list akind))
| RCodeActionResolve (k : option akind) (data : option nat) (kg : keygen)
| RFormatting (key : string)
| RReferences (key : string)
| RPrepareRename (key : string) (p : IweV.Pos.pos)
| RRename (key : string) (p : IweV.Pos.pos) (new_name : string)
| RCommand (c : cmd)
| RUnknown.

Inductive response :=
| VHints (h : list string * nat * list (nat * nat))
| VNothing                                              (* inlineValues: `[]` *)
| VSymbols (l : list (string * string * nat))
| VDefinition (l : option (option string))
| VWorkspaceSymbols (l : list (string * bool * string * nat))
| VCompletion (l : list (string * string))
| VSame                                                 (* completionItem/resolve: the item itself *)
| VActions (l : list (akind * string * nat))
| VEdit (l : list dchange)
| VText (t : string)
| VLocations (l : list (string * lrange))
| VPrepare (o : option (IweV.Pos.irange * string))
| VRename (r : Rename.rresult).

Definition rmap {A B} (f : A -> B) (r : res A) : res B :=
  match r with Ok a => Ok (f a) | Panic s => Panic s end.

Definition handle (cf : config) (sv : sstate) (r : request) : res response :=
  let s := ss_gs sv in
  match r with
  | RInlayHint key => rmap VHints (handle_inlay_hints s key)
  | RInlineValues => Ok VNothing
  | RDocumentSymbol key => rmap VSymbols (handle_document_symbols (cf_base cf) s key)
  | RDefinition key p => rmap VDefinition (handle_definition cf sv key p)
  | RWorkspaceSymbol qe score => rmap VWorkspaceSymbols (handle_workspace_symbols (cf_base cf) sv qe score)
  | RCompletion key => Ok (VCompletion (handle_completion cf s key))
  | RCompletionResolve => Ok VSame
  | RCodeAction key line er only => rmap VActions (handle_code_action cf s key line er only)
  | RCodeActionResolve k data kg => rmap VEdit (handle_code_action_resolve cf s k data kg)
  | RFormatting key => rmap VText (handle_formatting cf s key)
  | RReferences key => rmap VLocations (handle_references (cf_base cf) s key)
  | RPrepareRename key p => rmap VPrepare (handle_prepare_rename cf sv key p)
  | RRename key p new_name => rmap VRename (handle_rename cf sv key p new_name)
  | RCommand c => do l <- cf_command cf s c; rmap VEdit (mapm (doc_change cf (gs_graph s)) l)
  | RUnknown => Panic "unhandled request"
  end.

(* ---------- notifications, start ----------------------------------------------------------------------------------- *)

(* what the reader made of the text of a didChange / didSave: the blocks the graph is built from
   and the positioned document the parser holds (two views of one `MarkdownReader::document`) *)
Inductive note :=
| NChange (key : string) (meta : option string) (bs : list dblock) (d : doc)
| NChangeNone          (* didChange with no content change: `content_changes.first().unwrap()` *)
| NSaveNoText.         (* didSave without text: `params.text.map(..)` does nothing *)

(* Database::update_document (database.rs:112-116): update_key, content.insert, search_paths *)
Definition did_change (sv : sstate) (n : note) : res sstate :=
  match n with
  | NChange key meta bs d =>
      do s' <- update_state_v true (ss_gs sv) key meta bs;
      do ps <- search_paths true s';
      Ok (SS s' (ainsert key d (ss_docs sv)) ps)
  | NChangeNone => Panic "content_changes.first().unwrap()"
  | NSaveNoText => Ok sv
  end.

(* the loop thread catches the panic of a notification (router.rs:85-96) and goes on *)
Definition apply_note (sv : sstate) (n : note) : sstate :=
  match did_change sv n with Ok sv' => sv' | Panic _ => sv end.

(* Server::new / Database::new (database.rs:80-96): import, search_paths, the texts by key *)
Definition server_new (notes : list (string * option string * list dblock)) (docs : list (string * doc)) : res sstate :=
  do s <- import_state_v true notes;
  do ps <- search_paths true s;
  Ok (SS s docs ps).

Fixpoint server_run (sv : sstate) (ns : list note) : res sstate :=
  match ns with
  | [] => Ok sv
  | n :: r => do sv' <- did_change sv n; server_run sv' r
  end.

(* ---------- which requests can make a handler panic ---------------------------------------------------------------- *)

(* the link under the cursor has a sound end column (Pos.key_range subtracts 1 from it) *)
Definition link_end_ok (v : IweV.Pos.variant) (docs : list (string * doc)) (key : string) (p : IweV.Pos.pos) : bool :=
  match alookup key docs with
  | None => true
  | Some d => match IweV.Pos.link_at v d p with
              | Ok (Some i) => is_ok (IweV.Pos.key_range i)
              | _ => true
              end
  end.


(* The classifier.  ServerFacts.C12_handler_panic_domain: at every state reached by Server::new on
   notes with distinct keys and any notifications, `handle cf sv r = Panic _` implies
   `may_panic cf sv r = true`.  The classes (each shown real in ServerFacts S3b):
     1  the note of the request does not exist: inlay hints, formatting, code actions (exact);
     2  codeAction/resolve without data / kind, or outside ActionsTotal.resolve_domain (exact): a
        stale or foreign node id, a kind that does not apply to the node, no key left to draw;
     3  a library directory that is not absolute: every method that builds a URI;
     4  the tree before d2c35b3 (`line_range` of a list whose first item is empty): definition,
        prepare rename, rename;
     5  prepare rename on a link whose end column is 0 (`end.character - 1`);
     6  rename in a tree without the one-key repair (fx_subdir: before it, a new name that resolves,
        from the directory of the note under the cursor, to another key than the one the patch was
        built under - every note in a sub-directory) or without fix-rename-dangling (a link to no
        note); with both repairs (/repo) no rename request is in the class;
     7  executeCommand: whatever the (unmodelled) command does;  8  an unknown method. *)
Definition may_panic (cf : config) (sv : sstate) (r : request) : bool :=
  let g := gs_graph (ss_gs sv) in
  match r with
  | RInlayHint key | RFormatting key => negb (key_exists g key)
  | RInlineValues | RCompletion _ | RCompletionResolve => false
  | RDocumentSymbol _ | RWorkspaceSymbol _ _ | RReferences _ => negb (base_ok (cf_base cf))
  | RDefinition _ _ => negb (IweV.Pos.v_empty_item (cf_pos cf))
  | RCodeAction key _ _ _ => negb (key_exists g key)
  | RCodeActionResolve k data kg =>
      match k, data with
      | Some k, Some target =>
          negb (resolve_domain (graph_ctx g) k kg target) || negb (base_ok (cf_base cf))
      | _, _ => true
      end
  | RPrepareRename key p =>
      negb (IweV.Pos.v_empty_item (cf_pos cf)) || negb (link_end_ok (cf_pos cf) (ss_docs sv) key p)
  | RRename key p new_name =>
      negb (IweV.Pos.v_empty_item (cf_pos cf)) || negb (base_ok (cf_base cf))
      || negb (Rename.fx_dangling (cf_fx cf)) || negb (Rename.fx_subdir (cf_fx cf))
  | RCommand c =>
      negb (is_ok (cf_command cf (ss_gs sv) c)) || negb (base_ok (cf_base cf))
  | RUnknown => true
  end.
