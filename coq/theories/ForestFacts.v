(* ForestFacts.v — what the arena invariant [arena_ok] (ArenaWF.v) means for the walks over the
   arena (C20; used by C05/C17/C18): in EVERY well-formed arena, for every live node x,
     - the walk [subtree_ids f a x] (the ids `collect`, `delete_branch` and the index walk visit)
       visits only live nodes with ids >= x, each at most once (no sharing), and x is an ancestor
       (through the prev links) of every node it visits;
     - with fuel > length a - x it visits every live node that has x among its prev-ancestors
       (no orphan below x);
     - hence for a document root r the walk from r visits exactly the live nodes whose owner
       ([to_document]) is r, each once: the trees of the notes partition the live nodes. *)
From IweV Require Import Str Ast Arena ArenaWF ArenaFacts.
From Coq Require Import Lia Permutation.
Local Open Scope string_scope.
Local Open Scope list_scope.

Definition lv (a : arena) (id : nat) : Prop :=
  exists n, get a id = Some n /\ is_emptyk (g_kind n) = false.

(* x is reached from y by walking the prev links (x = y included) *)
Inductive anc (a : arena) (x : nat) : nat -> Prop :=
| anc_refl : anc a x x
| anc_step y n p : get a y = Some n -> g_prev n = Some p -> anc a x p -> anc a x y.

Lemma subtree_ids_S f a id :
  subtree_ids (S f) a id =
  match get a id with
  | None => []
  | Some n => id :: (match g_child n with Some c => subtree_ids f a c | None => [] end)
                 ++ (if is_dock (g_kind n) then []
                     else match g_next n with Some x => subtree_ids f a x | None => [] end)
  end.
Proof. cbn [subtree_ids]. destruct (get a id) as [n|]; [|reflexivity]. destruct (g_kind n); reflexivity. Qed.

Lemma NoDup_app_intro {A} (l1 l2 : list A) :
  NoDup l1 -> NoDup l2 -> (forall x, In x l1 -> In x l2 -> False) -> NoDup (l1 ++ l2).
Proof.
  induction l1 as [|x l1 IH]; intros H1 H2 Hd; cbn [app]; [exact H2|].
  inversion H1 as [|? ? Hx H1']; subst. constructor.
  - rewrite in_app_iff. intros [H|H]; [now apply Hx | apply (Hd x); [now left | exact H]].
  - apply IH; auto. intros y Hy1 Hy2. apply (Hd y); [now right | exact Hy2].
Qed.

Lemma anc_prepend a c y cn x :
  anc a c y -> get a c = Some cn -> g_prev cn = Some x -> anc a x y.
Proof.
  intros H Hc Hp. induction H as [|y n p Hy Hyp _ IH].
  - eapply anc_step; [exact Hc | exact Hp | apply anc_refl].
  - eapply anc_step; [exact Hy | exact Hyp | exact IH].
Qed.

Lemma anc_linear a u y : anc a u y -> forall v, anc a v y -> anc a u v \/ anc a v u.
Proof.
  induction 1 as [|y n p Hy Hp Hu IH]; intros v Hv.
  - now right.
  - inversion Hv as [|? n' p' Hy' Hp' Hv']; subst.
    + left. eapply anc_step; eauto.
    + rewrite Hy in Hy'. inversion Hy'; subst n'. rewrite Hp in Hp'. inversion Hp'; subst p'. now apply IH.
Qed.

(* the owner walk follows the prev links *)
Lemma owner_anc a f y r : to_document f a y = Ok r -> anc a r y.
Proof.
  revert y; induction f as [|f IH]; intros y H; [discriminate|].
  cbn [to_document] in H. destruct (get a y) as [n|] eqn:Hy; [|discriminate].
  destruct (g_kind n) eqn:Ek; try discriminate;
    try (destruct (g_prev n) as [p|] eqn:Hp; [|discriminate];
         eapply anc_step; [exact Hy | exact Hp | now apply IH]).
  inversion H; subst. apply anc_refl.
Qed.

Section Forest.
  Variable a : arena.
  Hypothesis Hok : arena_ok a = true.

  Let Hall : forall id m, get a id = Some m -> node_ok a id m = true.
  Proof. now apply arena_ok_spec. Qed.

  (* a downward link of a live node: a later live node that points back *)
  Lemma link_down x n c :
    get a x = Some n -> is_emptyk (g_kind n) = false -> (g_child n = Some c \/ g_next n = Some c) ->
    x < c /\ exists cn, get a c = Some cn /\ is_emptyk (g_kind cn) = false /\ g_prev cn = Some x.
  Proof.
    intros Hn He Hc. destruct (node_ok_live a x n (Hall _ _ Hn) He) as (_ & _ & Hcb & _ & Hnb).
    destruct Hc as [Hc|Hc]; rewrite Hc in *; now apply back_ok_some.
  Qed.

  (* the upward link of a live node: an earlier live node of which it is the child, or (not under
     a document) the next sibling, never both *)
  Lemma link_up y n p :
    get a y = Some n -> is_emptyk (g_kind n) = false -> g_prev n = Some p ->
    is_dock (g_kind n) = false /\ p < y /\
    exists pn, get a p = Some pn /\ is_emptyk (g_kind pn) = false /\
      (g_child pn = Some y \/ (g_next pn = Some y /\ is_dock (g_kind pn) = false)) /\
      (g_child pn = Some y -> g_next pn = Some y -> False).
  Proof.
    intros Hn He Hp. destruct (node_ok_live a y n (Hall _ _ Hn) He) as (Hup & _).
    destruct (up_ok_some a y n p Hup Hp) as (Hd & Hlt & pn & Hg & Hpe & Hx).
    split; [exact Hd|]. split; [exact Hlt|]. exists pn. split; [exact Hg|]. split; [exact Hpe|].
    destruct (node_ok_live a p pn (Hall _ _ Hg) Hpe) as (_ & _ & _ & Hni & _).
    split.
    - destruct (oeqb (g_child pn) y) eqn:E1.
      + left. now apply oeqb_true.
      + right. cbn [xorb] in Hx. destruct (oeqb (g_next pn) y) eqn:E2; [|discriminate].
        clear Hx. apply oeqb_true in E2. rename E2 into Hx. rewrite Hx in Hni. cbn in Hni.
        split; [exact Hx|]. now apply Bool.negb_true_iff in Hni.
    - intros H1 H2. rewrite H1, H2 in Hx. cbn in Hx. rewrite Nat.eqb_refl in Hx. discriminate.
  Qed.

  Lemma anc_le x y : anc a x y -> lv a y -> x <= y.
  Proof.
    induction 1 as [|y n p Hy Hp _ IH]; intros (m & Hm & He); [lia|].
    rewrite Hy in Hm. inversion Hm; subst m.
    destruct (link_up y n p Hy He Hp) as (_ & Hlt & pn & Hg & Hpe & _).
    assert (x <= p) by (apply IH; now exists pn). lia.
  Qed.

  (* soundness of the walk *)
  Lemma subtree_sound f : forall x y, lv a x -> In y (subtree_ids f a x) -> x <= y /\ lv a y /\ anc a x y.
  Proof.
    induction f as [|f IH]; intros x y Hx Hin; [contradiction|].
    rewrite subtree_ids_S in Hin. destruct Hx as (n & Hn & He). rewrite Hn in Hin.
    destruct Hin as [<-|Hin].
    { split; [lia|]. split; [now exists n | apply anc_refl]. }
    apply in_app_iff in Hin. destruct Hin as [Hin|Hin].
    - destruct (g_child n) as [c|] eqn:Ec; [|contradiction].
      destruct (link_down x n c Hn He (or_introl Ec)) as (Hlt & cn & Hc & Hce & Hcp).
      destruct (IH c y (ex_intro _ cn (conj Hc Hce)) Hin) as (Hle & Hy & Ha).
      split; [lia|]. split; [exact Hy|]. eapply anc_prepend; eauto.
    - destruct (is_dock (g_kind n)); [contradiction|].
      destruct (g_next n) as [c|] eqn:Ec; [|contradiction].
      destruct (link_down x n c Hn He (or_intror Ec)) as (Hlt & cn & Hc & Hce & Hcp).
      destruct (IH c y (ex_intro _ cn (conj Hc Hce)) Hin) as (Hle & Hy & Ha).
      split; [lia|]. split; [exact Hy|]. eapply anc_prepend; eauto.
  Qed.

  (* the subtree below the child and the one below the next sibling do not meet *)
  Lemma branches_apart x n c d y :
    get a x = Some n -> is_emptyk (g_kind n) = false -> g_child n = Some c -> g_next n = Some d ->
    anc a c y -> anc a d y -> False.
  Proof.
    intros Hn He Ec Ed Hc Hd.
    destruct (link_down x n c Hn He (or_introl Ec)) as (Hltc & cn & Hgc & Hce & Hcp).
    destruct (link_down x n d Hn He (or_intror Ed)) as (Hltd & dn & Hgd & Hde & Hdp).
    assert (Hne : c <> d).
    { intros <-. destruct (link_up c cn x Hgc Hce Hcp) as (_ & _ & pn & Hg & _ & _ & Hx).
      rewrite Hn in Hg. inversion Hg; subst pn. auto. }
    assert (Hx : lv a x) by (now exists n).
    destruct (anc_linear a c y Hc d Hd) as [H|H]; inversion H as [|? m p Hm Hp Hup]; subst; try congruence.
    - rewrite Hgd in Hm. inversion Hm; subst m. rewrite Hdp in Hp. inversion Hp; subst p.
      pose proof (anc_le c x Hup Hx). lia.
    - rewrite Hgc in Hm. inversion Hm; subst m. rewrite Hcp in Hp. inversion Hp; subst p.
      pose proof (anc_le d x Hup Hx). lia.
  Qed.

  (* no node is visited twice *)
  Theorem subtree_NoDup f : forall x, lv a x -> NoDup (subtree_ids f a x).
  Proof.
    induction f as [|f IH]; intros x Hx; [constructor|].
    rewrite subtree_ids_S. destruct Hx as (n & Hn & He). rewrite Hn.
    set (L1 := match g_child n with Some c => subtree_ids f a c | None => [] end).
    set (L2 := if is_dock (g_kind n) then [] else match g_next n with Some c => subtree_ids f a c | None => [] end).
    assert (H1 : forall y, In y L1 -> exists c, g_child n = Some c /\ x < y /\ anc a c y).
    { intros y Hy. unfold L1 in Hy. destruct (g_child n) as [c|] eqn:Ec; [|contradiction].
      destruct (link_down x n c Hn He (or_introl Ec)) as (Hlt & cn & Hc & Hce & _).
      destruct (subtree_sound f c y (ex_intro _ cn (conj Hc Hce)) Hy) as (Hle & _ & Ha).
      exists c. split; [reflexivity|]. split; [lia | exact Ha]. }
    assert (H2 : forall y, In y L2 -> exists c, g_next n = Some c /\ x < y /\ anc a c y).
    { intros y Hy. unfold L2 in Hy. destruct (is_dock (g_kind n)); [contradiction|].
      destruct (g_next n) as [c|] eqn:Ec; [|contradiction].
      destruct (link_down x n c Hn He (or_intror Ec)) as (Hlt & cn & Hc & Hce & _).
      destruct (subtree_sound f c y (ex_intro _ cn (conj Hc Hce)) Hy) as (Hle & _ & Ha).
      exists c. split; [reflexivity|]. split; [lia | exact Ha]. }
    constructor.
    - rewrite in_app_iff. intros [H|H]; [destruct (H1 x H) as (_ & _ & ? & _) | destruct (H2 x H) as (_ & _ & ? & _)]; lia.
    - apply NoDup_app_intro.
      + unfold L1. destruct (g_child n) as [c|] eqn:Ec; [|constructor].
        destruct (link_down x n c Hn He (or_introl Ec)) as (_ & cn & Hc & Hce & _).
        apply IH. now exists cn.
      + unfold L2. destruct (is_dock (g_kind n)); [constructor|].
        destruct (g_next n) as [c|] eqn:Ec; [|constructor].
        destruct (link_down x n c Hn He (or_intror Ec)) as (_ & cn & Hc & Hce & _).
        apply IH. now exists cn.
      + intros y Hy1 Hy2. destruct (H1 y Hy1) as (c & Ec & _ & Hc). destruct (H2 y Hy2) as (d & Ed & _ & Hd).
        eapply branches_apart; eauto.
  Qed.

  (* completeness of the walk, given fuel for the ids above x *)
  Lemma subtree_self f x n : 1 <= f -> get a x = Some n -> In x (subtree_ids f a x).
  Proof. intros Hf Hn. destruct f as [|f]; [lia|]. rewrite subtree_ids_S, Hn. now left. Qed.

  Lemma subtree_closed f : forall x, length a < f + x -> lv a x ->
    forall p pn y, In p (subtree_ids f a x) -> get a p = Some pn ->
      (g_child pn = Some y \/ (g_next pn = Some y /\ is_dock (g_kind pn) = false)) ->
      In y (subtree_ids f a x).
  Proof.
    induction f as [|f IH]; intros x Hf Hx p pn y Hin Hp Hy; [contradiction|].
    rewrite subtree_ids_S in Hin |- *. destruct Hx as (n & Hn & He). rewrite Hn in Hin |- *.
    (* the two branches, with their fuel *)
    assert (HL : forall c, (g_child n = Some c \/ g_next n = Some c) ->
              length a < f + c /\ lv a c /\ In c (subtree_ids f a c)).
    { intros c Hc. destruct (link_down x n c Hn He Hc) as (Hlt & cn & Hgc & Hce & _).
      pose proof (get_lt _ _ _ Hgc) as Hcl.
      split; [lia|]. split; [now exists cn|]. apply (subtree_self f c cn); [lia | exact Hgc]. }
    right. apply in_app_iff.
    destruct Hin as [<-|Hin].
    - rewrite Hn in Hp. inversion Hp; subst pn.
      destruct Hy as [Ec|[Ec Ed]].
      + left. rewrite Ec. apply (HL y). now left.
      + right. rewrite Ed, Ec. apply (HL y). now right.
    - apply in_app_iff in Hin. destruct Hin as [Hin|Hin].
      + left. destruct (g_child n) as [c|] eqn:Ec; [|contradiction].
        destruct (HL c (or_introl eq_refl)) as (Hfc & Hc & _).
        eapply IH; eauto.
      + right. destruct (is_dock (g_kind n)); [contradiction|].
        destruct (g_next n) as [c|] eqn:Ec; [|contradiction].
        destruct (HL c (or_intror eq_refl)) as (Hfc & Hc & _).
        eapply IH; eauto.
  Qed.

  Theorem subtree_complete f x y :
    length a < f + x -> lv a x -> lv a y -> anc a x y -> In y (subtree_ids f a x).
  Proof.
    intros Hf Hx Hy Ha. induction Ha as [|y n p Hn Hp Hup IH].
    - destruct Hx as (n & Hn & _). pose proof (get_lt _ _ _ Hn). apply (subtree_self f x n); [lia | exact Hn].
    - destruct Hy as (m & Hm & He). rewrite Hn in Hm. inversion Hm; subst m.
      destruct (link_up y n p Hn He Hp) as (_ & _ & pn & Hg & Hpe & Hlink & _).
      apply (subtree_closed f x Hf Hx p pn y); [|exact Hg | exact Hlink].
      apply IH. now exists pn.
  Qed.

  (* a live node below a document, through the prev links, is owned by it *)
  Lemma anc_owner r rn key y :
    get a r = Some rn -> g_kind rn = KDocument key -> anc a r y -> lv a y ->
    to_document (S y) a y = Ok r.
  Proof.
    intros Hr Hk Ha. induction Ha as [|y n p Hn Hp Hup IH]; intros Hy.
    - cbn [to_document]. now rewrite Hr, Hk.
    - destruct Hy as (m & Hm & He). rewrite Hn in Hm. inversion Hm; subst m.
      destruct (link_up y n p Hn He Hp) as (Hd & Hlt & pn & Hg & Hpe & _).
      assert (Hpo : to_document (S p) a p = Ok r) by (apply IH; now exists pn).
      cbn [to_document]. rewrite Hn.
      destruct (g_kind n) eqn:Ek; try discriminate; rewrite Hp;
        (apply (to_document_more a (S p)); [exact Hpo | lia]).
  Qed.

  (* the tree of a note is exactly the set of live nodes it owns *)
  Theorem subtree_owner_iff r rn key :
    get a r = Some rn -> g_kind rn = KDocument key ->
    forall y, In y (subtree_ids (S (length a)) a r) <-> (lv a y /\ to_document (S y) a y = Ok r).
  Proof.
    intros Hr Hk y.
    assert (Hlr : lv a r) by (exists rn; split; [exact Hr | now rewrite Hk]).
    split.
    - intros Hin. destruct (subtree_sound _ r y Hlr Hin) as (_ & Hy & Ha).
      split; [exact Hy|]. eapply anc_owner; eauto.
    - intros [Hy Ho]. apply subtree_complete; auto; [lia|]. eapply owner_anc; eauto.
  Qed.
End Forest.

Print Assumptions subtree_NoDup.
Print Assumptions subtree_owner_iff.
