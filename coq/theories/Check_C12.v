(* Check_C12.v — executable side of C12 (every request gets exactly one response and the
   server keeps serving): the case type the harness fills with what the real router did for a
   sequence of requests, the correspondence with the Router.v model (repaired worker rule, the
   handler outcomes being the observed ones: the theorems hold for every handler), and the
   property predicates evaluated on the observations alone. *)
From Coq Require Import ZArith.
From IweV Require Import Str Arena Harness Router.
From IweV Require Export Ast.
From IweV Require Import Text RelPath Project Library Index Paths TreeOps Actions ActionsTotal Server.
From IweV Require Rename Url Check_C08 Check_C13.
From IweV Require Export Pos.
Local Open Scope string_scope.
Local Open Scope list_scope.
Local Open Scope N_scope.

(* ---- the request as the handler model (Server.v) sees it ---- *)

(* fuzzy-score oracle of a workspace/symbol query: the non-zero SkimMatcherV2 scores by search text *)
Definition zs (neg : bool) (n : N) : Z := if neg then Z.opp (Z.of_N n) else Z.of_N n.
Definition score_of (tbl : list (string * Z)) (s : string) : Z :=
  match alookup s tbl with Some z => z | None => 0%Z end.

Inductive mreqk :=
| QReq (r : Server.request)   (* the handler runs on these parameters: key = `uri.to_key(base_path)` as the
                                 server maps it, line / character / node id (above 10000: 10000), kinds
                                 by provider, the new name, the query's scores *)
| QIllTyped                   (* the parameters do not deserialise: no handler runs, the router answers
                                 with an error (router.rs:265) *)
| QOutside.                   (* shutdown, workspace/executeCommand: outside Server.handle's modelled part *)

(* what the answer carries, cheaply, per method *)
Inductive osum :=
| ONone                                                   (* an error answer, or nothing kept *)
| OCount (n : nat)                                        (* inlineValues: length of the array *)
| OHints (l : list (string * nat))                        (* label, line *)
| OSymbols (l : list (string * string * nat))             (* name, uri, start line *)
| ODefinition (o : option string)                         (* the location's uri; None: `[]` *)
| OWsSymbols (l : list (string * bool * string * nat))    (* name, kind = NAMESPACE, uri, start line *)
| OCompletion (l : list (string * string))                (* label, inserted text *)
| OSame (b : bool)                                        (* completionItem/resolve: result = parameters *)
| OActions (l : list (nat * string * nat))                (* kind (Actions.kind_of_nat), title, data *)
| OEdit (l : list Server.dchange)                         (* codeAction/resolve: the edit's operations *)
| OText (t : string)                                      (* formatting: the new text *)
| OLocations (l : list (string * lrange))                 (* uri, start / end line *)
| OPrepare (o : option (IweV.Pos.irange * string))        (* range, placeholder *)
| ORename (r : Rename.rresult).

(* what was observed for one request *)
Record robs := RO {
  ro_id : N;
  ro_kind : N;            (* 0 any other method, 1 workspace/executeCommand, 2 shutdown *)
  ro_panicked : bool;     (* a panic was raised on this request's worker thread (panic hook) *)
  ro_resps : list N;      (* the responses carrying this id: 0 result null, 1 result, 2 error *)
  ro_done : bool;         (* the worker thread ended (dropped its clone) within the time limit *)
  ro_req : mreqk;
  ro_sum : osum           (* of the one response, when there is exactly one *)
}.

Inductive item :=
| IReq (o : robs) (probe probe2 : robs) (same : bool)
    (* one request, then the liveness probes (workspace/symbol "", code actions on note 2 line 0,
       in flight together); same: the probes' answers are the ones given before the request *)
| IBurst (os : list robs) (probe probe2 : robs) (same : bool)     (* requests in flight together *)
| INote (hostile : bool) (panicked : bool) (n : option Server.note) (tables : list (string * list string)).
    (* a notification sent while no request is alive; hostile: ill-typed parameters;
       panicked: the loop thread unwound out of on_notification; n: the notification as the model
       sees it (the new text read by the real reader), None: not a didChange / didSave or
       parameters that do not deserialise; tables: the table oracle of the state after it *)

(* one note of the start state: name in the State map, front matter, the real reader's blocks and
   positioned blocks *)
Record snote := SN { sn_name : string; sn_meta : option string; sn_blocks : list dblock; sn_doc : Server.doc }.

Record case := Case {
  c_items : list item;
  c_exit : bool;          (* `exit` is sent at the end (else the client just goes away) *)
  o_edits : N;            (* workspace/applyEdit requests received from the server *)
  o_stray : N;            (* responses whose id was never sent *)
  o_loop : N;             (* how `run` ended: 0 Err, 1 Ok, 2 still running, 3 the thread panicked *)
  c_notes : list snote;   (* the library the server is started on, in import order *)
  c_tables : list (string * list string)   (* table oracle of the start state *)
}.

(* ---- the model instance: the handler does what was observed ---- *)
Definition mreq_t := (bool * N)%type.         (* panics?, kind of the answer (0 null, 1 value, 2 error) *)
Definition handler_obs (_ : unit) (r : mreq_t) : res N :=
  if fst r then Panic "observed panic" else Ok (snd r).
Definition apply_unit (_ : unit) (_ : unit) : unit := tt.

(* the value a non-panicking handler returned is opaque to the model: its kind (null / value /
   error object from a deserialisation failure) is taken from the observed response *)
Definition answer_kind (o : robs) : N := match ro_resps o with [k] => k | _ => 1 end.

Definition mreq (o : robs) : msg unit mreq_t :=
  let r := (ro_panicked o, answer_kind o) in
  MReq (Rq (ro_id o) (match ro_kind o with 1 => KCmd r | 2 => KShutdown | _ => KPlain r end)).

Definition item_msgs (i : item) : list (msg unit mreq_t) :=
  match i with
  | IReq o p p2 _ => [mreq o; mreq p; mreq p2]
  | IBurst os p p2 _ => map mreq os ++ [mreq p; mreq p2]
  | INote hostile _ _ _ => [if hostile then MOther else MNote tt]
  end.

Definition case_msgs (c : case) : list (msg unit mreq_t) :=
  flat_map item_msgs (c_items c) ++ (if c_exit c then [MExit] else []).

Definition worker_run (p : nat) : list label := [WStart p; WCompute p; WRespond p; WExit p].

(* the canonical schedule: one message at a time, the members of a burst taken together *)
Fixpoint items_sched (pos : nat) (l : list item) : list label :=
  match l with
  | [] => []
  | IReq _ _ _ _ :: r =>
      LoopTake :: worker_run pos ++ LoopTake :: LoopTake :: worker_run (S pos) ++ worker_run (S (S pos))
      ++ items_sched (S (S (S pos))) r
  | IBurst os _ _ _ :: r =>
      let n := length os in
      repeat LoopTake n ++ flat_map worker_run (seq pos n)
      ++ LoopTake :: LoopTake :: worker_run (pos + n) ++ worker_run (S (pos + n)) ++ items_sched (S (S (pos + n))) r
  | INote _ _ _ _ :: r => LoopTake :: items_sched (S pos) r
  end.

Definition case_sched (c : case) : list label :=
  items_sched 0 (c_items c) ++ (if c_exit c then [LoopTake] else []).

Definition body_kind (b : body N) : N :=
  match b with BNull => 0 | BResult v => v | BError => 2 end.

Definition kinds_for (id : N) (o : list (out N)) : list N :=
  flat_map (fun x => match x with
                     | Resp _ i b => if N.eqb i id then [body_kind b] else []
                     | ApplyEdit _ _ => []
                     end) o.

Definition edits_of (o : list (out N)) : N :=
  N.of_nat (length (filter (fun x => match x with ApplyEdit _ _ => true | _ => false end) o)).

Definition item_obs (i : item) : list robs :=
  match i with IReq o p p2 _ => [o; p; p2] | IBurst os p p2 _ => os ++ [p; p2] | INote _ _ _ _ => [] end.
Definition item_probe (i : item) : list (robs * bool) :=
  match i with IReq _ p _ s => [(p, s)] | IBurst _ p _ s => [(p, s)] | INote _ _ _ _ => [] end.

Definition nlist_eqb := list_eqb N.eqb.

(* ---- the property, on the observations ---- *)
Definition once (o : robs) : bool := nlist_eqb (ro_resps o) [0] || nlist_eqb (ro_resps o) [1] || nlist_eqb (ro_resps o) [2].
Definition req_ok (o : robs) : bool :=
  once o && ro_done o && (if N.eqb (ro_kind o) 2 then nlist_eqb (ro_resps o) [0] else true).

(* known classes: what the tree without R9 does *)
Definition cls_panic_lost (o : robs) : bool := ro_panicked o && nlist_eqb (ro_resps o) [] && ro_done o.
Definition cls_command_unanswered (o : robs) : bool :=
  N.eqb (ro_kind o) 1 && negb (ro_panicked o) && nlist_eqb (ro_resps o) [] && ro_done o.


(* ================================================================================================ *)
(* the tie with the handler model (Server.v): state by state, request by request                     *)
(* ================================================================================================ *)

Local Close Scope N_scope.

(* the configuration of the run: /repo's tree (rename and position repairs as Check_C08 / Check_C13
   record them), library directory /base, LspClient::Unknown, Configuration::default()
   (prompt_key_prefix = "prompt", no LLM action), the table oracle of the state;
   executeCommand is outside *)
Definition mk_cf (tables : list (string * list string)) : config :=
  CF (Opts "") (fun k => match alookup k tables with Some l => l | None => [] end)
     Check_C08.impl_fixes Check_C13.C13_variant "/base" false (Some "prompt")
     (fun _ _ => Panic "executeCommand is not modelled").

(* the notes of the start state have pairwise distinct keys (hypothesis of the ServerFacts theorems) *)
Fixpoint nodup_strb (l : list string) : bool :=
  match l with [] => true | x :: r => negb (existsb (String.eqb x) r) && nodup_strb r end.
Definition start_notes (c : case) : list (string * option string * list dblock) :=
  map (fun n => (sn_name n, sn_meta n, sn_blocks n)) (c_notes c).
Definition distinct_namesb (c : case) : bool :=
  nodup_strb (map (fun n => key_name (fst (fst n))) (start_notes c)).

Definition start_state (c : case) : res sstate :=
  server_new (start_notes c)
             (map (fun n => (key_from_file_name (sn_name n), sn_doc n)) (c_notes c)).

(* the numbers the harness caps (node ids) stay meaningful: the arena is smaller than the cap *)
Definition cap : nat := 10000.
Definition state_small (sv : sstate) : bool := Nat.ltb (length (gr_arena (gs_graph (ss_gs sv)))) cap.

(* ---- equalities ---- *)
Definition pair_eqb {A B} (ea : A -> A -> bool) (eb : B -> B -> bool) (x y : A * B) : bool :=
  ea (fst x) (fst y) && eb (snd x) (snd y).
Definition lrange_eqb : lrange -> lrange -> bool := pair_eqb Nat.eqb Nat.eqb.
Definition irange_eqb : IweV.Pos.irange -> IweV.Pos.irange -> bool := pair_eqb lrange_eqb lrange_eqb.

Fixpoint remove_one {A} (eq : A -> A -> bool) (x : A) (l : list A) : option (list A) :=
  match l with
  | [] => None
  | y :: r => if eq x y then Some r else match remove_one eq x r with Some r' => Some (y :: r') | None => None end
  end.
(* the same elements with the same multiplicities *)
Fixpoint perm_eqb {A} (eq : A -> A -> bool) (a b : list A) : bool :=
  match a with
  | [] => match b with [] => true | _ => false end
  | x :: r => match remove_one eq x b with Some b' => perm_eqb eq r b' | None => false end
  end.

Fixpoint dedup_str (l : list string) : list string :=
  match l with
  | [] => []
  | x :: r => if existsb (String.eqb x) r then dedup_str r else x :: dedup_str r
  end.

Definition dchange_eqb (a b : dchange) : bool :=
  match a, b with
  | DDelete u, DDelete u' | DCreate u, DCreate u' => String.eqb u u'
  | DEdit u t, DEdit u' t' => String.eqb u u' && String.eqb t t'
  | _, _ => false
  end.
(* the same operation on the same file, whatever the text *)
Definition dchange_shape_eqb (a b : dchange) : bool :=
  match a, b with
  | DDelete u, DDelete u' | DCreate u, DCreate u' | DEdit u _, DEdit u' _ => String.eqb u u'
  | _, _ => false
  end.

Definition op_eqb (a b : Rename.op) : bool :=
  match a, b with
  | Rename.OpOverride u t, Rename.OpOverride u' t' | Rename.OpInsert u t, Rename.OpInsert u' t' =>
      String.eqb u u' && String.eqb t t'
  | Rename.OpDelete u, Rename.OpDelete u' | Rename.OpCreate u, Rename.OpCreate u' => String.eqb u u'
  | _, _ => false
  end.
Definition rresult_eqb (a b : Rename.rresult) : bool :=
  match a, b with
  | Rename.RErr m, Rename.RErr m' => String.eqb m m'
  | Rename.RNone, Rename.RNone => true
  | Rename.REdits l, Rename.REdits l' => list_eqb op_eqb l l'
  | _, _ => false
  end.

Definition nat_of_akind (k : akind) : nat :=
  match k with
  | SectionExtract => 1 | SubSectionsExtract => 2 | InlineSection => 3 | InlineQuote => 4
  | SectionToList => 5 | ListToSections => 6 | ListChangeType => 7
  end.

(* ---- what the answers look like on the wire ---- *)

(* server.rs:657-671 number_substr *)
Definition number_substr (n : nat) : string :=
  match n with
  | 0 | 1 => "" | 2 => "²" | 3 => "³" | 4 => "⁴" | 5 => "⁵" | 6 => "⁶" | 7 => "⁷" | 8 => "⁸" | 9 => "⁹"
  | _ => "+"
  end.

(* server.rs:287-343: the labels and lines of the hints; the container texts are `sorted().dedup()`:
   compared as a multiset of the distinct ones *)
Definition hint_labels (h : list string * nat * list (nat * nat)) : list (string * nat) :=
  let '(c, i, b) := h in
  map (fun t => ("↖" +++ t, 0)) (dedup_str c)
  ++ (if Nat.ltb 0 i then [("‹" +++ dec i +++ "›", 0)] else [])
  ++ map (fun cl => ("⎘" +++ number_substr (fst cl), snd cl)) b.

Definition str_nat_eqb : string * nat -> string * nat -> bool := pair_eqb String.eqb Nat.eqb.

(* completion items: the model keeps (title, inserted text), "[...]" standing for a prompt item whose
   text holds a drawn key; on the wire the labels are "🤖 title" / "🔗 title" *)
Definition completion_model (l : list (string * string)) : list (string * option string) :=
  map (fun x => if String.eqb (snd x) "[...]" then ("🤖 " +++ fst x, None) else ("🔗 " +++ fst x, Some (snd x))) l.
Definition completion_wire (l : list (string * string)) : list (string * option string) :=
  map (fun x => if starts_with "🤖 " (fst x) then (fst x, None) else (fst x, Some (snd x))) l.

(* the note a node belongs to has no table: the text rendered for an edit does not need the
   per-note table oracle (Server.doc_change looks tables up by note, the extracted note is new) *)
Definition no_tables_at (cf : config) (sv : sstate) (data : option nat) : bool :=
  match data with
  | Some id => match key_of (gs_graph (ss_gs sv)) id with
               | Ok k => match cf_tables cf k with [] => true | _ => false end
               | Panic _ => true
               end
  | None => true
  end.

(* stage (c): the content of an answered request *)
Definition content_ok (cf : config) (sv : sstate) (r : request) (v : response) (o : osum) : bool :=
  match v, o with
  | VHints h, OHints l => perm_eqb str_nat_eqb (hint_labels h) l
  | VNothing, OCount n => Nat.eqb n 0
  | VSymbols l, OSymbols l' => list_eqb (pair_eqb (pair_eqb String.eqb String.eqb) Nat.eqb) l l'
  | VDefinition None, ODefinition None => true
  | VDefinition (Some (Some u)), ODefinition (Some u') => String.eqb u u'
  | VDefinition (Some None), ODefinition (Some _) => true     (* a URL outside the modelled part of `url` *)
  | VWorkspaceSymbols l, OWsSymbols l' =>
      list_eqb (pair_eqb (pair_eqb (pair_eqb String.eqb Bool.eqb) String.eqb) Nat.eqb) l l'
  | VCompletion l, OCompletion l' =>
      perm_eqb (pair_eqb String.eqb (option_eqb String.eqb)) (completion_model l) (completion_wire l')
  | VSame, OSame b => b
  | VActions l, OActions l' =>
      list_eqb (pair_eqb (pair_eqb Nat.eqb String.eqb) Nat.eqb)
               (map (fun x => (nat_of_akind (fst (fst x)), snd (fst x), snd x)) l) l'
  | VEdit l, OEdit l' =>
      match r with
      | RCodeActionResolve _ data _ =>
          if no_tables_at cf sv data then list_eqb dchange_eqb l l' else list_eqb dchange_shape_eqb l l'
      | _ => false
      end
  | VText t, OText t' => String.eqb t t'
  | VLocations l, OLocations l' => perm_eqb (pair_eqb String.eqb lrange_eqb) l l'
  | VPrepare p, OPrepare p' => option_eqb (pair_eqb irange_eqb String.eqb) p p'
  | VRename x, ORename x' => rresult_eqb x x'
  | _, _ => false
  end.

(* the classes ServerFacts proves exact (C12_key_methods_exact, resolve_panic_exact,
   unknown_method_panics): there `may_panic` must imply the observed panic *)
Definition exact_class (cf : config) (r : request) : bool :=
  match r with
  | RInlayHint _ | RFormatting _ | RCodeAction _ _ _ _ | RUnknown => true
  | RCodeActionResolve _ _ _ => base_ok (cf_base cf)
  | _ => false
  end.

(* per request: (a) sound, (b) exact, handle panics iff observed, (c) content, ill-typed *)
Record tie := TIE { t_sound : bool; t_exact : bool; t_iff : bool; t_content : bool; t_ill : bool }.
Definition tie_ok : tie := TIE true true true true true.

Definition tie_req (cf : config) (sv : sstate) (o : robs) : tie :=
  match ro_req o with
  | QOutside => tie_ok
  | QIllTyped =>
      (* executeCommand unwraps the deserialisation (router.rs:185); every other method answers an error *)
      TIE true true true true (negb (ro_panicked o) && nlist_eqb (ro_resps o) [2%N])
  | QReq r =>
      let mp := may_panic cf sv r in
      let h := handle cf sv r in
      let p := ro_panicked o in
      TIE (implb p mp)
          (if exact_class cf r then implb mp p else true)
          (Bool.eqb (negb (is_ok h)) p)
          (match h with
           | Ok v => if p then true else content_ok cf sv r v (ro_sum o)
           | Panic _ => true
           end)
          true
  end.

(* walk the items: the state changes at the notifications only *)
Record walked := W { w_ties : list tie; w_notes_ok : bool }.

Fixpoint walk (cf : config) (sv : sstate) (l : list item) : walked :=
  match l with
  | [] => W [] true
  | IReq o p p2 _ :: r =>
      let w := walk cf sv r in W (map (tie_req cf sv) [o; p; p2] ++ w_ties w) (w_notes_ok w)
  | IBurst os p p2 _ :: r =>
      let w := walk cf sv r in W (map (tie_req cf sv) (os ++ [p; p2]) ++ w_ties w) (w_notes_ok w)
  | INote _ panicked n tables :: r =>
      match n with
      | None => walk cf sv r        (* not a modelled notification: the library does not change *)
      | Some n =>
          let sv' := did_change sv n in
          (* the loop thread unwound exactly when the model's notification panics *)
          let ok := Bool.eqb (negb (is_ok sv')) panicked in
          let sv2 := match sv' with Ok s => s | Panic _ => sv end in
          let w := walk (mk_cf tables) sv2 r in
          W (w_ties w) (ok && state_small sv2 && w_notes_ok w)
      end
  end.

(* development aid (./dbg.py C12 <case> 'Check_C12.dbg c <n>'): the n-th request with the model's values *)
Fixpoint walk_dbg (cf : config) (sv : sstate) (l : list item)
  : list (robs * option (bool * res response) * tie) :=
  let one o := (o, match ro_req o with QReq r => Some (may_panic cf sv r, handle cf sv r) | _ => None end, tie_req cf sv o) in
  match l with
  | [] => []
  | IReq o p p2 _ :: r => map one [o; p; p2] ++ walk_dbg cf sv r
  | IBurst os p p2 _ :: r => map one (os ++ [p; p2]) ++ walk_dbg cf sv r
  | INote _ _ None _ :: r => walk_dbg cf sv r
  | INote _ _ (Some n) tables :: r =>
      walk_dbg (mk_cf tables) (match did_change sv n with Ok s => s | Panic _ => sv end) r
  end.
Definition dbg (c : case) (n : nat) :=
  match start_state c with
  | Ok sv0 => nth_error (walk_dbg (mk_cf (c_tables c)) sv0 (c_items c)) n
  | Panic _ => None
  end.
Definition dbg_bad (c : case) :=
  match start_state c with
  | Ok sv0 => filter (fun x => let t := snd x in negb (t_sound t && t_exact t && t_iff t && t_content t && t_ill t))
                     (walk_dbg (mk_cf (c_tables c)) sv0 (c_items c))
  | Panic _ => []
  end.

(* development aid: how much the tie looked at - per case: modelled requests, observed panics among
   them, `may_panic` true, `handle` panics, answers whose content was compared, by constructor of
   the response (hints, nothing, symbols, definition, workspace symbols, completion, same, actions,
   edit, text, locations, prepare, rename), modelled notifications *)
Definition resp_no (v : response) : nat :=
  match v with
  | VHints _ => 0 | VNothing => 1 | VSymbols _ => 2 | VDefinition _ => 3 | VWorkspaceSymbols _ => 4
  | VCompletion _ => 5 | VSame => 6 | VActions _ => 7 | VEdit _ => 8 | VText _ => 9 | VLocations _ => 10
  | VPrepare _ => 11 | VRename _ => 12
  end.
Definition count {A} (f : A -> bool) (l : list A) : nat := length (filter f l).
Definition stats (c : case) : list nat :=
  match start_state c with
  | Ok sv0 =>
      let l := walk_dbg (mk_cf (c_tables c)) sv0 (c_items c) in
      let q := flat_map (fun x => match snd (fst x) with Some mh => [(fst (fst x), mh)] | None => [] end) l in
      [length l; length q; count (fun x => ro_panicked (fst x)) q; count (fun x => fst (snd x)) q;
       count (fun x => negb (is_ok (snd (snd x)))) q;
       count (fun x => match ro_req (fst x) with QReq r => exact_class (mk_cf []) r && fst (snd x) | _ => false end) q;
       count (fun i => match i with INote _ _ (Some _) _ => true | _ => false end) (c_items c)]
      ++ map (fun k => count (fun x => match snd (snd x) with Ok v => Nat.eqb (resp_no v) k && negb (ro_panicked (fst x)) | Panic _ => false end) q)
             (seq 0 13)
  | Panic _ => []
  end.

Local Open Scope N_scope.

(* the tie stages:
     4  (a) an observed panic is in `may_panic`
     5  (b) on the exact classes `may_panic` is an observed panic
     6  `handle` panics exactly for the requests whose handler panicked
     7  (c) the content of the answers
     8  the states: distinct keys at the start, Server::new and every didChange / didSave (panic or
        not) as in the model, arenas below the cap
     9  parameters that do not deserialise: an error answer, no panic *)
Definition tie_stages (c : case) : list N :=
  match start_state c with
  | Panic _ => [8]
  | Ok sv0 =>
      let w := walk (mk_cf (c_tables c)) sv0 (c_items c) in
      flag 4 (forallb t_sound (w_ties w)) ++ flag 5 (forallb t_exact (w_ties w)) ++
      flag 6 (forallb t_iff (w_ties w)) ++ flag 7 (forallb t_content (w_ties w)) ++
      flag 8 (distinct_namesb c && state_small sv0 && w_notes_ok w) ++ flag 9 (forallb t_ill (w_ties w))
  end.

Definition run_C12 (c : case) : verdict :=
  let msgs := case_msgs c in
  let obs := flat_map item_obs (c_items c) in
  let probes := flat_map item_probe (c_items c) in
  let corr_with (wv : Router.variant) :=
    match run apply_unit handler_obs Repaired wv (init msgs tt) (case_sched c) with
    | None => [0]
    | Some s =>
        flag 0 (quiescentb s) ++
        flag 1 (forallb (fun o => nlist_eqb (kinds_for (ro_id o) (outbox s)) (ro_resps o)) obs) ++
        flag 2 (N.eqb (edits_of (outbox s)) (o_edits c)) ++
        flag 3 (Bool.eqb (stopped s) (N.eqb (o_loop c) 1))
    end in
  let p1 := forallb req_ok obs && N.eqb (o_stray c) 0 in
  let p2 := forallb (fun ps => nlist_eqb (ro_resps (fst ps)) [1] && snd ps) probes in
  let p3 := N.eqb (o_loop c) (if c_exit c then 1 else 0) in
  let p4 := forallb (fun i => match i with INote false true _ _ => false | _ => true end) (c_items c) in
  let prop := flag 1 p1 ++ flag 2 p2 ++ flag 3 p3 ++ flag 4 p4 in
  let k1 := existsb cls_panic_lost obs in
  let k2 := existsb cls_command_unanswered obs in
  (* a class explains the case only if nothing else is wrong with it *)
  let explained :=
    forallb (fun o => req_ok o || cls_panic_lost o || cls_command_unanswered o) obs
    && N.eqb (o_stray c) 0 && p2 && p3 && p4 in
  let cls := if explained then (if k1 then [1] else []) ++ (if k2 then [2] else []) else [] in
  let nontriv := existsb (fun o => ro_panicked o || negb (nlist_eqb (ro_resps o) [1])) obs
                 || existsb (fun i => match i with IBurst (_ :: _ :: _) _ _ _ => true | _ => false end) (c_items c) in
  (* the expected behaviour is the repaired one; a case that falls in a known class must instead
     correspond to the as-found worker rule (the model reproduces the defect) *)
  let corr := match cls with [] => corr_with Repaired | _ => corr_with AsFound end in
  V (corr ++ tie_stages c) prop cls nontriv.
