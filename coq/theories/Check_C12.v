(* Check_C12.v — executable side of C12 (every request gets exactly one response and the
   server keeps serving): the case type the harness fills with what the real router did for a
   sequence of requests, the correspondence with the Router.v model (repaired worker rule, the
   handler outcomes being the observed ones: the theorems hold for every handler), and the
   property predicates evaluated on the observations alone. *)
From IweV Require Import Str Arena Harness Router.
Local Open Scope string_scope.
Local Open Scope list_scope.
Local Open Scope N_scope.

(* what was observed for one request *)
Record robs := RO {
  ro_id : N;
  ro_kind : N;            (* 0 any other method, 1 workspace/executeCommand, 2 shutdown *)
  ro_panicked : bool;     (* a panic was raised on this request's worker thread (panic hook) *)
  ro_resps : list N;      (* the responses carrying this id: 0 result null, 1 result, 2 error *)
  ro_done : bool          (* the worker thread ended (dropped its clone) within the time limit *)
}.

Inductive item :=
| IReq (o : robs) (probe : robs) (same : bool)
    (* one request, then the liveness probe (workspace/symbol ""); same: the probe's answer is
       the one given before the request *)
| IBurst (os : list robs) (probe : robs) (same : bool)     (* requests in flight together *)
| INote (hostile : bool) (panicked : bool).
    (* a notification sent while no request is alive; hostile: ill-typed parameters;
       panicked: the loop thread unwound out of on_notification *)

Record case := Case {
  c_items : list item;
  c_exit : bool;          (* `exit` is sent at the end (else the client just goes away) *)
  o_edits : N;            (* workspace/applyEdit requests received from the server *)
  o_stray : N;            (* responses whose id was never sent *)
  o_loop : N              (* how `run` ended: 0 Err, 1 Ok, 2 still running, 3 the thread panicked *)
}.

(* ---- the model instance: the handler does what was observed ---- *)
Definition mreq_t := (bool * N)%type.         (* panics?, kind of the answer (0 null, 1 value, 2 error) *)
Definition handler_obs (_ : unit) (r : mreq_t) : res N :=
  if fst r then Panic "observed panic" else Ok (snd r).
Definition apply_unit (_ : unit) (_ : unit) : unit := tt.

(* the value a non-panicking handler returned is opaque to the model: its kind (null / value /
   error object from a deserialisation failure) is taken from the observed response *)
Definition answer_kind (o : robs) : N := match ro_resps o with [k] => k | _ => 1 end.

Definition mreq (o : robs) : msg unit mreq_t :=
  let r := (ro_panicked o, answer_kind o) in
  MReq (Rq (ro_id o) (match ro_kind o with 1 => KCmd r | 2 => KShutdown | _ => KPlain r end)).

Definition item_msgs (i : item) : list (msg unit mreq_t) :=
  match i with
  | IReq o p _ => [mreq o; mreq p]
  | IBurst os p _ => map mreq os ++ [mreq p]
  | INote hostile _ => [if hostile then MOther else MNote tt]
  end.

Definition case_msgs (c : case) : list (msg unit mreq_t) :=
  flat_map item_msgs (c_items c) ++ (if c_exit c then [MExit] else []).

Definition worker_run (p : nat) : list label := [WStart p; WCompute p; WRespond p; WExit p].

(* the canonical schedule: one message at a time, the members of a burst taken together *)
Fixpoint items_sched (pos : nat) (l : list item) : list label :=
  match l with
  | [] => []
  | IReq _ _ _ :: r => LoopTake :: worker_run pos ++ LoopTake :: worker_run (S pos) ++ items_sched (S (S pos)) r
  | IBurst os _ _ :: r =>
      let n := length os in
      repeat LoopTake n ++ flat_map worker_run (seq pos n)
      ++ LoopTake :: worker_run (pos + n) ++ items_sched (S (pos + n)) r
  | INote _ _ :: r => LoopTake :: items_sched (S pos) r
  end.

Definition case_sched (c : case) : list label :=
  items_sched 0 (c_items c) ++ (if c_exit c then [LoopTake] else []).

Definition body_kind (b : body N) : N :=
  match b with BNull => 0 | BResult v => v | BError => 2 end.

Definition kinds_for (id : N) (o : list (out N)) : list N :=
  flat_map (fun x => match x with
                     | Resp _ i b => if N.eqb i id then [body_kind b] else []
                     | ApplyEdit _ _ => []
                     end) o.

Definition edits_of (o : list (out N)) : N :=
  N.of_nat (length (filter (fun x => match x with ApplyEdit _ _ => true | _ => false end) o)).

Definition item_obs (i : item) : list robs :=
  match i with IReq o p _ => [o; p] | IBurst os p _ => os ++ [p] | INote _ _ => [] end.
Definition item_probe (i : item) : list (robs * bool) :=
  match i with IReq _ p s => [(p, s)] | IBurst _ p s => [(p, s)] | INote _ _ => [] end.

Definition nlist_eqb := list_eqb N.eqb.

(* ---- the property, on the observations ---- *)
Definition once (o : robs) : bool := nlist_eqb (ro_resps o) [0] || nlist_eqb (ro_resps o) [1] || nlist_eqb (ro_resps o) [2].
Definition req_ok (o : robs) : bool :=
  once o && ro_done o && (if N.eqb (ro_kind o) 2 then nlist_eqb (ro_resps o) [0] else true).

(* known classes: what the tree without R9 does *)
Definition cls_panic_lost (o : robs) : bool := ro_panicked o && nlist_eqb (ro_resps o) [] && ro_done o.
Definition cls_command_unanswered (o : robs) : bool :=
  N.eqb (ro_kind o) 1 && negb (ro_panicked o) && nlist_eqb (ro_resps o) [] && ro_done o.

Definition run_C12 (c : case) : verdict :=
  let msgs := case_msgs c in
  let obs := flat_map item_obs (c_items c) in
  let probes := flat_map item_probe (c_items c) in
  let corr_with (wv : variant) :=
    match run apply_unit handler_obs Repaired wv (init msgs tt) (case_sched c) with
    | None => [0]
    | Some s =>
        flag 0 (quiescentb s) ++
        flag 1 (forallb (fun o => nlist_eqb (kinds_for (ro_id o) (outbox s)) (ro_resps o)) obs) ++
        flag 2 (N.eqb (edits_of (outbox s)) (o_edits c)) ++
        flag 3 (Bool.eqb (stopped s) (N.eqb (o_loop c) 1))
    end in
  let p1 := forallb req_ok obs && N.eqb (o_stray c) 0 in
  let p2 := forallb (fun ps => nlist_eqb (ro_resps (fst ps)) [1] && snd ps) probes in
  let p3 := N.eqb (o_loop c) (if c_exit c then 1 else 0) in
  let p4 := forallb (fun i => match i with INote false true => false | _ => true end) (c_items c) in
  let prop := flag 1 p1 ++ flag 2 p2 ++ flag 3 p3 ++ flag 4 p4 in
  let k1 := existsb cls_panic_lost obs in
  let k2 := existsb cls_command_unanswered obs in
  (* a class explains the case only if nothing else is wrong with it *)
  let explained :=
    forallb (fun o => req_ok o || cls_panic_lost o || cls_command_unanswered o) obs
    && N.eqb (o_stray c) 0 && p2 && p3 && p4 in
  let cls := if explained then (if k1 then [1] else []) ++ (if k2 then [2] else []) else [] in
  let nontriv := existsb (fun o => ro_panicked o || negb (nlist_eqb (ro_resps o) [1])) obs
                 || existsb (fun i => match i with IBurst (_ :: _ :: _) _ _ => true | _ => false end) (c_items c) in
  (* the expected behaviour is the repaired one; a case that falls in a known class must instead
     correspond to the as-found worker rule (the model reproduces the defect) *)
  let corr := match cls with [] => corr_with Repaired | _ => corr_with AsFound end in
  V corr prop cls nontriv.
