(* SearchTie.v — the order of search results with equal rank depends on the edit history
   (finding F-SEARCHTIE of C04, DESIGN section 8 F15), shown on the model.

   Graph::search_paths (graph.rs:75-97) sorts the outline paths by node_rank (descending) and key;
   Database::global_search (database.rs:44-75) sorts them again, for the empty query by node_rank
   (descending) and the length of the search text.  Both sorts are stable and start from
   Graph::paths(), which is sorted by the node-id vectors (path.rs:101).  Two paths that reach the
   same section through two different notes with heading texts of equal length therefore stay in
   the order of the ids of those notes' sections - the order in which the two notes were last
   built: by key in a fresh import, by time of the update in a running server. *)
From Coq Require Import ZArith.
From IweV Require Import Str Text Ast RelPath Arena Project Library Index Paths.
Local Open Scope string_scope.
Local Open Scope list_scope.

(* `# t` | `# aa⏎⏎[[z]]` | `# bb⏎⏎[[z]]` as the reader returns them *)
Definition tie_z : string * option string * list dblock :=
  ("z", None, [DHeader (0, 1) 1 [Str "t"]]).
Definition tie_f : string * option string * list dblock :=
  ("f", None, [DHeader (0, 1) 1 [Str "aa"]; DPara (2, 3) [Link "z" "" WikiLink [Str "z"]]]).
Definition tie_b : string * option string * list dblock :=
  ("b", None, [DHeader (0, 1) 1 [Str "bb"]; DPara (2, 3) [Link "z" "" WikiLink [Str "z"]]]).

(* Database::global_search("") as (rank, key, search text) *)
Definition search_view (s : res gstate) : res (list (nat * string * string)) :=
  do gs <- s;
  do sps <- search_paths true gs;
  Ok (map (fun p => (sp_rank p, sp_key p, sp_text p)) (global_search true (map (fun p => (p, 0%Z)) sps))).

(* a server started on the three notes (Graph::import builds them in key order) *)
Definition tie_fresh : res gstate := import_state_v true [tie_b; tie_f; tie_z].
(* a server started on z alone in which f, then b were created *)
Definition tie_edited : res gstate :=
  do s <- import_state_v true [tie_z];
  do s <- update_state_v true s "f" None (snd tie_f);
  update_state_v true s "b" None (snd tie_b).

(* same texts, same keys, same ranks - another order *)
Theorem search_tie_refuted :
  search_view tie_fresh  = Ok [(2, "z", "bb t"); (2, "z", "aa t"); (0, "b", "bb"); (0, "f", "aa")] /\
  search_view tie_edited = Ok [(2, "z", "aa t"); (2, "z", "bb t"); (0, "b", "bb"); (0, "f", "aa")].
Proof. split; vm_compute; reflexivity. Qed.
