(* SearchTie.v — the order of search results with equal rank does NOT depend on the edit history
   (C04; the former finding F-SEARCHTIE, DESIGN section 8 F15, repaired in Graph::search_paths).

   As found, Graph::search_paths sorted the outline paths by node_rank (descending) and key, and
   Database::global_search (database.rs:44-75) sorts them again, for the empty query by node_rank
   (descending) and the length of the search text.  Both sorts are stable and start from
   Graph::paths(), which is sorted by the node-id vectors (path.rs:101): two paths that reach the
   same section through two different notes with heading texts of equal length stayed in the order
   of the ids of those notes' sections - the order in which the two notes were last built (by key in
   a fresh import, by time of the update in a running server).
   Since the repair the comparator of search_paths (graph.rs:87-96) goes on with the search text, the
   line and the heading texts of the chain: it is a total order on what an entry SAYS
   (Determinism2.sv_le_antisym), so the list handed to global_search - and with it every answer of
   global_search - read without node ids is a function of the multiset of entry contents
   (Determinism2.search_paths_content, global_search_content; combined here), and the witness of
   the finding answers alike after both histories. *)
From Coq Require Import ZArith.
From Coq Require Import List Permutation.
From IweV Require Import Str Text Ast RelPath Arena Project Library Index Paths PathsFacts Determinism2.
Local Open Scope string_scope.
Local Open Scope list_scope.

(* `# t` | `# aa⏎⏎[[z]]` | `# bb⏎⏎[[z]]` as the reader returns them *)
Definition tie_z : string * option string * list dblock :=
  ("z", None, [DHeader (0, 1) 1 [Str "t"]]).
Definition tie_f : string * option string * list dblock :=
  ("f", None, [DHeader (0, 1) 1 [Str "aa"]; DPara (2, 3) [Link "z" "" WikiLink [Str "z"]]]).
Definition tie_b : string * option string * list dblock :=
  ("b", None, [DHeader (0, 1) 1 [Str "bb"]; DPara (2, 3) [Link "z" "" WikiLink [Str "z"]]]).

(* Database::global_search("") as (rank, key, search text) *)
Definition search_view (s : res gstate) : res (list (nat * string * string)) :=
  do gs <- s;
  do sps <- search_paths true gs;
  Ok (map (fun p => (sp_rank p, sp_key p, sp_text p)) (global_search true (map (fun p => (p, 0%Z)) sps))).

(* a server started on the three notes (Graph::import builds them in key order) *)
Definition tie_fresh : res gstate := import_state_v true [tie_b; tie_f; tie_z].
(* a server started on z alone in which f, then b were created *)
Definition tie_edited : res gstate :=
  do s <- import_state_v true [tie_z];
  do s <- update_state_v true s "f" None (snd tie_f);
  update_state_v true s "b" None (snd tie_b).

(* same texts, same keys, same ranks - the same order (as found: `bb t` first after the fresh start,
   `aa t` first in the edited server) *)
Theorem search_tie_repaired :
  search_view tie_fresh  = Ok [(2, "z", "aa t"); (2, "z", "bb t"); (0, "b", "bb"); (0, "f", "aa")] /\
  search_view tie_edited = Ok [(2, "z", "aa t"); (2, "z", "bb t"); (0, "b", "bb"); (0, "f", "aa")].
Proof. split; vm_compute; reflexivity. Qed.

(* the ids do differ: the arenas of the two servers are not the same *)
Example search_tie_ids_differ :
  (do s <- tie_fresh; do l <- search_paths true s; Ok (map sp_ids (firstn 2 l))) <>
  (do s <- tie_edited; do l <- search_paths true s; Ok (map sp_ids (firstn 2 l))).
Proof. vm_compute. discriminate. Qed.

(* two paths with the same rank, key, search text and line that differ in the chain only (`a b • c`
   through f, `a • b • c` through g and y): the chain decides, alike after both histories *)
Definition chain_z : string * option string * list dblock := ("z", None, [DHeader (0, 1) 1 [Str "c"]]).
Definition chain_y : string * option string * list dblock :=
  ("y", None, [DHeader (0, 1) 1 [Str "b"]; DPara (2, 3) [Link "z" "" WikiLink [Str "z"]]]).
Definition chain_g : string * option string * list dblock :=
  ("g", None, [DHeader (0, 1) 1 [Str "a"]; DPara (2, 3) [Link "y" "" WikiLink [Str "y"]]]).
Definition chain_f : string * option string * list dblock :=
  ("f", None, [DHeader (0, 1) 1 [Str "a b"]; DPara (2, 3) [Link "z" "" WikiLink [Str "z"]]]).

Definition symbol_view (s : res gstate) : res (list string) :=
  do gs <- s;
  do sps <- search_paths true gs;
  symbol_names (gr_arena (gs_graph gs)) (global_search true (map (fun p => (p, 0%Z)) sps)).

Definition chain_fresh : res gstate := import_state_v true [chain_f; chain_g; chain_y; chain_z].
Definition chain_edited : res gstate :=
  do s <- import_state_v true [chain_y; chain_z];
  do s <- update_state_v true s "g" None (snd chain_g);
  do s <- update_state_v true s "f" None (snd chain_f);
  update_state_v true s "g" None (snd chain_g).

Theorem search_chain_tie :
  exists names, symbol_view chain_fresh = Ok names /\ symbol_view chain_edited = Ok names /\
    firstn 2 names = ["a • b • c"; "a b • c"].
Proof. eexists. split; [vm_compute; reflexivity|]. split; vm_compute; reflexivity. Qed.

(* C04_search_content.  Two states - two histories, two processes - whose outline paths make search
   entries with the same contents (the same multiset of rank, key, search text, line and chain of
   heading texts): Graph::search_paths returns in both, and for every query Database::global_search
   answers the same list, position by position, in everything an entry shows (rank, key, search text,
   line, root flag, texts of the chain = the symbol's name, kind and location).  [score]: the fuzzy score
   of a search text for the query (oracle, a function of the text). *)
Theorem search_content qe (score : string -> Z) s s' ps ps' l l' :
  sp_entries s ps = Ok l -> sp_entries s' ps' = Ok l' ->
  Permutation (map sp_view l) (map sp_view l') ->
  exists r r', search_paths_of s ps = Ok r /\ search_paths_of s' ps' = Ok r' /\
    map (sp_obs (gr_arena (gs_graph s))) r = map (sp_obs (gr_arena (gs_graph s'))) r' /\
    map (sp_obs (gr_arena (gs_graph s))) (global_search qe (map (fun p => (p, score (sp_text p))) r)) =
    map (sp_obs (gr_arena (gs_graph s'))) (global_search qe (map (fun p => (p, score (sp_text p))) r')).
Proof.
  intros E E' P. destruct (search_paths_content s s' ps ps' l l' E E' P) as (r & r' & H & H' & O).
  exists r, r'. repeat split; auto. now apply global_search_content.
Qed.

(* the premise holds of the witness (the two entry lists are permutations of each other's contents, not equal) *)
Example search_content_applies :
  exists s s' ps ps' l l',
    tie_fresh = Ok s /\ tie_edited = Ok s' /\ graph_to_paths true s = Ok ps /\ graph_to_paths true s' = Ok ps' /\
    sp_entries s ps = Ok l /\ sp_entries s' ps' = Ok l' /\
    Permutation (map sp_view l) (map sp_view l') /\ map sp_view l <> map sp_view l'.
Proof.
  do 6 eexists. split; [vm_compute; reflexivity|]. split; [vm_compute; reflexivity|].
  split; [vm_compute; reflexivity|]. split; [vm_compute; reflexivity|].
  split; [vm_compute; reflexivity|]. split; [vm_compute; reflexivity|].
  split; [|vm_compute; discriminate]. vm_compute.
  match goal with |- Permutation [?a; ?b; ?c; ?d] _ => exact (Permutation_app_comm [a; b] [c; d]) end.
Qed.
