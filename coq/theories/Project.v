(* Project.v — from the arena back to text: title refresh (`GraphInline::normalize`,
   `GraphNodePointer::node`), `Tree::from_pointer` with it (collect), `Projector`,
   `GraphBlock::to_markdown` and the front-matter wrapper of `Graph::to_markdown`. *)
From IweV Require Import Str Text Ast RelPath Arena.
Local Open Scope string_scope.
Local Open Scope list_scope.

Definition titles := string -> option string.   (* Graph::get_key_title *)

Fixpoint normalize_inline (ctx : titles) (i : inline) : inline :=
  match i with
  | Emph l => Emph (map (normalize_inline ctx) l)
  | Strong l => Strong (map (normalize_inline ctx) l)
  | Strike l => Strike (map (normalize_inline ctx) l)
  | Link url title lt l =>
      if is_ref_url url then
        Link url title lt
          match lt with
          | Regular => match ctx (key_name url) with Some t => [Str t] | None => l end
          | WikiLink => []
          | WikiLinkPiped => l
          end
      else i
  | _ => i
  end.

Definition normalize_inlines (ctx : titles) (l : list inline) := map (normalize_inline ctx) l.

(* GraphNodePointer::node *)
Definition pointer_node (ctx : titles) (k : gkind) : option node :=
  match k with
  | KSection l => Some (NSection (normalize_inlines ctx l))
  | KLeaf l => Some (NLeaf (normalize_inlines ctx l))
  | KRef key text rt =>
      Some (NRef key
              match rt with
              | Regular => match ctx key with Some t => t | None => text end
              | WikiLink => ""
              | WikiLinkPiped => text
              end rt)
  | KTable h al rows =>
      Some (NTable (map (normalize_inlines ctx) h) al (map (map (normalize_inlines ctx)) rows))
  | k => kind_node k
  end.

(* Graph::collect: `keys.get(key).expect(..)` then `collect_tree` *)
Definition collect (ctx : titles) (a : arena) (root : nat) : res tree :=
  do t <- collect_fuel (S (length a)) (fun _ k => pointer_node ctx k) a root;
  match t with Some t => Ok t | None => Panic "to have node" end.

(* ---------- Projector ---------------------------------------------------------------- *)

Definition node_inlines (n : node) : list inline :=
  match n with
  | NSection l => l
  | NLeaf l => l
  | NRef _ text _ => [Str text]
  | _ => []
  end.

Definition first_is_leaf (kids : list tree) : bool :=
  match kids with T _ (NLeaf _) _ :: _ => true | _ => false end.

(* model/graph.rs `GraphInline::relative_to(parent)`: the inline as it is written in a note of the
   directory [parent] - a link to a note holds the key of the note and is written relative to the
   linking note like a block reference (`Key::name(url).to_rel_link_url(parent)`), through every
   nesting (emphasis, link texts, image texts) *)
Fixpoint rel_inline (parent : string) (i : inline) : inline :=
  match i with
  | Emph l => Emph (map (rel_inline parent) l)
  | Strong l => Strong (map (rel_inline parent) l)
  | Strike l => Strike (map (rel_inline parent) l)
  | Link url title lt l =>
      Link (if is_ref_url url then to_rel_link_url (key_name url) parent else url) title lt
           (map (rel_inline parent) l)
  | Image url title l => Image url title (map (rel_inline parent) l)
  | _ => i
  end.
Definition rel_inlines (parent : string) (l : list inline) : list inline := map (rel_inline parent) l.

Section Projector.
  Variable parent : string.

  (* projector.rs `Projector::relative`: every inline list that leaves the tree *)
  Definition out_inlines (n : node) : list inline := rel_inlines parent (node_inlines n).

  Fixpoint project_node (hl : nat) (t : tree) {struct t} : list gblock :=
    match t with
    | T _ n kids =>
        match n with
        | NDocument _ => flat_map (project_node hl) kids
        (* projector.rs:38-46: `GraphBlock::Header(self.header_level + 1, ..)`; the counter and
           `Level` (model.rs:129) are both usize, so the level is exactly the nesting + 1 *)
        | NSection l => GHeader (hl + 1) (rel_inlines parent l) :: flat_map (project_node (hl + 1)) kids
        (* a quote or list whose projection has no content is skipped *)
        | NQuote => match flat_map (project_node 0) kids with [] => [] | q => [GQuote q] end
        | NBList =>
            match kids with
            | [] => []
            | _ => [GBList (map (fun c => match c with T _ cn ck =>
                        (if first_is_leaf ck then GPara (out_inlines cn) else GPlain (out_inlines cn))
                          :: flat_map (project_node 0) ck end) kids)]
            end
        | NOList =>
            match kids with
            | [] => []
            | _ => [GOList (map (fun c => match c with T _ cn ck =>
                        (if first_is_leaf ck then GPara (out_inlines cn) else GPlain (out_inlines cn))
                          :: flat_map (project_node 0) ck end) kids)]
            end
        | NLeaf l => [GPara (rel_inlines parent l)]
        | NRaw lang content => [GCode lang content]
        | NRule => [GRule]
        | NRef key text rt =>
            let ils := match rt with
                       | Regular => [Str text]
                       | WikiLink => []
                       | WikiLinkPiped => [Str text]
                       end in
            [GPara [Link (to_rel_link_url key parent) "" rt ils]]
        | NTable h al rows =>
            [GTable (map (rel_inlines parent) h) al (map (map (rel_inlines parent)) rows)]
        end
    end.

  Definition project (t : tree) : list gblock := project_node 0 t.
End Projector.

(* ---------- GraphBlock::to_markdown ---------------------------------------------------- *)

Record opts := Opts { refs_extension : string }.

(* model/graph.rs:160-173: a wiki link is written without the configured extension; the url of a
   note link that itself ends in `.md` gets one all the same (`ref_url`) *)
Definition wiki_url (url : string) : string := if is_ref_url url then ref_url url "" else url.

Fixpoint inline_md (o : opts) (i : inline) : string :=
  let fix go (l : list inline) : string :=
    match l with [] => "" | x :: r => inline_md o x +++ go r end in
  match i with
  | Str t => t
  | Emph l => "*" +++ go l +++ "*"
  | Strong l => "**" +++ go l +++ "**"
  | Strike l => "~~" +++ go l +++ "~~"
  | Code t => "`" +++ t +++ "`"
  | Math m => "$" +++ m +++ "$"
  | Link url _ lt l =>
      let text := go l in
      match lt with
      | WikiLinkPiped => "[[" +++ wiki_url url +++ "|" +++ text +++ "]]"
      | WikiLink => "[[" +++ wiki_url url +++ "]]"
      | Regular =>
          if negb (is_ref_url url) && eq_ignore_ascii_case text url then "<" +++ url +++ ">"
          else if is_ref_url url then "[" +++ text +++ "](" +++ ref_url url (refs_extension o) +++ ")"
          else "[" +++ text +++ "](" +++ url +++ ")"
      end
  | Image url _ l => "![" +++ go l +++ "](" +++ url +++ ")"
  end.

Definition inlines_md (o : opts) (l : list inline) : string := sconcat (map (inline_md o) l).

Definition is_paragraph (b : gblock) : bool :=
  match b with GPlain _ | GPara _ => true | _ => false end.

(* model/graph.rs:65-84 GraphBlock::absorbs: [next] written on the line right after [b] would be read
   as a part of it - a rule or a table under text (the rule as a setext underline, the table as more
   text), a quote or a table under a quote, a table under a list or under a table *)
Definition absorbs (b next : gblock) : bool :=
  match b, next with
  | (GPlain (_ :: _) | GPara (_ :: _)), (GRule | GTable _ _ _) => true
  | GQuote _, (GQuote _ | GTable _ _ _) => true
  | (GBList _ | GOList _ | GTable _ _ _), GTable _ _ _ => true
  | _, _ => false
  end.

(* `item.windows(2).any(|pair| pair[0].absorbs(&pair[1]))` *)
Fixpoint has_absorbed (item : list gblock) : bool :=
  match item with
  | a :: ((b :: _) as r) => absorbs a b || has_absorbed r
  | _ => false
  end.

(* model/graph.rs:53-63 GraphBlock::is_sparce_list: some item holds two paragraphs, or two blocks in a
   row that cannot be written on consecutive lines *)
Definition is_sparse (items : list (list gblock)) : bool :=
  existsb (fun item => Nat.ltb 1 (length (filter is_paragraph item)) || has_absorbed item) items.

Definition left_pad_and_prefix (text : string) : string :=
  sconcat (map (fun nl => let '(n, line) := nl in
                  if sempty line then LFS
                  else if Nat.eqb n 0 then "- " +++ line +++ LFS
                  else "  " +++ line +++ LFS)
               (combine (seq 0 (length (lines text))) (lines text))).

Definition left_pad_and_prefix_num (text : string) (num : nat) : string :=
  let prefix := dec num +++ "." +++ (if Nat.ltb 9 num then "" else " ") in
  sconcat (map (fun nl => let '(n, line) := nl in
                  if sempty line then LFS
                  else if Nat.eqb n 0 then prefix +++ " " +++ line +++ LFS
                  else srepeat " " (String.length prefix) +++ " " +++ line +++ LFS)
               (combine (seq 0 (length (lines text))) (lines text))).

Definition all_ws (s : string) : bool := sempty (trim s).

(* table text comes from pulldown-cmark-to-cmark: an oracle, consumed in document order *)
Fixpoint block_md (o : opts) (tables : list string) (b : gblock) {struct b} : string * list string :=
  let fix go (sep : string) (tb : list string) (l : list gblock) {struct l} : string * list string :=
    match l with
    | [] => ("", tb)
    | [x] => block_md o tb x
    | x :: r => let '(s, tb1) := block_md o tb x in
                let '(s', tb2) := go sep tb1 r in (s +++ sep +++ s', tb2)
    end in
  (* model/graph.rs:590-611 item_to_markdown + the list arms of to_markdown (126-140): an item whose first block is a
     paragraph without text is written from its second block on (a rule right after the marker in
     asterisks: dashes there would read as a rule of their own); items that come out empty are
     not written and take no number; the rest is joined *)
  let fix goi (ordered sparse : bool) (n : nat) (tb : list string) (items : list (list gblock)) {struct items}
      : list string * list string :=
    match items with
    | [] => ([], tb)
    | it :: r =>
        let sep := if sparse then LFS else "" in
        let '(s, tb1) :=
          match it with
          | (GPlain [] | GPara []) :: GRule :: rest =>
              match rest with
              | [] => (srepeat "*" 72 +++ LFS, tb)
              | _ => let '(s', tb') := go sep tb rest in (srepeat "*" 72 +++ LFS +++ sep +++ s', tb')
              end
          | (GPlain [] | GPara []) :: rest => go sep tb rest
          | _ => go sep tb it
          end in
        if sempty s then goi ordered sparse n tb1 r
        else
          let '(ss, tb2) := goi ordered sparse (S n) tb1 r in
          ((if ordered then left_pad_and_prefix_num s n else left_pad_and_prefix s) :: ss, tb2)
    end in
  match b with
  | GPlain l | GPara l => (inlines_md o l +++ LFS, tables)
  | GCode lang text =>
      match lang with
      | Some la => if all_ws la then ("```" +++ LFS +++ trim_lf text +++ LFS +++ "```" +++ LFS, tables)
                   else ("``` " +++ la +++ LFS +++ trim_lf text +++ LFS +++ "```" +++ LFS, tables)
      | None => ("```" +++ LFS +++ trim_lf text +++ LFS +++ "```" +++ LFS, tables)
      end
  | GQuote bs =>
      let '(s, tb) := go LFS tables bs in
      (join LFS (map (fun line => trim ("> " +++ line)) (lines s)) +++ LFS, tb)
  | GOList items => let '(ss, tb) := goi true (is_sparse items) 1 tables items in
                    (join (if is_sparse items then LFS else "") ss, tb)
  | GBList items => let '(ss, tb) := goi false (is_sparse items) 1 tables items in
                    (join (if is_sparse items then LFS else "") ss, tb)
  | GHeader level l => (srepeat "#" level +++ " " +++ inlines_md o l +++ LFS, tables)
  | GRule => (srepeat "-" 72 +++ LFS, tables)
  | GTable _ _ _ =>
      match tables with
      | t :: r => (t +++ LFS, r)
      | [] => ("<missing table oracle>", [])
      end
  end.

Fixpoint blocks_md (o : opts) (sep : string) (tables : list string) (l : list gblock) : string * list string :=
  match l with
  | [] => ("", tables)
  | [x] => block_md o tables x
  | x :: r => let '(s, tb1) := block_md o tables x in
              let '(s', tb2) := blocks_md o sep tb1 r in (s +++ sep +++ s', tb2)
  end.

(* NodeIter::to_markdown on a tree: project, then blocks_to_markdown_sparce *)
Definition tree_to_markdown (o : opts) (tables : list string) (parent : string) (t : tree) : string :=
  fst (blocks_md o LFS tables (project parent t)).

(* Graph::to_markdown: front matter first *)
Definition wrap_metadata (meta : option string) (body : string) : string :=
  match meta with
  | Some m => "---" +++ LFS +++ m +++ "---" +++ LFS +++ LFS +++ body
  | None => body
  end.
