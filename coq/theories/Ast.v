(* Ast.v — the data iwe moves around: inlines, reader blocks (DocumentBlock), graph
   blocks (GraphBlock), nodes and trees.  Only the constructors the reader can produce are
   kept (the Rust enums have more that nothing ever builds: SmallCaps, Underline, Div, ...).
   DocumentInline and GraphInline are one type here: `to_graph_inline` maps constructor to
   constructor. *)
From IweV Require Import Str.
Local Open Scope string_scope.
Local Open Scope list_scope.

Inductive link_type := Regular | WikiLink | WikiLinkPiped.

Inductive inline :=
| Str (s : string)
| Code (s : string)
| Math (s : string)
| Emph (l : list inline)
| Strong (l : list inline)
| Strike (l : list inline)
| Link (url title : string) (lt : link_type) (l : list inline)
| Image (url title : string) (l : list inline).

Inductive align := ANone | ALeft | ACenter | ARight.

Definition lrange := (nat * nat)%type.      (* Rust Range<usize>: start..end *)
Definition cells := list (list inline).     (* one table row *)

(* reader output *)
Inductive dblock :=
| DPara (lr : lrange) (l : list inline)
| DCode (lr : lrange) (lang : option string) (text : string)
| DQuote (lr : lrange) (bs : list dblock)
| DOList (items : list (list dblock))
| DBList (items : list (list dblock))
| DHeader (lr : lrange) (level : nat) (l : list inline)
| DRule (lr : lrange)
| DTable (lr : lrange) (header : cells) (al : list align) (rows : list cells).

(* projector output *)
Inductive gblock :=
| GPlain (l : list inline)
| GPara (l : list inline)
| GCode (lang : option string) (text : string)
| GQuote (bs : list gblock)
| GOList (items : list (list gblock))
| GBList (items : list (list gblock))
| GHeader (level : nat) (l : list inline)
| GRule
| GTable (header : cells) (al : list align) (rows : list cells).

Inductive node :=
| NDocument (key : string)
| NSection (l : list inline)
| NQuote
| NBList
| NOList
| NLeaf (l : list inline)
| NRaw (lang : option string) (content : string)
| NRule
| NRef (key text : string) (rt : link_type)
| NTable (header : cells) (al : list align) (rows : list cells).

Inductive tree := T (id : option nat) (n : node) (children : list tree).

Definition t_id (t : tree) := let 'T i _ _ := t in i.
Definition t_node (t : tree) := let 'T _ n _ := t in n.
Definition t_children (t : tree) := let 'T _ _ c := t in c.

(* ---------- boolean equalities (used by the correspondence checks) ---------------- *)

Definition link_type_eqb (a b : link_type) : bool :=
  match a, b with
  | Regular, Regular | WikiLink, WikiLink | WikiLinkPiped, WikiLinkPiped => true
  | _, _ => false
  end.

Definition align_eqb (a b : align) : bool :=
  match a, b with
  | ANone, ANone | ALeft, ALeft | ACenter, ACenter | ARight, ARight => true
  | _, _ => false
  end.

Fixpoint inline_eqb (a b : inline) {struct a} : bool :=
  let fix go (x y : list inline) {struct x} : bool :=
    match x, y with
    | [], [] => true
    | i :: x', j :: y' => inline_eqb i j && go x' y'
    | _, _ => false
    end in
  match a, b with
  | Str s, Str t => String.eqb s t
  | Code s, Code t => String.eqb s t
  | Math s, Math t => String.eqb s t
  | Emph l, Emph m => go l m
  | Strong l, Strong m => go l m
  | Strike l, Strike m => go l m
  | Link u t lt l, Link u' t' lt' m => String.eqb u u' && String.eqb t t' && link_type_eqb lt lt' && go l m
  | Image u t l, Image u' t' m => String.eqb u u' && String.eqb t t' && go l m
  | _, _ => false
  end.

Definition inlines_eqb := list_eqb inline_eqb.
Definition cells_eqb := list_eqb inlines_eqb.
Definition ostring_eqb := option_eqb String.eqb.
Definition onat_eqb := option_eqb Nat.eqb.
Definition lrange_eqb (a b : lrange) := Nat.eqb (fst a) (fst b) && Nat.eqb (snd a) (snd b).

Fixpoint dblock_eqb (a b : dblock) {struct a} : bool :=
  let fix go (x y : list dblock) {struct x} : bool :=
    match x, y with
    | [], [] => true
    | i :: x', j :: y' => dblock_eqb i j && go x' y'
    | _, _ => false
    end in
  let fix goi (x y : list (list dblock)) {struct x} : bool :=
    match x, y with
    | [], [] => true
    | i :: x', j :: y' => go i j && goi x' y'
    | _, _ => false
    end in
  match a, b with
  | DPara r l, DPara r' l' => lrange_eqb r r' && inlines_eqb l l'
  | DCode r la t, DCode r' la' t' => lrange_eqb r r' && ostring_eqb la la' && String.eqb t t'
  | DQuote r bs, DQuote r' bs' => lrange_eqb r r' && go bs bs'
  | DOList i, DOList i' => goi i i'
  | DBList i, DBList i' => goi i i'
  | DHeader r n l, DHeader r' n' l' => lrange_eqb r r' && Nat.eqb n n' && inlines_eqb l l'
  | DRule r, DRule r' => lrange_eqb r r'
  | DTable r h al rows, DTable r' h' al' rows' =>
      lrange_eqb r r' && cells_eqb h h' && list_eqb align_eqb al al' && list_eqb cells_eqb rows rows'
  | _, _ => false
  end.

Fixpoint gblock_eqb (a b : gblock) {struct a} : bool :=
  let fix go (x y : list gblock) {struct x} : bool :=
    match x, y with
    | [], [] => true
    | i :: x', j :: y' => gblock_eqb i j && go x' y'
    | _, _ => false
    end in
  let fix goi (x y : list (list gblock)) {struct x} : bool :=
    match x, y with
    | [], [] => true
    | i :: x', j :: y' => go i j && goi x' y'
    | _, _ => false
    end in
  match a, b with
  | GPlain l, GPlain l' => inlines_eqb l l'
  | GPara l, GPara l' => inlines_eqb l l'
  | GCode la t, GCode la' t' => ostring_eqb la la' && String.eqb t t'
  | GQuote bs, GQuote bs' => go bs bs'
  | GOList i, GOList i' => goi i i'
  | GBList i, GBList i' => goi i i'
  | GHeader n l, GHeader n' l' => Nat.eqb n n' && inlines_eqb l l'
  | GRule, GRule => true
  | GTable h al rows, GTable h' al' rows' =>
      cells_eqb h h' && list_eqb align_eqb al al' && list_eqb cells_eqb rows rows'
  | _, _ => false
  end.

Definition node_eqb (a b : node) : bool :=
  match a, b with
  | NDocument k, NDocument k' => String.eqb k k'
  | NSection l, NSection l' => inlines_eqb l l'
  | NQuote, NQuote | NBList, NBList | NOList, NOList | NRule, NRule => true
  | NLeaf l, NLeaf l' => inlines_eqb l l'
  | NRaw la c, NRaw la' c' => ostring_eqb la la' && String.eqb c c'
  | NRef k t rt, NRef k' t' rt' => String.eqb k k' && String.eqb t t' && link_type_eqb rt rt'
  | NTable h al rows, NTable h' al' rows' =>
      cells_eqb h h' && list_eqb align_eqb al al' && list_eqb cells_eqb rows rows'
  | _, _ => false
  end.

Fixpoint tree_eqb (a b : tree) {struct a} : bool :=
  let fix go (x y : list tree) {struct x} : bool :=
    match x, y with
    | [], [] => true
    | i :: x', j :: y' => tree_eqb i j && go x' y'
    | _, _ => false
    end in
  match a, b with
  | T i n c, T i' n' c' => onat_eqb i i' && node_eqb n n' && go c c'
  end.

(* trees compared without their ids *)
Fixpoint tree_eqb_noid (a b : tree) {struct a} : bool :=
  let fix go (x y : list tree) {struct x} : bool :=
    match x, y with
    | [], [] => true
    | i :: x', j :: y' => tree_eqb_noid i j && go x' y'
    | _, _ => false
    end in
  match a, b with
  | T _ n c, T _ n' c' => node_eqb n n' && go c c'
  end.

(* ---------- plain text -------------------------------------------------------------- *)

Fixpoint plain_text (i : inline) : string :=
  let fix go (l : list inline) : string :=
    match l with [] => "" | x :: r => plain_text x +++ go r end in
  match i with
  | Str s => s
  | Code s => s
  | Math _ => ""
  | Emph l | Strong l | Strike l => go l
  | Link _ _ _ l => go l
  | Image _ _ l => go l
  end.

Fixpoint sconcat (l : list string) : string :=
  match l with [] => "" | x :: r => x +++ sconcat r end.

Definition inlines_plain_text (l : list inline) : string := sconcat (map plain_text l).

(* ---------- induction principles for the nested types ---------------------------------- *)

Section InlineInd.
  Variable P : inline -> Prop.
  Hypothesis HStr : forall s, P (Str s).
  Hypothesis HCode : forall s, P (Code s).
  Hypothesis HMath : forall s, P (Math s).
  Hypothesis HEmph : forall l, Forall P l -> P (Emph l).
  Hypothesis HStrong : forall l, Forall P l -> P (Strong l).
  Hypothesis HStrike : forall l, Forall P l -> P (Strike l).
  Hypothesis HLink : forall u t lt l, Forall P l -> P (Link u t lt l).
  Hypothesis HImage : forall u t l, Forall P l -> P (Image u t l).

  Fixpoint inline_ind' (i : inline) : P i :=
    let fix go (l : list inline) : Forall P l :=
      match l with
      | [] => Forall_nil P
      | x :: r => Forall_cons x (inline_ind' x) (go r)
      end in
    match i with
    | Str s => HStr s
    | Code s => HCode s
    | Math s => HMath s
    | Emph l => HEmph l (go l)
    | Strong l => HStrong l (go l)
    | Strike l => HStrike l (go l)
    | Link u t lt l => HLink u t lt l (go l)
    | Image u t l => HImage u t l (go l)
    end.
End InlineInd.

Section TreeInd.
  Variable P : tree -> Prop.
  Hypothesis HT : forall i n c, Forall P c -> P (T i n c).

  Fixpoint tree_ind' (t : tree) : P t :=
    let fix go (l : list tree) : Forall P l :=
      match l with
      | [] => Forall_nil P
      | x :: r => Forall_cons x (tree_ind' x) (go r)
      end in
    match t with T i n c => HT i n c (go c) end.
End TreeInd.
