(* Check_C13.v — executable side of C13: the case type the harness fills (text, pulldown's
   event stream with byte ranges = the independent oracle, what the real reader / link_at /
   key_range / nodes_map returned), the correspondence model = observed, the property
   predicates evaluated on the observed values, and the classifiers of the known findings. *)
From IweV Require Export Str Text Ast Arena Pos Harness.
From IweV Require Import ReaderTotal.
Local Open Scope string_scope.
Local Open Scope list_scope.

(* The variant of the model the implementation is expected to match: /repo's current tree has
   every repair of Pos.variant (CRLF line table, UTF-16 columns, line_range of a list with an
   empty first item, child_inlines of a table, line range of an implicit paragraph), so the
   classes 1 / 2 are empty and the former classes 4 (tight item), 5 (table cell) and 7 (empty
   first item) no longer exist: a failure there is a VIOLATION.  A tree without one of those
   commits corresponds to the variant with that flag off. *)
Definition C13_variant : variant := repaired.

(* strings with control characters arrive as byte lists *)
Definition sbn (l : list nat) : string := sb (map N.of_nat l).

(* what link_at returned at a position: the link (with its key_range), or a panic *)
Inductive lres := LHit (l : pinl) (kr : option irange) | LPanic.

Record case := Case {
  c_text : string;
  c_events : list ev;                               (* pulldown, same Options as the reader *)
  o_doc : res (list pblock);                        (* MarkdownReader::document *)
  o_rows : list (nat * nat);                        (* the grid: (line, number of columns tried) *)
  o_hits : list (nat * (nat * nat) * lres);         (* line, columns [from, to): same result; absent = None *)
  o_map : res (list (nat * lrange));                (* nodes_map of the note imported alone *)
  o_node_at : list (option nat)                     (* get_node_id_at(line) for line = 0, 1, .. *)
}.

(* ---------- helpers -------------------------------------------------------------------- *)

Definition lres_eqb (a b : option lres) : bool :=
  match a, b with
  | None, None => true
  | Some LPanic, Some LPanic => true
  | Some (LHit l k), Some (LHit l' k') => pinl_eqb l l' && option_eqb irange_eqb k k'
  | _, _ => false
  end.

Definition lookup_hit (hits : list (nat * (nat * nat) * lres)) (p : pos) : option lres :=
  match find (fun h => let '(line, (a, b), _) := h in
                       Nat.eqb line (fst p) && Nat.leb a (snd p) && Nat.ltb (snd p) b) hits with
  | Some (_, _, r) => Some r
  | None => None
  end.

Definition grid (rows : list (nat * nat)) : list pos :=
  flat_map (fun r => map (fun c => (fst r, c)) (seq 0 (snd r))) rows.

Definition model_link_at (d : list pblock) (p : pos) : option lres :=
  match link_at C13_variant d p with
  | Ok None => None
  | Ok (Some l) => match key_range l with Ok k => Some (LHit l k) | Panic _ => Some LPanic end
  | Panic _ => Some LPanic
  end.

Definition docs_eqb (a b : res (list pblock)) : bool :=
  match a, b with
  | Ok x, Ok y => list_eqb pblock_eqb x y
  | Panic _, Panic _ => true
  | _, _ => false
  end.

(* GraphContext::get_node_id_at (graph.rs:475-483) on the observed map *)
Definition node_at (m : list (nat * lrange)) (line : nat) : option nat :=
  match find (fun e => lrange_contains (snd e) line) (rev m) with
  | Some e => Some (fst e)
  | None => None
  end.

Fixpoint alookup_nat {A} (k : nat) (l : list (nat * A)) : option A :=
  match l with
  | [] => None
  | (k', v) :: r => if Nat.eqb k k' then Some v else alookup_nat k r
  end.

(* position of [id]'s entry in the line map / position of the last range that contains [line]:
   the map and the pre-order list of block ranges run in step (one entry per block that has a
   range, blocks inside quotes included since the builder keeps the nested builder's entries),
   so the innermost block covering a line is the last range of the pre-order list that contains it *)
Fixpoint index_of_id (id : nat) (m : list (nat * lrange)) : option nat :=
  match m with
  | [] => None
  | (k, _) :: r => if Nat.eqb id k then Some 0 else option_map S (index_of_id id r)
  end.
Definition last_containing (rs : list lrange) (line : nat) : option nat :=
  fold_left (fun acc ir => if lrange_contains (snd ir) line then Some (fst ir) else acc)
            (combine (seq 0 (length rs)) rs) None.

(* ---------- the oracle side: links and ranges from pulldown's events ------------------- *)

(* links in event order with their byte range (in paragraphs, headings, items, quotes and
   table cells alike) *)
Fixpoint ev_links (evs : list ev) : list (link_type * string * (nat * nat)) :=
  match evs with
  | [] => []
  | EStart (TLink lt url) s e :: r => (lt, url, (s, e)) :: ev_links r
  | _ :: r => ev_links r
  end.

(* byte offsets the reader converts to a line, and those it converts to a line and column *)
Definition line_offsets (e : ev) : list (nat * nat) :=
  match e with
  | EStart (TPara | THeading | TQuote | TCodeBlock | TTable | TEmph | TStrong | TStrike | TLink _ _ | TImage) s e' => [(s, e')]
  | EText _ s e' | ECode _ s e' | EMath s e' | EInlineHtml _ s e' | EBreak s e' | ERule s e' => [(s, e')]
  | _ => []
  end.
Definition col_offsets (e : ev) : list nat :=
  match e with
  | EStart (TEmph | TStrong | TStrike | TLink _ _ | TImage) s e' => [s; e']
  | ECode _ s e' | EMath s e' => [s; e']
  | _ => []
  end.

(* the first link, in event order, whose LSP span contains the position *)
Definition expected_link (spans : list (link_type * string * irange)) (p : pos)
  : option (link_type * string) :=
  match find (fun l => irange_contains (snd l) p) spans with
  | Some (lt, url, _) => Some (lt, url)
  | None => None
  end.

Definition observed_link (r : option lres) : option (option (link_type * string)) :=
  match r with
  | None => Some None
  | Some (LHit (PNode (KLink lt url) _ _) _) => Some (Some (lt, url))
  | _ => None           (* a panic, or something that is not a link *)
  end.

Definition olink_eqb (a b : option (link_type * string)) : bool :=
  option_eqb (fun x y => link_type_eqb (fst x) (fst y) && String.eqb (snd x) (snd y)) a b.

(* pre-order ranges of the blocks that have one, and the links of a document *)
Fixpoint block_ranges (b : pblock) : list lrange :=
  let fix go (l : list pblock) : list lrange :=
    match l with [] => [] | x :: r => block_ranges x ++ go r end in
  let fix go_items (l : list (list pblock)) : list lrange :=
    match l with [] => [] | it :: r => go it ++ go_items r end in
  match b with
  | BPara lr _ | BHeader lr _ | BCode lr | BRule lr | BTable lr _ _ => [lr]
  | BQuote lr bs => lr :: go bs
  | BList items => go_items items
  end.
Definition doc_ranges (d : list pblock) : list lrange := flat_map block_ranges d.

Fixpoint block_links (b : pblock) : list pinl :=
  let fix go (l : list pblock) : list pinl :=
    match l with [] => [] | x :: r => block_links x ++ go r end in
  let fix go_items (l : list (list pblock)) : list pinl :=
    match l with [] => [] | it :: r => go it ++ go_items r end in
  match b with
  | BPara _ l | BHeader _ l => links_of_list l
  | BTable _ h rows => links_of_list (concat h ++ concat (concat rows))
  | BQuote _ bs => go bs
  | BList items => go_items items
  | _ => []
  end.
Definition doc_links (d : list pblock) : list pinl := flat_map block_links d.

Fixpoint forallb2 {A B} (f : A -> B -> bool) (a : list A) (b : list B) : bool :=
  match a, b with
  | [], [] => true
  | x :: a', y :: b' => f x y && forallb2 f a' b'
  | _, _ => false
  end.

(* the offset in [s, e] whose LSP position is [p] *)
Definition offset_of (t : string) (s e : nat) (p : pos) : option nat :=
  find (fun o => pos_eqb (lsp_pos_walk t o) p) (seq s (S (e - s))).

(* the rename range is where the link's url is written *)
Definition key_range_exact (t : string) (l : pinl) (src : nat * nat) : bool :=
  match l with
  | PNode (KLink _ url) _ _ =>
      match key_range l with
      | Ok (Some (ks, ke)) =>
          match offset_of t (fst src) (snd src) ks with
          | Some a => String.eqb (slice t a (a + String.length url)) url
                      && pos_eqb (lsp_pos_walk t (a + String.length url)) ke
          | None => false
          end
      | _ => false
      end
  | _ => false
  end.

(* source of the shape `[label](url)` on one line, with the label written as its plain text
   (the class of C13_key_range: start and end of the link on the same line) *)
Definition plain_inline_link (t : string) (l : pinl) (src : nat * nat) : bool :=
  match l with
  | PNode (KLink Regular url) _ _ =>
      let s := fst src in let e := snd src in
      let n := plain_len l in
      String.eqb (slice t s (S s)) "[" &&
      String.eqb (slice t (S s + n) e) ("](" ++ url ++ ")") &&
      negb (contains_char LF (slice t s e))
  | _ => false
  end.

(* ---------- classifiers of the known findings (booleans over text + event stream) ------ *)

Definition all_line_offsets (evs : list ev) : list nat :=
  flat_map (fun e => flat_map (fun r => [fst r; snd r]) (line_offsets e)) evs.

(* 1: a line start computed wrongly (CRLF before the offset), for an offset the reader converts *)
Definition cls_crlf (V : variant) (t : string) (evs : list ev) : bool :=
  let ls := line_starts V t in
  existsb (fun x => negb (pos_eqb (locate ls x) (byte_pos t x))) (all_line_offsets evs).

(* 2: a column counted in bytes that differs from the UTF-16 column *)
Definition cls_utf16 (V : variant) (t : string) (evs : list ev) : bool :=
  negb (v_utf16 V) &&
  existsb (fun x => negb (pos_eqb (byte_pos t x) (lsp_pos_walk t x))) (flat_map col_offsets evs).

(* 3: a range over several lines that does not end at a line end: to_line_range drops its
      last line even with correct line starts *)
Definition cls_last_line (t : string) (evs : list ev) : bool :=
  let ls := line_starts_fixed t in
  existsb (fun e => existsb (fun r => negb (lrange_eqb (to_line_range ls (fst r) (snd r)) (spec_lines t (fst r) (snd r))))
                            (line_offsets e)) evs.

(* 6: a link whose source is not `[plain label](url)`: wiki link, title, reference link,
      autolink, label with markup / escapes / entities, non-ASCII label *)
Definition cls_key_range (t : string) (evs : list ev) : bool :=
  match read_events (spec_mode t) evs with
  | Ok d =>
      let ls := doc_links d in
      let es := ev_links evs in
      negb (forallb2 (fun l e => let '(_, _, src) := e in
                                 plain_inline_link t l src && all_ascii (slice t (fst src) (snd src))) ls es)
  | Panic _ => true
  end.

(* block ranges as predicted with exactly the defects [c1] (line starts as the variant computes
   them) and [c3] (to_line_range's end line); the range of a paragraph grows with its inlines
   as the variant says ([v_tight]) *)
Definition lines_with (vr : variant) (t : string) (c1 c3 : bool) : nat -> nat -> lrange :=
  let ls := if c1 then line_starts vr t else line_starts_fixed t in
  if c3 then to_line_range ls
  else fun s e => (fst (locate ls s), S (fst (locate ls (if Nat.ltb s e then e - 1 else s)))).
Definition ranges_with (vr : variant) (t : string) (evs : list ev) (c1 c3 : bool) : option (list lrange) :=
  match read_events (Mode (lines_with vr t c1 c3) (spec_span t) (v_tight vr)) evs with
  | Ok d => Some (doc_ranges d)
  | Panic _ => None
  end.
(* the smallest set of those defects that predicts the observed block ranges *)
Definition explain_ranges (vr : variant) (t : string) (evs : list ev) (obs : list lrange) : option (list N) :=
  let try (c1 c3 : bool) := option_eqb (list_eqb lrange_eqb) (ranges_with vr t evs c1 c3) (Some obs) in
  if try false false then Some ([]%N)
  else if try true false then Some ([1]%N)
  else if try false true then Some ([3]%N)
  else if try true true then Some ([1; 3]%N)
  else None.

(* ---------- run ------------------------------------------------------------------------ *)

Definition mem (x : N) (l : list N) : bool := existsb (N.eqb x) l.

Definition run (c : case) : verdict :=
  let t := c_text c in
  (* reader.rs keeps a flag while inside a raw HTML block and ignores text events there (repair
     36ff92b); ReaderTotal.run_h_strip: that machine = Pos.step on the stream with those events skipped *)
  let evs := strip_html false (c_events c) in
  let vr := C13_variant in
  let ps := grid (o_rows c) in
  let model_doc := read_events (code_mode vr t) evs in
  let ref_doc := read_events (spec_mode t) evs in
  let links := ev_links evs in
  let spans := map (fun l => let '(lt, url, (s, e)) := l in (lt, url, spec_span t s e)) links in
  (* correspondence *)
  let corr :=
    (* 1: the reader's blocks and inlines with their line / inline ranges *)
    flag 1 (docs_eqb model_doc (o_doc c)) ++
    (* 2: link_at and key_range at every grid position, on the observed document *)
    flag 2 (match o_doc c with
            | Ok d => forallb (fun p => lres_eqb (model_link_at d p) (lookup_hit (o_hits c) p)) ps
            | Panic _ => true
            end) ++
    (* 3: get_node_id_at for every line, on the observed nodes_map *)
    flag 3 (match o_map c with
            | Ok m => forallb2 (fun line o => option_eqb Nat.eqb (node_at m line) o)
                               (seq 0 (length (o_node_at c))) (o_node_at c)
            | Panic _ => true
            end) ++
    (* 4: the event stream pulldown-cmark produced lies in the grammar on which the reader's stack
       machine is proved total (ReaderTotal.C03_reader_total_doc); a stream outside it means the
       grammar no longer describes the parser *)
    flag 4 (reader_doc_ok (c_events c)) in
  (* the property on the implementation's observations; outside the quantifier: lone CR *)
  let dom := negb (lone_cr t) in
  let p1 := forallb (fun p => match observed_link (lookup_hit (o_hits c) p) with
                              | Some o => olink_eqb o (expected_link spans p)
                              | None => false
                              end) ps in
  let obs_links := match o_doc c with Ok d => doc_links d | Panic _ => [] end in
  let p2 := match o_doc c with
            | Ok d => forallb2 (fun l e => let '(_, _, (s, e')) := e in irange_eqb (inline_range l) (spec_span t s e'))
                               obs_links links
            | Panic _ => false
            end in
  let p3 := match o_doc c with
            | Ok d => forallb2 (fun l e => let '(_, _, src) := e in key_range_exact t l src) obs_links links
            | Panic _ => false
            end in
  (* the same for links written `[plain ASCII label](url)` only *)
  let p3_plain := match o_doc c with
            | Ok d => forallb2 (fun l e => let '(_, _, src) := e in
                                           implb (plain_inline_link t l src && all_ascii (slice t (fst src) (snd src)))
                                                 (key_range_exact t l src)) obs_links links
            | Panic _ => false
            end in
  let p4 := match o_doc c, ref_doc with
            | Ok d, Ok r => list_eqb lrange_eqb (doc_ranges d) (doc_ranges r)
            | _, _ => false
            end in
  let p5 := match o_map c, ref_doc with
            | Ok m, Ok r =>
                let rs := doc_ranges r in
                forallb2 (fun line o =>
                            match o with
                            | Some id => match alookup_nat id m with
                                         | Some lr => lrange_contains lr line && existsb (lrange_eqb lr) rs &&
                                                      (* .. and the innermost one: the last block of the
                                                         pre-order that covers the line (the paragraph
                                                         inside a quote, not the quote) *)
                                                      option_eqb Nat.eqb (index_of_id id m) (last_containing rs line)
                                         | None => false
                                         end
                            | None => negb (existsb (fun lr => lrange_contains lr line) rs)
                            end) (seq 0 (length (o_node_at c))) (o_node_at c)
            | Panic _, _ => true        (* the import panics: C03's business, no map to speak of *)
            | _, _ => false
            end in
  let prop :=
    flag 1 (implb dom p1) ++ flag 2 (implb dom p2) ++ flag 3 (implb dom p3) ++
    flag 4 (implb dom p4) ++ flag 5 (implb dom p5) in
  (* known classes, each attributed only to the sub-properties it can break *)
  let k1 := cls_crlf vr t evs in
  let k2 := cls_utf16 vr t evs in
  let k3 := cls_last_line t evs in
  let k6 := cls_key_range t evs in
  (* which classes can break which sub-property *)
  let rel (i : N) : list (N * bool) :=
    match i with
    | 1 => [(1, k1); (2, k2); (3, k3)]
    | 2 => [(1, k1); (2, k2)]
    | 3 => [(1, k1); (2, k2); (6, k6 && p3_plain)]
    | 4 => match o_doc c with
           | Ok d => match explain_ranges vr t evs (doc_ranges d) with
                     | Some l => map (fun k => (k, true)) l
                     | None => []
                     end
           | Panic _ => []
           end
    | _ => [(1, k1); (3, k3)]
    end%N in
  let hit (i : N) : list N := map fst (filter snd (rel i)) in
  (* a failing sub-property that no class of the input explains leaves the case unclassified *)
  let cls := if forallb (fun i => negb (Nat.eqb (length (hit i)) 0)) prop
             then filter (fun k => existsb (fun i => mem k (hit i)) prop) [1; 2; 3; 6]%N
             else [] in
  V corr prop cls (dom && negb (Nat.eqb (length links) 0) && Nat.ltb 1 (length (o_rows c))).

(* exploration: classes regardless of failures *)
Definition run_classes (c : case) : verdict :=
  let t := c_text c in let evs := c_events c in let vr := C13_variant in
  let v := run c in
  V (v_corr v) (v_prop v)
    (flag 1 (negb (cls_crlf vr t evs)) ++ flag 2 (negb (cls_utf16 vr t evs)) ++ flag 3 (negb (cls_last_line t evs)) ++
     flag 6 (negb (cls_key_range t evs)))
    (v_nontriv v).
