(* Check_C05.v — executable side of C05 (backlinks are exact): the case type the harness
   fills, the correspondence of Index.v with the observed index answers, and the property
   predicate: reported places = an independent scan of the implementation's own reader
   blocks for links resolving to the note. *)
From IweV Require Export Str Text Ast RelPath Arena Project Library Index IndexFacts Harness Check_Lib.
Local Open Scope string_scope.
Local Open Scope list_scope.

Record qobs := QO {
  q_key : string;
  q_block : res (list nat);     (* Graph::get_block_references_to, sorted *)
  q_inline : res (list nat)     (* Graph::get_inline_references_to, sorted *)
}.

Record iobs := IOB {
  i_queries : list qobs;
  (* every live arena slot: GraphContext::key_of, Graph::node_line_range *)
  i_locs : list (nat * (res string * option lrange))
}.

Record c05case := C05 {
  c_lib : libcase;
  c_import : res iobs;                                   (* after Graph::import *)
  c_updates : list (string * res iobs);                  (* after update_key(name, its own text) on a clone *)
  c_handler : res (list (string * res (list (string * lrange))))   (* Server::handle_references per note, sorted *)
}.

(* ---------- correspondence ---------------------------------------------------------------- *)

Definition ids_eqb := list_eqb Nat.eqb.

Definition queries_ok (s : gstate) (qs : list qobs) : bool :=
  forallb (fun q => res_eqb ids_eqb (block_refs_to s (q_key q)) (q_block q) &&
                    res_eqb ids_eqb (inline_refs_to s (q_key q)) (q_inline q)) qs.

Definition olr_eqb := option_eqb lrange_eqb.

Definition locs_ok (s : gstate) (locs : list (nat * (res string * option lrange))) : bool :=
  forallb (fun e => res_eqb String.eqb (node_key (gr_arena (gs_graph s)) (fst e)) (fst (snd e)) &&
                    olr_eqb (node_line_range s (fst e)) (snd (snd e))) locs.

Definition note_by_name (c : libcase) (name : string) : option note_in :=
  find (fun n => String.eqb (ni_name n) name) (lc_notes c).

Definition model_update (tbl : bool) (c : libcase) (s : gstate) (name : string) : res gstate :=
  match note_by_name c name with
  | None => Panic "no such note"
  | Some n => do bs <- ni_blocks n; update_state_v tbl s (key_name name) (ni_meta n) bs
  end.

Definition model_state (tbl : bool) (c : libcase) : res gstate :=
  do ns <- all_blocks c; import_state_v tbl ns.

(* handle_references (server.rs:505-549): block ids then inline ids, consecutive duplicates
   dropped, one location each; compared as a sorted list *)
Fixpoint dedup_nat (l : list nat) : list nat :=
  match l with
  | x :: ((y :: _) as r) => if Nat.eqb x y then dedup_nat r else x :: dedup_nat r
  | _ => l
  end.

Definition loc_leb (a b : string * lrange) : bool :=
  match String.compare (fst a) (fst b) with
  | Lt => true
  | Gt => false
  | Eq => if Nat.ltb (fst (snd a)) (fst (snd b)) then true
          else if Nat.ltb (fst (snd b)) (fst (snd a)) then false
          else Nat.leb (snd (snd a)) (snd (snd b))
  end.
Fixpoint insert_loc (x : string * lrange) (l : list (string * lrange)) : list (string * lrange) :=
  match l with
  | [] => [x]
  | y :: r => if loc_leb x y then x :: l else y :: insert_loc x r
  end.
Definition sort_locs (l : list (string * lrange)) : list (string * lrange) := fold_right insert_loc [] l.

Definition loc_eqb (a b : string * lrange) : bool := String.eqb (fst a) (fst b) && lrange_eqb (snd a) (snd b).

Definition model_references (s : gstate) (k : string) : res (list (string * lrange)) :=
  do b <- block_refs_to s k;
  do i <- inline_refs_to s k;
  do locs <- fold_right (fun id acc => do r <- acc; do l <- location_of s id; Ok (l :: r)) (Ok []) (dedup_nat (b ++ i));
  Ok (sort_locs locs).

Definition handler_ok (s : gstate) (h : list (string * res (list (string * lrange)))) : bool :=
  forallb (fun e => res_eqb (list_eqb loc_eqb) (model_references s (fst e)) (snd e)) h.

(* [tbl]: which variant of index_node the implementation is expected to run *)
Definition c05_corr (tbl : bool) (c : c05case) : list N :=
  match model_state tbl (c_lib c) with
  | Panic _ => flag 1 (negb (is_ok (c_import c)))
  | Ok s =>
      match c_import c with
      | Panic _ => [1%N]
      | Ok io =>
          flag 1 (res_eqb arena_eqb (Ok (gr_arena (gs_graph s))) (lo_arena (c_lib c))) ++
          flag 2 (queries_ok s (i_queries io)) ++
          flag 3 (locs_ok s (i_locs io)) ++
          flag 4 (forallb (fun u => match model_update tbl (c_lib c) s (fst u), snd u with
                                    | Ok s', Ok io' => queries_ok s' (i_queries io')
                                    | Panic _, Panic _ => true
                                    | _, _ => false
                                    end) (c_updates c)) ++
          flag 5 (forallb (fun u => match model_update tbl (c_lib c) s (fst u), snd u with
                                    | Ok s', Ok io' => locs_ok s' (i_locs io')
                                    | _, _ => true
                                    end) (c_updates c)) ++
          flag 6 (match c_handler c with
                  | Ok h => handler_ok s h
                  | Panic _ => false
                  end) ++
          (* the hypothesis of the theorems holds of the arenas the implementation builds *)
          flag 7 (match lo_arena (c_lib c) with Ok a => wf_arenab a | Panic _ => true end &&
                  forallb (fun u => match model_update tbl (c_lib c) s (fst u) with
                                    | Ok s' => wf_arenab (gr_arena (gs_graph s'))
                                    | Panic _ => true
                                    end) (c_updates c))
      end
  end.

(* ---------- the property on the implementation's own observations --------------------------- *)

(* urls of every link of a line, wherever it sits *)
Fixpoint inline_links (i : inline) : list string :=
  match i with
  | Emph l | Strong l | Strike l => flat_map inline_links l
  | Link url _ _ l => url :: flat_map inline_links l
  | Image _ _ l => flat_map inline_links l
  | _ => []
  end.
Definition line_links (l : list inline) : list string := flat_map inline_links l.

(* one linking block, found by scanning the reader's output *)
Record lblock := LB {
  lb_note : string;
  lb_lr : lrange;
  lb_keys : list string         (* what its note links resolve to, per the property text:
                                   relative to the note's directory, `.md` ignored, no external urls *)
}.

Definition resolved_keys (dir : string) (urls : list string) : list string :=
  map (fun u => from_rel_link_url u dir) (filter is_ref_url urls).

Section Scan.
  Variable note dir : string.

  Definition entry (lr : lrange) (l : list inline) (blockref : bool) : list lblock :=
    match line_links l with
    | [] => []
    | urls => [LB note lr (resolved_keys dir urls)]
    end.

  (* [secpos]: the block is the first one of a list item (a paragraph there is the item's
     text even when it is a lone link) *)
  Fixpoint scan_block (secpos : bool) (b : dblock) {struct b} : list lblock :=
    let fix scan_item (it : list dblock) : list lblock :=
      match it with
      | [] => []
      | b :: r => scan_block true b ++ (fix rest (l : list dblock) : list lblock :=
                                           match l with [] => [] | x :: l' => scan_block false x ++ rest l' end) r
      end in
    let fix scan_items (items : list (list dblock)) : list lblock :=
      match items with [] => [] | it :: r => scan_item it ++ scan_items r end in
    match b with
    | DPara lr l => entry lr l (negb secpos && para_is_ref l)
    | DHeader lr _ l => entry lr l false
    | DQuote _ bs =>     (* a block inside a quote is a linking block like any other, at its own lines *)
        (fix go (l : list dblock) : list lblock :=
           match l with [] => [] | x :: l' => scan_block false x ++ go l' end) bs
    | DBList items | DOList items => scan_items items
    | _ => []    (* code, rule; table cells are not listed by the property *)
    end.
End Scan.

Definition scan_note (n : note_in) : list lblock :=
  match ni_blocks n with
  | Ok bs => let k := key_name (ni_name n) in flat_map (scan_block k (key_parent k) false) bs
  | Panic _ => []
  end.

Definition scan_lib (c : libcase) : list lblock := flat_map scan_note (lc_notes c).

Definition inb (k : string) (l : list string) : bool := existsb (String.eqb k) l.

(* observed places for key [k]: locations of the reported ids (handler reading: no range -> 0..0) *)
Definition obs_places (io : iobs) (k : string) : option (list (string * lrange)) :=
  match find (fun q => String.eqb (q_key q) k) (i_queries io) with
  | Some (QO _ (Ok b) (Ok i)) =>
      Some (flat_map (fun id => match find (fun e => Nat.eqb (fst e) id) (i_locs io) with
                                | Some (_, (Ok key, lr)) => [(key, match lr with Some r => r | None => (0, 0) end)]
                                | _ => [("<no location>", (0, 0))]
                                end) (b ++ i))
  | _ => None
  end.

Definition expected_places (sc : list lblock) (k : string) : list (string * lrange) :=
  map (fun b => (lb_note b, lb_lr b)) (filter (fun b => inb k (lb_keys b)) sc).

(* P: the reported places are exactly the linking blocks *)
Definition exact_for (sc : list lblock) (io : iobs) (k : string) : bool :=
  match obs_places io k with
  | Some o => list_eqb loc_eqb (sort_locs o) (sort_locs (expected_places sc k))
  | None => false
  end.

(* the same demand restricted to what no known class touches: every linking block
   [not in `shadow`] is reported - inline links are keyed from the linking note's directory like
   block references since the repair of F-C05-inline-dir, the former class 1 -
   inside block quotes too, at the block's own lines (the former class 3, F-C05-quote-line, was
   repaired in SectionsBuilder: the nested builder's line map is kept) -; and whatever is
   reported is a linking block *)
Definition residual_for (sc : list lblock) (shadow : list (string * lrange)) (io : iobs) (k : string) : bool :=
  match obs_places io k with
  | None => false
  | Some o =>
      forallb (fun b => implb (inb k (lb_keys b) &&
                               negb (existsb (loc_eqb (lb_note b, lb_lr b)) shadow))
                              (existsb (loc_eqb (lb_note b, lb_lr b)) o)) sc &&
      forallb (fun p => existsb (fun b => String.eqb (lb_note b) (fst p) &&
                                          lrange_eqb (lb_lr b) (snd p) &&
                                          inb k (lb_keys b)) sc) o
  end.

Definition note_keys (c : libcase) : list string := map (fun n => key_name (ni_name n)) (lc_notes c).

(* ---- known classes (decidable classifiers over the input) ---- *)

(* (formerly class 1, F-C05-inline-dir / F9: an inline note link whose key read without the linking
   note's directory differs from its resolved key.  Repaired: `to_graph_inline` keeps the key the link
   names from the note's directory; the class no longer exists, a failure there is a VIOLATION.) *)

(* (formerly class 3, F-C05-quote-line: a note link inside a block quote, whose node had no line
   range.  Repaired in the builder; the class no longer exists, a failure there is a VIOLATION.) *)

(* class 2 (R1): in a note's tree, a block that follows a table in the same sibling chain
   (or hangs below such a block) — after an update the walk from the root does not reach it.
   Computed on the observed trees: ids, mapped to places through the observed locations. *)
Definition is_table_tree (t : tree) : bool := match t_node t with NTable _ _ _ => true | _ => false end.

Fixpoint shadowed (sh : bool) (t : tree) {struct t} : list nat :=
  match t with
  | T id _ kids =>
      (if sh then olist id else []) ++
      (fix go (sh' : bool) (l : list tree) : list nat :=
         match l with
         | [] => []
         | x :: r => shadowed sh' x ++ go (sh' || is_table_tree x) r
         end) sh kids
  end.

Definition shadow_ids (c : libcase) (name : string) : list nat :=
  flat_map (fun o => if String.eqb (no_key o) (key_name name) then
                       match no_tree o with Ok t => shadowed false t | Panic _ => [] end
                     else []) (lo_notes c).

Definition places_of_ids (io : iobs) (ids : list nat) : list (string * lrange) :=
  flat_map (fun id => match find (fun e => Nat.eqb (fst e) id) (i_locs io) with
                      | Some (_, (Ok key, Some r)) => [(key, r)]
                      | _ => []
                      end) ids.

(* (formerly class 4, F-C05-orphan-node / F-ITEMLEAD, repaired in the builder: a live node that the
   node it names as `prev` does not point to - the builder used to overwrite a child link for a
   list item that begins with a list and continues.  The predicate is kept as a diagnostic; it
   excuses nothing any more.) *)
Definition orphan_at (a : arena) (i : nat) (n : gnode) : bool :=
  match prev_of n with
  | None => false
  | Some p => match get a p with
              | Some pn => negb (onat_eqb (g_child pn) (Some i) || onat_eqb (g_next pn) (Some i))
              | None => true
              end
  end.
Definition has_orphan (a : arena) : bool :=
  existsb (fun i => match get a i with Some n => orphan_at a i n | None => false end) (seq 0 (length a)).
Definition cls_orphan (c : libcase) : bool :=
  match lo_arena c with Ok a => has_orphan a | Panic _ => false end.

Definition has_link_at (sc : list lblock) (p : string * lrange) : bool :=
  existsb (fun b => loc_eqb (lb_note b, lb_lr b) p && negb (match lb_keys b with [] => true | _ => false end)) sc.

Definition c05_props (tbl : bool) (c : c05case) : list N * list N :=
  let sc := scan_lib (c_lib c) in
  let ks := note_keys (c_lib c) in
  match c_import c with
  | Panic _ => ([], [])
  | Ok io =>
      let p1 := forallb (exact_for sc io) ks in
      let r1 := forallb (residual_for sc [] io) ks in
      (* per update: the places shadowed by a table in the updated note *)
      let ups := map (fun u => (u, places_of_ids io (shadow_ids (c_lib c) (fst u)))) (c_updates c) in
      let p2 := forallb (fun us => match snd (fst us) with
                                   | Ok io' => forallb (exact_for sc io') ks
                                   | Panic _ => true
                                   end) ups in
      let r2 := forallb (fun us => match snd (fst us) with
                                   | Ok io' => forallb (residual_for sc (if tbl then [] else snd us) io') ks
                                   | Panic _ => true
                                   end) ups in
      let shadow_links := existsb (fun us => existsb (has_link_at sc) (snd us)) ups in
      let classes :=
        (if negb tbl && shadow_links then [2%N] else []) in
      (flag 1 p1 ++ flag 2 p2 ++ flag 3 (r1 && r2),
       (* a failure of the restricted demand is explained by no class *)
       if r1 && r2 then classes else [])
  end.

Definition c05_nontrivial (c : c05case) : bool :=
  let sc := scan_lib (c_lib c) in
  Nat.leb 2 (length (lc_notes (c_lib c))) && Nat.leb 2 (length sc).

Definition run_variant (tbl : bool) (c : c05case) : verdict :=
  let '(p, cls) := c05_props tbl c in
  V (c05_corr tbl c) p cls (c05_nontrivial c).

(* /repo since 7b992d5 (`fix: index the blocks that follow a table`, R1) corresponds to the
   repaired variant; a tree without that commit corresponds to [run_C05_as_found] (checked
   against 43351a3 during development, see notes/design-C05-C18.md) *)
Definition run_C05 : c05case -> verdict := run_variant true.
Definition run_C05_as_found : c05case -> verdict := run_variant false.
