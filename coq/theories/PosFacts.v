(* PosFacts.v — proofs about Pos.v (property C13).  All statements are unbounded: any text,
   any offset, any nesting of blocks / inlines; the `_refuted` lemmas exhibit concrete
   witnesses for the classes the general statements exclude. *)
From IweV Require Import Str Text Ast Arena Pos.
Local Open Scope string_scope.
Local Open Scope list_scope.
Arguments is_lf : simpl never.
Arguments is_cr : simpl never.
Arguments Ascii.eqb : simpl never.
Arguments Nat.leb : simpl never.
Arguments Nat.ltb : simpl never.

(* ====================================================================================== *)
(* 1. walk = the declarative position                                                      *)
(* ====================================================================================== *)

Fixpoint sumw (w : ascii -> nat) (s : string) : nat :=
  match s with EmptyString => 0 | String c r => w c + sumw w r end.

Lemma contains_lf_cons c s : contains_char LF (String c s) = is_lf c || contains_char LF s.
Proof. unfold is_lf. cbn [contains_char]. destruct (Ascii.eqb c LF); reflexivity. Qed.

Lemma walk_decl w t : forall o line col,
  walk w t o line col =
  (line + count_lf (stake o t),
   if contains_char LF (stake o t) then sumw w (after_last_lf (stake o t)) else col + sumw w (stake o t)).
Proof.
  induction t as [|c r IH]; intros [|o] line col; cbn [walk stake count_lf sumw after_last_lf contains_char];
    try (f_equal; lia).
  change (Ascii.eqb c LF) with (is_lf c). destruct (is_lf c) eqn:E; rewrite IH.
  - destruct (contains_char LF (stake o r)); f_equal; lia.
  - destruct (contains_char LF (stake o r)); cbn [sumw]; f_equal; lia.
Qed.

Lemma after_last_lf_none s : contains_char LF s = false -> after_last_lf s = s.
Proof.
  destruct s as [|c r]; [reflexivity|]. rewrite contains_lf_cons. intros H.
  apply Bool.orb_false_iff in H as [H1 H2]. cbn [after_last_lf]. now rewrite H2, H1.
Qed.

Lemma walk_pos w t o :
  walk w t o 0 0 = (count_lf (stake o t), sumw w (after_last_lf (stake o t))).
Proof.
  rewrite walk_decl. cbn [Nat.add]. destruct (contains_char LF (stake o t)) eqn:E; [reflexivity|].
  now rewrite after_last_lf_none.
Qed.

Lemma sumw_units s : sumw units_of_byte s = utf16_units s.
Proof. induction s as [|c r IH]; cbn; [reflexivity | now rewrite IH]. Qed.

Lemma sumw_one s : sumw (fun _ => 1) s = String.length s.
Proof. induction s as [|c r IH]; cbn; [reflexivity | now rewrite IH]. Qed.

(* ====================================================================================== *)
(* 2. UTF-8 decoding: the UTF-16 length of the decoded text is the sum over lead bytes     *)
(* ====================================================================================== *)

Lemma units_lt128 a : N.ltb (byte_N a) 128 = true -> units_of_byte a = 1.
Proof.
  unfold byte_N, units_of_byte. intros H. apply N.ltb_lt in H.
  assert (nat_of_ascii a < 128) as H1.
  { unfold nat_of_ascii. change 128 with (N.to_nat 128). lia. }
  apply Nat.ltb_lt in H1. now rewrite H1.
Qed.

Lemma byte_N_nat a : byte_N a = N.of_nat (nat_of_ascii a).
Proof. unfold byte_N, nat_of_ascii. now rewrite N2Nat.id. Qed.

Lemma ltb_byte a k : N.ltb (byte_N a) (N.of_nat k) = Nat.ltb (nat_of_ascii a) k.
Proof.
  rewrite byte_N_nat. destruct (Nat.ltb_spec (nat_of_ascii a) k); [apply N.ltb_lt | apply N.ltb_ge]; lia.
Qed.

Lemma is_cont_units b : is_cont b = true -> units_of_byte b = 0.
Proof.
  unfold is_cont, units_of_byte. intros H. apply andb_prop in H as [H1 H2].
  apply Nat.leb_le in H1. rewrite H2.
  destruct (Nat.ltb_spec (nat_of_ascii b) 128); [lia | reflexivity].
Qed.

Lemma is_cont_bound b : is_cont b = true -> (128 <= byte_N b < 192)%N.
Proof.
  unfold is_cont. intros H. apply andb_prop in H as [H1 H2].
  apply Nat.leb_le in H1. apply Nat.ltb_lt in H2. rewrite byte_N_nat. lia.
Qed.

Lemma decode_units : forall fuel s l,
  decode_utf8 fuel s = Some l -> utf16_len_scalars l = utf16_units s.
Proof.
  induction fuel as [|f IH]; intros s l H.
  - destruct s; [|discriminate]. injection H as <-. reflexivity.
  - destruct s as [|a r]; [injection H as <-; reflexivity|].
    cbn [decode_utf8] in H. cbn [utf16_units].
    assert (Hu : forall k, N.ltb (byte_N a) (N.of_nat k) = Nat.ltb (nat_of_ascii a) k) by (intro; apply ltb_byte).
    destruct (N.ltb (byte_N a) 128) eqn:E1.
    { destruct (decode_utf8 f r) as [l'|] eqn:D; [|discriminate]. injection H as <-.
      cbn [utf16_len_scalars]. rewrite (IH _ _ D), (units_lt128 _ E1).
      unfold utf16_of_scalar. apply N.ltb_lt in E1.
      destruct (N.ltb_spec (byte_N a) 65536); [reflexivity | lia]. }
    destruct (N.ltb (byte_N a) 192) eqn:E2; [discriminate|].
    assert (U1 : Nat.ltb (nat_of_ascii a) 128 = false) by (rewrite <- (Hu 128); exact E1).
    assert (U2 : Nat.ltb (nat_of_ascii a) 192 = false) by (rewrite <- (Hu 192); exact E2).
    apply N.ltb_ge in E2.
    destruct (N.ltb (byte_N a) 224) eqn:E3.
    { destruct r as [|b r1]; [discriminate|]. destruct (is_cont b) eqn:Cb; [|discriminate].
      destruct (decode_utf8 f r1) as [l'|] eqn:D; [|discriminate]. injection H as <-.
      cbn [utf16_len_scalars utf16_units]. rewrite (IH _ _ D), (is_cont_units _ Cb).
      assert (U3 : Nat.ltb (nat_of_ascii a) 240 = true).
      { rewrite <- (Hu 240). apply N.ltb_lt. apply N.ltb_lt in E3. change (N.of_nat 240) with 240%N. lia. }
      unfold units_of_byte. rewrite U1, U2, U3.
      pose proof (is_cont_bound _ Cb). apply N.ltb_lt in E3.
      unfold utf16_of_scalar.
      destruct (N.ltb_spec ((byte_N a - 192) * 64 + (byte_N b - 128)) 65536); [lia | lia]. }
    apply N.ltb_ge in E3.
    destruct (N.ltb (byte_N a) 240) eqn:E4.
    { destruct r as [|b [|c r2]]; try discriminate.
      destruct (is_cont b) eqn:Cb; [|discriminate]. destruct (is_cont c) eqn:Cc; [|discriminate].
      cbn [andb] in H.
      destruct (decode_utf8 f r2) as [l'|] eqn:D; [|discriminate]. injection H as <-.
      cbn [utf16_len_scalars utf16_units]. rewrite (IH _ _ D), (is_cont_units _ Cb), (is_cont_units _ Cc).
      assert (U3 : Nat.ltb (nat_of_ascii a) 240 = true) by (rewrite <- (Hu 240); exact E4).
      unfold units_of_byte. rewrite U1, U2, U3.
      pose proof (is_cont_bound _ Cb). pose proof (is_cont_bound _ Cc). apply N.ltb_lt in E4.
      unfold utf16_of_scalar.
      destruct (N.ltb_spec ((byte_N a - 224) * 4096 + (byte_N b - 128) * 64 + (byte_N c - 128)) 65536); [lia | lia]. }
    assert (U3 : Nat.ltb (nat_of_ascii a) 240 = false) by (rewrite <- (Hu 240); exact E4).
    destruct (N.ltb (byte_N a) 248) eqn:E5; [|discriminate].
    destruct r as [|b [|c [|d r3]]]; try discriminate.
    destruct (is_cont b) eqn:Cb; [|discriminate]. destruct (is_cont c) eqn:Cc; [|discriminate].
    destruct (is_cont d) eqn:Cd; [|discriminate]. cbn [andb] in H.
    match type of H with (if ?g then _ else _) = _ => destruct g eqn:G; [|discriminate] end.
    destruct (decode_utf8 f r3) as [l'|] eqn:D; [|discriminate]. injection H as <-.
    cbn [utf16_len_scalars utf16_units].
    rewrite (IH _ _ D), (is_cont_units _ Cb), (is_cont_units _ Cc), (is_cont_units _ Cd).
    unfold units_of_byte. rewrite U1, U2, U3.
    unfold utf16_of_scalar. apply N.leb_le in G.
    match goal with |- (if N.ltb ?x _ then _ else _) + _ = _ => destruct (N.ltb_spec x 65536); [lia | lia] end.
Qed.

(* the UTF-16 length of a text, by decoding, is the sum of the lead-byte contributions *)
Lemma utf16_len_units s : utf16_len s = utf16_units s.
Proof.
  unfold utf16_len, decode. destruct (decode_utf8 (String.length s) s) eqn:D; [|reflexivity].
  exact (decode_units _ _ _ D).
Qed.

(* the one-pass computation is the declarative LSP position *)
Theorem lsp_pos_walk_spec t o : lsp_pos_walk t o = lsp_pos t o.
Proof.
  unfold lsp_pos_walk, lsp_pos. rewrite walk_pos, sumw_units, utf16_len_units. reflexivity.
Qed.

Lemma byte_pos_spec t o :
  byte_pos t o = (count_lf (stake o t), String.length (after_last_lf (stake o t))).
Proof. unfold byte_pos. now rewrite walk_pos, sumw_one. Qed.

Lemma all_ascii_units s : all_ascii s = true -> utf16_units s = String.length s.
Proof.
  induction s as [|c r IH]; cbn [all_ascii utf16_units String.length]; [reflexivity|].
  intros H. apply andb_prop in H as [H1 H2]. rewrite (IH H2).
  unfold units_of_byte. now rewrite H1.
Qed.

(* with only ASCII between the line start and the offset, bytes and UTF-16 units agree *)
Lemma byte_pos_lsp t o : ascii_before t o = true -> byte_pos t o = lsp_pos t o.
Proof.
  unfold ascii_before. intros H. rewrite byte_pos_spec. unfold lsp_pos.
  now rewrite utf16_len_units, (all_ascii_units _ H).
Qed.

(* ====================================================================================== *)
(* 3. line_starts and the loop that locates an offset                                      *)
(* ====================================================================================== *)

Lemma locate_aux_gt ls : forall i x acc,
  Forall (fun s => x < s) ls -> locate_aux ls i x acc = acc.
Proof.
  induction ls as [|s r IH]; intros i x acc H; cbn [locate_aux]; [reflexivity|].
  inversion H as [|? ? Hs Hr]; subst.
  destruct (Nat.leb_spec s x); [lia|]. now apply IH.
Qed.

Lemma lf_starts_gt t : forall off, Forall (fun s => off < s) (lf_starts t off).
Proof.
  induction t as [|c r IH]; intros off; cbn [lf_starts]; [constructor|].
  assert (Forall (fun s => off < s) (lf_starts r (S off))).
  { eapply Forall_impl; [|apply IH]. cbn. intros; lia. }
  destruct (is_lf c); [constructor; [lia | assumption] | assumption].
Qed.

(* repaired line starts: the loop computes exactly the byte position *)
Lemma locate_walk_fixed t : forall off o line s0,
  o <= String.length t -> s0 <= off ->
  locate_aux (lf_starts t off) (S line) (off + o) (line, off + o - s0) =
  walk (fun _ => 1) t o line (off - s0).
Proof.
  induction t as [|c r IH]; intros off o line s0 Ho Hs.
  - cbn in Ho. assert (o = 0) by lia. subst. cbn. f_equal. lia.
  - destruct o as [|o].
    + cbn [walk]. rewrite locate_aux_gt; [f_equal; lia|].
      eapply Forall_impl; [|apply lf_starts_gt]. cbn. intros; lia.
    + cbn [walk lf_starts]. cbn [String.length] in Ho.
      destruct (is_lf c) eqn:E.
      * cbn [locate_aux]. destruct (Nat.leb_spec (S off) (off + S o)); [|lia].
        replace (off + S o) with (S off + o) by lia.
        replace (S off + o - S off) with (S off + o - S off) by reflexivity.
        rewrite (IH (S off) o (S line) (S off)); [|lia|lia]. f_equal. lia.
      * replace (off + S o) with (S off + o) by lia.
        rewrite (IH (S off) o line s0); [|lia|lia]. f_equal. lia.
Qed.

Theorem locate_fixed t o :
  o <= String.length t -> locate (line_starts_fixed t) o = byte_pos t o.
Proof.
  intros H. unfold locate, line_starts_fixed, byte_pos. cbn [locate_aux Nat.leb].
  pose proof (locate_walk_fixed t 0 o 0 0 H (le_n 0)) as L. cbn [Nat.add] in L.
  replace (o - 0) with o in * by lia. exact L.
Qed.

(* as found: `lines()` drops a CR before LF, so the table drifts; on texts without CR it is
   exact *)
Definition head_not_cr (cur : string) : Prop :=
  match cur with String c _ => is_cr c = false | EmptyString => True end.

Lemma srev_length s : String.length (srev s) = String.length s.
Proof.
  induction s as [|c r IH]; [reflexivity|]. rewrite srev_cons.
  assert (L : forall a b, String.length (a ++ b) = String.length a + String.length b).
  { induction a as [|x a IHa]; intros b; cbn; [reflexivity | now rewrite IHa]. }
  rewrite L, IH. cbn. lia.
Qed.

Lemma scan_add_gt l : forall b, Forall (fun e => b < e) (scan_add b (map (fun x => S (String.length x)) l)).
Proof.
  induction l as [|x r IH]; intros b; cbn [map scan_add]; constructor; [lia|].
  eapply Forall_impl; [|apply IH]. cbn. intros; lia.
Qed.

Lemma lines_aux_scan_gt s : forall cur s0,
  no_cr s = true -> head_not_cr cur ->
  Forall (fun e => s0 + String.length cur < e)
         (scan_add s0 (map (fun l => S (String.length l)) (lines_aux s cur))).
Proof.
  induction s as [|c r IH]; intros cur s0 Hs Hc; cbn [lines_aux].
  - destruct (sempty cur); cbn [map scan_add]; constructor; [|constructor].
    rewrite srev_length. lia.
  - cbn [no_cr] in Hs. apply andb_prop in Hs as [Hc1 Hs].
    destruct (Ascii.eqb c LF) eqn:E.
    + assert (L : (match cur with String c0 cur' => if Ascii.eqb c0 CR then cur' else cur | EmptyString => cur end) = cur).
      { destruct cur as [|c0 cur']; [reflexivity|]. cbn in Hc. unfold is_cr in Hc. now rewrite Hc. }
      rewrite L. cbn [map scan_add]. rewrite srev_length. constructor; [lia|].
      eapply Forall_impl; [|apply scan_add_gt]. cbn. intros; lia.
    + specialize (IH (String c cur) s0 Hs). cbn [String.length] in IH.
      eapply Forall_impl; [|apply IH].
      * cbn. intros; lia.
      * cbn. now apply Bool.negb_true_iff in Hc1.
Qed.

Lemma locate_walk_as_found s : forall cur s0 o line,
  no_cr s = true -> head_not_cr cur -> o <= String.length s ->
  locate_aux (scan_add s0 (map (fun l => S (String.length l)) (lines_aux s cur))) (S line)
             (s0 + String.length cur + o) (line, String.length cur + o) =
  walk (fun _ => 1) s o line (String.length cur).
Proof.
  induction s as [|c r IH]; intros cur s0 o line Hs Hc Ho.
  - cbn in Ho. assert (o = 0) by lia. subst o. cbn [walk].
    rewrite locate_aux_gt; [f_equal; lia|].
    eapply Forall_impl; [|apply (lines_aux_scan_gt "" cur s0 Hs Hc)]. cbn. intros; lia.
  - destruct o as [|o].
    + cbn [walk]. rewrite locate_aux_gt; [f_equal; lia|].
      eapply Forall_impl; [|apply (lines_aux_scan_gt _ cur s0 Hs Hc)]. cbn. intros; lia.
    + cbn [String.length] in Ho. cbn [no_cr] in Hs. apply andb_prop in Hs as [Hc1 Hs].
      cbn [walk lines_aux]. unfold is_lf. destruct (Ascii.eqb c LF) eqn:E.
      * assert (L : (match cur with String c0 cur' => if Ascii.eqb c0 CR then cur' else cur | EmptyString => cur end) = cur).
        { destruct cur as [|c0 cur']; [reflexivity|]. cbn in Hc. unfold is_cr in Hc. now rewrite Hc. }
        rewrite L. cbn [map scan_add locate_aux]. rewrite srev_length.
        destruct (Nat.leb_spec (s0 + S (String.length cur)) (s0 + String.length cur + S o)); [|lia].
        specialize (IH EmptyString (s0 + S (String.length cur)) o (S line) Hs I).
        cbn [String.length] in IH.
        replace (s0 + String.length cur + S o) with (s0 + S (String.length cur) + 0 + o) by lia.
        replace (s0 + S (String.length cur) + 0 + o - (s0 + S (String.length cur))) with (0 + o) by lia.
        apply IH. lia.
      * specialize (IH (String c cur) s0 o line Hs).
        cbn [String.length] in IH.
        replace (s0 + String.length cur + S o) with (s0 + S (String.length cur) + o) by lia.
        replace (String.length cur + S o) with (S (String.length cur) + o) by lia.
        replace (String.length cur + 1) with (S (String.length cur)) by lia.
        apply IH; [|lia]. cbn. now apply Bool.negb_true_iff in Hc1.
Qed.

Theorem locate_as_found t o :
  no_cr t = true -> o <= String.length t -> locate (line_starts_as_found t) o = byte_pos t o.
Proof.
  intros Hn H. unfold locate, line_starts_as_found, byte_pos, lines. cbn [locate_aux Nat.leb].
  pose proof (locate_walk_as_found t EmptyString 0 o 0 Hn I H) as L.
  cbn [String.length Nat.add] in L. replace (o - 0) with o by lia. exact L.
Qed.

(* both in one statement: the variant's line table locates every offset of the text at its
   byte position, provided the text has no CR or the CRLF repair is in *)
Theorem C13_line_starts_locate v t o :
  (v_crlf v = true \/ no_cr t = true) -> o <= String.length t ->
  locate (line_starts v t) o = byte_pos t o.
Proof.
  intros H Ho. unfold line_starts. destruct (v_crlf v) eqn:E.
  - now apply locate_fixed.
  - destruct H as [H|H]; [discriminate|]. now apply locate_as_found.
Qed.

Theorem C13_crlf_refuted :
  exists t o, o <= String.length t /\ locate (line_starts as_found t) o <> byte_pos t o /\
              t = sb [112;97;114;97;13;10;13;10;116;101;120;116;32;91;108;105;110;107;93;40;116;111;41]%N /\ o = 13.
Proof.
  eexists. exists 13. split; [|split; [|split; reflexivity]]; vm_compute; [lia | discriminate].
Qed.

(* ====================================================================================== *)
(* 4. to_inline_range                                                                      *)
(* ====================================================================================== *)

(* as found (byte columns): exact when only ASCII precedes the offsets on their lines *)
Theorem inline_range_bytes v t s e :
  v_utf16 v = false -> (v_crlf v = true \/ no_cr t = true) ->
  s <= String.length t -> e <= String.length t ->
  ascii_before t s = true -> ascii_before t e = true ->
  to_inline_range v t (line_starts v t) s e = (lsp_pos t s, lsp_pos t e).
Proof.
  intros Hu Hc Hs He As Ae. unfold to_inline_range, to_position.
  rewrite !(C13_line_starts_locate v t) by assumption. rewrite Hu.
  rewrite !byte_pos_lsp by assumption.
  destruct (lsp_pos t s), (lsp_pos t e). reflexivity.
Qed.

Theorem C13_utf16_refuted :
  exists t s e, s <= e <= String.length t /\ no_cr t = true /\
    to_inline_range as_found t (line_starts as_found t) s e <> (lsp_pos t s, lsp_pos t e) /\
    t = sb [195;169;32;91;108;93;40;116;111;41]%N /\ s = 3 /\ e = 10.
Proof.
  eexists. exists 3, 10. repeat split; try reflexivity; vm_compute; try lia. discriminate.
Qed.

(* repaired (UTF-16 columns): exact for every offset at a character boundary *)
Lemma after_last_lf_suffix s : exists q, s = (q ++ after_last_lf s)%string.
Proof.
  induction s as [|c r [q IH]]; [exists EmptyString; reflexivity|].
  cbn [after_last_lf]. destruct (contains_char LF r).
  - exists (String c q). cbn. now rewrite <- IH.
  - destruct (is_lf c); [exists (String c EmptyString); reflexivity | exists EmptyString; reflexivity].
Qed.

Lemma app_length a b : String.length (a ++ b) = String.length a + String.length b.
Proof. induction a as [|x a IH]; cbn; [reflexivity | now rewrite IH]. Qed.

Lemma stake_length o t : o <= String.length t -> String.length (stake o t) = o.
Proof.
  revert t; induction o as [|o IH]; intros [|c r] H; cbn in *; try reflexivity; try lia.
  rewrite IH; lia.
Qed.

Lemma slice_suffix t : forall x q a,
  stake x t = (q ++ a)%string -> x <= String.length t -> slice t (x - String.length a) x = a.
Proof.
  intros x q a H Hx. unfold slice.
  assert (L : x = String.length q + String.length a).
  { rewrite <- app_length, <- H. now rewrite stake_length. }
  replace (x - String.length a) with (String.length q) by lia.
  replace (x - String.length q) with (String.length a) by lia.
  subst x. clear Hx. revert t H. induction q as [|c q IH]; intros t H.
  - cbn [String.length Nat.add sdrop] in *. cbn [String.append] in H.
    revert t H. induction a as [|d a IHa]; intros t H; [reflexivity|].
    destruct t as [|c t]; cbn in H; [discriminate|]. injection H as -> H. cbn. f_equal. now apply IHa.
  - destruct t as [|d t]; cbn in H; [discriminate|]. injection H as -> H. cbn [String.length sdrop]. now apply IH.
Qed.

Theorem inline_position_utf16 v t x :
  v_utf16 v = true -> (v_crlf v = true \/ no_cr t = true) -> x <= String.length t ->
  is_char_boundary t x = true ->
  is_char_boundary t (x - String.length (after_last_lf (stake x t))) = true ->
  to_position v t (line_starts v t) x = lsp_pos t x.
Proof.
  intros Hu Hc Hx B1 B2. unfold to_position.
  rewrite (C13_line_starts_locate v t x Hc Hx), byte_pos_spec, Hu, B2, B1. cbn [andb].
  unfold lsp_pos. rewrite utf16_len_units. f_equal. f_equal.
  destruct (after_last_lf_suffix (stake x t)) as [q Hq].
  exact (slice_suffix t x q _ Hq Hx).
Qed.

(* ====================================================================================== *)
(* 5. link_at: what the search returns, for blocks and inlines of any nesting              *)
(* ====================================================================================== *)

Section pinl_induction.
  Variable P : pinl -> Prop.
  Hypothesis HStr : forall n, P (PStr n).
  Hypothesis HLeaf : forall r n, P (PLeaf r n).
  Hypothesis HNode : forall k r kids, Forall P kids -> P (PNode k r kids).
  Fixpoint pinl_ind' (i : pinl) : P i :=
    match i with
    | PStr n => HStr n
    | PLeaf r n => HLeaf r n
    | PNode k r kids =>
        HNode k r kids ((fix go (l : list pinl) : Forall P l :=
                           match l with
                           | [] => Forall_nil P
                           | x :: rest => Forall_cons x (pinl_ind' x) (go rest)
                           end) kids)
    end.
End pinl_induction.

Section pblock_induction.
  Variable P : pblock -> Prop.
  Hypothesis HPara : forall lr l, P (BPara lr l).
  Hypothesis HHeader : forall lr l, P (BHeader lr l).
  Hypothesis HCode : forall lr, P (BCode lr).
  Hypothesis HRule : forall lr, P (BRule lr).
  Hypothesis HTable : forall lr, P (BTable lr).
  Hypothesis HQuote : forall lr bs, Forall P bs -> P (BQuote lr bs).
  Hypothesis HList : forall items, Forall (Forall P) items -> P (BList items).
  Fixpoint pblock_ind' (b : pblock) : P b :=
    let fix go (l : list pblock) : Forall P l :=
      match l with
      | [] => Forall_nil P
      | x :: rest => Forall_cons x (pblock_ind' x) (go rest)
      end in
    match b with
    | BPara lr l => HPara lr l
    | BHeader lr l => HHeader lr l
    | BCode lr => HCode lr
    | BRule lr => HRule lr
    | BTable lr => HTable lr
    | BQuote lr bs => HQuote lr bs (go bs)
    | BList items =>
        HList items ((fix goi (l : list (list pblock)) : Forall (Forall P) l :=
                        match l with
                        | [] => Forall_nil (Forall P)
                        | it :: rest => Forall_cons it (go it) (goi rest)
                        end) items)
    end.
End pblock_induction.

Definition in_span (p : pos) (x : pinl) : bool := irange_contains (inline_range x) p.

Lemma find_app {A} (f : A -> bool) a b :
  find f (a ++ b) = match find f a with Some y => Some y | None => find f b end.
Proof. induction a as [|x a IH]; cbn; [reflexivity|]. destruct (f x); [reflexivity | exact IH]. Qed.

(* link_at_position returns the first link, outermost first and left to right, whose range
   contains the position *)
Lemma link_at_position_find p : forall i, link_at_position i p = find (in_span p) (links_of i).
Proof.
  induction i as [n | r n | k r kids IH] using pinl_ind'; [reflexivity | reflexivity |].
  cbn [link_at_position links_of].
  assert (G : (fix go (l : list pinl) : option pinl :=
                 match l with
                 | [] => None
                 | x :: rest => match link_at_position x p with Some y => Some y | None => go rest end
                 end) kids =
              find (in_span p)
                   ((fix go (l : list pinl) : list pinl := match l with [] => [] | x :: r => links_of x ++ go r end) kids)).
  { induction IH as [|x rest Hx _ IHr]; [reflexivity|]. rewrite find_app, <- Hx, IHr. reflexivity. }
  rewrite G. destruct (is_link k) eqn:L.
  - cbn [app find]. change (in_span p (PNode k r kids)) with (irange_contains r p).
    rewrite Bool.andb_true_r. destruct (irange_contains r p); reflexivity.
  - rewrite Bool.andb_false_r. reflexivity.
Qed.

Lemma first_link_at_find p l : first_link_at l p = find (in_span p) (links_of_list l).
Proof.
  induction l as [|x r IH]; [reflexivity|]. cbn [first_link_at links_of_list].
  rewrite find_app, <- link_at_position_find, IH. reflexivity.
Qed.

(* block search *)
Definition lr_of (b : pblock) : lrange := match line_range b with Ok r => r | Panic _ => (0, 0) end.
Definition covers (line : nat) (b : pblock) : bool := lrange_contains (lr_of b) line.
Definition no_bad_lists (bs : list pblock) : Prop := Forall (fun b => bad_list b = false) (doc_search_order bs).

Lemma search_order_self b : In b (search_order b).
Proof. destruct b; cbn; try (left; reflexivity); apply in_or_app; right; left; reflexivity. Qed.

Lemma Forall_app_l {A} (P : A -> Prop) a b : Forall P (a ++ b) -> Forall P a.
Proof. intros H. apply Forall_app in H. tauto. Qed.
Lemma Forall_app_r {A} (P : A -> Prop) a b : Forall P (a ++ b) -> Forall P b.
Proof. intros H. apply Forall_app in H. tauto. Qed.

Lemma line_range_ok : forall b,
  Forall (fun x => bad_list x = false) (search_order b) -> exists r, line_range b = Ok r.
Proof.
  induction b as [lr l|lr l|lr|lr|lr|lr bs IH|items IH] using pblock_ind'; intros H;
    try (eexists; reflexivity).
  cbn [search_order] in H.
  assert (Hb : bad_list (BList items) = false).
  { apply Forall_app_r in H. now inversion H. }
  destruct items as [|[|first it] rest]; try discriminate.
  cbn [line_range]. inversion IH as [|? ? Hit _]; subst. inversion Hit as [|? ? Hf _]; subst.
  apply Hf. apply Forall_app_l in H.
  apply Forall_app_l in H. cbn in H. now apply Forall_app_l in H.
Qed.

Lemma block_at_find line : forall b,
  Forall (fun x => bad_list x = false) (search_order b) ->
  block_at b line = Ok (find (covers line) (search_order b)).
Proof.
  induction b as [lr l|lr l|lr|lr|lr|lr bs IH|items IH] using pblock_ind'; intros H;
    try (cbn; unfold covers, lr_of; cbn; destruct (lrange_contains lr line); reflexivity).
  - (* quote *)
    cbn [search_order] in H. pose proof (Forall_app_l _ _ _ H) as Hk.
    set (go := fix go (l : list pblock) : res (option pblock) :=
           match l with
           | [] => Ok None
           | x :: rest => do r <- block_at x line; match r with Some y => Ok (Some y) | None => go rest end
           end).
    set (gs := fix go (l : list pblock) : list pblock :=
           match l with [] => [] | x :: r => search_order x ++ go r end) in *.
    assert (G : go bs = Ok (find (covers line) (gs bs))).
    { clear H. induction IH as [|x rest Hx _ IHr]; [reflexivity|].
      cbn [gs] in Hk. fold gs in Hk. cbn [go]. fold go.
      rewrite (Hx (Forall_app_l _ _ _ Hk)). cbn [bind]. cbn [gs]. fold gs. rewrite find_app.
      destruct (find (covers line) (search_order x)); [reflexivity|].
      apply IHr. exact (Forall_app_r _ _ _ Hk). }
    change (block_at (BQuote lr bs) line) with
      (do c <- go bs; do lr' <- line_range (BQuote lr bs);
       Ok (match c with Some y => Some y | None => if lrange_contains lr' line then Some (BQuote lr bs) else None end)).
    rewrite G. cbn [bind line_range search_order]. fold gs. rewrite find_app.
    destruct (find (covers line) (gs bs)); [reflexivity|].
    cbn [find]. unfold covers at 1, lr_of. cbn [line_range]. reflexivity.
  - (* list *)
    destruct (line_range_ok (BList items) H) as [r Hr].
    cbn [search_order] in H. pose proof (Forall_app_l _ _ _ H) as Hk.
    set (go := fix go (l : list pblock) : res (option pblock) :=
           match l with
           | [] => Ok None
           | x :: rest => do r <- block_at x line; match r with Some y => Ok (Some y) | None => go rest end
           end).
    set (goi := fix go_items (l : list (list pblock)) : res (option pblock) :=
           match l with
           | [] => Ok None
           | it :: rest => do r <- go it; match r with Some y => Ok (Some y) | None => go_items rest end
           end).
    set (gs := fix go (l : list pblock) : list pblock :=
           match l with [] => [] | x :: r => search_order x ++ go r end) in *.
    set (gsi := fix go_items (l : list (list pblock)) : list pblock :=
           match l with [] => [] | it :: r => gs it ++ go_items r end) in *.
    assert (G1 : forall it, Forall (fun b => Forall (fun x => bad_list x = false) (search_order b) ->
                                             block_at b line = Ok (find (covers line) (search_order b))) it ->
                            Forall (fun x => bad_list x = false) (gs it) ->
                            go it = Ok (find (covers line) (gs it))).
    { intros it Hit. induction Hit as [|x rest Hx _ IHr]; intros Hb; [reflexivity|].
      cbn [gs] in Hb. fold gs in Hb. cbn [go]. fold go.
      rewrite (Hx (Forall_app_l _ _ _ Hb)). cbn [bind]. cbn [gs]. fold gs. rewrite find_app.
      destruct (find (covers line) (search_order x)); [reflexivity|].
      apply IHr. exact (Forall_app_r _ _ _ Hb). }
    assert (G : goi items = Ok (find (covers line) (gsi items))).
    { clear H Hr. induction IH as [|it rest Hit _ IHr]; [reflexivity|].
      cbn [gsi] in Hk. fold gsi in Hk. cbn [goi]. fold goi.
      rewrite (G1 it Hit (Forall_app_l _ _ _ Hk)). cbn [bind]. cbn [gsi]. fold gsi. rewrite find_app.
      destruct (find (covers line) (gs it)); [reflexivity|].
      apply IHr. exact (Forall_app_r _ _ _ Hk). }
    change (block_at (BList items) line) with
      (do c <- goi items; do lr' <- line_range (BList items);
       Ok (match c with Some y => Some y | None => if lrange_contains lr' line then Some (BList items) else None end)).
    rewrite G, Hr. cbn [bind search_order]. fold gs. fold gsi. rewrite find_app.
    destruct (find (covers line) (gsi items)); [reflexivity|].
    cbn [find]. unfold covers at 1, lr_of. rewrite Hr. reflexivity.
Qed.

Lemma doc_block_at_find line : forall bs,
  no_bad_lists bs -> doc_block_at bs line = Ok (find (covers line) (doc_search_order bs)).
Proof.
  unfold no_bad_lists. induction bs as [|x r IH]; intros H; [reflexivity|].
  cbn [doc_search_order] in H. cbn [doc_block_at doc_search_order].
  rewrite (block_at_find line x (Forall_app_l _ _ _ H)). cbn [bind]. rewrite find_app.
  destruct (find (covers line) (search_order x)); [reflexivity|].
  apply IH. exact (Forall_app_r _ _ _ H).
Qed.

(* the characterisation: link_at looks at the first block, in search order (children before
   their parent, document order), whose line range covers the line, and returns the first
   link of that block, outermost first, whose range contains the position *)
Theorem link_at_char bs p :
  no_bad_lists bs ->
  link_at bs p =
  Ok (match find (covers (fst p)) (doc_search_order bs) with
      | Some b => find (in_span p) (links_of_list (child_inlines b))
      | None => None
      end).
Proof.
  intros H. unfold link_at. rewrite (doc_block_at_find _ _ H). cbn [bind].
  destruct (find (covers (fst p)) (doc_search_order bs)); [|reflexivity].
  now rewrite first_link_at_find.
Qed.

(* exactness of the block ranges, as far as link_at needs it: the first block found on a
   line of a link's span is the block that holds the link; and two links of a block do not
   overlap *)
Definition block_ranges_exact (bs : list pblock) : Prop :=
  forall b l p, In b (doc_search_order bs) -> In l (links_of_list (child_inlines b)) ->
                in_span p l = true -> find (covers (fst p)) (doc_search_order bs) = Some b.
Definition links_disjoint (bs : list pblock) : Prop :=
  forall b l l' p, In b (doc_search_order bs) ->
                   In l (links_of_list (child_inlines b)) -> In l' (links_of_list (child_inlines b)) ->
                   in_span p l = true -> in_span p l' = true -> l = l'.

Theorem C13_link_at_iff bs p l :
  no_bad_lists bs -> block_ranges_exact bs -> links_disjoint bs ->
  (link_at bs p = Ok (Some l) <->
   exists b, In b (doc_search_order bs) /\ In l (links_of_list (child_inlines b)) /\ in_span p l = true).
Proof.
  intros Hb He Hd. rewrite (link_at_char bs p Hb). split.
  - intros H. injection H as H.
    destruct (find (covers (fst p)) (doc_search_order bs)) as [b|] eqn:F; [|discriminate].
    apply find_some in F as [Fb _]. apply find_some in H as [Hl Hs]. exists b. auto.
  - intros (b & Ib & Il & Hs). rewrite (He b l p Ib Il Hs). f_equal.
    destruct (find (in_span p) (links_of_list (child_inlines b))) as [l'|] eqn:F.
    + apply find_some in F as [Il' Hs']. f_equal. symmetry. exact (Hd b l l' p Ib Il Il' Hs Hs').
    + exfalso. pose proof (find_none _ _ F l Il) as N. congruence.
Qed.

(* nothing is returned at a position no link's range contains *)
Theorem C13_link_at_none bs p :
  no_bad_lists bs ->
  (forall b l, In b (doc_search_order bs) -> In l (links_of_list (child_inlines b)) -> in_span p l = false) ->
  link_at bs p = Ok None.
Proof.
  intros Hb Hn. rewrite (link_at_char bs p Hb).
  destruct (find (covers (fst p)) (doc_search_order bs)) as [b|] eqn:F; [|reflexivity].
  apply find_some in F as [Ib _]. f_equal.
  destruct (find (in_span p) (links_of_list (child_inlines b))) as [l|] eqn:G; [|reflexivity].
  apply find_some in G as [Il Hs]. rewrite (Hn b l Ib Il) in Hs. discriminate.
Qed.

(* F3: a list with an empty first item makes link_at panic, wherever the cursor is from
   that list on *)
Definition bad_list_witness : list pblock :=
  [BList [[]; [BPara (1, 2) [PNode (KLink Regular "x") ((1, 2), (1, 8)) [PStr 1]]]]].
Theorem C13_bad_list_refuted :
  exists p : pos, link_at bad_list_witness p = Panic "line_range: unwrap on None" /\ p = (1, 3).
Proof. exists (1, 3). split; reflexivity. Qed.

(* ====================================================================================== *)
(* 6. key_range                                                                            *)
(* ====================================================================================== *)

(* for a link on one line written `[label](url)` whose label is written as its plain text
   ([n] bytes): the rename range is exactly the url *)
Theorem key_range_inline_link lt url line sc kids :
  let n := plain_len (PNode (KLink lt url) ((0, 0), (0, 0)) kids) in
  key_range (PNode (KLink lt url) ((line, sc), (line, sc + 1 + n + 2 + String.length url + 1)) kids) =
  Ok (Some ((line, sc + 1 + n + 2), (line, sc + 1 + n + 2 + String.length url))).
Proof.
  intros n. unfold key_range. cbn [fst snd].
  replace (sc + 1 + n + 2 + String.length url + 1) with (S (sc + 1 + n + 2 + String.length url)) by lia.
  f_equal. f_equal. f_equal. f_equal. subst n. cbn [plain_len]. lia.
Qed.

(* a wiki link `[[wiki]]` at column 0: the range offered for renaming is empty and sits
   behind the key (7..7 instead of 2..6) *)
Theorem C13_key_range_wiki_refuted :
  exists l, key_range l = Ok (Some ((0, 7), (0, 7))) /\
            l = PNode (KLink WikiLink "wiki") ((0, 0), (0, 8)) [PStr 4].
Proof. eexists. split; [|reflexivity]. reflexivity. Qed.

(* ====================================================================================== *)
(* 7. where the block ranges are not exact: witnesses through the reader model             *)
(* ====================================================================================== *)

(* a paragraph of two lines at the end of a text without final newline: to_line_range gives
   it the first line only, the link on its second line is not found *)
Definition w_last_line_text : string := "first line
second [l](to) x".
Definition w_last_line_events : list ev :=
  [EStart TPara 0 27; EText 10 0 10; EBreak 10 11; EText 7 11 18; EStart (TLink Regular "to") 18 25;
   EText 1 19 20; EEnd (TLink Regular ""); EText 2 25 27; EEnd TPara].
Theorem C13_last_line_refuted :
  exists d, read_events (code_mode as_found w_last_line_text) w_last_line_events = Ok d /\
            link_at d (1, 7) = Ok None /\
            irange_contains (spec_span w_last_line_text 18 25) (1, 7) = true /\
            to_line_range (line_starts_fixed w_last_line_text) 0 27 = (0, 1) /\
            spec_lines w_last_line_text 0 27 = (0, 2).
Proof. eexists. repeat split; vm_compute; reflexivity. Qed.

(* a tight list item continued on a second line: the implicit paragraph gets the line range
   of its first inline, the link on the continuation line is not found *)
Definition w_tight_text : string := "- item
  second [l](to) x
- b
".
Definition w_tight_events : list ev :=
  [EStart TList 0 30; EStart TItem 0 26; EText 4 2 6; EBreak 6 7; EText 7 9 16; EStart (TLink Regular "to") 16 23;
   EText 1 17 18; EEnd (TLink Regular ""); EText 2 23 25; EEnd TItem; EStart TItem 26 30; EText 1 28 29;
   EEnd TItem; EEnd TList].
Theorem C13_tight_item_refuted :
  exists d, read_events (code_mode as_found w_tight_text) w_tight_events = Ok d /\
            link_at d (1, 9) = Ok None /\
            irange_contains (spec_span w_tight_text 16 23) (1, 9) = true.
Proof. eexists. repeat split; vm_compute; reflexivity. Qed.

(* a link in a table cell: tables have no child inlines, the link is never found *)
Definition w_table_text : string := "| a |
|---|
| [l](to) |
".
Definition w_table_events : list ev :=
  [EStart TTable 0 24; EStart TTableHead 0 6; EStart TTableCell 1 4; EText 1 2 3; EEnd TTableCell; EEnd TTableHead;
   EStart TTableRow 12 24; EStart TTableCell 13 22; EStart (TLink Regular "to") 14 21; EText 1 15 16;
   EEnd (TLink Regular ""); EEnd TTableCell; EEnd TTableRow; EEnd TTable].
Theorem C13_table_refuted :
  exists d, read_events (code_mode as_found w_table_text) w_table_events = Ok d /\
            link_at d (2, 3) = Ok None /\
            irange_contains (spec_span w_table_text 14 21) (2, 3) = true.
Proof. eexists. repeat split; vm_compute; reflexivity. Qed.

(* on a text of the covered class the model reader, link_at and the LSP span agree *)
Definition w_plain_text : string := "para

text [link](to) text
".
Definition w_plain_events : list ev :=
  [EStart TPara 0 5; EText 4 0 4; EEnd TPara; EStart TPara 6 27; EText 5 6 11; EStart (TLink Regular "to") 11 21;
   EText 4 12 16; EEnd (TLink Regular ""); EText 5 21 26; EEnd TPara].
Example C13_plain_example :
  exists d l, read_events (code_mode as_found w_plain_text) w_plain_events = Ok d /\
              link_at d (2, 5) = Ok (Some l) /\ link_at d (2, 14) = Ok (Some l) /\
              link_at d (2, 4) = Ok None /\ link_at d (2, 15) = Ok None /\
              inline_range l = spec_span w_plain_text 11 21 /\
              key_range l = Ok (Some ((2, 12), (2, 14))).
Proof. eexists. eexists. repeat split; vm_compute; reflexivity. Qed.
