(* PosFacts.v — proofs about Pos.v (property C13).  All statements are unbounded: any text,
   any offset, any nesting of blocks / inlines; the `_refuted` lemmas exhibit concrete
   witnesses for the classes the general statements exclude. *)
From IweV Require Import Str Text Ast Arena Pos.
Local Open Scope string_scope.
Local Open Scope list_scope.
Arguments is_lf : simpl never.
Arguments is_cr : simpl never.
Arguments Ascii.eqb : simpl never.
Arguments Nat.leb : simpl never.
Arguments Nat.ltb : simpl never.

(* ====================================================================================== *)
(* 1. walk = the declarative position                                                      *)
(* ====================================================================================== *)

Fixpoint sumw (w : ascii -> nat) (s : string) : nat :=
  match s with EmptyString => 0 | String c r => w c + sumw w r end.

Lemma contains_lf_cons c s : contains_char LF (String c s) = is_lf c || contains_char LF s.
Proof. unfold is_lf. cbn [contains_char]. destruct (Ascii.eqb c LF); reflexivity. Qed.

Lemma walk_decl w t : forall o line col,
  walk w t o line col =
  (line + count_lf (stake o t),
   if contains_char LF (stake o t) then sumw w (after_last_lf (stake o t)) else col + sumw w (stake o t)).
Proof.
  induction t as [|c r IH]; intros [|o] line col; cbn [walk stake count_lf sumw after_last_lf contains_char];
    try (f_equal; lia).
  change (Ascii.eqb c LF) with (is_lf c). destruct (is_lf c) eqn:E; rewrite IH.
  - destruct (contains_char LF (stake o r)); f_equal; lia.
  - destruct (contains_char LF (stake o r)); cbn [sumw]; f_equal; lia.
Qed.

Lemma after_last_lf_none s : contains_char LF s = false -> after_last_lf s = s.
Proof.
  destruct s as [|c r]; [reflexivity|]. rewrite contains_lf_cons. intros H.
  apply Bool.orb_false_iff in H as [H1 H2]. cbn [after_last_lf]. now rewrite H2, H1.
Qed.

Lemma walk_pos w t o :
  walk w t o 0 0 = (count_lf (stake o t), sumw w (after_last_lf (stake o t))).
Proof.
  rewrite walk_decl. cbn [Nat.add]. destruct (contains_char LF (stake o t)) eqn:E; [reflexivity|].
  now rewrite after_last_lf_none.
Qed.

Lemma sumw_units s : sumw units_of_byte s = utf16_units s.
Proof. induction s as [|c r IH]; cbn; [reflexivity | now rewrite IH]. Qed.

Lemma sumw_one s : sumw (fun _ => 1) s = String.length s.
Proof. induction s as [|c r IH]; cbn; [reflexivity | now rewrite IH]. Qed.

(* ====================================================================================== *)
(* 2. UTF-8 decoding: the UTF-16 length of the decoded text is the sum over lead bytes     *)
(* ====================================================================================== *)

Lemma units_lt128 a : N.ltb (byte_N a) 128 = true -> units_of_byte a = 1.
Proof.
  unfold byte_N, units_of_byte. intros H. apply N.ltb_lt in H.
  assert (nat_of_ascii a < 128) as H1.
  { unfold nat_of_ascii. change 128 with (N.to_nat 128). lia. }
  apply Nat.ltb_lt in H1. now rewrite H1.
Qed.

Lemma byte_N_nat a : byte_N a = N.of_nat (nat_of_ascii a).
Proof. unfold byte_N, nat_of_ascii. now rewrite N2Nat.id. Qed.

Lemma ltb_byte a k : N.ltb (byte_N a) (N.of_nat k) = Nat.ltb (nat_of_ascii a) k.
Proof.
  rewrite byte_N_nat. destruct (Nat.ltb_spec (nat_of_ascii a) k); [apply N.ltb_lt | apply N.ltb_ge]; lia.
Qed.

Lemma is_cont_units b : is_cont b = true -> units_of_byte b = 0.
Proof.
  unfold is_cont, units_of_byte. intros H. apply andb_prop in H as [H1 H2].
  apply Nat.leb_le in H1. rewrite H2.
  destruct (Nat.ltb_spec (nat_of_ascii b) 128); [lia | reflexivity].
Qed.

Lemma is_cont_bound b : is_cont b = true -> (128 <= byte_N b < 192)%N.
Proof.
  unfold is_cont. intros H. apply andb_prop in H as [H1 H2].
  apply Nat.leb_le in H1. apply Nat.ltb_lt in H2. rewrite byte_N_nat. lia.
Qed.

Lemma decode_units : forall fuel s l,
  decode_utf8 fuel s = Some l -> utf16_len_scalars l = utf16_units s.
Proof.
  induction fuel as [|f IH]; intros s l H.
  - destruct s; [|discriminate]. injection H as <-. reflexivity.
  - destruct s as [|a r]; [injection H as <-; reflexivity|].
    cbn [decode_utf8] in H. cbn [utf16_units].
    assert (Hu : forall k, N.ltb (byte_N a) (N.of_nat k) = Nat.ltb (nat_of_ascii a) k) by (intro; apply ltb_byte).
    destruct (N.ltb (byte_N a) 128) eqn:E1.
    { destruct (decode_utf8 f r) as [l'|] eqn:D; [|discriminate]. injection H as <-.
      cbn [utf16_len_scalars]. rewrite (IH _ _ D), (units_lt128 _ E1).
      unfold utf16_of_scalar. apply N.ltb_lt in E1.
      destruct (N.ltb_spec (byte_N a) 65536); [reflexivity | lia]. }
    destruct (N.ltb (byte_N a) 192) eqn:E2; [discriminate|].
    assert (U1 : Nat.ltb (nat_of_ascii a) 128 = false) by (rewrite <- (Hu 128); exact E1).
    assert (U2 : Nat.ltb (nat_of_ascii a) 192 = false) by (rewrite <- (Hu 192); exact E2).
    apply N.ltb_ge in E2.
    destruct (N.ltb (byte_N a) 224) eqn:E3.
    { destruct r as [|b r1]; [discriminate|]. destruct (is_cont b) eqn:Cb; [|discriminate].
      destruct (decode_utf8 f r1) as [l'|] eqn:D; [|discriminate]. injection H as <-.
      cbn [utf16_len_scalars utf16_units]. rewrite (IH _ _ D), (is_cont_units _ Cb).
      assert (U3 : Nat.ltb (nat_of_ascii a) 240 = true).
      { rewrite <- (Hu 240). apply N.ltb_lt. apply N.ltb_lt in E3. change (N.of_nat 240) with 240%N. lia. }
      unfold units_of_byte. rewrite U1, U2, U3.
      pose proof (is_cont_bound _ Cb). apply N.ltb_lt in E3.
      unfold utf16_of_scalar.
      destruct (N.ltb_spec ((byte_N a - 192) * 64 + (byte_N b - 128)) 65536); [lia | lia]. }
    apply N.ltb_ge in E3.
    destruct (N.ltb (byte_N a) 240) eqn:E4.
    { destruct r as [|b [|c r2]]; try discriminate.
      destruct (is_cont b) eqn:Cb; [|discriminate]. destruct (is_cont c) eqn:Cc; [|discriminate].
      cbn [andb] in H.
      destruct (decode_utf8 f r2) as [l'|] eqn:D; [|discriminate]. injection H as <-.
      cbn [utf16_len_scalars utf16_units]. rewrite (IH _ _ D), (is_cont_units _ Cb), (is_cont_units _ Cc).
      assert (U3 : Nat.ltb (nat_of_ascii a) 240 = true) by (rewrite <- (Hu 240); exact E4).
      unfold units_of_byte. rewrite U1, U2, U3.
      pose proof (is_cont_bound _ Cb). pose proof (is_cont_bound _ Cc). apply N.ltb_lt in E4.
      unfold utf16_of_scalar.
      destruct (N.ltb_spec ((byte_N a - 224) * 4096 + (byte_N b - 128) * 64 + (byte_N c - 128)) 65536); [lia | lia]. }
    assert (U3 : Nat.ltb (nat_of_ascii a) 240 = false) by (rewrite <- (Hu 240); exact E4).
    destruct (N.ltb (byte_N a) 248) eqn:E5; [|discriminate].
    destruct r as [|b [|c [|d r3]]]; try discriminate.
    destruct (is_cont b) eqn:Cb; [|discriminate]. destruct (is_cont c) eqn:Cc; [|discriminate].
    destruct (is_cont d) eqn:Cd; [|discriminate]. cbn [andb] in H.
    match type of H with (if ?g then _ else _) = _ => destruct g eqn:G; [|discriminate] end.
    destruct (decode_utf8 f r3) as [l'|] eqn:D; [|discriminate]. injection H as <-.
    cbn [utf16_len_scalars utf16_units].
    rewrite (IH _ _ D), (is_cont_units _ Cb), (is_cont_units _ Cc), (is_cont_units _ Cd).
    unfold units_of_byte. rewrite U1, U2, U3.
    unfold utf16_of_scalar. apply N.leb_le in G.
    match goal with |- (if N.ltb ?x _ then _ else _) + _ = _ => destruct (N.ltb_spec x 65536); [lia | lia] end.
Qed.

(* the UTF-16 length of a text, by decoding, is the sum of the lead-byte contributions *)
Lemma utf16_len_units s : utf16_len s = utf16_units s.
Proof.
  unfold utf16_len, decode. destruct (decode_utf8 (String.length s) s) eqn:D; [|reflexivity].
  exact (decode_units _ _ _ D).
Qed.

(* the one-pass computation is the declarative LSP position *)
Theorem lsp_pos_walk_spec t o : lsp_pos_walk t o = lsp_pos t o.
Proof.
  unfold lsp_pos_walk, lsp_pos. rewrite walk_pos, sumw_units, utf16_len_units. reflexivity.
Qed.

Lemma byte_pos_spec t o :
  byte_pos t o = (count_lf (stake o t), String.length (after_last_lf (stake o t))).
Proof. unfold byte_pos. now rewrite walk_pos, sumw_one. Qed.

Lemma all_ascii_units s : all_ascii s = true -> utf16_units s = String.length s.
Proof.
  induction s as [|c r IH]; cbn [all_ascii utf16_units String.length]; [reflexivity|].
  intros H. apply andb_prop in H as [H1 H2]. rewrite (IH H2).
  unfold units_of_byte. now rewrite H1.
Qed.

(* with only ASCII between the line start and the offset, bytes and UTF-16 units agree *)
Lemma byte_pos_lsp t o : ascii_before t o = true -> byte_pos t o = lsp_pos t o.
Proof.
  unfold ascii_before. intros H. rewrite byte_pos_spec. unfold lsp_pos.
  now rewrite utf16_len_units, (all_ascii_units _ H).
Qed.

(* ====================================================================================== *)
(* 3. line_starts and the loop that locates an offset                                      *)
(* ====================================================================================== *)

Lemma locate_aux_gt ls : forall i x acc,
  Forall (fun s => x < s) ls -> locate_aux ls i x acc = acc.
Proof.
  induction ls as [|s r IH]; intros i x acc H; cbn [locate_aux]; [reflexivity|].
  inversion H as [|? ? Hs Hr]; subst.
  destruct (Nat.leb_spec s x); [lia|]. now apply IH.
Qed.

Lemma lf_starts_gt t : forall off, Forall (fun s => off < s) (lf_starts t off).
Proof.
  induction t as [|c r IH]; intros off; cbn [lf_starts]; [constructor|].
  assert (Forall (fun s => off < s) (lf_starts r (S off))).
  { eapply Forall_impl; [|apply IH]. cbn. intros; lia. }
  destruct (is_lf c); [constructor; [lia | assumption] | assumption].
Qed.

(* repaired line starts: the loop computes exactly the byte position *)
Lemma locate_walk_fixed t : forall off o line s0,
  o <= String.length t -> s0 <= off ->
  locate_aux (lf_starts t off) (S line) (off + o) (line, off + o - s0) =
  walk (fun _ => 1) t o line (off - s0).
Proof.
  induction t as [|c r IH]; intros off o line s0 Ho Hs.
  - cbn in Ho. assert (o = 0) by lia. subst. cbn. f_equal. lia.
  - destruct o as [|o].
    + cbn [walk]. rewrite locate_aux_gt; [f_equal; lia|].
      eapply Forall_impl; [|apply lf_starts_gt]. cbn. intros; lia.
    + cbn [walk lf_starts]. cbn [String.length] in Ho.
      destruct (is_lf c) eqn:E.
      * cbn [locate_aux]. destruct (Nat.leb_spec (S off) (off + S o)); [|lia].
        replace (off + S o) with (S off + o) by lia.
        replace (S off + o - S off) with (S off + o - S off) by reflexivity.
        rewrite (IH (S off) o (S line) (S off)); [|lia|lia]. f_equal. lia.
      * replace (off + S o) with (S off + o) by lia.
        rewrite (IH (S off) o line s0); [|lia|lia]. f_equal. lia.
Qed.

Theorem locate_fixed t o :
  o <= String.length t -> locate (line_starts_fixed t) o = byte_pos t o.
Proof.
  intros H. unfold locate, line_starts_fixed, byte_pos. cbn [locate_aux Nat.leb].
  pose proof (locate_walk_fixed t 0 o 0 0 H (le_n 0)) as L. cbn [Nat.add] in L.
  replace (o - 0) with o in * by lia. exact L.
Qed.

(* as found: `lines()` drops a CR before LF, so the table drifts; on texts without CR it is
   exact *)
Definition head_not_cr (cur : string) : Prop :=
  match cur with String c _ => is_cr c = false | EmptyString => True end.

Lemma srev_length s : String.length (srev s) = String.length s.
Proof.
  induction s as [|c r IH]; [reflexivity|]. rewrite srev_cons.
  assert (L : forall a b, String.length (a ++ b) = String.length a + String.length b).
  { induction a as [|x a IHa]; intros b; cbn; [reflexivity | now rewrite IHa]. }
  rewrite L, IH. cbn. lia.
Qed.

Lemma scan_add_gt l : forall b, Forall (fun e => b < e) (scan_add b (map (fun x => S (String.length x)) l)).
Proof.
  induction l as [|x r IH]; intros b; cbn [map scan_add]; constructor; [lia|].
  eapply Forall_impl; [|apply IH]. cbn. intros; lia.
Qed.

Lemma lines_aux_scan_gt s : forall cur s0,
  no_cr s = true -> head_not_cr cur ->
  Forall (fun e => s0 + String.length cur < e)
         (scan_add s0 (map (fun l => S (String.length l)) (lines_aux s cur))).
Proof.
  induction s as [|c r IH]; intros cur s0 Hs Hc; cbn [lines_aux].
  - destruct (sempty cur); cbn [map scan_add]; constructor; [|constructor].
    rewrite srev_length. lia.
  - cbn [no_cr] in Hs. apply andb_prop in Hs as [Hc1 Hs].
    destruct (Ascii.eqb c LF) eqn:E.
    + assert (L : (match cur with String c0 cur' => if Ascii.eqb c0 CR then cur' else cur | EmptyString => cur end) = cur).
      { destruct cur as [|c0 cur']; [reflexivity|]. cbn in Hc. unfold is_cr in Hc. now rewrite Hc. }
      rewrite L. cbn [map scan_add]. rewrite srev_length. constructor; [lia|].
      eapply Forall_impl; [|apply scan_add_gt]. cbn. intros; lia.
    + specialize (IH (String c cur) s0 Hs). cbn [String.length] in IH.
      eapply Forall_impl; [|apply IH].
      * cbn. intros; lia.
      * cbn. now apply Bool.negb_true_iff in Hc1.
Qed.

Lemma locate_walk_as_found s : forall cur s0 o line,
  no_cr s = true -> head_not_cr cur -> o <= String.length s ->
  locate_aux (scan_add s0 (map (fun l => S (String.length l)) (lines_aux s cur))) (S line)
             (s0 + String.length cur + o) (line, String.length cur + o) =
  walk (fun _ => 1) s o line (String.length cur).
Proof.
  induction s as [|c r IH]; intros cur s0 o line Hs Hc Ho.
  - cbn in Ho. assert (o = 0) by lia. subst o. cbn [walk].
    rewrite locate_aux_gt; [f_equal; lia|].
    eapply Forall_impl; [|apply (lines_aux_scan_gt "" cur s0 Hs Hc)]. cbn. intros; lia.
  - destruct o as [|o].
    + cbn [walk]. rewrite locate_aux_gt; [f_equal; lia|].
      eapply Forall_impl; [|apply (lines_aux_scan_gt _ cur s0 Hs Hc)]. cbn. intros; lia.
    + cbn [String.length] in Ho. cbn [no_cr] in Hs. apply andb_prop in Hs as [Hc1 Hs].
      cbn [walk lines_aux]. unfold is_lf. destruct (Ascii.eqb c LF) eqn:E.
      * assert (L : (match cur with String c0 cur' => if Ascii.eqb c0 CR then cur' else cur | EmptyString => cur end) = cur).
        { destruct cur as [|c0 cur']; [reflexivity|]. cbn in Hc. unfold is_cr in Hc. now rewrite Hc. }
        rewrite L. cbn [map scan_add locate_aux]. rewrite srev_length.
        destruct (Nat.leb_spec (s0 + S (String.length cur)) (s0 + String.length cur + S o)); [|lia].
        specialize (IH EmptyString (s0 + S (String.length cur)) o (S line) Hs I).
        cbn [String.length] in IH.
        replace (s0 + String.length cur + S o) with (s0 + S (String.length cur) + 0 + o) by lia.
        replace (s0 + S (String.length cur) + 0 + o - (s0 + S (String.length cur))) with (0 + o) by lia.
        apply IH. lia.
      * specialize (IH (String c cur) s0 o line Hs).
        cbn [String.length] in IH.
        replace (s0 + String.length cur + S o) with (s0 + S (String.length cur) + o) by lia.
        replace (String.length cur + S o) with (S (String.length cur) + o) by lia.
        replace (String.length cur + 1) with (S (String.length cur)) by lia.
        apply IH; [|lia]. cbn. now apply Bool.negb_true_iff in Hc1.
Qed.

Theorem locate_as_found t o :
  no_cr t = true -> o <= String.length t -> locate (line_starts_as_found t) o = byte_pos t o.
Proof.
  intros Hn H. unfold locate, line_starts_as_found, byte_pos, lines. cbn [locate_aux Nat.leb].
  pose proof (locate_walk_as_found t EmptyString 0 o 0 Hn I H) as L.
  cbn [String.length Nat.add] in L. replace (o - 0) with o by lia. exact L.
Qed.

(* both in one statement: the variant's line table locates every offset of the text at its
   byte position, provided the text has no CR or the CRLF repair is in *)
Theorem C13_line_starts_locate v t o :
  (v_crlf v = true \/ no_cr t = true) -> o <= String.length t ->
  locate (line_starts v t) o = byte_pos t o.
Proof.
  intros H Ho. unfold line_starts. destruct (v_crlf v) eqn:E.
  - now apply locate_fixed.
  - destruct H as [H|H]; [discriminate|]. now apply locate_as_found.
Qed.

Theorem C13_crlf_refuted :
  exists t o, o <= String.length t /\ locate (line_starts as_found t) o <> byte_pos t o /\
              t = sb [112;97;114;97;13;10;13;10;116;101;120;116;32;91;108;105;110;107;93;40;116;111;41]%N /\ o = 13.
Proof.
  eexists. exists 13. split; [|split; [|split; reflexivity]]; vm_compute; [lia | discriminate].
Qed.

(* ====================================================================================== *)
(* 4. to_inline_range                                                                      *)
(* ====================================================================================== *)

(* as found (byte columns): exact when only ASCII precedes the offsets on their lines *)
Theorem inline_range_bytes v t s e :
  v_utf16 v = false -> (v_crlf v = true \/ no_cr t = true) ->
  s <= String.length t -> e <= String.length t ->
  ascii_before t s = true -> ascii_before t e = true ->
  to_inline_range v t (line_starts v t) s e = (lsp_pos t s, lsp_pos t e).
Proof.
  intros Hu Hc Hs He As Ae. unfold to_inline_range, to_position.
  rewrite !(C13_line_starts_locate v t) by assumption. rewrite Hu.
  rewrite !byte_pos_lsp by assumption.
  destruct (lsp_pos t s), (lsp_pos t e). reflexivity.
Qed.

Theorem C13_utf16_refuted :
  exists t s e, s <= e <= String.length t /\ no_cr t = true /\
    to_inline_range as_found t (line_starts as_found t) s e <> (lsp_pos t s, lsp_pos t e) /\
    t = sb [195;169;32;91;108;93;40;116;111;41]%N /\ s = 3 /\ e = 10.
Proof.
  eexists. exists 3, 10. repeat split; try reflexivity; vm_compute; try lia. discriminate.
Qed.

(* repaired (UTF-16 columns): exact for every offset at a character boundary *)
Lemma after_last_lf_suffix s : exists q, s = (q ++ after_last_lf s)%string.
Proof.
  induction s as [|c r [q IH]]; [exists EmptyString; reflexivity|].
  cbn [after_last_lf]. destruct (contains_char LF r).
  - exists (String c q). cbn. now rewrite <- IH.
  - destruct (is_lf c); [exists (String c EmptyString); reflexivity | exists EmptyString; reflexivity].
Qed.

Lemma app_length a b : String.length (a ++ b) = String.length a + String.length b.
Proof. induction a as [|x a IH]; cbn; [reflexivity | now rewrite IH]. Qed.

Lemma stake_length o t : o <= String.length t -> String.length (stake o t) = o.
Proof.
  revert t; induction o as [|o IH]; intros [|c r] H; cbn in *; try reflexivity; try lia.
  rewrite IH; lia.
Qed.

Lemma slice_suffix t : forall x q a,
  stake x t = (q ++ a)%string -> x <= String.length t -> slice t (x - String.length a) x = a.
Proof.
  intros x q a H Hx. unfold slice.
  assert (L : x = String.length q + String.length a).
  { rewrite <- app_length, <- H. now rewrite stake_length. }
  replace (x - String.length a) with (String.length q) by lia.
  replace (x - String.length q) with (String.length a) by lia.
  subst x. clear Hx. revert t H. induction q as [|c q IH]; intros t H.
  - cbn [String.length Nat.add sdrop] in *. cbn [String.append] in H.
    revert t H. induction a as [|d a IHa]; intros t H; [reflexivity|].
    destruct t as [|c t]; cbn in H; [discriminate|]. injection H as -> H. cbn. f_equal. now apply IHa.
  - destruct t as [|d t]; cbn in H; [discriminate|]. injection H as -> H. cbn [String.length sdrop]. now apply IH.
Qed.

Theorem inline_position_utf16 v t x :
  v_utf16 v = true -> (v_crlf v = true \/ no_cr t = true) -> x <= String.length t ->
  is_char_boundary t x = true ->
  is_char_boundary t (x - String.length (after_last_lf (stake x t))) = true ->
  to_position v t (line_starts v t) x = lsp_pos t x.
Proof.
  intros Hu Hc Hx B1 B2. unfold to_position.
  rewrite (C13_line_starts_locate v t x Hc Hx), byte_pos_spec, Hu, B2, B1. cbn [andb].
  unfold lsp_pos. rewrite utf16_len_units. f_equal. f_equal.
  destruct (after_last_lf_suffix (stake x t)) as [q Hq].
  exact (slice_suffix t x q _ Hq Hx).
Qed.

(* ====================================================================================== *)
(* 5. link_at: what the search returns, for blocks and inlines of any nesting              *)
(* ====================================================================================== *)

Section pinl_induction.
  Variable P : pinl -> Prop.
  Hypothesis HStr : forall n, P (PStr n).
  Hypothesis HLeaf : forall r n, P (PLeaf r n).
  Hypothesis HNode : forall k r kids, Forall P kids -> P (PNode k r kids).
  Fixpoint pinl_ind' (i : pinl) : P i :=
    match i with
    | PStr n => HStr n
    | PLeaf r n => HLeaf r n
    | PNode k r kids =>
        HNode k r kids ((fix go (l : list pinl) : Forall P l :=
                           match l with
                           | [] => Forall_nil P
                           | x :: rest => Forall_cons x (pinl_ind' x) (go rest)
                           end) kids)
    end.
End pinl_induction.

Section pblock_induction.
  Variable P : pblock -> Prop.
  Hypothesis HPara : forall lr l, P (BPara lr l).
  Hypothesis HHeader : forall lr l, P (BHeader lr l).
  Hypothesis HCode : forall lr, P (BCode lr).
  Hypothesis HRule : forall lr, P (BRule lr).
  Hypothesis HTable : forall lr h rows, P (BTable lr h rows).
  Hypothesis HQuote : forall lr bs, Forall P bs -> P (BQuote lr bs).
  Hypothesis HList : forall items, Forall (Forall P) items -> P (BList items).
  Fixpoint pblock_ind' (b : pblock) : P b :=
    let fix go (l : list pblock) : Forall P l :=
      match l with
      | [] => Forall_nil P
      | x :: rest => Forall_cons x (pblock_ind' x) (go rest)
      end in
    match b with
    | BPara lr l => HPara lr l
    | BHeader lr l => HHeader lr l
    | BCode lr => HCode lr
    | BRule lr => HRule lr
    | BTable lr h rows => HTable lr h rows
    | BQuote lr bs => HQuote lr bs (go bs)
    | BList items =>
        HList items ((fix goi (l : list (list pblock)) : Forall (Forall P) l :=
                        match l with
                        | [] => Forall_nil (Forall P)
                        | it :: rest => Forall_cons it (go it) (goi rest)
                        end) items)
    end.
End pblock_induction.

Definition in_span (p : pos) (x : pinl) : bool := irange_contains (inline_range x) p.

Lemma find_app {A} (f : A -> bool) a b :
  find f (a ++ b) = match find f a with Some y => Some y | None => find f b end.
Proof. induction a as [|x a IH]; cbn; [reflexivity|]. destruct (f x); [reflexivity | exact IH]. Qed.

(* link_at_position returns the first link, outermost first and left to right, whose range
   contains the position *)
Lemma link_at_position_find p : forall i, link_at_position i p = find (in_span p) (links_of i).
Proof.
  induction i as [n | r n | k r kids IH] using pinl_ind'; [reflexivity | reflexivity |].
  cbn [link_at_position links_of].
  assert (G : (fix go (l : list pinl) : option pinl :=
                 match l with
                 | [] => None
                 | x :: rest => match link_at_position x p with Some y => Some y | None => go rest end
                 end) kids =
              find (in_span p)
                   ((fix go (l : list pinl) : list pinl := match l with [] => [] | x :: r => links_of x ++ go r end) kids)).
  { induction IH as [|x rest Hx _ IHr]; [reflexivity|]. rewrite find_app, <- Hx, IHr. reflexivity. }
  rewrite G. destruct (is_link k) eqn:L.
  - cbn [app find]. change (in_span p (PNode k r kids)) with (irange_contains r p).
    rewrite Bool.andb_true_r. destruct (irange_contains r p); reflexivity.
  - rewrite Bool.andb_false_r. reflexivity.
Qed.

Lemma first_link_at_find p l : first_link_at l p = find (in_span p) (links_of_list l).
Proof.
  induction l as [|x r IH]; [reflexivity|]. cbn [first_link_at links_of_list].
  rewrite find_app, <- link_at_position_find, IH. reflexivity.
Qed.

(* block search *)
Definition lr_of (v : variant) (b : pblock) : lrange := match line_range v b with Ok r => r | Panic _ => (0, 0) end.
Definition covers (v : variant) (line : nat) (b : pblock) : bool := lrange_contains (lr_of v b) line.
Definition no_bad_lists (bs : list pblock) : Prop := Forall (fun b => bad_list b = false) (doc_search_order bs).
(* what the search needs of the lists it walks through: nothing since the repair [v_empty_item];
   as found, no list whose first item is empty *)
Definition lists_ok (v : variant) (l : list pblock) : Prop :=
  v_empty_item v = true \/ Forall (fun b => bad_list b = false) l.

Lemma search_order_self b : In b (search_order b).
Proof. destruct b; cbn; try (left; reflexivity); apply in_or_app; right; left; reflexivity. Qed.

Lemma Forall_app_l {A} (P : A -> Prop) a b : Forall P (a ++ b) -> Forall P a.
Proof. intros H. apply Forall_app in H. tauto. Qed.
Lemma Forall_app_r {A} (P : A -> Prop) a b : Forall P (a ++ b) -> Forall P b.
Proof. intros H. apply Forall_app in H. tauto. Qed.
Lemma lists_ok_l v a b : lists_ok v (a ++ b) -> lists_ok v a.
Proof. intros [H|H]; [now left | right; exact (Forall_app_l _ _ _ H)]. Qed.
Lemma lists_ok_r v a b : lists_ok v (a ++ b) -> lists_ok v b.
Proof. intros [H|H]; [now left | right; exact (Forall_app_r _ _ _ H)]. Qed.

(* the repaired `line_range` is total: the first block of the first item that has one, or the
   empty range *)
Lemma line_range_total v : v_empty_item v = true -> forall b, exists r, line_range v b = Ok r.
Proof.
  intros Hv. induction b as [lr l|lr l|lr|lr|lr h rows|lr bs IH|items IH] using pblock_ind';
    try (eexists; reflexivity).
  cbn [line_range]. rewrite Hv.
  induction IH as [|it rest Hit _ IHr]; [eexists; reflexivity|].
  destruct it as [|first it']; [exact IHr|]. inversion Hit as [|? ? Hf _]; subst. exact Hf.
Qed.

Lemma line_range_ok v : forall b,
  lists_ok v (search_order b) -> exists r, line_range v b = Ok r.
Proof.
  intros b [Hv|H]; [now apply line_range_total|]. revert H.
  induction b as [lr l|lr l|lr|lr|lr h rows|lr bs IH|items IH] using pblock_ind'; intros H;
    try (eexists; reflexivity).
  cbn [search_order] in H.
  assert (Hb : bad_list (BList items) = false).
  { apply Forall_app_r in H. now inversion H. }
  destruct items as [|[|first it] rest]; try discriminate.
  inversion IH as [|? ? Hit _]; subst. inversion Hit as [|? ? Hf _]; subst.
  assert (Hf' : exists r, line_range v first = Ok r).
  { apply Hf. apply Forall_app_l in H.
    apply Forall_app_l in H. cbn in H. now apply Forall_app_l in H. }
  cbn [line_range]. destruct (v_empty_item v); exact Hf'.
Qed.

Lemma block_at_find v line : forall b,
  lists_ok v (search_order b) ->
  block_at v b line = Ok (find (covers v line) (search_order b)).
Proof.
  induction b as [lr l|lr l|lr|lr|lr h rows|lr bs IH|items IH] using pblock_ind'; intros H;
    try (cbn; unfold covers, lr_of; cbn; destruct (lrange_contains lr line); reflexivity).
  - (* quote *)
    cbn [search_order] in H. pose proof (lists_ok_l _ _ _ H) as Hk.
    set (go := fix go (l : list pblock) : res (option pblock) :=
           match l with
           | [] => Ok None
           | x :: rest => do r <- block_at v x line; match r with Some y => Ok (Some y) | None => go rest end
           end).
    set (gs := fix go (l : list pblock) : list pblock :=
           match l with [] => [] | x :: r => search_order x ++ go r end) in *.
    assert (G : go bs = Ok (find (covers v line) (gs bs))).
    { clear H. induction IH as [|x rest Hx _ IHr]; [reflexivity|].
      cbn [gs] in Hk. fold gs in Hk. cbn [go]. fold go.
      rewrite (Hx (lists_ok_l _ _ _ Hk)). cbn [bind]. cbn [gs]. fold gs. rewrite find_app.
      destruct (find (covers v line) (search_order x)); [reflexivity|].
      apply IHr. exact (lists_ok_r _ _ _ Hk). }
    change (block_at v (BQuote lr bs) line) with
      (do c <- go bs; do lr' <- line_range v (BQuote lr bs);
       Ok (match c with Some y => Some y | None => if lrange_contains lr' line then Some (BQuote lr bs) else None end)).
    rewrite G. cbn [bind line_range search_order]. fold gs. rewrite find_app.
    destruct (find (covers v line) (gs bs)); [reflexivity|].
    cbn [find]. unfold covers at 1, lr_of. cbn [line_range]. reflexivity.
  - (* list *)
    destruct (line_range_ok v (BList items) H) as [r Hr].
    cbn [search_order] in H. pose proof (lists_ok_l _ _ _ H) as Hk.
    set (go := fix go (l : list pblock) : res (option pblock) :=
           match l with
           | [] => Ok None
           | x :: rest => do r <- block_at v x line; match r with Some y => Ok (Some y) | None => go rest end
           end).
    set (goi := fix go_items (l : list (list pblock)) : res (option pblock) :=
           match l with
           | [] => Ok None
           | it :: rest => do r <- go it; match r with Some y => Ok (Some y) | None => go_items rest end
           end).
    set (gs := fix go (l : list pblock) : list pblock :=
           match l with [] => [] | x :: r => search_order x ++ go r end) in *.
    set (gsi := fix go_items (l : list (list pblock)) : list pblock :=
           match l with [] => [] | it :: r => gs it ++ go_items r end) in *.
    assert (G1 : forall it, Forall (fun b => lists_ok v (search_order b) ->
                                             block_at v b line = Ok (find (covers v line) (search_order b))) it ->
                            lists_ok v (gs it) ->
                            go it = Ok (find (covers v line) (gs it))).
    { intros it Hit. induction Hit as [|x rest Hx _ IHr]; intros Hb; [reflexivity|].
      cbn [gs] in Hb. fold gs in Hb. cbn [go]. fold go.
      rewrite (Hx (lists_ok_l _ _ _ Hb)). cbn [bind]. cbn [gs]. fold gs. rewrite find_app.
      destruct (find (covers v line) (search_order x)); [reflexivity|].
      apply IHr. exact (lists_ok_r _ _ _ Hb). }
    assert (G : goi items = Ok (find (covers v line) (gsi items))).
    { clear H Hr. induction IH as [|it rest Hit _ IHr]; [reflexivity|].
      cbn [gsi] in Hk. fold gsi in Hk. cbn [goi]. fold goi.
      rewrite (G1 it Hit (lists_ok_l _ _ _ Hk)). cbn [bind]. cbn [gsi]. fold gsi. rewrite find_app.
      destruct (find (covers v line) (gs it)); [reflexivity|].
      apply IHr. exact (lists_ok_r _ _ _ Hk). }
    change (block_at v (BList items) line) with
      (do c <- goi items; do lr' <- line_range v (BList items);
       Ok (match c with Some y => Some y | None => if lrange_contains lr' line then Some (BList items) else None end)).
    rewrite G, Hr. cbn [bind search_order]. fold gs. fold gsi. rewrite find_app.
    destruct (find (covers v line) (gsi items)); [reflexivity|].
    cbn [find]. unfold covers at 1, lr_of. rewrite Hr. reflexivity.
Qed.

Lemma doc_block_at_find v line : forall bs,
  lists_ok v (doc_search_order bs) -> doc_block_at v bs line = Ok (find (covers v line) (doc_search_order bs)).
Proof.
  induction bs as [|x r IH]; intros H; [reflexivity|].
  cbn [doc_search_order] in H. cbn [doc_block_at doc_search_order].
  rewrite (block_at_find v line x (lists_ok_l _ _ _ H)). cbn [bind]. rewrite find_app.
  destruct (find (covers v line) (search_order x)); [reflexivity|].
  apply IH. exact (lists_ok_r _ _ _ H).
Qed.

(* the characterisation: link_at looks at the first block, in search order (children before
   their parent, document order), whose line range covers the line, and returns the first
   link of that block (for a table since the repair [v_table]: of its cells), outermost first,
   whose range contains the position.  Since the repair [v_empty_item] this holds for every
   document; as found, for documents without a list whose first item is empty. *)
Theorem link_at_char v bs p :
  (v_empty_item v = true \/ no_bad_lists bs) ->
  link_at v bs p =
  Ok (match find (covers v (fst p)) (doc_search_order bs) with
      | Some b => find (in_span p) (links_of_list (child_inlines v b))
      | None => None
      end).
Proof.
  intros H. unfold link_at. rewrite (doc_block_at_find v _ _ H). cbn [bind].
  destruct (find (covers v (fst p)) (doc_search_order bs)); [|reflexivity].
  now rewrite first_link_at_find.
Qed.

(* in particular link_at of the current tree never panics *)
Corollary link_at_total v bs p : v_empty_item v = true -> exists r, link_at v bs p = Ok r.
Proof. intros H. rewrite (link_at_char v bs p (or_introl H)). eexists. reflexivity. Qed.

(* exactness of the block ranges, as far as link_at needs it: the first block found on a
   line of a link's span is the block that holds the link; and two links of a block do not
   overlap *)
Definition block_ranges_exact (v : variant) (bs : list pblock) : Prop :=
  forall b l p, In b (doc_search_order bs) -> In l (links_of_list (child_inlines v b)) ->
                in_span p l = true -> find (covers v (fst p)) (doc_search_order bs) = Some b.
Definition links_disjoint (v : variant) (bs : list pblock) : Prop :=
  forall b l l' p, In b (doc_search_order bs) ->
                   In l (links_of_list (child_inlines v b)) -> In l' (links_of_list (child_inlines v b)) ->
                   in_span p l = true -> in_span p l' = true -> l = l'.

Theorem C13_link_at_iff v bs p l :
  (v_empty_item v = true \/ no_bad_lists bs) -> block_ranges_exact v bs -> links_disjoint v bs ->
  (link_at v bs p = Ok (Some l) <->
   exists b, In b (doc_search_order bs) /\ In l (links_of_list (child_inlines v b)) /\ in_span p l = true).
Proof.
  intros Hb He Hd. rewrite (link_at_char v bs p Hb). split.
  - intros H. injection H as H.
    destruct (find (covers v (fst p)) (doc_search_order bs)) as [b|] eqn:F; [|discriminate].
    apply find_some in F as [Fb _]. apply find_some in H as [Hl Hs]. exists b. auto.
  - intros (b & Ib & Il & Hs). rewrite (He b l p Ib Il Hs). f_equal.
    destruct (find (in_span p) (links_of_list (child_inlines v b))) as [l'|] eqn:F.
    + apply find_some in F as [Il' Hs']. f_equal. symmetry. exact (Hd b l l' p Ib Il Il' Hs Hs').
    + exfalso. pose proof (find_none _ _ F l Il) as N. congruence.
Qed.

(* nothing is returned at a position no link's range contains *)
Theorem C13_link_at_none v bs p :
  (v_empty_item v = true \/ no_bad_lists bs) ->
  (forall b l, In b (doc_search_order bs) -> In l (links_of_list (child_inlines v b)) -> in_span p l = false) ->
  link_at v bs p = Ok None.
Proof.
  intros Hb Hn. rewrite (link_at_char v bs p Hb).
  destruct (find (covers v (fst p)) (doc_search_order bs)) as [b|] eqn:F; [|reflexivity].
  apply find_some in F as [Ib _]. f_equal.
  destruct (find (in_span p) (links_of_list (child_inlines v b))) as [l|] eqn:G; [|reflexivity].
  apply find_some in G as [Il Hs]. rewrite (Hn b l Ib Il) in Hs. discriminate.
Qed.

(* F3: as found, a list with an empty first item made link_at panic, wherever the cursor was
   from that list on; the repaired link_at finds the link of the second item *)
Definition bad_list_witness : list pblock :=
  [BList [[]; [BPara (1, 2) [PNode (KLink Regular "x") ((1, 2), (1, 8)) [PStr 1]]]]].
Theorem C13_bad_list_refuted :
  exists p : pos, link_at as_found bad_list_witness p = Panic "line_range: unwrap on None" /\ p = (1, 3) /\
                  link_at repaired bad_list_witness p = Ok (Some (PNode (KLink Regular "x") ((1, 2), (1, 8)) [PStr 1])).
Proof. exists (1, 3). repeat split; reflexivity. Qed.

(* ====================================================================================== *)
(* 6. key_range                                                                            *)
(* ====================================================================================== *)

(* for a link on one line written `[label](url)` whose label is written as its plain text
   ([n] bytes): the rename range is exactly the url *)
Theorem key_range_inline_link lt url line sc kids :
  let n := plain_len (PNode (KLink lt url) ((0, 0), (0, 0)) kids) in
  key_range (PNode (KLink lt url) ((line, sc), (line, sc + 1 + n + 2 + String.length url + 1)) kids) =
  Ok (Some ((line, sc + 1 + n + 2), (line, sc + 1 + n + 2 + String.length url))).
Proof.
  intros n. unfold key_range. cbn [fst snd].
  replace (sc + 1 + n + 2 + String.length url + 1) with (S (sc + 1 + n + 2 + String.length url)) by lia.
  f_equal. f_equal. f_equal. f_equal. subst n. cbn [plain_len]. lia.
Qed.

(* a wiki link `[[wiki]]` at column 0: the range offered for renaming is empty and sits
   behind the key (7..7 instead of 2..6) *)
Theorem C13_key_range_wiki_refuted :
  exists l, key_range l = Ok (Some ((0, 7), (0, 7))) /\
            l = PNode (KLink WikiLink "wiki") ((0, 0), (0, 8)) [PStr 4].
Proof. eexists. split; [|reflexivity]. reflexivity. Qed.

(* ====================================================================================== *)
(* 7. where the block ranges are not exact: witnesses through the reader model             *)
(* ====================================================================================== *)

(* OPEN (F-C13-last-line): a range that ends inside a line loses that line, even with a correct
   line table.  A link that runs over a line break and ends the text: the paragraph and the
   link get the first line only, the position on the second line is not found — in the
   current tree as well as as found *)
Definition w_last_line_text : string := "x [l
m](to)".
Definition w_last_line_events : list ev :=
  [EStart TPara 0 11; EText 2 0 2; EStart (TLink Regular "to") 2 11; EText 1 3 4; EBreak 4 5; EText 1 5 6;
   EEnd (TLink Regular ""); EEnd TPara].
Theorem C13_last_line_refuted :
  exists d, read_events (code_mode repaired w_last_line_text) w_last_line_events = Ok d /\
            read_events (code_mode as_found w_last_line_text) w_last_line_events = Ok d /\
            link_at repaired d (1, 2) = Ok None /\
            irange_contains (spec_span w_last_line_text 2 11) (1, 2) = true /\
            to_line_range (line_starts_fixed w_last_line_text) 0 11 = (0, 1) /\
            spec_lines w_last_line_text 0 11 = (0, 2).
Proof. eexists. repeat split; vm_compute; reflexivity. Qed.

(* a paragraph of two lines at the end of a text without final newline: as found it got the
   first line only and the link on its second line was not found; since the repair [v_tight]
   the paragraph covers the lines of its inlines and the link is found (the paragraph's own
   range is still cut, see above) *)
Definition w_last_para_text : string := "first line
second [l](to) x".
Definition w_last_para_events : list ev :=
  [EStart TPara 0 27; EText 10 0 10; EBreak 10 11; EText 7 11 18; EStart (TLink Regular "to") 18 25;
   EText 1 19 20; EEnd (TLink Regular ""); EText 2 25 27; EEnd TPara].
Theorem C13_last_para_as_found_refuted :
  exists d d' l, read_events (code_mode as_found w_last_para_text) w_last_para_events = Ok d /\
            link_at as_found d (1, 7) = Ok None /\
            irange_contains (spec_span w_last_para_text 18 25) (1, 7) = true /\
            to_line_range (line_starts_fixed w_last_para_text) 0 27 = (0, 1) /\
            spec_lines w_last_para_text 0 27 = (0, 2) /\
            read_events (code_mode repaired w_last_para_text) w_last_para_events = Ok d' /\
            link_at repaired d' (1, 7) = Ok (Some l) /\ inline_range l = spec_span w_last_para_text 18 25.
Proof. eexists. eexists. eexists. repeat split; vm_compute; reflexivity. Qed.

(* a tight list item continued on a second line: as found the implicit paragraph got the line
   range of its first inline and the link on the continuation line was not found; repaired, the
   reader gives the item the lines the specification gives it and the link is found *)
Definition w_tight_text : string := "- item
  second [l](to) x
- b
".
Definition w_tight_events : list ev :=
  [EStart TList 0 30; EStart TItem 0 26; EText 4 2 6; EBreak 6 7; EText 7 9 16; EStart (TLink Regular "to") 16 23;
   EText 1 17 18; EEnd (TLink Regular ""); EText 2 23 25; EEnd TItem; EStart TItem 26 30; EText 1 28 29;
   EEnd TItem; EEnd TList].
Theorem C13_tight_item_refuted :
  exists d, read_events (code_mode as_found w_tight_text) w_tight_events = Ok d /\
            link_at as_found d (1, 9) = Ok None /\
            irange_contains (spec_span w_tight_text 16 23) (1, 9) = true.
Proof. eexists. repeat split; vm_compute; reflexivity. Qed.
Theorem C13_tight_item_repaired :
  exists d l, read_events (code_mode repaired w_tight_text) w_tight_events = Ok d /\
              read_events (spec_mode w_tight_text) w_tight_events = Ok d /\
              link_at repaired d (1, 9) = Ok (Some l) /\ inline_range l = spec_span w_tight_text 16 23.
Proof. eexists. eexists. repeat split; vm_compute; reflexivity. Qed.

(* a link in a table cell: as found tables had no child inlines and the link was never found;
   repaired, the cells are searched *)
Definition w_table_text : string := "| a |
|---|
| [l](to) |
".
Definition w_table_events : list ev :=
  [EStart TTable 0 24; EStart TTableHead 0 6; EStart TTableCell 1 4; EText 1 2 3; EEnd TTableCell; EEnd TTableHead;
   EStart TTableRow 12 24; EStart TTableCell 13 22; EStart (TLink Regular "to") 14 21; EText 1 15 16;
   EEnd (TLink Regular ""); EEnd TTableCell; EEnd TTableRow; EEnd TTable].
Theorem C13_table_refuted :
  exists d, read_events (code_mode as_found w_table_text) w_table_events = Ok d /\
            link_at as_found d (2, 3) = Ok None /\
            irange_contains (spec_span w_table_text 14 21) (2, 3) = true.
Proof. eexists. repeat split; vm_compute; reflexivity. Qed.
Theorem C13_table_repaired :
  exists d l, read_events (code_mode repaired w_table_text) w_table_events = Ok d /\
              link_at repaired d (2, 3) = Ok (Some l) /\ inline_range l = spec_span w_table_text 14 21 /\
              link_at repaired d (2, 1) = Ok None /\ link_at repaired d (2, 9) = Ok None.
Proof. eexists. eexists. repeat split; vm_compute; reflexivity. Qed.

(* on a text of the covered class the model reader, link_at and the LSP span agree *)
Definition w_plain_text : string := "para

text [link](to) text
".
Definition w_plain_events : list ev :=
  [EStart TPara 0 5; EText 4 0 4; EEnd TPara; EStart TPara 6 27; EText 5 6 11; EStart (TLink Regular "to") 11 21;
   EText 4 12 16; EEnd (TLink Regular ""); EText 5 21 26; EEnd TPara].
Example C13_plain_example :
  exists d l, read_events (code_mode repaired w_plain_text) w_plain_events = Ok d /\
              link_at repaired d (2, 5) = Ok (Some l) /\ link_at repaired d (2, 14) = Ok (Some l) /\
              link_at repaired d (2, 4) = Ok None /\ link_at repaired d (2, 15) = Ok None /\
              inline_range l = spec_span w_plain_text 11 21 /\
              key_range l = Ok (Some ((2, 12), (2, 14))).
Proof. eexists. eexists. repeat split; vm_compute; reflexivity. Qed.

(* ====================================================================================== *)
(* 8. the reader depends on the mode only through the ranges of the events it sees         *)
(* ====================================================================================== *)

(* the two inner loops of `append_inline` *)
Section loops.
  Variable f : pblock -> res pblock.
  Variable i : pinl.
  Variable lr : lrange.
  Fixpoint app_last (l : list pblock) : res (list pblock) :=
    match l with
    | [] => Panic "append_inline: unwrap on None"
    | x :: [] => do x' <- f x; Ok [x']
    | x :: r => do r' <- app_last r; Ok (x :: r')
    end.
  Fixpoint app_tail (l : list pblock) : res (list pblock) :=
    match l with
    | [] => Ok [BPara lr [i]]
    | x :: [] => match x with
                 | BPara _ _ => do x' <- f x; Ok [x']
                 | _ => Ok [x; BPara lr [i]]
                 end
    | x :: r => do r' <- app_tail r; Ok (x :: r')
    end.
  Fixpoint app_item (l : list (list pblock)) : res (list (list pblock)) :=
    match l with
    | [] => Panic "append_inline: no item"
    | it :: [] => do it' <- app_tail it; Ok [it']
    | it :: r => do r' <- app_item r; Ok (it :: r')
    end.
End loops.

Lemma append_inline_quote M r bs i lr :
  append_inline M (BQuote r bs) i lr =
  match bs with
  | [] => Ok (BQuote r [BPara lr [i]])
  | _ => do bs' <- app_last (fun x => append_inline M x i lr) bs; Ok (BQuote r bs')
  end.
Proof. reflexivity. Qed.

Lemma append_inline_list M items i lr :
  append_inline M (BList items) i lr =
  do items' <- app_item (fun x => append_inline M x i lr) i lr items; Ok (BList items').
Proof. reflexivity. Qed.


Lemma app_last_ext (f g : pblock -> res pblock) l :
  Forall (fun x => f x = g x) l -> app_last f l = app_last g l.
Proof.
  induction 1 as [|x t Hx Ht IH]; [reflexivity|]. destruct t as [|y t].
  - cbn [app_last]. now rewrite Hx.
  - change (app_last f (x :: y :: t)) with (do r' <- app_last f (y :: t); Ok (x :: r')).
    change (app_last g (x :: y :: t)) with (do r' <- app_last g (y :: t); Ok (x :: r')).
    now rewrite IH.
Qed.

Lemma app_tail_ext (f g : pblock -> res pblock) i lr l :
  Forall (fun x => f x = g x) l -> app_tail f i lr l = app_tail g i lr l.
Proof.
  induction 1 as [|x t Hx Ht IH]; [reflexivity|]. destruct t as [|y t].
  - cbn [app_tail]. destruct x; try reflexivity. now rewrite Hx.
  - change (app_tail f i lr (x :: y :: t)) with (do r' <- app_tail f i lr (y :: t); Ok (x :: r')).
    change (app_tail g i lr (x :: y :: t)) with (do r' <- app_tail g i lr (y :: t); Ok (x :: r')).
    now rewrite IH.
Qed.

Lemma app_item_ext (f g : pblock -> res pblock) i lr items :
  Forall (Forall (fun x => f x = g x)) items -> app_item f i lr items = app_item g i lr items.
Proof.
  induction 1 as [|it t Hit Ht IH]; [reflexivity|]. destruct t as [|it' t].
  - cbn [app_item]. now rewrite (app_tail_ext f g i lr _ Hit).
  - change (app_item f i lr (it :: it' :: t)) with (do r' <- app_item f i lr (it' :: t); Ok (it :: r')).
    change (app_item g i lr (it :: it' :: t)) with (do r' <- app_item g i lr (it' :: t); Ok (it :: r')).
    now rewrite IH.
Qed.

(* `append_inline` uses the mode for nothing but [m_union] *)
Lemma append_inline_union M M' i lr :
  m_union M = m_union M' -> forall b, append_inline M b i lr = append_inline M' b i lr.
Proof.
  intros U. induction b as [r l|r l|r|r|r h rows|r bs IH|items IH] using pblock_ind'; try reflexivity.
  - cbn [append_inline]. now rewrite U.
  - rewrite !append_inline_quote. destruct bs as [|x t]; [reflexivity|].
    now rewrite (app_last_ext _ _ _ IH).
  - rewrite !append_inline_list. now rewrite (app_item_ext _ _ i lr _ IH).
Qed.

Lemma pop_inline_ext M M' st : m_union M = m_union M' -> pop_inline M st = pop_inline M' st.
Proof.
  intros U. unfold pop_inline. destruct (r_inl st) as [|[i lr] [|[parent plr] rest]]; try reflexivity.
  destruct (r_blk st) as [|b rest]; [reflexivity|]. now rewrite (append_inline_union M M' i lr U).
Qed.

(* the byte range an event carries *)
Definition ev_range (e : ev) : option (nat * nat) :=
  match e with
  | EStart _ s e' | EText _ s e' | ECode _ s e' | EMath s e' | EInlineHtml _ s e' | EBreak s e' | ERule s e' => Some (s, e')
  | _ => None
  end.
(* two modes give the event's range the same lines and the same span *)
Definition modes_agree (M M' : mode) (e : ev) : Prop :=
  match ev_range e with
  | Some (s, e') => m_lines M s e' = m_lines M' s e' /\ m_inline M s e' = m_inline M' s e'
  | None => True
  end.

Lemma step_ext M M' st e :
  m_union M = m_union M' -> modes_agree M M' e -> step M st e = step M' st e.
Proof.
  intros U A. unfold modes_agree in A.
  destruct e as [t s e'|t|len s e'|len s e'|s e'|len s e'|s e'|s e'|]; cbn [ev_range] in A;
    try destruct A as [Al Ai].
  - destruct t; cbn [step]; rewrite ?Al, ?Ai; reflexivity.
  - destruct t; cbn [step]; try reflexivity; apply pop_inline_ext; exact U.
  - cbn [step]. destruct (r_meta st); [reflexivity|]. destruct (r_blk st) as [|b rest]; [reflexivity|].
    destruct b; try reflexivity; unfold leaf_inline; rewrite Al; apply pop_inline_ext; exact U.
  - cbn [step]. unfold leaf_inline. rewrite Al, Ai. apply pop_inline_ext; exact U.
  - cbn [step]. unfold leaf_inline. rewrite Al, Ai. apply pop_inline_ext; exact U.
  - cbn [step]. unfold leaf_inline. rewrite Al. apply pop_inline_ext; exact U.
  - cbn [step]. destruct (r_meta st); [reflexivity|]. unfold leaf_inline. rewrite Al. apply pop_inline_ext; exact U.
  - cbn [step]. now rewrite Al.
  - reflexivity.
Qed.

Lemma run_events_ext M M' : m_union M = m_union M' ->
  forall evs st, Forall (modes_agree M M') evs -> run_events M st evs = run_events M' st evs.
Proof.
  intros U. induction evs as [|e r IH]; intros st H; [reflexivity|].
  inversion H as [|? ? He Hr]; subst. cbn [run_events]. rewrite (step_ext M M' st e U He).
  destruct (step M' st e); cbn [bind]; [now apply IH | reflexivity].
Qed.

Theorem read_events_ext M M' evs :
  m_union M = m_union M' -> Forall (modes_agree M M') evs -> read_events M evs = read_events M' evs.
Proof. intros U H. unfold read_events. now rewrite (run_events_ext M M' U evs rst0 H). Qed.

(* Since the repair [v_tight] the reader builds exactly the document of the specification —
   every block with the lines its source spans, every inline with its LSP span — on every event
   stream whose events each get exact lines and an exact span from `to_line_range` /
   `to_inline_range`: no block range is derived from the wrong inline any more.  (What is left
   is the range of one event: F-C13-last-line.) *)
Theorem C13_reader_spec v t evs :
  v_tight v = true -> Forall (modes_agree (code_mode v t) (spec_mode t)) evs ->
  read_events (code_mode v t) evs = read_events (spec_mode t) evs.
Proof. intros U H. apply read_events_ext; [exact U | exact H]. Qed.

(* as found the premise on the events did not suffice: every event of the tight-item witness
   gets exact ranges, the implicit paragraph does not *)
Theorem C13_reader_spec_as_found_refuted :
  Forall (modes_agree (code_mode as_found w_tight_text) (spec_mode w_tight_text)) w_tight_events /\
  read_events (code_mode as_found w_tight_text) w_tight_events <> read_events (spec_mode w_tight_text) w_tight_events.
Proof.
  split; [|vm_compute; discriminate].
  repeat (apply Forall_cons; [unfold modes_agree; cbn [ev_range]; try exact I; split; vm_compute; reflexivity|]).
  apply Forall_nil.
Qed.

(* ====================================================================================== *)
(* 9. which ranges `to_line_range` gets right, and the reader of the current tree on them  *)
(* ====================================================================================== *)

Lemma fst_lsp_pos_walk t o : fst (lsp_pos_walk t o) = count_lf (stake o t).
Proof. unfold lsp_pos_walk. now rewrite walk_pos. Qed.

Lemma fst_locate v t o :
  (v_crlf v = true \/ no_cr t = true) -> o <= String.length t ->
  fst (locate (line_starts v t) o) = count_lf (stake o t).
Proof. intros H Ho. now rewrite (C13_line_starts_locate v t o H Ho), byte_pos_spec. Qed.

Lemma count_lf_mono t : forall a b, a <= b -> count_lf (stake a t) <= count_lf (stake b t).
Proof.
  induction t as [|c r IH]; intros a b H.
  - destruct a, b; cbn; lia.
  - destruct a as [|a]; [cbn; lia|]. destruct b as [|b]; [lia|].
    cbn [stake count_lf]. specialize (IH a b). lia.
Qed.

Lemma count_lf_step t : forall o c, nth_byte t o = Some c ->
  count_lf (stake (S o) t) = count_lf (stake o t) + (if is_lf c then 1 else 0).
Proof.
  induction t as [|d r IH]; intros o c H; [discriminate|].
  destruct o as [|o].
  - cbn in H. injection H as ->. cbn [stake count_lf]. destruct r; cbn; lia.
  - cbn [nth_byte] in H.
    change (stake (S (S o)) (String d r)) with (String d (stake (S o) r)).
    change (stake (S o) (String d r)) with (String d (stake o r)).
    cbn [count_lf]. rewrite (IH o c H). lia.
Qed.

(* `to_line_range` is exact on a range that ends behind a line feed, or on one line *)
Theorem line_range_exact v t s e :
  (v_crlf v = true \/ no_cr t = true) -> s <= e -> e <= String.length t ->
  (nth_byte t (e - 1) = Some LF \/ fst (lsp_pos_walk t s) = fst (lsp_pos_walk t e)) ->
  to_line_range (line_starts v t) s e = spec_lines t s e.
Proof.
  intros Hc Hs He Hx. unfold to_line_range, spec_lines.
  rewrite !(fst_locate v t) by (assumption || lia). rewrite !fst_lsp_pos_walk in *.
  destruct (Nat.ltb_spec s e) as [Hlt|Hge].
  - pose proof (count_lf_mono t s (e - 1) ltac:(lia)) as M1.
    pose proof (count_lf_mono t (e - 1) e ltac:(lia)) as M2.
    destruct Hx as [Hx|Hx].
    + pose proof (count_lf_step t (e - 1) LF Hx) as St.
      replace (S (e - 1)) with e in St by lia. change (if is_lf LF then 1 else 0) with 1 in St.
      destruct (Nat.eqb_spec (count_lf (stake s t)) (count_lf (stake e t))); [lia|].
      f_equal. lia.
    + rewrite Hx, Nat.eqb_refl. f_equal. f_equal. lia.
  - assert (s = e) by lia. subst e. now rewrite Nat.eqb_refl.
Qed.

(* an offset at which the repaired `to_position` is exact (inline_position_utf16) *)
Definition boundary_ok (t : string) (x : nat) : Prop :=
  is_char_boundary t x = true /\
  is_char_boundary t (x - String.length (after_last_lf (stake x t))) = true.
(* an event whose byte range lies in the text, on character boundaries, and ends behind a line
   feed or on the line it starts on *)
Definition ev_exact (t : string) (e : ev) : Prop :=
  match ev_range e with
  | Some (s, e') =>
      s <= e' /\ e' <= String.length t /\ boundary_ok t s /\ boundary_ok t e' /\
      (nth_byte t (e' - 1) = Some LF \/ fst (lsp_pos_walk t s) = fst (lsp_pos_walk t e'))
  | None => True
  end.

Lemma ev_exact_agree v t e :
  v_utf16 v = true -> (v_crlf v = true \/ no_cr t = true) ->
  ev_exact t e -> modes_agree (code_mode v t) (spec_mode t) e.
Proof.
  intros Hu Hc H. unfold modes_agree, ev_exact in *. destruct (ev_range e) as [[s e']|]; [|exact I].
  destruct H as (Hs & He & [B1 B2] & [B3 B4] & Hx). cbn [code_mode spec_mode m_lines m_inline]. split.
  - now apply line_range_exact.
  - unfold to_inline_range, spec_span.
    rewrite (inline_position_utf16 v t s Hu Hc ltac:(lia) B1 B2),
            (inline_position_utf16 v t e' Hu Hc He B3 B4), !lsp_pos_walk_spec. reflexivity.
Qed.

(* The reader of the current tree (every flag of [repaired] that matters here: v_crlf or no CR,
   v_utf16, v_tight) builds exactly the specification's document — every block with the lines
   its source spans, every inline with its LSP span — on every event stream whose ranges lie in
   the text on character boundaries and end behind a line feed or on their first line.  What
   is excluded is exactly the open finding F-C13-last-line (C13_last_line_refuted). *)
Theorem C13_reader_spec_exact v t evs :
  v_tight v = true -> v_utf16 v = true -> (v_crlf v = true \/ no_cr t = true) ->
  Forall (ev_exact t) evs ->
  read_events (code_mode v t) evs = read_events (spec_mode t) evs.
Proof.
  intros Ht Hu Hc H. apply C13_reader_spec; [exact Ht|].
  eapply Forall_impl; [|exact H]. intros e. now apply ev_exact_agree.
Qed.

(* non-vacuous: every event of the tight-item witness is of that kind *)
Example ev_exact_tight : Forall (ev_exact w_tight_text) w_tight_events.
Proof.
  repeat (apply Forall_cons;
    [unfold ev_exact, boundary_ok; cbn [ev_range]; try exact I;
     repeat split; try (vm_compute; reflexivity); try (vm_compute; lia);
     first [left; vm_compute; reflexivity | right; vm_compute; reflexivity]|]).
  apply Forall_nil.
Qed.
