(* Props/C02Reparse.v - property C02 (text level): the re-parse specification rr (Reparse.v, validated per run by correspondence stage 8) composed with the specified builder, the title refresh and the projector: one more pass computed block by block for every tree; block-level fixpoint on settled notes, byte-level fixpoint whenever every line is written the same again (in particular when note links carry no .md and the current title); a witness for the heading-depth clause of reparse_safe; what a list written tight cannot hold (the former tight-item clauses) and the repaired F-TIGHTTAIL witnesses
   Only statements, each closed by an `exact`, pinned by a `Check`, followed by `Print Assumptions`. *)
From Coq Require Import ZArith Permutation List.
From IweV Require Import Str Text Ast RelPath Arena Project SectionsSpec Check_Norm NormFacts SectionsFacts HistoryText Reparse ReparseFacts ReparseText ReparseCalm.
Local Open Scope string_scope.
Local Open Scope list_scope.

Theorem C02_second_pass :
  forall (ctx : titles) (o : opts) (key : string) (t : tree) (k : nat),
         reparse_safe o (project (key_parent key) t) = true ->
         project (key_parent key)
           (tmap (norm_node ctx) (spec_tree key (rr_at o k (project (key_parent key) t)))) =
         map (gagain ctx (key_parent key) o) (project (key_parent key) t).
Proof. exact ReparseFacts.second_pass_tree. Qed.
Check C02_second_pass :
  forall (ctx : titles) (o : opts) (key : string) (t : tree) (k : nat),
         reparse_safe o (project (key_parent key) t) = true ->
         project (key_parent key)
           (tmap (norm_node ctx) (spec_tree key (rr_at o k (project (key_parent key) t)))) =
         map (gagain ctx (key_parent key) o) (project (key_parent key) t).
Print Assumptions C02_second_pass.

Theorem C02_second_pass_blocks :
  forall (ctx : titles) (dir : string) (o : opts) (key : string) (g : list gblock) (k : nat),
         dir = key_parent key ->
         forallb gstruct g = true ->
         gwn_all g = true ->
         project dir (tmap (norm_node ctx) (spec_tree key (rr_at o k g))) = map (gagain ctx dir o) g.
Proof. exact ReparseFacts.second_pass. Qed.
Check C02_second_pass_blocks :
  forall (ctx : titles) (dir : string) (o : opts) (key : string) (g : list gblock) (k : nat),
         dir = key_parent key ->
         forallb gstruct g = true ->
         gwn_all g = true ->
         project dir (tmap (norm_node ctx) (spec_tree key (rr_at o k g))) = map (gagain ctx dir o) g.
Print Assumptions C02_second_pass_blocks.

Theorem C02_fixpoint_blocks :
  forall (ctx : titles) (o : opts) (key : string) (t : tree),
         reparse_safe o (project (key_parent key) t) = true ->
         settled ctx (key_parent key) o (project (key_parent key) t) = true ->
         project (key_parent key)
           (tmap (norm_node ctx) (spec_tree key (rr o (project (key_parent key) t)))) =
         project (key_parent key) t.
Proof. exact ReparseFacts.fixpoint_blocks. Qed.
Check C02_fixpoint_blocks :
  forall (ctx : titles) (o : opts) (key : string) (t : tree),
         reparse_safe o (project (key_parent key) t) = true ->
         settled ctx (key_parent key) o (project (key_parent key) t) = true ->
         project (key_parent key)
           (tmap (norm_node ctx) (spec_tree key (rr o (project (key_parent key) t)))) =
         project (key_parent key) t.
Print Assumptions C02_fixpoint_blocks.

Theorem C02_fixpoint_text :
  forall (ctx : titles) (o : opts) (key : string) (t : tree) (tables : list string),
         reparse_safe o (project (key_parent key) t) = true ->
         settled ctx (key_parent key) o (project (key_parent key) t) = true ->
         tree_to_markdown o tables (key_parent key)
           (tmap (norm_node ctx) (spec_tree key (rr o (project (key_parent key) t)))) =
         tree_to_markdown o tables (key_parent key) t.
Proof. exact ReparseFacts.fixpoint_text. Qed.
Check C02_fixpoint_text :
  forall (ctx : titles) (o : opts) (key : string) (t : tree) (tables : list string),
         reparse_safe o (project (key_parent key) t) = true ->
         settled ctx (key_parent key) o (project (key_parent key) t) = true ->
         tree_to_markdown o tables (key_parent key)
           (tmap (norm_node ctx) (spec_tree key (rr o (project (key_parent key) t)))) =
         tree_to_markdown o tables (key_parent key) t.
Print Assumptions C02_fixpoint_text.

Theorem C02_fixpoint_text_md :
  forall (ctx : titles) (o : opts) (key : string) (t : tree) (tables : list string),
         reparse_safe o (project (key_parent key) t) = true ->
         forallb (md_settled ctx (key_parent key) o) (project (key_parent key) t) = true ->
         tree_to_markdown o tables (key_parent key)
           (tmap (norm_node ctx) (spec_tree key (rr o (project (key_parent key) t)))) =
         tree_to_markdown o tables (key_parent key) t.
Proof. exact ReparseText.fixpoint_text_md. Qed.
Check C02_fixpoint_text_md :
  forall (ctx : titles) (o : opts) (key : string) (t : tree) (tables : list string),
         reparse_safe o (project (key_parent key) t) = true ->
         forallb (md_settled ctx (key_parent key) o) (project (key_parent key) t) = true ->
         tree_to_markdown o tables (key_parent key)
           (tmap (norm_node ctx) (spec_tree key (rr o (project (key_parent key) t)))) =
         tree_to_markdown o tables (key_parent key) t.
Print Assumptions C02_fixpoint_text_md.

Theorem C02_fixpoint_document_md :
  forall (ctx : titles) (o : opts) (key : string) (t : tree) (tables : list string)
           (meta : option string),
         reparse_safe o (project (key_parent key) t) = true ->
         forallb (md_settled ctx (key_parent key) o) (project (key_parent key) t) = true ->
         let
         '(meta', bs') := rr_doc o meta (project (key_parent key) t) in
          wrap_metadata meta'
            (tree_to_markdown o tables (key_parent key) (tmap (norm_node ctx) (spec_tree key bs'))) =
          wrap_metadata meta (tree_to_markdown o tables (key_parent key) t).
Proof. exact ReparseText.fixpoint_document_md. Qed.
Check C02_fixpoint_document_md :
  forall (ctx : titles) (o : opts) (key : string) (t : tree) (tables : list string)
           (meta : option string),
         reparse_safe o (project (key_parent key) t) = true ->
         forallb (md_settled ctx (key_parent key) o) (project (key_parent key) t) = true ->
         let
         '(meta', bs') := rr_doc o meta (project (key_parent key) t) in
          wrap_metadata meta'
            (tree_to_markdown o tables (key_parent key) (tmap (norm_node ctx) (spec_tree key bs'))) =
          wrap_metadata meta (tree_to_markdown o tables (key_parent key) t).
Print Assumptions C02_fixpoint_document_md.

Theorem C02_fixpoint_text_calm :
  forall (ctx : titles) (o : opts) (key : string) (t : tree) (tables : list string),
         reparse_safe o (project (key_parent key) t) = true ->
         forallb (gcalm ctx (key_parent key) o) (project (key_parent key) t) = true ->
         tree_to_markdown o tables (key_parent key)
           (tmap (norm_node ctx) (spec_tree key (rr o (project (key_parent key) t)))) =
         tree_to_markdown o tables (key_parent key) t.
Proof. exact ReparseCalm.fixpoint_text_calm. Qed.
Check C02_fixpoint_text_calm :
  forall (ctx : titles) (o : opts) (key : string) (t : tree) (tables : list string),
         reparse_safe o (project (key_parent key) t) = true ->
         forallb (gcalm ctx (key_parent key) o) (project (key_parent key) t) = true ->
         tree_to_markdown o tables (key_parent key)
           (tmap (norm_node ctx) (spec_tree key (rr o (project (key_parent key) t)))) =
         tree_to_markdown o tables (key_parent key) t.
Print Assumptions C02_fixpoint_text_calm.

Theorem C02_calm_line :
  forall (ctx : titles) (dir : string) (o : opts) (l : list inline),
         forallb (calm ctx dir o) l = true -> line_md_stable ctx dir o l = true.
Proof. exact ReparseCalm.calm_line. Qed.
Check C02_calm_line :
  forall (ctx : titles) (dir : string) (o : opts) (l : list inline),
         forallb (calm ctx dir o) l = true -> line_md_stable ctx dir o l = true.
Print Assumptions C02_calm_line.

Theorem C02_settled_fixed :
  forall (ctx : titles) (dir : string) (o : opts) (g : list gblock),
         settled ctx dir o g = true -> map (gagain ctx dir o) g = g.
Proof. exact ReparseFacts.settled_fixed. Qed.
Check C02_settled_fixed :
  forall (ctx : titles) (dir : string) (o : opts) (g : list gblock),
         settled ctx dir o g = true -> map (gagain ctx dir o) g = g.
Print Assumptions C02_settled_fixed.

Theorem C02_reparse_depth7_refuted :
  fst (blocks_md ex_opts LFS [] depth7_written) = "####### x" +++ LFS /\
         reparse_safe ex_opts depth7_written = false /\
         reparse_safe ex_opts [GHeader 6 [Str "x"]] = true /\
         rr ex_opts depth7_written <> depth7_observed.
Proof. exact ReparseFacts.reparse_depth7_refuted. Qed.
Check C02_reparse_depth7_refuted :
  fst (blocks_md ex_opts LFS [] depth7_written) = "####### x" +++ LFS /\
         reparse_safe ex_opts depth7_written = false /\
         reparse_safe ex_opts [GHeader 6 [Str "x"]] = true /\
         rr ex_opts depth7_written <> depth7_observed.
Print Assumptions C02_reparse_depth7_refuted.

(* since the repair of F-TIGHTTAIL (GraphBlock::is_sparce_list, Project.is_sparse): in a list written tight no item holds a rule or a table right under text nor two quotes in a row - the two clauses reparse_safe used to carry for tight items are theorems about the writer *)
Theorem C02_tight_list_calm :
  forall (its : list (list gblock)) (it : list gblock),
         is_sparse its = false ->
         In it its ->
         in_a_row has_text is_grule_or_table it = false /\
         in_a_row is_gquote is_gquote it = false /\ length (filter is_paragraph it) <= 1.
Proof. exact ReparseFacts.tight_list_calm. Qed.
Check C02_tight_list_calm :
  forall (its : list (list gblock)) (it : list gblock),
         is_sparse its = false ->
         In it its ->
         in_a_row has_text is_grule_or_table it = false /\
         in_a_row is_gquote is_gquote it = false /\ length (filter is_paragraph it) <= 1.
Print Assumptions C02_tight_list_calm.

(* the witness of F-TIGHTTAIL (as found written tight, the rule a setext underline to pulldown, outside reparse_safe): written sparse, in the class, re-read as written, a fixpoint *)
Theorem C02_reparse_tight_rule_repaired :
  fst (blocks_md ex_opts LFS [] tightrule_written) =
         "- a" +++ LFS +++ LFS +++ "  " +++ srepeat "-" 72 +++ LFS /\
         reparse_safe ex_opts tightrule_written = true /\
         rr ex_opts tightrule_written = tightrule_observed /\
         project "" (tmap (norm_node ex_ctx) (spec_tree "a" (rr ex_opts tightrule_written))) =
         tightrule_written.
Proof. exact ReparseFacts.reparse_tight_rule_repaired. Qed.
Check C02_reparse_tight_rule_repaired :
  fst (blocks_md ex_opts LFS [] tightrule_written) =
         "- a" +++ LFS +++ LFS +++ "  " +++ srepeat "-" 72 +++ LFS /\
         reparse_safe ex_opts tightrule_written = true /\
         rr ex_opts tightrule_written = tightrule_observed /\
         project "" (tmap (norm_node ex_ctx) (spec_tree "a" (rr ex_opts tightrule_written))) =
         tightrule_written.
Print Assumptions C02_reparse_tight_rule_repaired.

(* two quotes in a row in an item are written with a blank line between them and re-read as two quotes *)
Theorem C02_reparse_tight_quotes_repaired :
  fst (blocks_md ex_opts LFS [] tightquotes_written) =
         "- a" +++ LFS +++ LFS +++ "  > b" +++ LFS +++ LFS +++ "  > c" +++ LFS /\
         reparse_safe ex_opts tightquotes_written = true /\
         rr ex_opts tightquotes_written =
         [DBList
            [[DPara (0, 1) [Str "a"]; DQuote (2, 3) [DPara (2, 3) [Str "b"]];
              DQuote (4, 5) [DPara (4, 5) [Str "c"]]]]].
Proof. exact ReparseFacts.reparse_tight_quotes_repaired. Qed.
Check C02_reparse_tight_quotes_repaired :
  fst (blocks_md ex_opts LFS [] tightquotes_written) =
         "- a" +++ LFS +++ LFS +++ "  > b" +++ LFS +++ LFS +++ "  > c" +++ LFS /\
         reparse_safe ex_opts tightquotes_written = true /\
         rr ex_opts tightquotes_written =
         [DBList
            [[DPara (0, 1) [Str "a"]; DQuote (2, 3) [DPara (2, 3) [Str "b"]];
              DQuote (4, 5) [DPara (4, 5) [Str "c"]]]]].
Print Assumptions C02_reparse_tight_quotes_repaired.

(* the hypotheses are satisfiable by a note with nested lists, a quote, code blocks, a rule, an inline
   note link and block references (ReparseFacts.ex_blocks; its text is ReparseFacts.ex_written_text) *)
Example C02_fixpoint_nonvacuous :
  reparse_safe ex_opts ex_written = true /\ settled ex_ctx (key_parent ex_key) ex_opts ex_written = true /\
  project (key_parent ex_key) (tmap (norm_node ex_ctx) (spec_tree ex_key (rr ex_opts ex_written))) = ex_written.
Proof. split; [apply ex_in_class | split; [apply ex_in_class | exact ex_fixpoint]]. Qed.
(* ... and the byte-level hypotheses also by blocks that are NOT settled (text in pieces, a link title) *)
Example C02_fixpoint_md_nonvacuous :
  forallb (md_settled ex_ctx (key_parent ex_key) ex_opts) ex_written = true /\
  forallb (md_settled ex_ctx "" ex_opts) [GPara [Str "a"; Str " "; Str "b"]; GPara [Link "http://x" "t" Regular [Str "y"]]] = true /\
  settled ex_ctx "" ex_opts [GPara [Str "a"; Str " "; Str "b"]; GPara [Link "http://x" "t" Regular [Str "y"]]] = false.
Proof. exact ex_md_settled. Qed.
Example C02_fixpoint_calm_nonvacuous :
  forallb (gcalm ex_ctx (key_parent ex_key) ex_opts) ex_written = true /\
  forallb (gcalm ex_ctx "" ex_opts) [GPara [Str "a"; Str " "; Str "b"]; GPara [Link "http://x" "t" Regular [Str "y"]]] = true /\
  gcalm ex_ctx "" (Opts "") (GPara [Str "see "; Link "a.md" "" Regular [Str "x"]]) = true /\
  gcalm ex_ctx "" (Opts ".txt") (GPara [Str "see "; Link "a" "" Regular [Str "x"]]) = false.
Proof. exact ex_calm. Qed.
(* ... and by a note whose list items have no text: a quote, a rule, a code block, a list with more blocks
   after it, each written right after the item marker (ReparseFacts.ex2_written_text) *)
Example C02_fixpoint_headless_nonvacuous :
  reparse_safe ex_opts ex2_written = true /\ settled ex_ctx (key_parent ex_key) ex_opts ex2_written = true /\
  rr ex_opts ex2_written = ex2_blocks /\
  project (key_parent ex_key) (tmap (norm_node ex_ctx) (spec_tree ex_key (rr ex_opts ex2_written))) = ex2_written.
Proof. split; [apply ex2_in_class | split; [apply ex2_in_class | split; [exact ex2_rr | exact ex2_fixpoint]]]. Qed.

(* the clause of [calm] about note links holds of every url the projector writes (inline links are kept by key and
   written relative to the note since the repair of F-INLINEDIR): written with `.md` or no extension it is read
   back, from the note's directory, as the same key, which is written as the same url again *)
Theorem C02_key_kept_written :
  forall (dir u ext : string),
    ext = MD \/ ext = "" ->
    let K := from_rel_link_url u dir in
    let url := to_rel_link_url K dir in
    is_ref_url (ref_url url ext) = true -> is_ref_url K = true ->
    key_kept dir (ref_url url ext) url = true.
Proof. exact ReparseCalm.key_kept_written. Qed.
Check C02_key_kept_written :
  forall (dir u ext : string),
    ext = MD \/ ext = "" ->
    let K := from_rel_link_url u dir in
    let url := to_rel_link_url K dir in
    is_ref_url (ref_url url ext) = true -> is_ref_url K = true ->
    key_kept dir (ref_url url ext) url = true.
Print Assumptions C02_key_kept_written.
