(* Props/C20Reached.v - property C20: the invariant at every reachable state of the indexed library (Reachable.v)
   Only statements, each closed by an `exact`, pinned by a `Check`, followed by `Print Assumptions`. *)
From Coq Require Import ZArith Permutation List.
From IweV Require Import Str Text Ast RelPath Arena ArenaWF ArenaFacts BuilderFacts Project Library LibraryFacts Index IndexFacts IndexHistory Paths PathsFacts PathsComplete Squash SquashFacts Check_Norm ForestFacts BuilderWF HistoryWF HistoryClosed Reachable.
Local Open Scope string_scope.
Local Open Scope list_scope.

Theorem C20_reached :
  forall (notes : list (string * option string * list dblock)) (ops : list op) (s : gstate),
         distinct_keys notes ->
         reached notes ops s ->
         wf_b (arena_of s) (gr_keys (gs_graph s)) = true /\ tombs_cleanb (arena_of s) = true.
Proof. exact Reachable.reached_C20. Qed.
Check C20_reached :
  forall (notes : list (string * option string * list dblock)) (ops : list op) (s : gstate),
         distinct_keys notes ->
         reached notes ops s ->
         wf_b (arena_of s) (gr_keys (gs_graph s)) = true /\ tombs_cleanb (arena_of s) = true.
Print Assumptions C20_reached.

Theorem C20_reached_Inv :
  forall (notes : list (string * option string * list dblock)) (ops : list op) (s : gstate),
         distinct_keys notes -> reached notes ops s -> Inv s.
Proof. exact Reachable.reached_Inv. Qed.
Check C20_reached_Inv :
  forall (notes : list (string * option string * list dblock)) (ops : list op) (s : gstate),
         distinct_keys notes -> reached notes ops s -> Inv s.
Print Assumptions C20_reached_Inv.

Theorem C20_update_key_step :
  forall (g : graph) (key : string) (meta : option string) (bs : list dblock),
         graph_inv g ->
         tombs_clean (gr_arena g) ->
         exists g' : graph,
           update_key g key meta bs = Ok g' /\
           graph_inv g' /\
           tombs_clean (gr_arena g') /\
           alookup key (gr_keys g') = Some (Datatypes.length (gr_arena g)) /\
           Datatypes.length (gr_arena g) < Datatypes.length (gr_arena g') /\
           (forall x : nat,
            Datatypes.length (gr_arena g) <= x < Datatypes.length (gr_arena g') ->
            below (gr_arena g') (Datatypes.length (gr_arena g)) x).
Proof. exact Reachable.update_key_step. Qed.
Check C20_update_key_step :
  forall (g : graph) (key : string) (meta : option string) (bs : list dblock),
         graph_inv g ->
         tombs_clean (gr_arena g) ->
         exists g' : graph,
           update_key g key meta bs = Ok g' /\
           graph_inv g' /\
           tombs_clean (gr_arena g') /\
           alookup key (gr_keys g') = Some (Datatypes.length (gr_arena g)) /\
           Datatypes.length (gr_arena g) < Datatypes.length (gr_arena g') /\
           (forall x : nat,
            Datatypes.length (gr_arena g) <= x < Datatypes.length (gr_arena g') ->
            below (gr_arena g') (Datatypes.length (gr_arena g)) x).
Print Assumptions C20_update_key_step.

