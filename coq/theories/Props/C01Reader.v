(* Props/C01Reader.v - property C01, reader half (also C13): the reader keeps everything the parser reports - on every document-shaped stream (inG_doc) the blocks of Pos.read_events say exactly what the stream said (ReaderKeeps.v: atom, said_ev, said_blocks); the as-found list arm loses the text of a tight item's tail; streams outside the document grammar on which the machine drops
   Only statements, each closed by an `exact`, pinned by a `Check`, followed by `Print Assumptions`. *)
From Coq Require Import ZArith Permutation List.
From IweV Require Import Str Text Ast Arena Pos PosFacts ReaderTotal ReaderKeeps.
Local Open Scope string_scope.
Local Open Scope list_scope.

Theorem C01_reader_keeps :
  forall (M : mode) (evs : list ev) (bs : list pblock),
         inG_doc evs = true -> read_events M evs = Ok bs -> said_blocks bs = said_ev M evs.
Proof. exact ReaderKeeps.C01_reader_keeps. Qed.
Check C01_reader_keeps :
  forall (M : mode) (evs : list ev) (bs : list pblock),
         inG_doc evs = true -> read_events M evs = Ok bs -> said_blocks bs = said_ev M evs.
Print Assumptions C01_reader_keeps.

Theorem C01_reader_keeps_total :
  forall (M : mode) (evs : list ev),
         inG_doc evs = true ->
         exists bs : list pblock, read_events M evs = Ok bs /\ said_blocks bs = said_ev M evs.
Proof. exact ReaderKeeps.C01_reader_keeps_total. Qed.
Check C01_reader_keeps_total :
  forall (M : mode) (evs : list ev),
         inG_doc evs = true ->
         exists bs : list pblock, read_events M evs = Ok bs /\ said_blocks bs = said_ev M evs.
Print Assumptions C01_reader_keeps_total.

Theorem C01_reader_keeps_prefix :
  forall (M : mode) (evs : list ev) (k : list nt),
         d_run [] evs = Some k ->
         exists st : rst, run_events M rst0 evs = Ok st /\ said_st st = said_ev M evs.
Proof. exact ReaderKeeps.C01_reader_keeps_prefix. Qed.
Check C01_reader_keeps_prefix :
  forall (M : mode) (evs : list ev) (k : list nt),
         d_run [] evs = Some k ->
         exists st : rst, run_events M rst0 evs = Ok st /\ said_st st = said_ev M evs.
Print Assumptions C01_reader_keeps_prefix.

Theorem C01_reader_keeps_head :
  forall (M : mode) (evs : list ev),
         reader_doc_ok evs = true ->
         exists (h : bool) (st : rst),
           run_h M (false, rst0) evs = Ok (h, st) /\
           said_blocks (r_out st) = said_ev M (strip_html false evs).
Proof. exact ReaderKeeps.C01_reader_keeps_head. Qed.
Check C01_reader_keeps_head :
  forall (M : mode) (evs : list ev),
         reader_doc_ok evs = true ->
         exists (h : bool) (st : rst),
           run_h M (false, rst0) evs = Ok (h, st) /\
           said_blocks (r_out st) = said_ev M (strip_html false evs).
Print Assumptions C01_reader_keeps_head.

Theorem C01_reader_keeps_as_found_refuted :
  exists (M : mode) (evs : list ev) (bs : list pblock),
           inG_doc evs = true /\
           read_events_af M evs = Ok bs /\
           said_blocks bs <> said_ev M evs /\
           Datatypes.length (said_blocks bs) < Datatypes.length (said_ev M evs).
Proof. exact ReaderKeeps.C01_reader_keeps_as_found_refuted. Qed.
Check C01_reader_keeps_as_found_refuted :
  exists (M : mode) (evs : list ev) (bs : list pblock),
           inG_doc evs = true /\
           read_events_af M evs = Ok bs /\
           said_blocks bs <> said_ev M evs /\
           Datatypes.length (said_blocks bs) < Datatypes.length (said_ev M evs).
Print Assumptions C01_reader_keeps_as_found_refuted.

Theorem C01_reader_account_faithful :
  forall l l' : list pinl, said_inls l = said_inls l' -> l = l'.
Proof. exact ReaderKeeps.said_inls_inj. Qed.
Check C01_reader_account_faithful :
  forall l l' : list pinl, said_inls l = said_inls l' -> l = l'.
Print Assumptions C01_reader_account_faithful.

Theorem C01_reader_outside_doc_refuted_quote_rule :
  loses [EStart TQuote 0 9; ERule 2 5; EText 1 7 8; EEnd TQuote].
Proof. exact ReaderKeeps.keeps_outside_doc_refuted_quote_rule. Qed.
Check C01_reader_outside_doc_refuted_quote_rule :
  loses [EStart TQuote 0 9; ERule 2 5; EText 1 7 8; EEnd TQuote].
Print Assumptions C01_reader_outside_doc_refuted_quote_rule.

Theorem C01_reader_outside_doc_refuted_table :
  loses [EStart TTable 0 9; EText 1 1 2; EEnd TTable].
Proof. exact ReaderKeeps.keeps_outside_doc_refuted_table. Qed.
Check C01_reader_outside_doc_refuted_table :
  loses [EStart TTable 0 9; EText 1 1 2; EEnd TTable].
Print Assumptions C01_reader_outside_doc_refuted_table.

Theorem C01_reader_keeps_nonvacuous :
  exists bs : list pblock,
           read_events (raw_mode true) ex_doc = Ok bs /\
           said_blocks bs = said_ev (raw_mode true) ex_doc /\
           Datatypes.length (said_ev (raw_mode true) ex_doc) = 35 /\
           In (AOpen (KLink Regular "k") (0, 24, (0, 30))) (said_ev (raw_mode true) ex_doc) /\
           In (ALeaf (0, 37, (0, 40)) 1) (said_ev (raw_mode true) ex_doc).
Proof. exact ReaderKeeps.keeps_ex_doc. Qed.
Check C01_reader_keeps_nonvacuous :
  exists bs : list pblock,
           read_events (raw_mode true) ex_doc = Ok bs /\
           said_blocks bs = said_ev (raw_mode true) ex_doc /\
           Datatypes.length (said_ev (raw_mode true) ex_doc) = 35 /\
           In (AOpen (KLink Regular "k") (0, 24, (0, 30))) (said_ev (raw_mode true) ex_doc) /\
           In (ALeaf (0, 37, (0, 40)) 1) (said_ev (raw_mode true) ex_doc).
Print Assumptions C01_reader_keeps_nonvacuous.

