(* Props/C07.v — the outline survives formatting and comes out well-nested. *)
From IweV Require Import Check_Norm NormFacts.
Local Open Scope string_scope.
Local Open Scope list_scope.

(* Whatever tree the projector is given — any node kinds, any nesting, any size — the blocks
   it writes have well-nested heading levels (first level 1, never a skipped level) at top
   level and, restarting at 1, inside every block quote and every list item. *)
Theorem C07_well_nested :
  forall (parent : string) (t : tree), gwn_all (project parent t) = true.
Proof. exact project_well_nested. Qed.
Check C07_well_nested : forall (parent : string) (t : tree), gwn_all (project parent t) = true.
Print Assumptions C07_well_nested.

(* non-vacuity: a tree with a section three levels deep inside a list item inside a quote *)
Example C07_well_nested_example :
  glevels (project "" (T None (NDocument "k") [T None (NSection [Str "a"]) [T None (NSection [Str "b"]) []];
                                                T None (NSection [Str "c"]) []])) = [1; 2; 1].
Proof. reflexivity. Qed.
