(* Props/C07.v — the outline survives formatting and comes out well-nested. *)
From IweV Require Import Check_Norm NormFacts SectionsSpec SectionsFacts.
Local Open Scope string_scope.
Local Open Scope list_scope.

(* Whatever tree the projector is given — any node kinds, any nesting, any size — the blocks
   it writes have well-nested heading levels (first level 1, never a skipped level) at top
   level and, restarting at 1, inside every block quote and every list item. *)
Theorem C07_well_nested :
  forall (parent : string) (t : tree), gwn_all (project parent t) = true.
Proof. exact project_well_nested. Qed.
Check C07_well_nested : forall (parent : string) (t : tree), gwn_all (project parent t) = true.
Print Assumptions C07_well_nested.

(* non-vacuity: a tree with a section three levels deep inside a list item inside a quote *)
Example C07_well_nested_example :
  glevels (project "" (T None (NDocument "k") [T None (NSection [Str "a"]) [T None (NSection [Str "b"]) []];
                                                T None (NSection [Str "c"]) []])) = [1; 2; 1].
Proof. reflexivity. Qed.


(* Identity on well-nested outlines.  [spec_tree key bs] is the tree the blocks of a note
   determine (SectionsSpec.v: the specification the transliterated builder and, through it, the
   implementation are compared with on every run).  For every list of blocks, of any length and
   nesting, whose top-level heading levels are well nested (first 1, never a skipped level), the
   heading levels written for the note are exactly those levels. *)
Theorem C07_identity :
  forall (key : string) (bs : list dblock),
    well_nested (hlv bs) = true ->
    glevels (project (key_parent key) (spec_tree key bs)) = hlv bs.
Proof. exact note_identity. Qed.
Check C07_identity :
  forall (key : string) (bs : list dblock),
    well_nested (hlv bs) = true ->
    glevels (project (key_parent key) (spec_tree key bs)) = hlv bs.
Print Assumptions C07_identity.

(* The same in every nesting context (the body of a quote, the body of a list item), which the
   sectioning treats like a note of its own with levels restarting at 1. *)
Theorem C07_identity_context :
  forall (dir : string) (bs : list dblock),
    well_nested (hlv bs) = true ->
    glevels (flat_map (project_node dir 0) (blocks_tree dir (fuel_for bs) bs)) = hlv bs.
Proof. exact context_identity. Qed.
Check C07_identity_context :
  forall (dir : string) (bs : list dblock),
    well_nested (hlv bs) = true ->
    glevels (flat_map (project_node dir 0) (blocks_tree dir (fuel_for bs) bs)) = hlv bs.
Print Assumptions C07_identity_context.

Example C07_identity_example :
  let bs := [DPara (0,1) [Str "p"]; DHeader (2,3) 1 [Str "a"]; DHeader (4,5) 2 [Str "b"];
             DBList [[DPara (6,7) [Str "i"]; DHeader (8,9) 3 [Str "inner"]]]; DHeader (10,11) 2 [Str "c"];
             DHeader (12,13) 1 [Str "d"]] in
  well_nested (hlv bs) = true /\ hlv bs = [1; 2; 2; 1] /\
  glevels (project "" (spec_tree "k" bs)) = [1; 2; 2; 1].
Proof. cbn zeta. repeat split; reflexivity. Qed.
