(* Props/C12Tie.v - property C12, the meaning of the tie stages of the per-run check (Check_C12.tie_stages: the model's handle / may_panic against what the real server did, request by request): the states the check evaluates the model at are states of the server invariant, the model's notifications panic exactly for a didChange without a content change, and stage 6 (handle panics exactly when the real handler panicked) implies stages 4 (may_panic is sound) and 5 (may_panic is exact on the exact classes)
   Only statements, each closed by an `exact`, pinned by a `Check`, followed by `Print Assumptions`. *)
From Coq Require Import ZArith Permutation List.
From IweV Require Import Str Text Ast RelPath Arena Project Library Index Paths TreeOps Actions ActionsTotal Reachable Server ServerFacts Harness Check_C12 C12Tie.
Local Open Scope string_scope.
Local Open Scope list_scope.

Theorem C12_tie_start_inv :
  forall c : case,
         distinct_namesb c = true -> exists sv0 : sstate, start_state c = Ok sv0 /\ SInv sv0.
Proof. exact C12Tie.tie_start_inv. Qed.
Check C12_tie_start_inv :
  forall c : case,
         distinct_namesb c = true -> exists sv0 : sstate, start_state c = Ok sv0 /\ SInv sv0.
Print Assumptions C12_tie_start_inv.

Theorem C12_tie_note_model :
  forall (sv : sstate) (n : note),
         SInv sv -> is_ok (did_change sv n) = match n with
                                              | NChangeNone => false
                                              | _ => true
                                              end.
Proof. exact C12Tie.tie_note_model. Qed.
Check C12_tie_note_model :
  forall (sv : sstate) (n : note),
         SInv sv -> is_ok (did_change sv n) = match n with
                                              | NChangeNone => false
                                              | _ => true
                                              end.
Print Assumptions C12_tie_note_model.

Theorem C12_tie_iff_implies :
  forall (cf : config) (sv : sstate) (o : robs),
         SInv sv ->
         t_iff (tie_req cf sv o) = true ->
         t_sound (tie_req cf sv o) = true /\ t_exact (tie_req cf sv o) = true.
Proof. exact C12Tie.tie_iff_implies. Qed.
Check C12_tie_iff_implies :
  forall (cf : config) (sv : sstate) (o : robs),
         SInv sv ->
         t_iff (tie_req cf sv o) = true ->
         t_sound (tie_req cf sv o) = true /\ t_exact (tie_req cf sv o) = true.
Print Assumptions C12_tie_iff_implies.

Theorem C12_tie_walk_iff_implies :
  forall (l : list item) (cf : config) (sv : sstate),
         SInv sv ->
         forallb t_iff (w_ties (walk cf sv l)) = true ->
         forallb t_sound (w_ties (walk cf sv l)) = true /\
         forallb t_exact (w_ties (walk cf sv l)) = true.
Proof. exact C12Tie.walk_iff_implies. Qed.
Check C12_tie_walk_iff_implies :
  forall (l : list item) (cf : config) (sv : sstate),
         SInv sv ->
         forallb t_iff (w_ties (walk cf sv l)) = true ->
         forallb t_sound (w_ties (walk cf sv l)) = true /\
         forallb t_exact (w_ties (walk cf sv l)) = true.
Print Assumptions C12_tie_walk_iff_implies.

Theorem C12_tie_6_implies_4_5 :
  forall (c : case) (sv0 : sstate),
         distinct_namesb c = true ->
         start_state c = Ok sv0 ->
         let w := walk (mk_cf (c_tables c)) sv0 (c_items c) in
         forallb t_iff (w_ties w) = true ->
         forallb t_sound (w_ties w) = true /\ forallb t_exact (w_ties w) = true.
Proof. exact C12Tie.C12_tie_6_implies_4_5. Qed.
Check C12_tie_6_implies_4_5 :
  forall (c : case) (sv0 : sstate),
         distinct_namesb c = true ->
         start_state c = Ok sv0 ->
         let w := walk (mk_cf (c_tables c)) sv0 (c_items c) in
         forallb t_iff (w_ties w) = true ->
         forallb t_sound (w_ties w) = true /\ forallb t_exact (w_ties w) = true.
Print Assumptions C12_tie_6_implies_4_5.
