(* Props/C05.v — property C05: backlinks are exact.  Only statements, each closed by an
   `exact`, pinned by a `Check`, and followed by `Print Assumptions`. *)
From IweV Require Import Str Text Ast RelPath RelPathFacts Arena Project Library Index IndexFacts.
Local Open Scope string_scope.
Local Open Scope list_scope.

(* The walk of index_node that /repo runs (since 7b992d5), started at any node of any
   well-formed arena (links forward and in range, only containers have children — decidable,
   evaluated on every observed arena), returns, and its index holds exactly: under key k the
   Reference nodes below the start node whose key is k; under key k the Section / Leaf nodes
   below it whose line contains a link with ref_key k.  "Below" is the closure of the child and
   next links: lists, quotes, sub-sections, after tables, code and rules alike. *)
Theorem C05_index_exact :
  forall a root, wf_arena a -> root < length a ->
    exists ri, index_from true a root = Ok ri /\
      (forall k x, In x (raw_block_refs ri k) <-> below a root x /\ is_ref a x k) /\
      (forall k x, In x (raw_inline_refs ri k) <-> below a root x /\ is_inl a x k).
Proof. exact index_from_exact. Qed.

Check C05_index_exact :
  forall a root, wf_arena a -> root < length a ->
    exists ri, index_from true a root = Ok ri /\
      (forall k x, In x (raw_block_refs ri k) <-> below a root x /\ is_ref a x k) /\
      (forall k x, In x (raw_inline_refs ri k) <-> below a root x /\ is_inl a x k).
Print Assumptions C05_index_exact.

(* the walk as found (before 7b992d5) is exact only when no table has a successor ... *)
Theorem C05_index_exact_as_found :
  forall a root, wf_arena a -> no_table_next a -> root < length a ->
    exists ri, index_from false a root = Ok ri /\ exact_below a root ri.
Proof. exact index_from_exact_as_found. Qed.

Check C05_index_exact_as_found :
  forall a root, wf_arena a -> no_table_next a -> root < length a ->
    exists ri, index_from false a root = Ok ri /\ exact_below a root ri.
Print Assumptions C05_index_exact_as_found.

(* ... and loses what follows a table otherwise: the reference behind the table is below the
   root, the as-found walk misses it, the repaired walk records it; end to end, re-submitting
   a note's unchanged text leaves its targets without backlinks *)
Theorem C05_table_refuted :
  (exists a root x, wf_arenab a = true /\ below a root x /\ is_ref a x "b" /\
    (exists ri, index_from false a root = Ok ri /\ raw_block_refs ri "b" = []) /\
    (exists ri, index_from true a root = Ok ri /\ raw_block_refs ri "b" = [x])) /\
  refs_after_resubmit false = Ok ([], []) /\ refs_after_resubmit true = Ok ([10], [11]).
Proof. exact (conj table_refuted_walk table_refuted). Qed.

Check C05_table_refuted :
  (exists a root x, wf_arenab a = true /\ below a root x /\ is_ref a x "b" /\
    (exists ri, index_from false a root = Ok ri /\ raw_block_refs ri "b" = []) /\
    (exists ri, index_from true a root = Ok ri /\ raw_block_refs ri "b" = [x])) /\
  refs_after_resubmit false = Ok ([], []) /\ refs_after_resubmit true = Ok ([10], [11]).
Print Assumptions C05_table_refuted.

(* Graph::import starts a walk at every slot: whatever the variant, the index then holds
   every Reference node of the arena under its key and every Section / Leaf node under the
   ref_keys of its line, and nothing else *)
Theorem C05_import_exact :
  forall tbl a, fwd a -> all_live a ->
    exists ri, index_all tbl a = Ok ri /\
      (forall k x, In x (raw_block_refs ri k) <-> is_ref a x k) /\
      (forall k x, In x (raw_inline_refs ri k) <-> is_inl a x k).
Proof. exact index_all_exact. Qed.

Check C05_import_exact :
  forall tbl a, fwd a -> all_live a ->
    exists ri, index_all tbl a = Ok ri /\
      (forall k x, In x (raw_block_refs ri k) <-> is_ref a x k) /\
      (forall k x, In x (raw_inline_refs ri k) <-> is_inl a x k).
Print Assumptions C05_import_exact.

(* termination: on a forward-linked arena the unguarded recursion of index_node returns *)
Theorem C05_walk_terminates :
  forall tbl a id, fwd a -> id < length a -> exists ri, index_from tbl a id = Ok ri.
Proof. exact index_from_terminates. Qed.

Check C05_walk_terminates :
  forall tbl a id, fwd a -> id < length a -> exists ri, index_from tbl a id = Ok ri.
Print Assumptions C05_walk_terminates.

(* an update merges the index of the new root's tree into the old index (nothing is ever
   removed), and the getters drop exactly the tombstones — the two facts a history needs *)
Theorem C05_update_merges :
  forall tbl g ri key root fresh,
    alookup key (gr_keys g) = Some root -> index_from tbl (gr_arena g) root = Ok fresh ->
    exists ri', index_after_update_v tbl g ri key = Ok ri' /\
      (forall k x, In x (raw_block_refs ri' k) <-> In x (raw_block_refs ri k) \/ In x (raw_block_refs fresh k)) /\
      (forall k x, In x (raw_inline_refs ri' k) <-> In x (raw_inline_refs ri k) \/ In x (raw_inline_refs fresh k)).
Proof. exact index_after_update_spec. Qed.

Check C05_update_merges :
  forall tbl g ri key root fresh,
    alookup key (gr_keys g) = Some root -> index_from tbl (gr_arena g) root = Ok fresh ->
    exists ri', index_after_update_v tbl g ri key = Ok ri' /\
      (forall k x, In x (raw_block_refs ri' k) <-> In x (raw_block_refs ri k) \/ In x (raw_block_refs fresh k)) /\
      (forall k x, In x (raw_inline_refs ri' k) <-> In x (raw_inline_refs ri k) \/ In x (raw_inline_refs fresh k)).
Print Assumptions C05_update_merges.

Theorem C05_getters_filter_tombstones :
  forall a ri k,
    (forall i, In i (raw_block_refs ri k) -> i < length a) ->
    exists l, get_block_references_to a ri k = Ok l /\
      forall x, In x l <-> In x (raw_block_refs ri k) /\ exists n, get a x = Some n /\ is_emptyk (g_kind n) = false.
Proof. exact get_block_references_to_spec. Qed.

Check C05_getters_filter_tombstones :
  forall a ri k,
    (forall i, In i (raw_block_refs ri k) -> i < length a) ->
    exists l, get_block_references_to a ri k = Ok l /\
      forall x, In x l <-> In x (raw_block_refs ri k) /\ exists n, get a x = Some n /\ is_emptyk (g_kind n) = false.
Print Assumptions C05_getters_filter_tombstones.

(* a url is not a note link exactly when it starts, ASCII-case-insensitively, with
   http:// , https:// or mailto: *)
Theorem C05_external :
  forall u, is_ref_url u = false <-> starts_ci "http://" u \/ starts_ci "https://" u \/ starts_ci "mailto:" u.
Proof. exact is_ref_url_external. Qed.

Check C05_external :
  forall u, is_ref_url u = false <-> starts_ci "http://" u \/ starts_ci "https://" u \/ starts_ci "mailto:" u.
Print Assumptions C05_external.

(* one `.md` suffix is ignored, for file names and for resolved block-reference keys: `x.md` names the
   note x whatever x is (also `x = y.md`: `y.md.md` is the note `y.md`), and so does `x` unless it ends in `.md` *)
Theorem C05_md_ignored :
  forall x d, key_from_file_name (x +++ MD) = x /\
              from_rel_link_url (x +++ MD) d = join_normalized d x /\
              (ends_with MD x = false -> key_from_file_name x = x /\ from_rel_link_url x d = join_normalized d x).
Proof. exact (fun x d => conj (key_md_ignored x) (conj (rel_link_md_ignored x d) (key_md_absent x d))). Qed.

Check C05_md_ignored :
  forall x d, key_from_file_name (x +++ MD) = x /\
              from_rel_link_url (x +++ MD) d = join_normalized d x /\
              (ends_with MD x = false -> key_from_file_name x = x /\ from_rel_link_url x d = join_normalized d x).
Print Assumptions C05_md_ignored.

(* a block reference is keyed by its url resolved against the directory of the linking
   note; together with C15: the reference iwe writes for K from directory D is indexed
   under K *)
Theorem C05_resolution :
  forall dir f lr url title lt ils st, is_ref_url url = true ->
    block dir (S f) (DPara lr [Link url title lt ils]) st =
    (do st' <- add_node st (KRef (from_rel_link_url url dir) (inlines_plain_text ils) lt); Ok (set_lines_range st' lr)).
Proof. exact block_reference_key. Qed.

Check C05_resolution :
  forall dir f lr url title lt ils st, is_ref_url url = true ->
    block dir (S f) (DPara lr [Link url title lt ils]) st =
    (do st' <- add_node st (KRef (from_rel_link_url url dir) (inlines_plain_text ils) lt); Ok (set_lines_range st' lr)).
Print Assumptions C05_resolution.

Theorem C05_resolution_roundtrip :
  forall (ks ds : list string) (ext : string),
    Forall good_name ks -> Forall good_name ds -> ext = MD \/ ext = "" ->
    from_rel_link_url (ref_url (to_rel_link_url (join SEPS ks) (join SEPS ds)) ext) (join SEPS ds) = join SEPS ks.
Proof. exact roundtrip_written. Qed.

Check C05_resolution_roundtrip :
  forall (ks ds : list string) (ext : string),
    Forall good_name ks -> Forall good_name ds -> ext = MD \/ ext = "" ->
    from_rel_link_url (ref_url (to_rel_link_url (join SEPS ks) (join SEPS ds)) ext) (join SEPS ds) = join SEPS ks.
Print Assumptions C05_resolution_roundtrip.

(* F9 / F-C05-inline-dir (repaired): an inline link is keyed like a block reference - the keys a line of a note
   in directory [dir] is indexed under are the urls of its links resolved against [dir] (formerly refuted:
   C05_inline_resolution_refuted, the url as typed) *)
Theorem C05_inline_resolution :
  forall dir l,
    ref_keys (to_ginlines dir l) =
    map (fun url => if is_ref_url url then from_rel_link_url url dir else url) (flat_map inline_link_urls l).
Proof. exact inline_keys_resolved. Qed.

Check C05_inline_resolution :
  forall dir l,
    ref_keys (to_ginlines dir l) =
    map (fun url => if is_ref_url url then from_rel_link_url url dir else url) (flat_map inline_link_urls l).
Print Assumptions C05_inline_resolution.

Theorem C05_inline_resolution_repaired :
  ref_keys (to_ginlines (key_parent "d/n") [Str "see "; Link "m" "" Regular [Str "x"]]) = ["d/m"] /\
  ref_keys (to_ginlines (key_parent "n") [Str "see "; Link "m" "" Regular [Str "x"]]) = ["m"] /\
  ref_keys (to_ginlines (key_parent "d/n") [Link "../m.md" "" Regular [Str "x"]; Emph [Link "./m" "" WikiLink []]]) = ["m"; "d/m"].
Proof. exact inline_resolution_repaired. Qed.

Check C05_inline_resolution_repaired :
  ref_keys (to_ginlines (key_parent "d/n") [Str "see "; Link "m" "" Regular [Str "x"]]) = ["d/m"] /\
  ref_keys (to_ginlines (key_parent "n") [Str "see "; Link "m" "" Regular [Str "x"]]) = ["m"] /\
  ref_keys (to_ginlines (key_parent "d/n") [Link "../m.md" "" Regular [Str "x"]; Emph [Link "./m" "" WikiLink []]]) = ["m"; "d/m"].
Print Assumptions C05_inline_resolution_repaired.

(* the hypotheses are satisfiable by a non-trivial arena: a note with a heading, a list whose
   item holds a block reference, and a table followed by a paragraph with a link *)
Example C05_nonvacuous :
  let a := [GN (KDocument "d/n") None None (Some 1);
            GN (KSection [Str "t"]) (Some 0) None (Some 2);
            GN KBList (Some 1) (Some 5) (Some 3);
            GN (KSection [Str "item"]) (Some 2) None (Some 4);
            GN (KRef "d/m" "m" Regular) (Some 3) None None;
            GN (KTable [] [] []) (Some 2) (Some 6) None;
            GN (KLeaf [Emph [Link "x" "" Regular []]]) (Some 5) None None] in
  wf_arena a /\ all_live a /\ below a 0 4 /\ below a 0 6 /\ is_ref a 4 "d/m" /\ is_inl a 6 "x".
Proof.
  cbv zeta. split; [apply wf_arenab_sound; reflexivity|]. split.
  - intros i n H. do 7 (destruct i as [|i]; [injection H as <-; reflexivity|]). destruct i; discriminate.
  - split; [|split; [|split]].
    + eapply b_child; [reflexivity..|]. eapply b_child; [reflexivity..|]. eapply b_child; [reflexivity..|].
      eapply b_child; [reflexivity..|]. constructor.
    + eapply b_child; [reflexivity..|]. eapply b_child; [reflexivity..|]. eapply b_next; [reflexivity..|].
      eapply b_next; [reflexivity..|]. constructor.
    + do 3 eexists. split; reflexivity.
    + do 2 eexists. split; [reflexivity|]. split; [right; reflexivity | now left].
Qed.
