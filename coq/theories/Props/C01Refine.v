(* Props/C01Refine.v - properties C01/C07: the cursor machine of SectionsBuilder/GraphBuilder refines the specification spec_tree (SectionsRefine.v); conservation and level identity for the built arena
   Only statements, each closed by an `exact`, pinned by a `Check`, followed by `Print Assumptions`. *)
From Coq Require Import ZArith Permutation List.
From IweV Require Import Str Ast RelPath Arena ArenaWF ArenaFacts Project SectionsSpec BuilderFacts Check_Norm NormFacts SectionsFacts SectionsRefine.
Local Open Scope string_scope.
Local Open Scope list_scope.

Theorem C01_sections_refines :
  forall (a : arena) (key : string) (bs : list dblock),
         exists (st : bst) (t : tree),
           build_document a key bs = Ok st /\
           collect_raw (b_arena st) (Datatypes.length a) = Ok (Some t) /\
           tree_eqb_noid t (spec_tree key bs) = true.
Proof. exact SectionsRefine.sections_refines. Qed.
Check C01_sections_refines :
  forall (a : arena) (key : string) (bs : list dblock),
         exists (st : bst) (t : tree),
           build_document a key bs = Ok st /\
           collect_raw (b_arena st) (Datatypes.length a) = Ok (Some t) /\
           tree_eqb_noid t (spec_tree key bs) = true.
Print Assumptions C01_sections_refines.

Theorem C01_sections_refines_label :
  forall (a : arena) (key : string) (bs : list dblock),
         exists st : bst,
           build_document a key bs = Ok st /\
           collect_raw (b_arena st) (Datatypes.length a) =
           Ok (Some (label (spec_tree key bs) (Datatypes.length a))) /\
           Datatypes.length (b_arena st) = Datatypes.length a + tsz (spec_tree key bs).
Proof. exact SectionsRefine.sections_refines_label. Qed.
Check C01_sections_refines_label :
  forall (a : arena) (key : string) (bs : list dblock),
         exists st : bst,
           build_document a key bs = Ok st /\
           collect_raw (b_arena st) (Datatypes.length a) =
           Ok (Some (label (spec_tree key bs) (Datatypes.length a))) /\
           Datatypes.length (b_arena st) = Datatypes.length a + tsz (spec_tree key bs).
Print Assumptions C01_sections_refines_label.

Theorem C01_sections_refines_ids :
  forall (a : arena) (key : string) (bs : list dblock),
         exists (st : bst) (t : tree),
           build_document a key bs = Ok st /\
           collect_raw (b_arena st) (Datatypes.length a) = Ok (Some t) /\
           pre_ids t = map Some (seq (Datatypes.length a) (tsz t)) /\
           Datatypes.length (b_arena st) = Datatypes.length a + tsz t.
Proof. exact SectionsRefine.sections_refines_ids. Qed.
Check C01_sections_refines_ids :
  forall (a : arena) (key : string) (bs : list dblock),
         exists (st : bst) (t : tree),
           build_document a key bs = Ok st /\
           collect_raw (b_arena st) (Datatypes.length a) = Ok (Some t) /\
           pre_ids t = map Some (seq (Datatypes.length a) (tsz t)) /\
           Datatypes.length (b_arena st) = Datatypes.length a + tsz t.
Print Assumptions C01_sections_refines_ids.

Theorem C01_built_conserves :
  forall (a : arena) (key : string) (bs : list dblock),
         exists (st : bst) (t : tree),
           build_document a key bs = Ok st /\
           collect_raw (b_arena st) (Datatypes.length a) = Ok (Some t) /\
           tcontent (key_parent key) t = bscontent (key_parent key) bs /\
           flat_map gcontent (project (key_parent key) t) = bscontent (key_parent key) bs.
Proof. exact SectionsRefine.built_conserves. Qed.
Check C01_built_conserves :
  forall (a : arena) (key : string) (bs : list dblock),
         exists (st : bst) (t : tree),
           build_document a key bs = Ok st /\
           collect_raw (b_arena st) (Datatypes.length a) = Ok (Some t) /\
           tcontent (key_parent key) t = bscontent (key_parent key) bs /\
           flat_map gcontent (project (key_parent key) t) = bscontent (key_parent key) bs.
Print Assumptions C01_built_conserves.

Theorem C01_itemlead :
  spec_tree "n" itemlead_witness =
  T None (NDocument "n")
    [T None NBList [T None (NSection [])
       [T None NBList [T None (NSection [Str "a"]) [T None (NLeaf [Str "b"]) []]]; T None (NLeaf [Str "c"]) []]]] /\
  read_back [] "n" itemlead_witness = Ok (Some (label (spec_tree "n" itemlead_witness) 0)).
Proof. exact SectionsRefine.sections_refines_itemlead. Qed.
Check C01_itemlead :
  spec_tree "n" itemlead_witness =
  T None (NDocument "n")
    [T None NBList [T None (NSection [])
       [T None NBList [T None (NSection [Str "a"]) [T None (NLeaf [Str "b"]) []]]; T None (NLeaf [Str "c"]) []]]] /\
  read_back [] "n" itemlead_witness = Ok (Some (label (spec_tree "n" itemlead_witness) 0)).
Print Assumptions C01_itemlead.
