(* Props/C05Reached.v - property C05: the hypotheses of the index theorems hold at every reachable state (Reachable.v)
   Only statements, each closed by an `exact`, pinned by a `Check`, followed by `Print Assumptions`. *)
From Coq Require Import ZArith Permutation List.
From IweV Require Import Str Text Ast RelPath Arena ArenaWF ArenaFacts BuilderFacts Project Library LibraryFacts Index IndexFacts IndexHistory Paths PathsFacts PathsComplete Squash SquashFacts Check_Norm ForestFacts BuilderWF HistoryWF HistoryClosed Reachable.
Local Open Scope string_scope.
Local Open Scope list_scope.

Theorem C05_reached :
  forall (notes : list (string * option string * list dblock)) (ops : list op) (s : gstate),
         distinct_keys notes ->
         reached notes ops s ->
         wf_arena (arena_of s) /\
         wf_arenab (arena_of s) = true /\
         (forall root : nat,
          root < Datatypes.length (arena_of s) ->
          exists ri : refindex,
            index_from true (arena_of s) root = Ok ri /\
            (forall (k : string) (x : nat),
             In x (raw_block_refs ri k) <->
             below (arena_of s) root x /\ IndexFacts.is_ref (arena_of s) x k) /\
            (forall (k : string) (x : nat),
             In x (raw_inline_refs ri k) <-> below (arena_of s) root x /\ is_inl (arena_of s) x k)).
Proof. exact Reachable.reached_C05. Qed.
Check C05_reached :
  forall (notes : list (string * option string * list dblock)) (ops : list op) (s : gstate),
         distinct_keys notes ->
         reached notes ops s ->
         wf_arena (arena_of s) /\
         wf_arenab (arena_of s) = true /\
         (forall root : nat,
          root < Datatypes.length (arena_of s) ->
          exists ri : refindex,
            index_from true (arena_of s) root = Ok ri /\
            (forall (k : string) (x : nat),
             In x (raw_block_refs ri k) <->
             below (arena_of s) root x /\ IndexFacts.is_ref (arena_of s) x k) /\
            (forall (k : string) (x : nat),
             In x (raw_inline_refs ri k) <-> below (arena_of s) root x /\ is_inl (arena_of s) x k)).
Print Assumptions C05_reached.

Theorem C05_arena_ok_wf_arena_iff :
  forall a : arena, arena_ok a = true -> wf_arena a <-> tombs_clean a.
Proof. exact Reachable.arena_ok_wf_arena_iff. Qed.
Check C05_arena_ok_wf_arena_iff :
  forall a : arena, arena_ok a = true -> wf_arena a <-> tombs_clean a.
Print Assumptions C05_arena_ok_wf_arena_iff.

Theorem C05_arena_ok_not_wf_refuted :
  exists a : arena,
           arena_ok a = true /\
           wf_arenab a = false /\ ~ fwd a /\ ~ wf_arena a /\ tombs_cleanb a = false.
Proof. exact Reachable.arena_ok_not_wf_refuted. Qed.
Check C05_arena_ok_not_wf_refuted :
  exists a : arena,
           arena_ok a = true /\
           wf_arenab a = false /\ ~ fwd a /\ ~ wf_arena a /\ tombs_cleanb a = false.
Print Assumptions C05_arena_ok_not_wf_refuted.

Theorem C05_covers_update :
  forall (g : graph) (key : string) (meta : option string) (bs : list dblock) (g' : graph),
         graph_inv g ->
         tombs_clean (gr_arena g) ->
         update_key g key meta bs = Ok g' -> covers true (gr_arena g) (gr_arena g').
Proof. exact Reachable.covers_update. Qed.
Check C05_covers_update :
  forall (g : graph) (key : string) (meta : option string) (bs : list dblock) (g' : graph),
         graph_inv g ->
         tombs_clean (gr_arena g) ->
         update_key g key meta bs = Ok g' -> covers true (gr_arena g) (gr_arena g').
Print Assumptions C05_covers_update.

