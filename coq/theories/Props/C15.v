(* Props/C15.v — property C15: relative links written by iwe resolve back to the note they
   were written for.  Only statements, each closed by an `exact`, pinned by a `Check`, and
   followed by `Print Assumptions`. *)
From IweV Require Import Str RelPath RelPathFacts.
Local Open Scope string_scope.
Local Open Scope list_scope.

(* For every note key K and every linking directory D — given as their segment lists, any
   length, any relation between the two (equal, nested either way, siblings, disjoint), the key
   ending in `.md` or not — the url iwe WRITES for K from D (`ref_url` of `to_rel_link_url`: with
   the configured extension `.md` or none, and with `.md` all the same where the url itself ends
   in `.md`) is resolved by `from_rel_link_url`, from D, to exactly K. *)
Theorem C15_roundtrip :
  forall (ks ds : list string) (ext : string),
    Forall good_name ks -> Forall good_name ds -> ext = MD \/ ext = "" ->
    from_rel_link_url (ref_url (to_rel_link_url (join SEPS ks) (join SEPS ds)) ext) (join SEPS ds) = join SEPS ks.
Proof. exact roundtrip_written. Qed.

Check C15_roundtrip :
  forall (ks ds : list string) (ext : string),
    Forall good_name ks -> Forall good_name ds -> ext = MD \/ ext = "" ->
    from_rel_link_url (ref_url (to_rel_link_url (join SEPS ks) (join SEPS ds)) ext) (join SEPS ds) = join SEPS ks.
Print Assumptions C15_roundtrip.

(* The url as `to_rel_link_url` returns it, without any extension, resolves back as long as the
   key does not end in `.md` (the url `x.md` names the note `x`). *)
Theorem C15_roundtrip_bare :
  forall ks ds : list string,
    Forall good_name ks -> Forall good_name ds ->
    ends_with MD (join SEPS ks) = false ->
    from_rel_link_url (to_rel_link_url (join SEPS ks) (join SEPS ds)) (join SEPS ds) = join SEPS ks.
Proof. exact roundtrip_canonical. Qed.

Check C15_roundtrip_bare :
  forall ks ds : list string,
    Forall good_name ks -> Forall good_name ds ->
    ends_with MD (join SEPS ks) = false ->
    from_rel_link_url (to_rel_link_url (join SEPS ks) (join SEPS ds)) (join SEPS ds) = join SEPS ks.
Print Assumptions C15_roundtrip_bare.

(* ... and the hypothesis is needed there: the key `x.md` (file `x.md.md`), which `ref_url` writes `x.md.md` *)
Theorem C15_roundtrip_bare_md_refuted :
  from_rel_link_url (to_rel_link_url "x.md" "") "" = "x" /\
  ref_url (to_rel_link_url "x.md" "") "" = "x.md.md" /\
  from_rel_link_url (ref_url (to_rel_link_url "x.md" "") "") "" = "x.md".
Proof. exact roundtrip_md_key. Qed.

Check C15_roundtrip_bare_md_refuted :
  from_rel_link_url (to_rel_link_url "x.md" "") "" = "x" /\
  ref_url (to_rel_link_url "x.md" "") "" = "x.md.md" /\
  from_rel_link_url (ref_url (to_rel_link_url "x.md" "") "") "" = "x.md".
Print Assumptions C15_roundtrip_bare_md_refuted.

(* the hypotheses are satisfiable by a non-trivial pair (sibling directories; a key ending in `.md`) *)
Example C15_roundtrip_nonvacuous :
  Forall good_name ["d"; "e"; "note.md"] /\ Forall good_name ["d"; "f"] /\
  to_rel_link_url "d/e/note.md" "d/f" = "../e/note.md" /\
  ref_url "../e/note.md" "" = "../e/note.md.md" /\ ref_url "../e/note" "" = "../e/note" /\
  ref_url "../e/note" MD = "../e/note.md".
Proof.
  repeat split; repeat constructor; try discriminate.
Qed.

(* As found in the pinned tree (`join` instead of `join_normalized`) the law fails for every
   key outside the linking directory; repaired by the `fix:` commit recorded in
   known_findings.txt. *)
Theorem C15_as_found_refuted :
  exists K D, from_rel_link_url_as_found (to_rel_link_url K D) D <> K /\ K = "x" /\ D = "d".
Proof. exists "x", "d". repeat split. vm_compute. discriminate. Qed.

Check C15_as_found_refuted :
  exists K D, from_rel_link_url_as_found (to_rel_link_url K D) D <> K /\ K = "x" /\ D = "d".
Print Assumptions C15_as_found_refuted.
