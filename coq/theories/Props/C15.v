(* Props/C15.v — property C15: relative links written by iwe resolve back to the note they
   were written for.  Only statements, each closed by an `exact`, pinned by a `Check`, and
   followed by `Print Assumptions`. *)
From IweV Require Import Str RelPath RelPathFacts.
Local Open Scope string_scope.
Local Open Scope list_scope.

(* For every note key K and every linking directory D — given as their segment lists, any
   length, any relation between the two (equal, nested either way, siblings, disjoint) — the
   url `to_rel_link_url` writes for K from D is resolved by `from_rel_link_url`, from D, to
   exactly K. *)
Theorem C15_roundtrip :
  forall ks ds : list string,
    Forall good_name ks -> Forall good_name ds ->
    ends_with MD (join SEPS ks) = false ->
    from_rel_link_url (to_rel_link_url (join SEPS ks) (join SEPS ds)) (join SEPS ds) = join SEPS ks.
Proof. exact roundtrip_canonical. Qed.

Check C15_roundtrip :
  forall ks ds : list string,
    Forall good_name ks -> Forall good_name ds ->
    ends_with MD (join SEPS ks) = false ->
    from_rel_link_url (to_rel_link_url (join SEPS ks) (join SEPS ds)) (join SEPS ds) = join SEPS ks.
Print Assumptions C15_roundtrip.

(* the hypotheses are satisfiable by a non-trivial pair (sibling directories) *)
Example C15_roundtrip_nonvacuous :
  Forall good_name ["d"; "e"; "note"] /\ Forall good_name ["d"; "f"] /\
  ends_with MD (join SEPS ["d"; "e"; "note"]) = false /\
  to_rel_link_url "d/e/note" "d/f" = "../e/note".
Proof.
  repeat split; repeat constructor; try discriminate.
Qed.

(* As found in the pinned tree (`join` instead of `join_normalized`) the law fails for every
   key outside the linking directory; repaired by the `fix:` commit recorded in
   known_findings.txt. *)
Theorem C15_as_found_refuted :
  exists K D, from_rel_link_url_as_found (to_rel_link_url K D) D <> K /\ K = "x" /\ D = "d".
Proof. exists "x", "d". repeat split. vm_compute. discriminate. Qed.

Check C15_as_found_refuted :
  exists K D, from_rel_link_url_as_found (to_rel_link_url K D) D <> K /\ K = "x" /\ D = "d".
Print Assumptions C15_as_found_refuted.
