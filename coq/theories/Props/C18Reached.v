(* Props/C18Reached.v - property C18: the path theorems at every reachable state; graph_to_paths returns (Reachable.v)
   Only statements, each closed by an `exact`, pinned by a `Check`, followed by `Print Assumptions`. *)
From Coq Require Import ZArith Permutation List.
From IweV Require Import Str Text Ast RelPath Arena ArenaWF ArenaFacts BuilderFacts Project Library LibraryFacts Index IndexFacts IndexHistory Paths PathsFacts PathsComplete Squash SquashFacts Check_Norm ForestFacts BuilderWF HistoryWF HistoryClosed Reachable.
Local Open Scope string_scope.
Local Open Scope list_scope.

Theorem C18_reached :
  forall (notes : list (string * option string * list dblock)) (ops : list op) (s : gstate),
         distinct_keys notes ->
         reached notes ops s ->
         bwd (arena_of s) /\
         wf_arenab (arena_of s) = true /\
         idx_in_range s /\
         (forall (filt : bool) (id : nat),
          id < Datatypes.length (arena_of s) ->
          exists ps : list (list nat), paths_for_node filt (paths_fuel (arena_of s)) s id [] = Ok ps) /\
         (forall filt : bool,
          exists ps : list (list nat),
            graph_to_paths filt s = Ok ps /\
            (forall p : list nat,
             In p ps ->
             chain filt s p /\
             Forall (heading s) p /\
             (exists (first : nat) (rest : list nat) (key : string) (d : nat) 
              (k : string),
                p = first :: rest /\
                graph_node_key (nav_fuel (arena_of s)) (arena_of s) first = Ok key /\
                path_refs filt s key = Ok [] /\
                parent_of (arena_of s) first = Ok (Some d) /\ doc s d k)) /\
            (forall (d h : nat) (q : list nat),
             listed_note filt s d ->
             hchain s h q d -> exists pre : list nat, In (pre ++ q) ps /\ lastn (pre ++ q) = Some h)).
Proof. exact Reachable.reached_C18. Qed.
Check C18_reached :
  forall (notes : list (string * option string * list dblock)) (ops : list op) (s : gstate),
         distinct_keys notes ->
         reached notes ops s ->
         bwd (arena_of s) /\
         wf_arenab (arena_of s) = true /\
         idx_in_range s /\
         (forall (filt : bool) (id : nat),
          id < Datatypes.length (arena_of s) ->
          exists ps : list (list nat), paths_for_node filt (paths_fuel (arena_of s)) s id [] = Ok ps) /\
         (forall filt : bool,
          exists ps : list (list nat),
            graph_to_paths filt s = Ok ps /\
            (forall p : list nat,
             In p ps ->
             chain filt s p /\
             Forall (heading s) p /\
             (exists (first : nat) (rest : list nat) (key : string) (d : nat) 
              (k : string),
                p = first :: rest /\
                graph_node_key (nav_fuel (arena_of s)) (arena_of s) first = Ok key /\
                path_refs filt s key = Ok [] /\
                parent_of (arena_of s) first = Ok (Some d) /\ doc s d k)) /\
            (forall (d h : nat) (q : list nat),
             listed_note filt s d ->
             hchain s h q d -> exists pre : list nat, In (pre ++ q) ps /\ lastn (pre ++ q) = Some h)).
Print Assumptions C18_reached.

Theorem C18_graph_to_paths_total :
  forall (filt : bool) (s : gstate),
         arena_ok (gr_arena (gs_graph s)) = true ->
         idx_in_range s -> exists ps : list (list nat), graph_to_paths filt s = Ok ps.
Proof. exact Reachable.graph_to_paths_total. Qed.
Check C18_graph_to_paths_total :
  forall (filt : bool) (s : gstate),
         arena_ok (gr_arena (gs_graph s)) = true ->
         idx_in_range s -> exists ps : list (list nat), graph_to_paths filt s = Ok ps.
Print Assumptions C18_graph_to_paths_total.

Theorem C18_arena_ok_bwd :
  forall a : arena, arena_ok a = true -> bwd a.
Proof. exact Reachable.arena_ok_bwd. Qed.
Check C18_arena_ok_bwd :
  forall a : arena, arena_ok a = true -> bwd a.
Print Assumptions C18_arena_ok_bwd.

