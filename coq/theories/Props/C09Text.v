(* Props/C09Text.v - C09 through the text (ActionsText.v): extract the first sub-section, write both notes, re-read both, inline the reference: the formatted original is back and the inline's change list removes the new note.
   Only statements, each closed by an `exact`, pinned by a `Check`, followed by `Print Assumptions`. *)
From Coq Require Import ZArith Permutation List.
From IweV Require Import Str Text Ast RelPath Arena Project SectionsSpec Check_Norm NormFacts HistoryText Reparse ReparseFacts TreeOps Actions TreeOpsFacts Check_Act Check_C10 ActFacts SectionsRefine ActionsText.
Local Open Scope string_scope.
Local Open Scope list_scope.

Theorem C09_extract_inline_text :
  forall (ctx : titles) (o : opts) (tables : list string) (key nk : string)
           (r' rn e pid : nat) (C : list frame) (i : option nat) (ln : list inline) 
           (l1 : list tree) (x : tree) (rs : list tree),
         let dir := key_parent key in
         let t := plug C (T i (NSection ln) (l1 ++ x :: rs)) in
         let txt := node_plain_text (t_node x) in
         let src := plug C (T i (NSection ln) (l1 ++ ref_tree nk txt :: rs)) in
         key_parent nk = dir ->
         ctx_free pid C ->
         ctx_free e C ->
         oid_is i pid = true ->
         oid_is i e = false ->
         forallb nonsec l1 = true ->
         is_section x = true ->
         id_eq x e = true ->
         Forall (fun t0 : tree => contains t0 e = false) l1 ->
         Forall (fun t0 : tree => id_eq t0 e = false) rs ->
         doc_of_key key t = true ->
         shaped t = true ->
         reparse_safe o (project dir t) = true ->
         settled ctx dir o (project dir t) = true ->
         reparse_safe o (project dir src) = true ->
         reparse_safe o (project dir x) = true ->
         ref_back dir o nk txt = true ->
         let O' := reparsed ctx o key r' src in
         let N' := tmap (norm_node ctx) (label (spec_tree nk (rr o (project dir x))) rn) in
         let sid := r' + pre_off C in
         let tid := sid + 1 + fsz l1 in
         extract_rec e pid nk t = Ok src /\
         tget t e = Ok x /\
         reference_key O' tid = nk /\
         tree_to_markdown o tables dir (append_pre_header sid N' (remove_node tid O')) =
         tree_to_markdown o tables dir t /\
         get_surrounding_section_id tid O' = Some sid /\
         (exists R' : tree, tget O' tid = Ok R' /\ is_reference R' = true).
Proof. exact ActionsText.C09_extract_inline_text. Qed.
Check C09_extract_inline_text :
  forall (ctx : titles) (o : opts) (tables : list string) (key nk : string)
           (r' rn e pid : nat) (C : list frame) (i : option nat) (ln : list inline) 
           (l1 : list tree) (x : tree) (rs : list tree),
         let dir := key_parent key in
         let t := plug C (T i (NSection ln) (l1 ++ x :: rs)) in
         let txt := node_plain_text (t_node x) in
         let src := plug C (T i (NSection ln) (l1 ++ ref_tree nk txt :: rs)) in
         key_parent nk = dir ->
         ctx_free pid C ->
         ctx_free e C ->
         oid_is i pid = true ->
         oid_is i e = false ->
         forallb nonsec l1 = true ->
         is_section x = true ->
         id_eq x e = true ->
         Forall (fun t0 : tree => contains t0 e = false) l1 ->
         Forall (fun t0 : tree => id_eq t0 e = false) rs ->
         doc_of_key key t = true ->
         shaped t = true ->
         reparse_safe o (project dir t) = true ->
         settled ctx dir o (project dir t) = true ->
         reparse_safe o (project dir src) = true ->
         reparse_safe o (project dir x) = true ->
         ref_back dir o nk txt = true ->
         let O' := reparsed ctx o key r' src in
         let N' := tmap (norm_node ctx) (label (spec_tree nk (rr o (project dir x))) rn) in
         let sid := r' + pre_off C in
         let tid := sid + 1 + fsz l1 in
         extract_rec e pid nk t = Ok src /\
         tget t e = Ok x /\
         reference_key O' tid = nk /\
         tree_to_markdown o tables dir (append_pre_header sid N' (remove_node tid O')) =
         tree_to_markdown o tables dir t /\
         get_surrounding_section_id tid O' = Some sid /\
         (exists R' : tree, tget O' tid = Ok R' /\ is_reference R' = true).
Print Assumptions C09_extract_inline_text.

Theorem C09_extract_inline_changes :
  forall (ctx : titles) (o : opts) (tables : list string) (key nk : string)
           (r' rn e pid : nat) (C : list frame) (i : option nat) (ln : list inline) 
           (l1 : list tree) (x : tree) (rs : list tree) (cx : actx) (kg : keygen),
         let dir := key_parent key in
         let t := plug C (T i (NSection ln) (l1 ++ x :: rs)) in
         let txt := node_plain_text (t_node x) in
         let src := plug C (T i (NSection ln) (l1 ++ ref_tree nk txt :: rs)) in
         key_parent nk = dir ->
         ctx_free pid C ->
         ctx_free e C ->
         oid_is i pid = true ->
         oid_is i e = false ->
         forallb nonsec l1 = true ->
         is_section x = true ->
         id_eq x e = true ->
         Forall (fun t0 : tree => contains t0 e = false) l1 ->
         Forall (fun t0 : tree => id_eq t0 e = false) rs ->
         doc_of_key key t = true ->
         shaped t = true ->
         reparse_safe o (project dir t) = true ->
         settled ctx dir o (project dir t) = true ->
         reparse_safe o (project dir src) = true ->
         reparse_safe o (project dir x) = true ->
         ref_back dir o nk txt = true ->
         let O' := reparsed ctx o key r' src in
         let N' := tmap (norm_node ctx) (label (spec_tree nk (rr o (project dir x))) rn) in
         let tid := r' + pre_off C + 1 + fsz l1 in
         cx_key_of cx tid = Ok key ->
         cx_collect cx key = Ok O' ->
         cx_collect cx nk = Ok N' ->
         exists final : tree,
           changes cx InlineSection kg tid = Ok (Some [Remove nk; Update key dir final]) /\
           tree_to_markdown o tables dir final = tree_to_markdown o tables dir t.
Proof. exact ActionsText.C09_extract_inline_changes. Qed.
Check C09_extract_inline_changes :
  forall (ctx : titles) (o : opts) (tables : list string) (key nk : string)
           (r' rn e pid : nat) (C : list frame) (i : option nat) (ln : list inline) 
           (l1 : list tree) (x : tree) (rs : list tree) (cx : actx) (kg : keygen),
         let dir := key_parent key in
         let t := plug C (T i (NSection ln) (l1 ++ x :: rs)) in
         let txt := node_plain_text (t_node x) in
         let src := plug C (T i (NSection ln) (l1 ++ ref_tree nk txt :: rs)) in
         key_parent nk = dir ->
         ctx_free pid C ->
         ctx_free e C ->
         oid_is i pid = true ->
         oid_is i e = false ->
         forallb nonsec l1 = true ->
         is_section x = true ->
         id_eq x e = true ->
         Forall (fun t0 : tree => contains t0 e = false) l1 ->
         Forall (fun t0 : tree => id_eq t0 e = false) rs ->
         doc_of_key key t = true ->
         shaped t = true ->
         reparse_safe o (project dir t) = true ->
         settled ctx dir o (project dir t) = true ->
         reparse_safe o (project dir src) = true ->
         reparse_safe o (project dir x) = true ->
         ref_back dir o nk txt = true ->
         let O' := reparsed ctx o key r' src in
         let N' := tmap (norm_node ctx) (label (spec_tree nk (rr o (project dir x))) rn) in
         let tid := r' + pre_off C + 1 + fsz l1 in
         cx_key_of cx tid = Ok key ->
         cx_collect cx key = Ok O' ->
         cx_collect cx nk = Ok N' ->
         exists final : tree,
           changes cx InlineSection kg tid = Ok (Some [Remove nk; Update key dir final]) /\
           tree_to_markdown o tables dir final = tree_to_markdown o tables dir t.
Print Assumptions C09_extract_inline_changes.

Theorem C09_extract_inline_blocks :
  forall (ctx : titles) (o : opts) (key nk : string) (r' rn e pid : nat) 
           (C : list frame) (i : option nat) (ln : list inline) (l1 : list tree) 
           (x : tree) (rs : list tree),
         let dir := key_parent key in
         let t := plug C (T i (NSection ln) (l1 ++ x :: rs)) in
         let txt := node_plain_text (t_node x) in
         let src := plug C (T i (NSection ln) (l1 ++ ref_tree nk txt :: rs)) in
         key_parent nk = dir ->
         ctx_free pid C ->
         ctx_free e C ->
         oid_is i pid = true ->
         oid_is i e = false ->
         forallb nonsec l1 = true ->
         is_section x = true ->
         id_eq x e = true ->
         Forall (fun t0 : tree => contains t0 e = false) l1 ->
         Forall (fun t0 : tree => id_eq t0 e = false) rs ->
         doc_of_key key t = true ->
         shaped t = true ->
         reparse_safe o (project dir t) = true ->
         reparse_safe o (project dir src) = true ->
         reparse_safe o (project dir x) = true ->
         ref_back dir o nk txt = true ->
         let O' := reparsed ctx o key r' src in
         let N' := tmap (norm_node ctx) (label (spec_tree nk (rr o (project dir x))) rn) in
         let sid := r' + pre_off C in
         let tid := sid + 1 + fsz l1 in
         extract_rec e pid nk t = Ok src /\
         tget t e = Ok x /\
         reference_key O' tid = nk /\
         project dir (append_pre_header sid N' (remove_node tid O')) =
         map (gagain ctx dir o) (project dir t) /\
         get_surrounding_section_id tid O' = Some sid /\
         (exists R' : tree, tget O' tid = Ok R' /\ is_reference R' = true).
Proof. exact ActionsText.C09_extract_inline_blocks. Qed.
Check C09_extract_inline_blocks :
  forall (ctx : titles) (o : opts) (key nk : string) (r' rn e pid : nat) 
           (C : list frame) (i : option nat) (ln : list inline) (l1 : list tree) 
           (x : tree) (rs : list tree),
         let dir := key_parent key in
         let t := plug C (T i (NSection ln) (l1 ++ x :: rs)) in
         let txt := node_plain_text (t_node x) in
         let src := plug C (T i (NSection ln) (l1 ++ ref_tree nk txt :: rs)) in
         key_parent nk = dir ->
         ctx_free pid C ->
         ctx_free e C ->
         oid_is i pid = true ->
         oid_is i e = false ->
         forallb nonsec l1 = true ->
         is_section x = true ->
         id_eq x e = true ->
         Forall (fun t0 : tree => contains t0 e = false) l1 ->
         Forall (fun t0 : tree => id_eq t0 e = false) rs ->
         doc_of_key key t = true ->
         shaped t = true ->
         reparse_safe o (project dir t) = true ->
         reparse_safe o (project dir src) = true ->
         reparse_safe o (project dir x) = true ->
         ref_back dir o nk txt = true ->
         let O' := reparsed ctx o key r' src in
         let N' := tmap (norm_node ctx) (label (spec_tree nk (rr o (project dir x))) rn) in
         let sid := r' + pre_off C in
         let tid := sid + 1 + fsz l1 in
         extract_rec e pid nk t = Ok src /\
         tget t e = Ok x /\
         reference_key O' tid = nk /\
         project dir (append_pre_header sid N' (remove_node tid O')) =
         map (gagain ctx dir o) (project dir t) /\
         get_surrounding_section_id tid O' = Some sid /\
         (exists R' : tree, tget O' tid = Ok R' /\ is_reference R' = true).
Print Assumptions C09_extract_inline_blocks.

Theorem C09_extract_inline_text_not_first_refuted :
  let t := T (Some 0) (NDocument xkey) [sec 1 "s" [sec 2 "a" []; sec 3 "b" []]] in
         let src := T (Some 0) (NDocument xkey) [sec 1 "s" [ref_tree "d/2" "b"; sec 2 "a" []]] in
         let O' := reparsed xctx xo xkey 100 src in
         let N' :=
           tmap (norm_node xctx) (label (spec_tree "d/2" (rr xo (project "d" (sec 3 "b" [])))) 200)
           in
         extract_rec 3 1 "d/2" t = Ok src /\
         reference_key O' 102 = "d/2" /\
         reparse_safe xo (project "d" t) = true /\
         settled xctx "d" xo (project "d" t) = true /\
         reparse_safe xo (project "d" src) = true /\
         shaped t = true /\
         shaped src = true /\
         tree_to_markdown xo [] "d" (append_pre_header 101 N' (remove_node 102 O')) <>
         tree_to_markdown xo [] "d" t.
Proof. exact ActionsText.C09_extract_inline_text_not_first_refuted. Qed.
Check C09_extract_inline_text_not_first_refuted :
  let t := T (Some 0) (NDocument xkey) [sec 1 "s" [sec 2 "a" []; sec 3 "b" []]] in
         let src := T (Some 0) (NDocument xkey) [sec 1 "s" [ref_tree "d/2" "b"; sec 2 "a" []]] in
         let O' := reparsed xctx xo xkey 100 src in
         let N' :=
           tmap (norm_node xctx) (label (spec_tree "d/2" (rr xo (project "d" (sec 3 "b" [])))) 200)
           in
         extract_rec 3 1 "d/2" t = Ok src /\
         reference_key O' 102 = "d/2" /\
         reparse_safe xo (project "d" t) = true /\
         settled xctx "d" xo (project "d" t) = true /\
         reparse_safe xo (project "d" src) = true /\
         shaped t = true /\
         shaped src = true /\
         tree_to_markdown xo [] "d" (append_pre_header 101 N' (remove_node 102 O')) <>
         tree_to_markdown xo [] "d" t.
Print Assumptions C09_extract_inline_text_not_first_refuted.

