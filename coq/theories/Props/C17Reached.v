(* Props/C17Reached.v - property C17: every reachable graph is collectable, so the squash equation and termination hold at every reachable state (Reachable.v)
   Only statements, each closed by an `exact`, pinned by a `Check`, followed by `Print Assumptions`. *)
From Coq Require Import ZArith Permutation List.
From IweV Require Import Str Text Ast RelPath Arena ArenaWF ArenaFacts BuilderFacts Project Library LibraryFacts Index IndexFacts IndexHistory Paths PathsFacts PathsComplete Squash SquashFacts Check_Norm ForestFacts BuilderWF HistoryWF HistoryClosed Reachable.
Local Open Scope string_scope.
Local Open Scope list_scope.

Theorem C17_reached :
  forall (notes : list (string * option string * list dblock)) (ops : list op) (s : gstate),
         distinct_keys notes ->
         reached notes ops s ->
         collectable (gs_graph s) = true /\
         (forall (key : string) (d : nat), squash (gs_graph s) key d = squash_spec (gs_graph s) key d) /\
         (forall (key : string) (root d : nat),
          alookup key (gr_keys (gs_graph s)) = Some root ->
          exists doc : tree,
            collect_key (gs_graph s) key = Ok doc /\
            squash (gs_graph s) key d = Ok (expand (lk_graph (gs_graph s)) d doc)).
Proof. exact Reachable.reached_C17. Qed.
Check C17_reached :
  forall (notes : list (string * option string * list dblock)) (ops : list op) (s : gstate),
         distinct_keys notes ->
         reached notes ops s ->
         collectable (gs_graph s) = true /\
         (forall (key : string) (d : nat), squash (gs_graph s) key d = squash_spec (gs_graph s) key d) /\
         (forall (key : string) (root d : nat),
          alookup key (gr_keys (gs_graph s)) = Some root ->
          exists doc : tree,
            collect_key (gs_graph s) key = Ok doc /\
            squash (gs_graph s) key d = Ok (expand (lk_graph (gs_graph s)) d doc)).
Print Assumptions C17_reached.

Theorem C17_collect_total :
  forall (ctx : titles) (a : arena) (root : nat),
         arena_ok a = true -> lv a root -> exists t : tree, collect ctx a root = Ok t.
Proof. exact Reachable.collect_total. Qed.
Check C17_collect_total :
  forall (ctx : titles) (a : arena) (root : nat),
         arena_ok a = true -> lv a root -> exists t : tree, collect ctx a root = Ok t.
Print Assumptions C17_collect_total.

Theorem C17_wf_b_collectable :
  forall g : graph, wf_b (gr_arena g) (gr_keys g) = true -> collectable g = true.
Proof. exact Reachable.wf_b_collectable. Qed.
Check C17_wf_b_collectable :
  forall g : graph, wf_b (gr_arena g) (gr_keys g) = true -> collectable g = true.
Print Assumptions C17_wf_b_collectable.

