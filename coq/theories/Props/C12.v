(* Props/C12.v — property C12: every request gets exactly one response and the server keeps
   serving.  Statements about the router LTS of Router.v with the repaired worker rule (R9: the
   worker body runs under catch_unwind and answers InternalError; executeCommand answers its
   id); quantified over every server / handler (so over every set of panicking inputs), every
   message list, every schedule, both notification rules. *)
From IweV Require Import Str Arena Router RouterFacts.
From Coq Require Import Permutation.
Local Open Scope list_scope.

(* At quiescence the (position, id) pairs of the responses in the outbox are a permutation of
   those of the requests the client sent up to the first `exit`: one response per request,
   none for anything else, whatever the handler did (result or panic). *)
Theorem C12_exactly_once :
  forall (server note req val : Type) (apply : server -> note -> server)
         (handler : server -> req -> res val) (msgs : list (msg note req)) (s0 : server)
         (nv : variant) (tr : list label) (s : state server note req val),
    steps apply handler nv Repaired (init msgs s0) tr s ->
    quiescent apply handler nv Repaired s ->
    Permutation (resp_keys (outbox s)) (req_keys 0 (served msgs)).
Proof. exact exactly_once. Qed.

Check C12_exactly_once :
  forall (server note req val : Type) (apply : server -> note -> server)
         (handler : server -> req -> res val) (msgs : list (msg note req)) (s0 : server)
         (nv : variant) (tr : list label) (s : state server note req val),
    steps apply handler nv Repaired (init msgs s0) tr s ->
    quiescent apply handler nv Repaired s ->
    Permutation (resp_keys (outbox s)) (req_keys 0 (served msgs)).
Print Assumptions C12_exactly_once.

(* ... and in every reachable state: responses sent + requests whose worker has not answered
   yet = requests taken.  Nothing is ever answered twice or answered without being asked. *)
Theorem C12_at_most_once :
  forall (server note req val : Type) (apply : server -> note -> server)
         (handler : server -> req -> res val) (msgs : list (msg note req)) (s0 : server)
         (nv : variant) (tr : list label) (s : state server note req val),
    steps apply handler nv Repaired (init msgs s0) tr s ->
    Permutation (resp_keys (outbox s) ++ pending_keys (live s)) (req_keys 0 (firstn (taken s) msgs)).
Proof. exact at_most_once. Qed.

Check C12_at_most_once :
  forall (server note req val : Type) (apply : server -> note -> server)
         (handler : server -> req -> res val) (msgs : list (msg note req)) (s0 : server)
         (nv : variant) (tr : list label) (s : state server note req val),
    steps apply handler nv Repaired (init msgs s0) tr s ->
    Permutation (resp_keys (outbox s) ++ pending_keys (live s)) (req_keys 0 (firstn (taken s) msgs)).
Print Assumptions C12_at_most_once.

(* What the one response is: the id of the request, and the body determined by the handler's
   outcome on the state of that moment — null for shutdown and executeCommand, the value for
   any other method, InternalError when the handler panicked. *)
Theorem C12_response_body :
  forall (server note req val : Type) (apply : server -> note -> server)
         (handler : server -> req -> res val) (msgs : list (msg note req)) (s0 : server)
         (tr : list label) (s : state server note req val) (p : nat) (id : N) (b : body val),
    steps apply handler Repaired Repaired (init msgs s0) tr s ->
    In (Resp p id b) (outbox s) ->
    exists q, nth_error msgs p = Some (MReq q) /\ id = r_id q
              /\ b = resp_body q (compute handler (server_at apply msgs s0 p) q).
Proof. exact response_body. Qed.

Check C12_response_body :
  forall (server note req val : Type) (apply : server -> note -> server)
         (handler : server -> req -> res val) (msgs : list (msg note req)) (s0 : server)
         (tr : list label) (s : state server note req val) (p : nat) (id : N) (b : body val),
    steps apply handler Repaired Repaired (init msgs s0) tr s ->
    In (Resp p id b) (outbox s) ->
    exists q, nth_error msgs p = Some (MReq q) /\ id = r_id q
              /\ b = resp_body q (compute handler (server_at apply msgs s0 p) q).
Print Assumptions C12_response_body.

(* The server keeps serving: a worker's computation — panicking or not — changes neither the
   server nor the Arc bookkeeping nor the loop (so, by the theorems above, which hold for every
   handler, every later request is still answered exactly once and from the right state). *)
Theorem C12_keeps_serving :
  forall (server note req val : Type) (apply : server -> note -> server)
         (handler : server -> req -> res val) (nv wv : variant)
         (s s' : state server note req val) (p : nat),
    step apply handler nv wv s (WCompute p) = Some s' ->
    srv s' = srv s /\ arc s' = arc s /\ inbox s' = inbox s /\ waiting s' = waiting s
    /\ outbox s' = outbox s /\ stopped s' = stopped s /\ length (live s') = length (live s).
Proof. exact compute_step_frame. Qed.

Check C12_keeps_serving :
  forall (server note req val : Type) (apply : server -> note -> server)
         (handler : server -> req -> res val) (nv wv : variant)
         (s s' : state server note req val) (p : nat),
    step apply handler nv wv s (WCompute p) = Some s' ->
    srv s' = srv s /\ arc s' = arc s /\ inbox s' = inbox s /\ waiting s' = waiting s
    /\ outbox s' = outbox s /\ stopped s' = stopped s /\ length (live s') = length (live s).
Print Assumptions C12_keeps_serving.

(* shutdown / exit: after `exit` the loop takes nothing more; at quiescence `run` has returned
   iff an `exit` was sent, and what follows the first `exit` was left alone.  (That `shutdown`
   is answered null is C12_response_body with r_kind q = KShutdown.) *)
Theorem C12_shutdown :
  forall (server note req val : Type) (apply : server -> note -> server)
         (handler : server -> req -> res val) (msgs : list (msg note req)) (s0 : server)
         (nv wv : variant) (tr : list label) (s : state server note req val),
    steps apply handler nv wv (init msgs s0) tr s ->
    (stopped s = true -> step apply handler nv wv s LoopTake = None)
    /\ (quiescent apply handler nv wv s ->
        (stopped s = true <-> exists m, In m msgs /\ is_exit m = true)
        /\ inbox s = skipn (length (served msgs)) msgs).
Proof. exact shutdown_and_exit. Qed.

Check C12_shutdown :
  forall (server note req val : Type) (apply : server -> note -> server)
         (handler : server -> req -> res val) (msgs : list (msg note req)) (s0 : server)
         (nv wv : variant) (tr : list label) (s : state server note req val),
    steps apply handler nv wv (init msgs s0) tr s ->
    (stopped s = true -> step apply handler nv wv s LoopTake = None)
    /\ (quiescent apply handler nv wv s ->
        (stopped s = true <-> exists m, In m msgs /\ is_exit m = true)
        /\ inbox s = skipn (length (served msgs)) msgs).
Print Assumptions C12_shutdown.

(* As found (no catch_unwind in the worker, executeCommand without a response): of three
   requests — one whose handler panics, one executeCommand, one ordinary — only the third is
   ever answered. *)
Theorem C12_as_found_refuted :
  exists s, steps ex_apply ex_handler Repaired AsFound (init ex12_msgs 0) ex12_sched s
            /\ quiescent ex_apply ex_handler Repaired AsFound s
            /\ resp_keys (outbox s) = [(2, 3%N)]
            /\ req_keys 0 (served ex12_msgs) = [(0, 1%N); (1, 2%N); (2, 3%N)].
Proof. exact as_found_loses_response. Qed.

Check C12_as_found_refuted :
  exists s, steps ex_apply ex_handler Repaired AsFound (init ex12_msgs 0) ex12_sched s
            /\ quiescent ex_apply ex_handler Repaired AsFound s
            /\ resp_keys (outbox s) = [(2, 3%N)]
            /\ req_keys 0 (served ex12_msgs) = [(0, 1%N); (1, 2%N); (2, 3%N)].
Print Assumptions C12_as_found_refuted.

(* non-vacuous: the same three requests under the repaired rule *)
Example C12_nonvacuous :
  exists s, steps ex_apply ex_handler Repaired Repaired (init ex12_msgs 0) ex12_sched s
            /\ outbox s = [Resp 0 1%N BError; ApplyEdit 1 0; Resp 1 2%N BNull; Resp 2 3%N (BResult 0)].
Proof. exact repaired_answers_all. Qed.
