(* Props/C08TreeBuild.v - property C08 (also C02 formatting): the patch graph of rename / formatting, modelled in Rename.v as export_tree, is what the transliterated builder + to_markdown compute (TreeBuildFacts.v, TreeBuildSquash.v)
   Only statements, each closed by an `exact`, pinned by a `Check`, followed by `Print Assumptions`. *)
From Coq Require Import ZArith Permutation List.
From IweV Require Import Str Text Ast RelPath Arena ArenaWF ArenaFacts Project Library SectionsRefine HistoryText
  Squash Rename TreeBuild TreeBuildFacts TreeBuildSquash.
Local Open Scope string_scope.
Local Open Scope list_scope.

Theorem C08_export_built :
  forall (o : opts) (tables : list string) (a : arena) (key : string) (t : tree),
       arena_ok a = true ->
       buildable t = true ->
       exists st : bst,
         build_key_from_iter a key t = Ok st /\
         (forall g : graph,
          gr_arena g = b_arena st ->
          alookup key (gr_keys g) = Some (Datatypes.length a) ->
          to_markdown o tables g key =
          Ok
            (wrap_metadata (alookup key (gr_meta g))
               (tree_to_markdown o tables (key_parent key)
                  (tmap (norm_node (get_key_title g)) (built_tree key t)))) /\
          (inner_doc_free t = true ->
           to_markdown o tables g key =
           Ok
             (wrap_metadata (alookup key (gr_meta g))
                (tree_to_markdown o tables (key_parent key) (tmap (norm_node (get_key_title g)) t))))).
Proof. exact TreeBuildFacts.export_built. Qed.
Check C08_export_built :
  forall (o : opts) (tables : list string) (a : arena) (key : string) (t : tree),
       arena_ok a = true ->
       buildable t = true ->
       exists st : bst,
         build_key_from_iter a key t = Ok st /\
         (forall g : graph,
          gr_arena g = b_arena st ->
          alookup key (gr_keys g) = Some (Datatypes.length a) ->
          to_markdown o tables g key =
          Ok
            (wrap_metadata (alookup key (gr_meta g))
               (tree_to_markdown o tables (key_parent key)
                  (tmap (norm_node (get_key_title g)) (built_tree key t)))) /\
          (inner_doc_free t = true ->
           to_markdown o tables g key =
           Ok
             (wrap_metadata (alookup key (gr_meta g))
                (tree_to_markdown o tables (key_parent key) (tmap (norm_node (get_key_title g)) t))))).
Print Assumptions C08_export_built.

Theorem C08_patch_export_is_export_tree :
  forall (o : opts) (tables : list string) (a : arena) (key : string) (t : tree),
       arena_ok a = true ->
       buildable t = true ->
       inner_doc_free t = true ->
       exists st : bst,
         build_key_from_iter a key t = Ok st /\
         (forall g : graph,
          gr_arena g = b_arena st ->
          alookup key (gr_keys g) = Some (Datatypes.length a) ->
          gr_titles g = [] ->
          to_markdown o tables g key = Ok (export_tree o (alookup key (gr_meta g)) tables key t)).
Proof. exact TreeBuildFacts.patch_export_is_export_tree. Qed.
Check C08_patch_export_is_export_tree :
  forall (o : opts) (tables : list string) (a : arena) (key : string) (t : tree),
       arena_ok a = true ->
       buildable t = true ->
       inner_doc_free t = true ->
       exists st : bst,
         build_key_from_iter a key t = Ok st /\
         (forall g : graph,
          gr_arena g = b_arena st ->
          alookup key (gr_keys g) = Some (Datatypes.length a) ->
          gr_titles g = [] ->
          to_markdown o tables g key = Ok (export_tree o (alookup key (gr_meta g)) tables key t)).
Print Assumptions C08_patch_export_is_export_tree.

Theorem C08_format_roundtrip :
  forall (o : opts) (tables : list string) (g : graph) (key : string) (t : tree) (pa : arena),
       wf_b (gr_arena g) (gr_keys g) = true ->
       collect_key g key = Ok t ->
       arena_ok pa = true ->
       exists st : bst,
         build_key_from_iter pa key t = Ok st /\
         arena_ok (b_arena st) = true /\
         (forall p : graph,
          gr_arena p = b_arena st ->
          alookup key (gr_keys p) = Some (Datatypes.length pa) ->
          gr_titles p = [] ->
          to_markdown o tables p key = Ok (export_tree o (alookup key (gr_meta p)) tables key t) /\
          to_markdown o tables p key =
          Ok (wrap_metadata (alookup key (gr_meta p)) (tree_to_markdown o tables (key_parent key) t))).
Proof. exact TreeBuildSquash.format_roundtrip. Qed.
Check C08_format_roundtrip :
  forall (o : opts) (tables : list string) (g : graph) (key : string) (t : tree) (pa : arena),
       wf_b (gr_arena g) (gr_keys g) = true ->
       collect_key g key = Ok t ->
       arena_ok pa = true ->
       exists st : bst,
         build_key_from_iter pa key t = Ok st /\
         arena_ok (b_arena st) = true /\
         (forall p : graph,
          gr_arena p = b_arena st ->
          alookup key (gr_keys p) = Some (Datatypes.length pa) ->
          gr_titles p = [] ->
          to_markdown o tables p key = Ok (export_tree o (alookup key (gr_meta p)) tables key t) /\
          to_markdown o tables p key =
          Ok (wrap_metadata (alookup key (gr_meta p)) (tree_to_markdown o tables (key_parent key) t))).
Print Assumptions C08_format_roundtrip.

