(* Props/C13Lines.v - C13 sub-property 5 (the node at a line, code actions): on a freshly built or rebuilt note get_node_id_at answers the innermost block covering the line - the last entry of the specified pre-order line map whose range contains it, blocks inside quotes included
   Only statements, each closed by an `exact`, pinned by a `Check`, followed by `Print Assumptions`. *)
From Coq Require Import ZArith Permutation List.
From IweV Require Import Str Text Ast RelPath Arena Library BuilderMap.
Local Open Scope string_scope.
Local Open Scope list_scope.

Theorem C13_node_at_built :
  forall (g : graph) (key : string) (meta : option string) (bs : list dblock) 
           (g' : graph) (line : nat),
         from_blocks g key meta bs = Ok g' ->
         get_node_id_at g' key line =
         Ok (innermost (note_map (Datatypes.length (gr_arena g)) bs) line).
Proof. exact get_node_id_at_built. Qed.
Check C13_node_at_built :
  forall (g : graph) (key : string) (meta : option string) (bs : list dblock) 
           (g' : graph) (line : nat),
         from_blocks g key meta bs = Ok g' ->
         get_node_id_at g' key line =
         Ok (innermost (note_map (Datatypes.length (gr_arena g)) bs) line).
Print Assumptions C13_node_at_built.

Theorem C13_node_at_updated :
  forall (g : graph) (key : string) (meta : option string) (bs : list dblock) 
           (g' : graph) (line : nat),
         update_key g key meta bs = Ok g' ->
         get_node_id_at g' key line =
         Ok (innermost (note_map (Datatypes.length (gr_arena g)) bs) line).
Proof. exact get_node_id_at_updated. Qed.
Check C13_node_at_updated :
  forall (g : graph) (key : string) (meta : option string) (bs : list dblock) 
           (g' : graph) (line : nat),
         update_key g key meta bs = Ok g' ->
         get_node_id_at g' key line =
         Ok (innermost (note_map (Datatypes.length (gr_arena g)) bs) line).
Print Assumptions C13_node_at_updated.

Theorem C13_quote_inner_lines :
  let bs :=
           [DQuote (0, 3)
              [DPara (0, 1) [Str "first"]; DPara (2, 3) [Link "b" "" Regular [Str "b"]; Str "x"]];
            DPara (4, 5) [Str "after"]] in
         note_map 0 bs = [(1, (0, 3)); (2, (0, 1)); (3, (2, 3)); (4, (4, 5))] /\
         (exists st : bst, build_document [] "a" bs = Ok st /\ b_map st = note_map 0 bs) /\
         map (innermost (note_map 0 bs)) [0; 1; 2; 3; 4] = [Some 2; Some 1; Some 3; None; Some 4].
Proof. exact quote_inner_lines. Qed.
Check C13_quote_inner_lines :
  let bs :=
           [DQuote (0, 3)
              [DPara (0, 1) [Str "first"]; DPara (2, 3) [Link "b" "" Regular [Str "b"]; Str "x"]];
            DPara (4, 5) [Str "after"]] in
         note_map 0 bs = [(1, (0, 3)); (2, (0, 1)); (3, (2, 3)); (4, (4, 5))] /\
         (exists st : bst, build_document [] "a" bs = Ok st /\ b_map st = note_map 0 bs) /\
         map (innermost (note_map 0 bs)) [0; 1; 2; 3; 4] = [Some 2; Some 1; Some 3; None; Some 4].
Print Assumptions C13_quote_inner_lines.

