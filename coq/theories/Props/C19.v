(* Props/C19.v — property C19: on-disk normalize rewrites notes in place and never leaves a
   damaged file.  Only statements, each closed by an `exact`, pinned by a `Check`, and followed
   by `Print Assumptions`.

   Vocabulary (Fs.v): a directory tree [t : list node]; [load t] the files the loader
   `new_for_path_rec` reads with their keys; [files_of t] the initial file system; [written_keys t]
   the keys of the exported map; [normalize_ops chunks v order s0] the operation sequence of
   `write_store_at_path` in map order [order] started on the file system [s0], each `write_all`
   split into the successful write(2) calls [chunks k]; [v] = AsFound (`fs::write` on the note)
   or Repaired (create a temporary sibling with O_EXCL under the first name among `<note>.tmp`,
   `<note>.1.tmp`, `<note>.2.tmp`, .. that does not exist — [tmp_of s (note_path k)], a function
   of the directory content —, write it, rename it over the note; the `fix:` commits R13 and
   399cea9).  [export k] is the text the in-memory export holds for key k (abstract here).
   Hypothesis, decidable on the tree: [names_ok] (no empty directory or file name).
   No hypothesis about files named like `x.md.md` / `.md.md` (loaded under the keys `x.md` / `.md`
   since the loader takes ONE extension off: finding F14-double-md, repaired) nor about files
   that already carry a temporary name: they are never touched. *)
From IweV Require Import Str RelPath Fs FsFacts.
Local Open Scope string_scope.
Local Open Scope list_scope.

(* Every file the loader reads is written back at the very path it was read from, and no other
   path is created, deleted or changed by a complete run (either variant). *)
Theorem C19_paths :
  forall (export : string -> bytes) (chunks : string -> list bytes),
    (forall k, sconcat (chunks k) = export k) ->
  forall (t : list node) (order : list string),
    (forall k, In k order <-> In k (written_keys t)) ->
  forall v : variant,
    names_ok t = true ->
    let s0 := files_of t in
    let s := run_ops (normalize_ops chunks v order s0) s0 in
    (forall l, In l (load t) ->
       note_path (l_key l) = l_path l /\ In (l_path l, l_content l) s0 /\
       lookup (l_path l) s = Some (export (l_key l))) /\
    (forall q, (forall l, In l (load t) -> l_path l <> q) -> lookup q s = lookup q s0).
Proof. exact paths_and_content. Qed.

Check C19_paths :
  forall (export : string -> bytes) (chunks : string -> list bytes),
    (forall k, sconcat (chunks k) = export k) ->
  forall (t : list node) (order : list string),
    (forall k, In k order <-> In k (written_keys t)) ->
  forall v : variant,
    names_ok t = true ->
    let s0 := files_of t in
    let s := run_ops (normalize_ops chunks v order s0) s0 in
    (forall l, In l (load t) ->
       note_path (l_key l) = l_path l /\ In (l_path l, l_content l) s0 /\
       lookup (l_path l) s = Some (export (l_key l))) /\
    (forall q, (forall l, In l (load t) -> l_path l <> q) -> lookup q s = lookup q s0).
Print Assumptions C19_paths.

(* The bytes a complete run leaves at any path: the export of the key whose note path it is,
   otherwise what was there (any start state, any key order, any chunking). *)
Theorem C19_content :
  forall (export : string -> bytes) (chunks : string -> list bytes),
    (forall k, sconcat (chunks k) = export k) ->
  forall (v : variant) (order : list string) (s0 : fs),
    forall q, lookup q (run_ops (normalize_ops chunks v order s0) s0) =
              match find (fun k => String.eqb (note_path k) q) order with
              | Some k => Some (export k)
              | None => lookup q s0
              end.
Proof. exact full_run. Qed.

Check C19_content :
  forall (export : string -> bytes) (chunks : string -> list bytes),
    (forall k, sconcat (chunks k) = export k) ->
  forall (v : variant) (order : list string) (s0 : fs),
    forall q, lookup q (run_ops (normalize_ops chunks v order s0) s0) =
              match find (fun k => String.eqb (note_path k) q) order with
              | Some k => Some (export k)
              | None => lookup q s0
              end.
Print Assumptions C19_content.

(* Repaired sequence, ANY directory tree (files that already carry a temporary name included)
   and any list [order] of keys:
   after ANY prefix of the operations (a crash, a kill, a failing call — which has no effect and
   stops the sequence), optionally followed by the removal of the temporary file the run created
   (the error path; [is_cleanup]: `Unlink (tmp_of s0 (note_path k))`), every file that existed
   and every note path holds its complete old or its complete exported bytes; and so does EVERY
   other path (nothing else is created, removed or changed), with at most one exception: the
   temporary file of the one note that was being written, whose name [tmp_of s0 (note_path k)]
   is the first of `<note>.tmp`, `<note>.1.tmp`, .. that did NOT exist before the run.  (It is
   left behind only when the process is killed; it has extension `tmp`, so no loader reads it:
   lemma tmp_not_loaded; it is never a note path: tmp_not_note.) *)
Theorem C19_atomic :
  forall (export : string -> bytes) (chunks : string -> list bytes),
    (forall k, sconcat (chunks k) = export k) ->
  forall (t : list node) (order : list string) (n : nat) (cleanup : list op),
    let s0 := files_of t in
    Forall (is_cleanup order s0) cleanup ->
    let s := run_ops (firstn n (normalize_ops chunks Repaired order s0) ++ cleanup) s0 in
    (forall q, In q (map fst s0) -> old_or_new export order s0 s q) /\
    (forall k, In k order -> old_or_new export order s0 s (note_path k)) /\
    ((forall q, old_or_new export order s0 s q) \/
     exists k, In k order /\ lookup (tmp_of s0 (note_path k)) s0 = None /\
               forall q, q <> tmp_of s0 (note_path k) -> old_or_new export order s0 s q).
Proof. exact atomic_tree. Qed.

Check C19_atomic :
  forall (export : string -> bytes) (chunks : string -> list bytes),
    (forall k, sconcat (chunks k) = export k) ->
  forall (t : list node) (order : list string) (n : nat) (cleanup : list op),
    let s0 := files_of t in
    Forall (is_cleanup order s0) cleanup ->
    let s := run_ops (firstn n (normalize_ops chunks Repaired order s0) ++ cleanup) s0 in
    (forall q, In q (map fst s0) -> old_or_new export order s0 s q) /\
    (forall k, In k order -> old_or_new export order s0 s (note_path k)) /\
    ((forall q, old_or_new export order s0 s q) \/
     exists k, In k order /\ lookup (tmp_of s0 (note_path k)) s0 = None /\
               forall q, q <> tmp_of s0 (note_path k) -> old_or_new export order s0 s q).
Print Assumptions C19_atomic.

(* what [old_or_new] says, unfolded once so that the statement above can be read on its own *)
Example C19_old_or_new_meaning :
  forall export order s s' q,
    old_or_new export order s s' q <->
    (lookup q s' = lookup q s \/
     exists k, In k order /\ q = note_path k /\ lookup q s' = Some (export k)).
Proof. intros. reflexivity. Qed.

(* the hypotheses are satisfiable by a non-trivial tree: a note in the root, one in a nested
   directory with a space in its name, a non-note file, a file the loader skips *)
Example C19_nonvacuous :
  let t := [File "a.md" "# A"; File "a.md.tmp" "stale";
            Dir "my dir" [Dir "e" [File "b c.md" "* x"]; File "notes.txt" "t"]; File ".md" "x"] in
  names_ok t = true /\
  written_keys t = ["a"; "my dir/e/b c"] /\
  map l_path (load t) = ["a.md"; "my dir/e/b c.md"] /\
  map fst (files_of t) = ["a.md"; "a.md.tmp"; "my dir/e/b c.md"; "my dir/notes.txt"; ".md"].
Proof. vm_compute. repeat split. Qed.

(* the temporary name is a function of the directory: with `a.md.tmp` and `a.md.1.tmp` already
   there, the writer probes both (each open answers EEXIST and changes nothing), creates
   `a.md.2.tmp`, and a complete run leaves the two stale files exactly as they were *)
Example C19_stale_tmp_untouched :
  let s0 := files_of [File "a.md" "old"; File "a.md.tmp" "stale"; File "a.md.1.tmp" "stale 1"] in
  let chunks := fun _ : string => ["ne"; "w"] in
  normalize_ops chunks Repaired ["a"] s0 =
    [OpenNew "a.md.tmp"; OpenNew "a.md.1.tmp"; OpenNew "a.md.2.tmp";
     Append "a.md.2.tmp" "ne"; Append "a.md.2.tmp" "w"; Close "a.md.2.tmp";
     Rename "a.md.2.tmp" "a.md"] /\
  let s := run_ops (normalize_ops chunks Repaired ["a"] s0) s0 in
  lookup "a.md" s = Some "new" /\ lookup "a.md.tmp" s = Some "stale" /\
  lookup "a.md.1.tmp" s = Some "stale 1" /\ lookup "a.md.2.tmp" s = None /\
  tmp_cand "a.md" 12 = "a.md.12.tmp".
Proof. vm_compute. repeat split. Qed.

(* As found (`fs::write` truncates the note first): a crash right after the open leaves the
   note empty, neither old nor new. *)
Theorem C19_as_found_refuted :
  exists (t : list node) (order : list string) (n : nat),
    let export := fun _ : string => "new" in
    let chunks := fun _ : string => ["new"] in
    (forall k, sconcat (chunks k) = export k) /\
    (forall k, In k order <-> In k (written_keys t)) /\
    names_ok t = true /\
    lookup "a.md" (files_of t) = Some "old" /\
    lookup "a.md" (run_ops (firstn n (normalize_ops chunks AsFound order (files_of t))) (files_of t)) = Some "".
Proof. exact as_found_truncates. Qed.

Check C19_as_found_refuted :
  exists (t : list node) (order : list string) (n : nat),
    let export := fun _ : string => "new" in
    let chunks := fun _ : string => ["new"] in
    (forall k, sconcat (chunks k) = export k) /\
    (forall k, In k order <-> In k (written_keys t)) /\
    names_ok t = true /\
    lookup "a.md" (files_of t) = Some "old" /\
    lookup "a.md" (run_ops (firstn n (normalize_ops chunks AsFound order (files_of t))) (files_of t)) = Some "".
Print Assumptions C19_as_found_refuted.

(* The former witness of F14-double-md (repaired): `x.md.md` is loaded under the key `x.md`, next to
   `x.md` (key `x`); each is rewritten in place and nothing is created. *)
Theorem C19_double_md_in_place :
  let t := [File "x.md.md" "old"; File "x.md" "other"] in
  let export := fun k : string => "new " +++ k in
  let chunks := fun k : string => ["new "; k] in
  forall (order : list string) (v : variant),
    (forall k, In k order <-> In k (written_keys t)) ->
    names_ok t = true /\ written_keys t = ["x.md"; "x"] /\
    map (fun l => (l_key l, l_path l)) (load t) = [("x.md", "x.md.md"); ("x", "x.md")] /\
    let s := run_ops (normalize_ops chunks v order (files_of t)) (files_of t) in
    lookup "x.md.md" s = Some "new x.md" /\ lookup "x.md" s = Some "new x" /\
    forall q, q <> "x.md.md" -> q <> "x.md" -> lookup q s = None.
Proof. exact double_md_in_place. Qed.

Check C19_double_md_in_place :
  let t := [File "x.md.md" "old"; File "x.md" "other"] in
  let export := fun k : string => "new " +++ k in
  let chunks := fun k : string => ["new "; k] in
  forall (order : list string) (v : variant),
    (forall k, In k order <-> In k (written_keys t)) ->
    names_ok t = true /\ written_keys t = ["x.md"; "x"] /\
    map (fun l => (l_key l, l_path l)) (load t) = [("x.md", "x.md.md"); ("x", "x.md")] /\
    let s := run_ops (normalize_ops chunks v order (files_of t)) (files_of t) in
    lookup "x.md.md" s = Some "new x.md" /\ lookup "x.md" s = Some "new x" /\
    forall q, q <> "x.md.md" -> q <> "x.md" -> lookup q s = None.
Print Assumptions C19_double_md_in_place.

(* no two loaded files share a key *)
Theorem C19_keys_distinct :
  forall (t : list node) (l l' : loaded),
    names_ok t = true -> In l (load t) -> In l' (load t) -> l_key l = l_key l' -> l_path l = l_path l'.
Proof. exact load_keys_inj. Qed.

Check C19_keys_distinct :
  forall (t : list node) (l l' : loaded),
    names_ok t = true -> In l (load t) -> In l' (load t) -> l_key l = l_key l' -> l_path l = l_path l'.
Print Assumptions C19_keys_distinct.
