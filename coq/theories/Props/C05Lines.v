(* Props/C05Lines.v - C05 (locations of backlinks): the line map SectionsBuilder leaves for a note is the pre-order list of (node id, line range) of every block that has a range - the blocks inside a block quote included (repair of F-C05-quote-line: the nested builder's entries are kept) - for every block list, arena and history step
   Only statements, each closed by an `exact`, pinned by a `Check`, followed by `Print Assumptions`. *)
From Coq Require Import ZArith Permutation List.
From IweV Require Import Str Text Ast RelPath Arena Library BuilderMap.
Local Open Scope string_scope.
Local Open Scope list_scope.

Theorem C05_build_map_spec :
  forall (a : arena) (key : string) (bs : list dblock) (st : bst),
         build_document a key bs = Ok st ->
         b_map st = note_map (Datatypes.length a) bs /\
         Datatypes.length (b_arena st) = snd (blocks_map (S (Datatypes.length a)) bs).
Proof. exact build_map_spec. Qed.
Check C05_build_map_spec :
  forall (a : arena) (key : string) (bs : list dblock) (st : bst),
         build_document a key bs = Ok st ->
         b_map st = note_map (Datatypes.length a) bs /\
         Datatypes.length (b_arena st) = snd (blocks_map (S (Datatypes.length a)) bs).
Print Assumptions C05_build_map_spec.

Theorem C05_line_map :
  forall (g : graph) (key : string) (meta : option string) (bs : list dblock) (g' : graph),
         from_blocks g key meta bs = Ok g' ->
         alookup key (gr_maps g') = Some (note_map (Datatypes.length (gr_arena g)) bs).
Proof. exact from_blocks_map. Qed.
Check C05_line_map :
  forall (g : graph) (key : string) (meta : option string) (bs : list dblock) (g' : graph),
         from_blocks g key meta bs = Ok g' ->
         alookup key (gr_maps g') = Some (note_map (Datatypes.length (gr_arena g)) bs).
Print Assumptions C05_line_map.

Theorem C05_line_map_update :
  forall (g : graph) (key : string) (meta : option string) (bs : list dblock) (g' : graph),
         update_key g key meta bs = Ok g' ->
         alookup key (gr_maps g') = Some (note_map (Datatypes.length (gr_arena g)) bs).
Proof. exact update_key_map. Qed.
Check C05_line_map_update :
  forall (g : graph) (key : string) (meta : option string) (bs : list dblock) (g' : graph),
         update_key g key meta bs = Ok g' ->
         alookup key (gr_maps g') = Some (note_map (Datatypes.length (gr_arena g)) bs).
Print Assumptions C05_line_map_update.

Theorem C05_quote_inner_lines :
  let bs :=
           [DQuote (0, 3)
              [DPara (0, 1) [Str "first"]; DPara (2, 3) [Link "b" "" Regular [Str "b"]; Str "x"]];
            DPara (4, 5) [Str "after"]] in
         note_map 0 bs = [(1, (0, 3)); (2, (0, 1)); (3, (2, 3)); (4, (4, 5))] /\
         (exists st : bst, build_document [] "a" bs = Ok st /\ b_map st = note_map 0 bs) /\
         map (innermost (note_map 0 bs)) [0; 1; 2; 3; 4] = [Some 2; Some 1; Some 3; None; Some 4].
Proof. exact quote_inner_lines. Qed.
Check C05_quote_inner_lines :
  let bs :=
           [DQuote (0, 3)
              [DPara (0, 1) [Str "first"]; DPara (2, 3) [Link "b" "" Regular [Str "b"]; Str "x"]];
            DPara (4, 5) [Str "after"]] in
         note_map 0 bs = [(1, (0, 3)); (2, (0, 1)); (3, (2, 3)); (4, (4, 5))] /\
         (exists st : bst, build_document [] "a" bs = Ok st /\ b_map st = note_map 0 bs) /\
         map (innermost (note_map 0 bs)) [0; 1; 2; 3; 4] = [Some 2; Some 1; Some 3; None; Some 4].
Print Assumptions C05_quote_inner_lines.

