(* Props/C07Reparse.v - property C07 (text level): written heading levels are re-read as they are, in every nesting context
   Only statements, each closed by an `exact`, pinned by a `Check`, followed by `Print Assumptions`. *)
From Coq Require Import ZArith Permutation List.
From IweV Require Import Str Text Ast RelPath Arena Project SectionsSpec Check_Norm NormFacts SectionsFacts HistoryText Reparse ReparseFacts.
Local Open Scope string_scope.
Local Open Scope list_scope.

Theorem C07_reparse_levels :
  forall (o : opts) (g : list gblock), hlv (rr o g) = glevels g.
Proof. exact ReparseFacts.reparse_levels. Qed.
Check C07_reparse_levels :
  forall (o : opts) (g : list gblock), hlv (rr o g) = glevels g.
Print Assumptions C07_reparse_levels.

Theorem C07_reparse_levels_nested :
  forall (o : opts) (g : list gblock), flat_map dctx (rr o g) = flat_map gctx g.
Proof. exact ReparseFacts.reparse_levels_nested. Qed.
Check C07_reparse_levels_nested :
  forall (o : opts) (g : list gblock), flat_map dctx (rr o g) = flat_map gctx g.
Print Assumptions C07_reparse_levels_nested.

Example C07_reparse_nonvacuous : hlv (rr ex_opts ex_written) = [1; 2] /\ flat_map dctx (rr ex_opts ex_written) <> [].
Proof. exact ex_levels. Qed.
