(* Props/C18Rooted.v - property C18: completeness of the outline paths across block references (PathsComplete.v)
   Only statements, each closed by an `exact`, pinned by a `Check`, followed by `Print Assumptions`. *)
From Coq Require Import ZArith Permutation List.
From IweV Require Import Str Text Ast RelPath Arena Project Library Index IndexFacts Paths PathsFacts PathsComplete.
Local Open Scope string_scope.
Local Open Scope list_scope.

Theorem C18_complete_rooted :
  forall (filt : bool) (s : gstate),
         bwd (gr_arena (gs_graph s)) ->
         forall (ps : list (list nat)) (d : nat) (pre ds : list nat) (h : nat) (q : list nat),
         graph_to_paths filt s = Ok ps ->
         rooted filt s d pre ds ->
         NoDup (d :: ds) -> hchain s h q d -> In (pre ++ q) ps /\ lastn (pre ++ q) = Some h.
Proof. exact PathsComplete.C18_complete_rooted. Qed.
Check C18_complete_rooted :
  forall (filt : bool) (s : gstate),
         bwd (gr_arena (gs_graph s)) ->
         forall (ps : list (list nat)) (d : nat) (pre ds : list nat) (h : nat) (q : list nat),
         graph_to_paths filt s = Ok ps ->
         rooted filt s d pre ds ->
         NoDup (d :: ds) -> hchain s h q d -> In (pre ++ q) ps /\ lastn (pre ++ q) = Some h.
Print Assumptions C18_complete_rooted.

Theorem C18_rooted_simple :
  forall (filt : bool) (s : gstate) (d : nat) (pre ds : list nat),
         rooted filt s d pre ds ->
         exists pre' ds' : list nat, rooted filt s d pre' ds' /\ NoDup (d :: ds').
Proof. exact PathsComplete.C18_rooted_simple. Qed.
Check C18_rooted_simple :
  forall (filt : bool) (s : gstate) (d : nat) (pre ds : list nat),
         rooted filt s d pre ds ->
         exists pre' ds' : list nat, rooted filt s d pre' ds' /\ NoDup (d :: ds').
Print Assumptions C18_rooted_simple.

Theorem C18_listed_note_iff :
  forall (filt : bool) (s : gstate) (d : nat),
         listed_note filt s d <->
         unref filt s d \/ (exists pre ds : list nat, rooted filt s d pre ds).
Proof. exact PathsComplete.C18_listed_note_iff. Qed.
Check C18_listed_note_iff :
  forall (filt : bool) (s : gstate) (d : nat),
         listed_note filt s d <->
         unref filt s d \/ (exists pre ds : list nat, rooted filt s d pre ds).
Print Assumptions C18_listed_note_iff.

Theorem C18_complete_listed :
  forall (filt : bool) (s : gstate),
         bwd (gr_arena (gs_graph s)) ->
         forall (ps : list (list nat)) (d h : nat) (q : list nat),
         graph_to_paths filt s = Ok ps ->
         listed_note filt s d ->
         hchain s h q d -> exists pre : list nat, In (pre ++ q) ps /\ lastn (pre ++ q) = Some h.
Proof. exact PathsComplete.C18_complete_listed. Qed.
Check C18_complete_listed :
  forall (filt : bool) (s : gstate),
         bwd (gr_arena (gs_graph s)) ->
         forall (ps : list (list nat)) (d h : nat) (q : list nat),
         graph_to_paths filt s = Ok ps ->
         listed_note filt s d ->
         hchain s h q d -> exists pre : list nat, In (pre ++ q) ps /\ lastn (pre ++ q) = Some h.
Print Assumptions C18_complete_listed.

Theorem C18_rooted_nonsimple_refuted :
  exists (s : gstate) (ps : list (list nat)),
           import_state_v true lasso = Ok s /\
           bwd (gr_arena (gs_graph s)) /\
           graph_to_paths true s = Ok ps /\
           ps = [[1]; [1; 4]; [1; 4; 7]; [1; 4; 7; 11]] /\
           rooted true s 10 [1; 4; 7; 4; 7] [6; 3; 6; 3; 0] /\
           hchain s 11 [11] 10 /\
           ~ In ([1; 4; 7; 4; 7] ++ [11]) ps /\ rooted true s 10 [1; 4; 7] [6; 3; 0].
Proof. exact PathsComplete.C18_rooted_nonsimple_refuted. Qed.
Check C18_rooted_nonsimple_refuted :
  exists (s : gstate) (ps : list (list nat)),
           import_state_v true lasso = Ok s /\
           bwd (gr_arena (gs_graph s)) /\
           graph_to_paths true s = Ok ps /\
           ps = [[1]; [1; 4]; [1; 4; 7]; [1; 4; 7; 11]] /\
           rooted true s 10 [1; 4; 7; 4; 7] [6; 3; 6; 3; 0] /\
           hchain s 11 [11] 10 /\
           ~ In ([1; 4; 7; 4; 7] ++ [11]) ps /\ rooted true s 10 [1; 4; 7] [6; 3; 0].
Print Assumptions C18_rooted_nonsimple_refuted.

Theorem C18_below_document_refuted :
  exists (s : gstate) (ps : list (list nat)),
           import_state_v true below_document = Ok s /\
           bwd (gr_arena (gs_graph s)) /\
           graph_to_paths true s = Ok ps /\
           ps = [[2]] /\
           unref true s 0 /\
           ref_to_doc true s 3 1 /\
           parent_of (gr_arena (gs_graph s)) 1 = Ok (Some 0) /\
           hchain s 5 [4; 5] 3 /\
           (forall p : list nat, In p ps -> lastn p <> Some 4 /\ lastn p <> Some 5).
Proof. exact PathsComplete.C18_below_document_refuted. Qed.
Check C18_below_document_refuted :
  exists (s : gstate) (ps : list (list nat)),
           import_state_v true below_document = Ok s /\
           bwd (gr_arena (gs_graph s)) /\
           graph_to_paths true s = Ok ps /\
           ps = [[2]] /\
           unref true s 0 /\
           ref_to_doc true s 3 1 /\
           parent_of (gr_arena (gs_graph s)) 1 = Ok (Some 0) /\
           hchain s 5 [4; 5] 3 /\
           (forall p : list nat, In p ps -> lastn p <> Some 4 /\ lastn p <> Some 5).
Print Assumptions C18_below_document_refuted.

