(* Props/C17TreeBuild.v - property C17: the CLI path of squash (squashed tree -> builder -> export) prints the rendering of the squashed tree (TreeBuildFacts.v, TreeBuildSquash.v)
   Only statements, each closed by an `exact`, pinned by a `Check`, followed by `Print Assumptions`. *)
From Coq Require Import ZArith Permutation List.
From IweV Require Import Str Text Ast RelPath Arena ArenaWF ArenaFacts Project Library SectionsRefine HistoryText Squash Rename TreeBuild TreeBuildFacts TreeBuildSquash.
Local Open Scope string_scope.
Local Open Scope list_scope.

Theorem C17_squash_cli_roundtrip :
  forall (o : opts) (tables : list string) (key : string) (t : tree),
         buildable t = true ->
         inner_doc_free t = true ->
         renorm_tree t = t ->
         exists st : bst,
           build_key_from_iter [] key t = Ok st /\
           to_markdown o tables (cli_patch st key) key =
           Ok (tree_to_markdown o tables (key_parent key) t) /\
           to_markdown {| refs_extension := "" |} [] (cli_patch st key) key = squash_cli_text key t.
Proof. exact TreeBuildFacts.squash_cli_roundtrip. Qed.
Check C17_squash_cli_roundtrip :
  forall (o : opts) (tables : list string) (key : string) (t : tree),
         buildable t = true ->
         inner_doc_free t = true ->
         renorm_tree t = t ->
         exists st : bst,
           build_key_from_iter [] key t = Ok st /\
           to_markdown o tables (cli_patch st key) key =
           Ok (tree_to_markdown o tables (key_parent key) t) /\
           to_markdown {| refs_extension := "" |} [] (cli_patch st key) key = squash_cli_text key t.
Print Assumptions C17_squash_cli_roundtrip.

Theorem C17_squash_cli_roundtrip_refuted :
  exists (t : tree) (st : bst),
           buildable t = true /\
           inner_doc_free t = true /\
           renorm_tree t <> t /\
           t = T None (NDocument "k") [T None NBList [T None (NRef "r" "text" WikiLink) []]] /\
           build_key_from_iter [] "k" t = Ok st /\
           to_markdown {| refs_extension := "" |} [] (cli_patch st "k") "k" <>
           Ok (tree_to_markdown {| refs_extension := "" |} [] "" t).
Proof. exact TreeBuildFacts.squash_cli_roundtrip_refuted. Qed.
Check C17_squash_cli_roundtrip_refuted :
  exists (t : tree) (st : bst),
           buildable t = true /\
           inner_doc_free t = true /\
           renorm_tree t <> t /\
           t = T None (NDocument "k") [T None NBList [T None (NRef "r" "text" WikiLink) []]] /\
           build_key_from_iter [] "k" t = Ok st /\
           to_markdown {| refs_extension := "" |} [] (cli_patch st "k") "k" <>
           Ok (tree_to_markdown {| refs_extension := "" |} [] "" t).
Print Assumptions C17_squash_cli_roundtrip_refuted.

Theorem C17_squash_patchable :
  forall (g : graph) (key : string) (d : nat) (t : tree),
         wf_b (gr_arena g) (gr_keys g) = true -> squash g key d = Ok t -> patchable t.
Proof. exact TreeBuildSquash.squash_patchable. Qed.
Check C17_squash_patchable :
  forall (g : graph) (key : string) (d : nat) (t : tree),
         wf_b (gr_arena g) (gr_keys g) = true -> squash g key d = Ok t -> patchable t.
Print Assumptions C17_squash_patchable.

Theorem C17_squash_cli_graph :
  forall (o : opts) (tables : list string) (g : graph) (key key' : string) (root d : nat),
         wf_b (gr_arena g) (gr_keys g) = true ->
         alookup key (gr_keys g) = Some root ->
         exists (t : tree) (st : bst),
           squash g key d = Ok t /\
           build_key_from_iter [] key' t = Ok st /\
           to_markdown o tables (cli_patch st key') key' =
           Ok (tree_to_markdown o tables (key_parent key') t) /\
           to_markdown {| refs_extension := "" |} [] (cli_patch st key') key' =
           squash_cli_text key' t.
Proof. exact TreeBuildSquash.squash_cli_graph. Qed.
Check C17_squash_cli_graph :
  forall (o : opts) (tables : list string) (g : graph) (key key' : string) (root d : nat),
         wf_b (gr_arena g) (gr_keys g) = true ->
         alookup key (gr_keys g) = Some root ->
         exists (t : tree) (st : bst),
           squash g key d = Ok t /\
           build_key_from_iter [] key' t = Ok st /\
           to_markdown o tables (cli_patch st key') key' =
           Ok (tree_to_markdown o tables (key_parent key') t) /\
           to_markdown {| refs_extension := "" |} [] (cli_patch st key') key' =
           squash_cli_text key' t.
Print Assumptions C17_squash_cli_graph.

