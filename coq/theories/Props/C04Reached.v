(* Props/C04Reached.v - property C04: the backlink getters after EVERY history of updates from every import of notes with distinct keys, no premise on the blocks left (Reachable.v)
   Only statements, each closed by an `exact`, pinned by a `Check`, followed by `Print Assumptions`. *)
From Coq Require Import ZArith Permutation List.
From IweV Require Import Str Text Ast RelPath Arena ArenaWF ArenaFacts BuilderFacts Project Library LibraryFacts Index IndexFacts IndexHistory Paths PathsFacts PathsComplete Squash SquashFacts Check_Norm ForestFacts BuilderWF HistoryWF HistoryClosed Reachable.
Local Open Scope string_scope.
Local Open Scope list_scope.

Theorem C04_index_no_history_reached :
  forall (notes : list (string * option string * list dblock)) (ops : list op),
         distinct_keys notes ->
         exists s0 s : gstate,
           import_state_v true notes = Ok s0 /\
           run_updates true s0 ops = Ok s /\
           fold_left hist_step ops (import notes) = Ok (gs_graph s) /\
           (forall k : string,
            block_refs_to s k = Ok (exact_refs (arena_of s) k) /\
            inline_refs_to s k = Ok (exact_inline (arena_of s) k)).
Proof. exact Reachable.C04_index_no_history_reached. Qed.
Check C04_index_no_history_reached :
  forall (notes : list (string * option string * list dblock)) (ops : list op),
         distinct_keys notes ->
         exists s0 s : gstate,
           import_state_v true notes = Ok s0 /\
           run_updates true s0 ops = Ok s /\
           fold_left hist_step ops (import notes) = Ok (gs_graph s) /\
           (forall k : string,
            block_refs_to s k = Ok (exact_refs (arena_of s) k) /\
            inline_refs_to s k = Ok (exact_inline (arena_of s) k)).
Print Assumptions C04_index_no_history_reached.

Theorem C04_index_history_independent_reached :
  forall (notes1 : list (string * option string * list dblock)) (ops1 : list op)
           (notes2 : list (string * option string * list dblock)) (ops2 : list op) 
           (s1 s2 : gstate),
         distinct_keys notes1 ->
         reached notes1 ops1 s1 ->
         distinct_keys notes2 ->
         reached notes2 ops2 s2 ->
         arena_of s1 = arena_of s2 ->
         forall k : string,
         block_refs_to s1 k = block_refs_to s2 k /\ inline_refs_to s1 k = inline_refs_to s2 k.
Proof. exact Reachable.C04_index_history_independent_reached. Qed.
Check C04_index_history_independent_reached :
  forall (notes1 : list (string * option string * list dblock)) (ops1 : list op)
           (notes2 : list (string * option string * list dblock)) (ops2 : list op) 
           (s1 s2 : gstate),
         distinct_keys notes1 ->
         reached notes1 ops1 s1 ->
         distinct_keys notes2 ->
         reached notes2 ops2 s2 ->
         arena_of s1 = arena_of s2 ->
         forall k : string,
         block_refs_to s1 k = block_refs_to s2 k /\ inline_refs_to s1 k = inline_refs_to s2 k.
Print Assumptions C04_index_history_independent_reached.

Theorem C04_reachable_total :
  forall (notes : list (string * option string * list dblock)) (ops : list op),
         distinct_keys notes ->
         exists s : gstate,
           reached notes ops s /\ Inv s /\ fold_left hist_step ops (import notes) = Ok (gs_graph s).
Proof. exact Reachable.reachable_total. Qed.
Check C04_reachable_total :
  forall (notes : list (string * option string * list dblock)) (ops : list op),
         distinct_keys notes ->
         exists s : gstate,
           reached notes ops s /\ Inv s /\ fold_left hist_step ops (import notes) = Ok (gs_graph s).
Print Assumptions C04_reachable_total.

Theorem C04_former_orphan_exact :
  exists (ops : list op) (s0 s : gstate) (k : string),
           forallb (fun o : op => forallb plain_items (snd o)) ops = false /\
           import_state_v true [] = Ok s0 /\
           run_updates true s0 ops = Ok s /\
           block_refs_to s k = Ok [5] /\ exact_refs (arena_of s) k = [5].
Proof. exact Reachable.C04_former_orphan_exact. Qed.
Check C04_former_orphan_exact :
  exists (ops : list op) (s0 s : gstate) (k : string),
           forallb (fun o : op => forallb plain_items (snd o)) ops = false /\
           import_state_v true [] = Ok s0 /\
           run_updates true s0 ops = Ok s /\
           block_refs_to s k = Ok [5] /\ exact_refs (arena_of s) k = [5].
Print Assumptions C04_former_orphan_exact.
