(* Props/C04Reached.v - property C04: the backlink getters after every history of plain updates from every import of distinct plain notes, no premise left (Reachable.v)
   Only statements, each closed by an `exact`, pinned by a `Check`, followed by `Print Assumptions`. *)
From Coq Require Import ZArith Permutation List.
From IweV Require Import Str Text Ast RelPath Arena ArenaWF ArenaFacts BuilderFacts Project Library LibraryFacts Index IndexFacts IndexHistory Paths PathsFacts PathsComplete Squash SquashFacts Check_Norm ForestFacts BuilderWF HistoryWF HistoryClosed Reachable.
Local Open Scope string_scope.
Local Open Scope list_scope.

Theorem C04_index_no_history_plain :
  forall (notes : list (string * option string * list dblock)) (ops : list op),
         plain_notes notes ->
         distinct_keys notes ->
         plain_ops ops ->
         exists s0 s : gstate,
           import_state_v true notes = Ok s0 /\
           run_updates true s0 ops = Ok s /\
           fold_left hist_step ops (import notes) = Ok (gs_graph s) /\
           (forall k : string,
            block_refs_to s k = Ok (exact_refs (arena_of s) k) /\
            inline_refs_to s k = Ok (exact_inline (arena_of s) k)).
Proof. exact Reachable.C04_index_no_history_plain. Qed.
Check C04_index_no_history_plain :
  forall (notes : list (string * option string * list dblock)) (ops : list op),
         plain_notes notes ->
         distinct_keys notes ->
         plain_ops ops ->
         exists s0 s : gstate,
           import_state_v true notes = Ok s0 /\
           run_updates true s0 ops = Ok s /\
           fold_left hist_step ops (import notes) = Ok (gs_graph s) /\
           (forall k : string,
            block_refs_to s k = Ok (exact_refs (arena_of s) k) /\
            inline_refs_to s k = Ok (exact_inline (arena_of s) k)).
Print Assumptions C04_index_no_history_plain.

Theorem C04_index_history_independent_plain :
  forall (notes1 : list (string * option string * list dblock)) (ops1 : list op)
           (notes2 : list (string * option string * list dblock)) (ops2 : list op) 
           (s1 s2 : gstate),
         plain_notes notes1 ->
         distinct_keys notes1 ->
         plain_ops ops1 ->
         reached notes1 ops1 s1 ->
         plain_notes notes2 ->
         distinct_keys notes2 ->
         plain_ops ops2 ->
         reached notes2 ops2 s2 ->
         arena_of s1 = arena_of s2 ->
         forall k : string,
         block_refs_to s1 k = block_refs_to s2 k /\ inline_refs_to s1 k = inline_refs_to s2 k.
Proof. exact Reachable.C04_index_history_independent_plain. Qed.
Check C04_index_history_independent_plain :
  forall (notes1 : list (string * option string * list dblock)) (ops1 : list op)
           (notes2 : list (string * option string * list dblock)) (ops2 : list op) 
           (s1 s2 : gstate),
         plain_notes notes1 ->
         distinct_keys notes1 ->
         plain_ops ops1 ->
         reached notes1 ops1 s1 ->
         plain_notes notes2 ->
         distinct_keys notes2 ->
         plain_ops ops2 ->
         reached notes2 ops2 s2 ->
         arena_of s1 = arena_of s2 ->
         forall k : string,
         block_refs_to s1 k = block_refs_to s2 k /\ inline_refs_to s1 k = inline_refs_to s2 k.
Print Assumptions C04_index_history_independent_plain.

Theorem C04_reachable_total :
  forall (notes : list (string * option string * list dblock)) (ops : list op),
         plain_notes notes ->
         distinct_keys notes ->
         plain_ops ops ->
         exists s : gstate,
           reached notes ops s /\ Inv s /\ fold_left hist_step ops (import notes) = Ok (gs_graph s).
Proof. exact Reachable.reachable_total. Qed.
Check C04_reachable_total :
  forall (notes : list (string * option string * list dblock)) (ops : list op),
         plain_notes notes ->
         distinct_keys notes ->
         plain_ops ops ->
         exists s : gstate,
           reached notes ops s /\ Inv s /\ fold_left hist_step ops (import notes) = Ok (gs_graph s).
Print Assumptions C04_reachable_total.

Theorem C04_plain_needed :
  exists (ops : list op) (s0 s : gstate) (k : string),
           forallb (fun o : op => forallb plain_items (snd o)) ops = false /\
           import_state_v true [] = Ok s0 /\
           run_updates true s0 ops = Ok s /\
           block_refs_to s k = Ok [] /\ exact_refs (arena_of s) k = [3].
Proof. exact Reachable.C04_plain_needed. Qed.
Check C04_plain_needed :
  exists (ops : list op) (s0 s : gstate) (k : string),
           forallb (fun o : op => forallb plain_items (snd o)) ops = false /\
           import_state_v true [] = Ok s0 /\
           run_updates true s0 ops = Ok s /\
           block_refs_to s k = Ok [] /\ exact_refs (arena_of s) k = [3].
Print Assumptions C04_plain_needed.

