(* Props/C10Text.v - C10 through the text (ActionsText.v): the editor applies the action's full-text edit, the server re-reads it (Reparse.rr, SectionsSpec.spec_tree, fresh pre-order ids, title refresh = ActionsText.reparsed) and the inverse conversion is computed on the re-read tree; on the class shaped / reparse_safe / settled the formatted original is back (_blocks: without settled, the note formatted once more). reread_spec: the re-read tree is the same tree node for node.
   Only statements, each closed by an `exact`, pinned by a `Check`, followed by `Print Assumptions`. *)
From Coq Require Import ZArith Permutation List.
From IweV Require Import Str Text Ast RelPath Arena Project SectionsSpec Check_Norm NormFacts HistoryText Reparse ReparseFacts TreeOps Actions TreeOpsFacts Check_Act Check_C10 ActFacts SectionsRefine ActionsText.
Local Open Scope string_scope.
Local Open Scope list_scope.

Theorem C10_type_twice_text :
  forall (ctx : titles) (o : opts) (tables : list string) (key : string) 
           (r' id : nat) (C : list frame) (i : option nat) (n : node) (c : list tree),
         let dir := key_parent key in
         let t := plug C (T i n c) in
         node_is_list n = true ->
         oid_is i id = true ->
         ctx_free id C ->
         doc_of_key key t = true ->
         shaped t = true ->
         reparse_safe o (project dir t) = true ->
         settled ctx dir o (project dir t) = true ->
         reparse_safe o (project dir (change_list_type id t)) = true ->
         tree_to_markdown o tables dir
           (change_list_type (r' + pre_off C) (reparsed ctx o key r' (change_list_type id t))) =
         tree_to_markdown o tables dir t.
Proof. exact ActionsText.C10_type_twice_text. Qed.
Check C10_type_twice_text :
  forall (ctx : titles) (o : opts) (tables : list string) (key : string) 
           (r' id : nat) (C : list frame) (i : option nat) (n : node) (c : list tree),
         let dir := key_parent key in
         let t := plug C (T i n c) in
         node_is_list n = true ->
         oid_is i id = true ->
         ctx_free id C ->
         doc_of_key key t = true ->
         shaped t = true ->
         reparse_safe o (project dir t) = true ->
         settled ctx dir o (project dir t) = true ->
         reparse_safe o (project dir (change_list_type id t)) = true ->
         tree_to_markdown o tables dir
           (change_list_type (r' + pre_off C) (reparsed ctx o key r' (change_list_type id t))) =
         tree_to_markdown o tables dir t.
Print Assumptions C10_type_twice_text.

Theorem C10_wrap_unwrap_text :
  forall (ctx : titles) (o : opts) (tables : list string) (key : string) 
           (r' id : nat) (C : list frame) (pi : option nat) (pn : node) (l1 rs : list tree)
           (i : option nat) (lx : list inline) (cx : list tree),
         let dir := key_parent key in
         let t := plug (F pi pn l1 rs :: C) (T i (NSection lx) cx) in
         oid_is i id = true ->
         ctx_free id (F pi pn l1 rs :: C) ->
         forallb nonsec l1 = true ->
         node_is_list pn = false ->
         doc_of_key key t = true ->
         shaped t = true ->
         reparse_safe o (project dir t) = true ->
         settled ctx dir o (project dir t) = true ->
         reparse_safe o (project dir (wrap_into_list id t)) = true ->
         tree_to_markdown o tables dir
           (unwrap_list (r' + pre_off (F pi pn l1 rs :: C))
              (reparsed ctx o key r' (wrap_into_list id t))) = tree_to_markdown o tables dir t.
Proof. exact ActionsText.C10_wrap_unwrap_text. Qed.
Check C10_wrap_unwrap_text :
  forall (ctx : titles) (o : opts) (tables : list string) (key : string) 
           (r' id : nat) (C : list frame) (pi : option nat) (pn : node) (l1 rs : list tree)
           (i : option nat) (lx : list inline) (cx : list tree),
         let dir := key_parent key in
         let t := plug (F pi pn l1 rs :: C) (T i (NSection lx) cx) in
         oid_is i id = true ->
         ctx_free id (F pi pn l1 rs :: C) ->
         forallb nonsec l1 = true ->
         node_is_list pn = false ->
         doc_of_key key t = true ->
         shaped t = true ->
         reparse_safe o (project dir t) = true ->
         settled ctx dir o (project dir t) = true ->
         reparse_safe o (project dir (wrap_into_list id t)) = true ->
         tree_to_markdown o tables dir
           (unwrap_list (r' + pre_off (F pi pn l1 rs :: C))
              (reparsed ctx o key r' (wrap_into_list id t))) = tree_to_markdown o tables dir t.
Print Assumptions C10_wrap_unwrap_text.

Theorem C10_type_twice_blocks :
  forall (ctx : titles) (o : opts) (key : string) (r' id : nat) (C : list frame)
           (i : option nat) (n : node) (c : list tree),
         let dir := key_parent key in
         let t := plug C (T i n c) in
         node_is_list n = true ->
         oid_is i id = true ->
         ctx_free id C ->
         doc_of_key key t = true ->
         shaped t = true ->
         reparse_safe o (project dir t) = true ->
         reparse_safe o (project dir (change_list_type id t)) = true ->
         project dir
           (change_list_type (r' + pre_off C) (reparsed ctx o key r' (change_list_type id t))) =
         map (gagain ctx dir o) (project dir t).
Proof. exact ActionsText.C10_type_twice_blocks. Qed.
Check C10_type_twice_blocks :
  forall (ctx : titles) (o : opts) (key : string) (r' id : nat) (C : list frame)
           (i : option nat) (n : node) (c : list tree),
         let dir := key_parent key in
         let t := plug C (T i n c) in
         node_is_list n = true ->
         oid_is i id = true ->
         ctx_free id C ->
         doc_of_key key t = true ->
         shaped t = true ->
         reparse_safe o (project dir t) = true ->
         reparse_safe o (project dir (change_list_type id t)) = true ->
         project dir
           (change_list_type (r' + pre_off C) (reparsed ctx o key r' (change_list_type id t))) =
         map (gagain ctx dir o) (project dir t).
Print Assumptions C10_type_twice_blocks.

Theorem C10_wrap_unwrap_blocks :
  forall (ctx : titles) (o : opts) (key : string) (r' id : nat) (C : list frame)
           (pi : option nat) (pn : node) (l1 rs : list tree) (i : option nat) 
           (lx : list inline) (cx : list tree),
         let dir := key_parent key in
         let t := plug (F pi pn l1 rs :: C) (T i (NSection lx) cx) in
         oid_is i id = true ->
         ctx_free id (F pi pn l1 rs :: C) ->
         forallb nonsec l1 = true ->
         node_is_list pn = false ->
         doc_of_key key t = true ->
         shaped t = true ->
         reparse_safe o (project dir t) = true ->
         reparse_safe o (project dir (wrap_into_list id t)) = true ->
         project dir
           (unwrap_list (r' + pre_off (F pi pn l1 rs :: C))
              (reparsed ctx o key r' (wrap_into_list id t))) = map (gagain ctx dir o) (project dir t).
Proof. exact ActionsText.C10_wrap_unwrap_blocks. Qed.
Check C10_wrap_unwrap_blocks :
  forall (ctx : titles) (o : opts) (key : string) (r' id : nat) (C : list frame)
           (pi : option nat) (pn : node) (l1 rs : list tree) (i : option nat) 
           (lx : list inline) (cx : list tree),
         let dir := key_parent key in
         let t := plug (F pi pn l1 rs :: C) (T i (NSection lx) cx) in
         oid_is i id = true ->
         ctx_free id (F pi pn l1 rs :: C) ->
         forallb nonsec l1 = true ->
         node_is_list pn = false ->
         doc_of_key key t = true ->
         shaped t = true ->
         reparse_safe o (project dir t) = true ->
         reparse_safe o (project dir (wrap_into_list id t)) = true ->
         project dir
           (unwrap_list (r' + pre_off (F pi pn l1 rs :: C))
              (reparsed ctx o key r' (wrap_into_list id t))) = map (gagain ctx dir o) (project dir t).
Print Assumptions C10_wrap_unwrap_blocks.

Theorem C10_wrap_unwrap_text_after_section_refuted :
  let l1 := [sec 1 "a" []] in
         let Fp := F (Some 0) (NDocument xkey) l1 [] in
         let t := plug [Fp] (T (Some 2) (NSection [Str "b"]) []) in
         forallb nonsec l1 = false /\
         ctx_free 2 [Fp] /\
         doc_of_key xkey t = true /\
         shaped t = true /\
         reparse_safe xo (project "d" t) = true /\
         settled xctx "d" xo (project "d" t) = true /\
         reparse_safe xo (project "d" (wrap_into_list 2 t)) = true /\
         tree_to_markdown xo [] "d"
           (unwrap_list (100 + pre_off [Fp]) (reparsed xctx xo xkey 100 (wrap_into_list 2 t))) =
         "# a" +++ LFS +++ LFS +++ "## b" +++ LFS /\
         tree_to_markdown xo [] "d" t = "# a" +++ LFS +++ LFS +++ "# b" +++ LFS.
Proof. exact ActionsText.C10_wrap_unwrap_text_after_section_refuted. Qed.
Check C10_wrap_unwrap_text_after_section_refuted :
  let l1 := [sec 1 "a" []] in
         let Fp := F (Some 0) (NDocument xkey) l1 [] in
         let t := plug [Fp] (T (Some 2) (NSection [Str "b"]) []) in
         forallb nonsec l1 = false /\
         ctx_free 2 [Fp] /\
         doc_of_key xkey t = true /\
         shaped t = true /\
         reparse_safe xo (project "d" t) = true /\
         settled xctx "d" xo (project "d" t) = true /\
         reparse_safe xo (project "d" (wrap_into_list 2 t)) = true /\
         tree_to_markdown xo [] "d"
           (unwrap_list (100 + pre_off [Fp]) (reparsed xctx xo xkey 100 (wrap_into_list 2 t))) =
         "# a" +++ LFS +++ LFS +++ "## b" +++ LFS /\
         tree_to_markdown xo [] "d" t = "# a" +++ LFS +++ LFS +++ "# b" +++ LFS.
Print Assumptions C10_wrap_unwrap_text_after_section_refuted.

Theorem C10_reread_spec :
  forall (o : opts) (key : string) (t : tree) (k : nat),
         doc_of_key key t = true ->
         shaped t = true ->
         forallb gstruct (project (key_parent key) t) = true ->
         spec_tree key (rr_at o k (project (key_parent key) t)) = reread (key_parent key) o t.
Proof. exact ActionsText.reread_spec. Qed.
Check C10_reread_spec :
  forall (o : opts) (key : string) (t : tree) (k : nat),
         doc_of_key key t = true ->
         shaped t = true ->
         forallb gstruct (project (key_parent key) t) = true ->
         spec_tree key (rr_at o k (project (key_parent key) t)) = reread (key_parent key) o t.
Print Assumptions C10_reread_spec.

Theorem C10_shaped_reparsed :
  forall (ctx : titles) (o : opts) (key : string) (r' : nat) (t1 : tree),
         doc_of_key key t1 = true ->
         shaped t1 = true ->
         reparse_safe o (project (key_parent key) t1) = true ->
         shaped (reparsed ctx o key r' t1) = true /\ doc_of_key key (reparsed ctx o key r' t1) = true.
Proof. exact ActionsText.shaped_reparsed. Qed.
Check C10_shaped_reparsed :
  forall (ctx : titles) (o : opts) (key : string) (r' : nat) (t1 : tree),
         doc_of_key key t1 = true ->
         shaped t1 = true ->
         reparse_safe o (project (key_parent key) t1) = true ->
         shaped (reparsed ctx o key r' t1) = true /\ doc_of_key key (reparsed ctx o key r' t1) = true.
Print Assumptions C10_shaped_reparsed.

