(* Props/C15Laws.v — property C15, the further laws (sub-properties 2 and 3 of the per-run
   check as theorems, normal forms, url shape, `.md`, the repair as `normalize`).  Only
   statements, each closed by an `exact`, pinned by a `Check`, followed by `Print Assumptions`. *)
From IweV Require Import Str RelPath RelPathFacts RelPathLaws Check_C15 RelPathLawsB.
Local Open Scope string_scope.
Local Open Scope list_scope.

(* sub-property 2, every directory text and every url text *)
Theorem C15_rewrite :
  forall u D : string,
    let K := from_rel_link_url u D in
    ends_with MD K = false ->
    from_rel_link_url (to_rel_link_url K D) D = K.
Proof. exact RelPathLaws.C15_rewrite. Qed.
Check C15_rewrite :
  forall u D : string,
    let K := from_rel_link_url u D in
    ends_with MD K = false ->
    from_rel_link_url (to_rel_link_url K D) D = K.
Print Assumptions C15_rewrite.

Theorem C15_rewrite_url :
  forall u D : string,
    let K := from_rel_link_url u D in
    ends_with MD (to_rel_link_url K D) = false ->
    from_rel_link_url (to_rel_link_url K D) D = K.
Proof. exact RelPathLaws.C15_rewrite_url. Qed.
Check C15_rewrite_url :
  forall u D : string,
    let K := from_rel_link_url u D in
    ends_with MD (to_rel_link_url K D) = false ->
    from_rel_link_url (to_rel_link_url K D) D = K.
Print Assumptions C15_rewrite_url.

(* the same law on the url as it is written: no hypothesis on the key *)
Theorem C15_rewrite_written :
  forall u D ext : string,
    ext = MD \/ ext = "" ->
    let K := from_rel_link_url u D in
    from_rel_link_url (ref_url (to_rel_link_url K D) ext) D = K.
Proof. exact RelPathLaws.C15_rewrite_written. Qed.
Check C15_rewrite_written :
  forall u D ext : string,
    ext = MD \/ ext = "" ->
    let K := from_rel_link_url u D in
    from_rel_link_url (ref_url (to_rel_link_url K D) ext) D = K.
Print Assumptions C15_rewrite_written.

Theorem C15_rewrite_md_refuted :
  exists u D, let K := from_rel_link_url u D in
    ends_with MD K = true /\ from_rel_link_url (to_rel_link_url K D) D <> K.
Proof. exact RelPathLaws.C15_rewrite_md_refuted. Qed.
Check C15_rewrite_md_refuted :
  exists u D, let K := from_rel_link_url u D in
    ends_with MD K = true /\ from_rel_link_url (to_rel_link_url K D) D <> K.
Print Assumptions C15_rewrite_md_refuted.

(* sub-property 3 *)
Theorem C15_parent :
  forall (segs : list string) (s : string),
    Forall wf_piece segs -> wf_piece s -> s <> "." ->
    key_parent (join SEPS (segs ++ [s])) = join SEPS segs.
Proof. exact RelPathLaws.C15_parent. Qed.
Check C15_parent :
  forall (segs : list string) (s : string),
    Forall wf_piece segs -> wf_piece s -> s <> "." ->
    key_parent (join SEPS (segs ++ [s])) = join SEPS segs.
Print Assumptions C15_parent.

Theorem C15_own_dir :
  forall ks : list string,
    Forall good_name ks -> ends_with MD (join SEPS ks) = false ->
    let K := join SEPS ks in
    from_rel_link_url (to_rel_link_url K (key_parent K)) (key_parent K) = K.
Proof. exact RelPathLaws.C15_own_dir. Qed.
Check C15_own_dir :
  forall ks : list string,
    Forall good_name ks -> ends_with MD (join SEPS ks) = false ->
    let K := join SEPS ks in
    from_rel_link_url (to_rel_link_url K (key_parent K)) (key_parent K) = K.
Print Assumptions C15_own_dir.

(* the same on the executable domain predicates of the per-run check *)
Theorem C15_own_dir_b :
  forall K : string,
    canonicalb K = true -> ends_with MD K = false ->
    from_rel_link_url (to_rel_link_url K (key_parent K)) (key_parent K) = K.
Proof. exact RelPathLawsB.C15_own_dir_b. Qed.
Check C15_own_dir_b :
  forall K : string,
    canonicalb K = true -> ends_with MD K = false ->
    from_rel_link_url (to_rel_link_url K (key_parent K)) (key_parent K) = K.
Print Assumptions C15_own_dir_b.

Theorem C15_roundtrip_b :
  forall K D : string,
    canonicalb K = true -> canonical_dirb D = true -> ends_with MD K = false ->
    from_rel_link_url (to_rel_link_url K D) D = K.
Proof. exact RelPathLawsB.C15_roundtrip_b. Qed.
Check C15_roundtrip_b :
  forall K D : string,
    canonicalb K = true -> canonical_dirb D = true -> ends_with MD K = false ->
    from_rel_link_url (to_rel_link_url K D) D = K.
Print Assumptions C15_roundtrip_b.

(* sub-properties 1 and 3 for the url as it is written (`ref_url`): no `.md` hypothesis *)
Theorem C15_roundtrip_written_b :
  forall K D ext : string,
    canonicalb K = true -> canonical_dirb D = true -> ext = MD \/ ext = "" ->
    from_rel_link_url (ref_url (to_rel_link_url K D) ext) D = K.
Proof. exact RelPathLawsB.C15_roundtrip_written_b. Qed.
Check C15_roundtrip_written_b :
  forall K D ext : string,
    canonicalb K = true -> canonical_dirb D = true -> ext = MD \/ ext = "" ->
    from_rel_link_url (ref_url (to_rel_link_url K D) ext) D = K.
Print Assumptions C15_roundtrip_written_b.

Theorem C15_own_dir_written_b :
  forall K ext : string,
    canonicalb K = true -> ext = MD \/ ext = "" ->
    from_rel_link_url (ref_url (to_rel_link_url K (key_parent K)) ext) (key_parent K) = K.
Proof. exact RelPathLawsB.C15_own_dir_written_b. Qed.
Check C15_own_dir_written_b :
  forall K ext : string,
    canonicalb K = true -> ext = MD \/ ext = "" ->
    from_rel_link_url (ref_url (to_rel_link_url K (key_parent K)) ext) (key_parent K) = K.
Print Assumptions C15_own_dir_written_b.

(* resolved keys are normal forms; dependence on components only *)
Theorem C15_resolve_idempotent :
  forall u D : string, normalize (from_rel_link_url u D) = from_rel_link_url u D.
Proof. exact RelPathLaws.C15_resolve_idempotent. Qed.
Check C15_resolve_idempotent :
  forall u D : string, normalize (from_rel_link_url u D) = from_rel_link_url u D.
Print Assumptions C15_resolve_idempotent.

Theorem C15_resolve_shape :
  forall u D : string,
    exists j ns, Forall good_name ns /\ from_rel_link_url u D = join SEPS (repeat ".." j ++ ns).
Proof. exact RelPathLaws.C15_resolve_shape. Qed.
Check C15_resolve_shape :
  forall u D : string,
    exists j ns, Forall good_name ns /\ from_rel_link_url u D = join SEPS (repeat ".." j ++ ns).
Print Assumptions C15_resolve_shape.

Theorem C15_resolve_components :
  forall u1 u2 D1 D2 : string,
    components (strip_md u1) = components (strip_md u2) ->
    components D1 = components D2 ->
    from_rel_link_url u1 D1 = from_rel_link_url u2 D2.
Proof. exact RelPathLaws.C15_resolve_components. Qed.
Check C15_resolve_components :
  forall u1 u2 D1 D2 : string,
    components (strip_md u1) = components (strip_md u2) ->
    components D1 = components D2 ->
    from_rel_link_url u1 D1 = from_rel_link_url u2 D2.
Print Assumptions C15_resolve_components.

Theorem C15_resolve_components_refuted :
  exists u1 u2 D, components u1 = components u2 /\ from_rel_link_url u1 D <> from_rel_link_url u2 D.
Proof. exact RelPathLaws.C15_resolve_components_refuted. Qed.
Check C15_resolve_components_refuted :
  exists u1 u2 D, components u1 = components u2 /\ from_rel_link_url u1 D <> from_rel_link_url u2 D.
Print Assumptions C15_resolve_components_refuted.

(* shape of the written url *)
Theorem C15_to_rel_shape :
  forall p ds' ks' : list string,
    Forall good_name (p ++ ds') -> Forall good_name (p ++ ks') -> diverge ds' ks' ->
    to_rel_link_url (join SEPS (p ++ ks')) (join SEPS (p ++ ds')) =
    join SEPS (repeat ".." (length ds') ++ ks').
Proof. exact RelPathLaws.C15_to_rel_shape. Qed.
Check C15_to_rel_shape :
  forall p ds' ks' : list string,
    Forall good_name (p ++ ds') -> Forall good_name (p ++ ks') -> diverge ds' ks' ->
    to_rel_link_url (join SEPS (p ++ ks')) (join SEPS (p ++ ds')) =
    join SEPS (repeat ".." (length ds') ++ ks').
Print Assumptions C15_to_rel_shape.

(* `.md`: exactly one extension is taken off *)
Theorem C15_md :
  forall u D : string, from_rel_link_url (u +++ MD) D = join_normalized D u.
Proof. exact RelPathLaws.C15_md. Qed.
Check C15_md :
  forall u D : string, from_rel_link_url (u +++ MD) D = join_normalized D u.
Print Assumptions C15_md.

Theorem C15_md_once :
  forall u D : string, ends_with MD u = false -> from_rel_link_url (u +++ MD) D = from_rel_link_url u D.
Proof. exact RelPathLaws.C15_md_once. Qed.
Check C15_md_once :
  forall u D : string, ends_with MD u = false -> from_rel_link_url (u +++ MD) D = from_rel_link_url u D.
Print Assumptions C15_md_once.

Theorem C15_md_once_refuted :
  exists u D, ends_with MD u = true /\ from_rel_link_url (u +++ MD) D <> from_rel_link_url u D.
Proof. exact RelPathLaws.C15_md_once_refuted. Qed.
Check C15_md_once_refuted :
  exists u D, ends_with MD u = true /\ from_rel_link_url (u +++ MD) D <> from_rel_link_url u D.
Print Assumptions C15_md_once_refuted.

(* file name <-> key: every key is read back from the file it is written to *)
Theorem C15_file_name_of_path :
  forall k : string, key_from_file_name (to_path k) = k.
Proof. exact RelPathLaws.C15_file_name_of_path. Qed.
Check C15_file_name_of_path :
  forall k : string, key_from_file_name (to_path k) = k.
Print Assumptions C15_file_name_of_path.

(* the repair R4 *)
Theorem C15_fix_is_normalize :
  forall u D : string, from_rel_link_url u D = normalize (from_rel_link_url_as_found u D).
Proof. exact RelPathLaws.C15_fix_is_normalize. Qed.
Check C15_fix_is_normalize :
  forall u D : string, from_rel_link_url u D = normalize (from_rel_link_url_as_found u D).
Print Assumptions C15_fix_is_normalize.
