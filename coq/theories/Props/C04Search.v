(* Props/C04Search.v - C04, order of search results: the open finding F-SEARCHTIE on the model.
   Two servers holding the same three notes - one started on them, one in which two of them were
   created later in the other order - answer the empty search with the two equally ranked paths to
   the same section in opposite orders (SearchTie.v; the per-run check compares the model's search
   with Database::global_search after every step, stage 9, and classifies such histories as class 3).
   Only statements, each closed by an `exact`, pinned by a `Check`, followed by `Print Assumptions`. *)
From Coq Require Import ZArith List.
From IweV Require Import Str Text Ast RelPath Arena Project Library Index Paths SearchTie.
Local Open Scope string_scope.
Local Open Scope list_scope.

Theorem C04_search_tie_refuted :
  search_view tie_fresh  = Ok [(2, "z", "bb t"); (2, "z", "aa t"); (0, "b", "bb"); (0, "f", "aa")] /\
  search_view tie_edited = Ok [(2, "z", "aa t"); (2, "z", "bb t"); (0, "b", "bb"); (0, "f", "aa")].
Proof. exact search_tie_refuted. Qed.
Check C04_search_tie_refuted :
  search_view tie_fresh  = Ok [(2, "z", "bb t"); (2, "z", "aa t"); (0, "b", "bb"); (0, "f", "aa")] /\
  search_view tie_edited = Ok [(2, "z", "aa t"); (2, "z", "bb t"); (0, "b", "bb"); (0, "f", "aa")].
Print Assumptions C04_search_tie_refuted.
