(* Props/C04Search.v - C04, order of search results: the former finding F-SEARCHTIE is repaired (Graph::search_paths breaks ties by search text, line and the texts of the chain). The comparator is a total order on what an entry says (C04_search_order_antisym, C04_search_ties); two states whose search entries have the same contents - two histories - answer every query alike, position by position (C04_search_content); the witness of the finding (three notes, started on them / two of them created later in the other order) and a pair that differs in the chain only answer alike after both histories (C04_search_tie_repaired, C04_search_chain_tie). The per-run check compares the model's search with Database::global_search after every step (stage 9) and incremental with fresh (sub-property 6); no class excuses a difference
   Only statements, each closed by an `exact`, pinned by a `Check`, followed by `Print Assumptions`. *)
From Coq Require Import ZArith Permutation List.
From IweV Require Import Str Text Ast RelPath Arena Project Library Index Paths PathsFacts Determinism2 SearchTie.
Local Open Scope string_scope.
Local Open Scope list_scope.

Theorem C04_search_tie_repaired :
  search_view tie_fresh =
         Ok [(2, "z", "aa t"); (2, "z", "bb t"); (0, "b", "bb"); (0, "f", "aa")] /\
         search_view tie_edited =
         Ok [(2, "z", "aa t"); (2, "z", "bb t"); (0, "b", "bb"); (0, "f", "aa")].
Proof. exact SearchTie.search_tie_repaired. Qed.
Check C04_search_tie_repaired :
  search_view tie_fresh =
         Ok [(2, "z", "aa t"); (2, "z", "bb t"); (0, "b", "bb"); (0, "f", "aa")] /\
         search_view tie_edited =
         Ok [(2, "z", "aa t"); (2, "z", "bb t"); (0, "b", "bb"); (0, "f", "aa")].
Print Assumptions C04_search_tie_repaired.

Theorem C04_search_chain_tie :
  exists names : list string,
           symbol_view chain_fresh = Ok names /\
           symbol_view chain_edited = Ok names /\ firstn 2 names = ["a • b • c"; "a b • c"].
Proof. exact SearchTie.search_chain_tie. Qed.
Check C04_search_chain_tie :
  exists names : list string,
           symbol_view chain_fresh = Ok names /\
           symbol_view chain_edited = Ok names /\ firstn 2 names = ["a • b • c"; "a b • c"].
Print Assumptions C04_search_chain_tie.

Theorem C04_search_content :
  forall (qe : bool) (score : string -> Z) (s s' : gstate) (ps ps' : list (list nat))
           (l l' : list sentry),
         sp_entries s ps = Ok l ->
         sp_entries s' ps' = Ok l' ->
         Permutation (map sp_view l) (map sp_view l') ->
         exists r r' : list spath,
           search_paths_of s ps = Ok r /\
           search_paths_of s' ps' = Ok r' /\
           map (sp_obs (gr_arena (gs_graph s))) r = map (sp_obs (gr_arena (gs_graph s'))) r' /\
           map (sp_obs (gr_arena (gs_graph s)))
             (global_search qe (map (fun p : spath => (p, score (sp_text p))) r)) =
           map (sp_obs (gr_arena (gs_graph s')))
             (global_search qe (map (fun p : spath => (p, score (sp_text p))) r')).
Proof. exact SearchTie.search_content. Qed.
Check C04_search_content :
  forall (qe : bool) (score : string -> Z) (s s' : gstate) (ps ps' : list (list nat))
           (l l' : list sentry),
         sp_entries s ps = Ok l ->
         sp_entries s' ps' = Ok l' ->
         Permutation (map sp_view l) (map sp_view l') ->
         exists r r' : list spath,
           search_paths_of s ps = Ok r /\
           search_paths_of s' ps' = Ok r' /\
           map (sp_obs (gr_arena (gs_graph s))) r = map (sp_obs (gr_arena (gs_graph s'))) r' /\
           map (sp_obs (gr_arena (gs_graph s)))
             (global_search qe (map (fun p : spath => (p, score (sp_text p))) r)) =
           map (sp_obs (gr_arena (gs_graph s')))
             (global_search qe (map (fun p : spath => (p, score (sp_text p))) r')).
Print Assumptions C04_search_content.

Theorem C04_search_content_applies :
  exists (s s' : gstate) (ps ps' : list (list nat)) (l l' : list sentry),
           tie_fresh = Ok s /\
           tie_edited = Ok s' /\
           graph_to_paths true s = Ok ps /\
           graph_to_paths true s' = Ok ps' /\
           sp_entries s ps = Ok l /\
           sp_entries s' ps' = Ok l' /\
           Permutation (map sp_view l) (map sp_view l') /\ map sp_view l <> map sp_view l'.
Proof. exact SearchTie.search_content_applies. Qed.
Check C04_search_content_applies :
  exists (s s' : gstate) (ps ps' : list (list nat)) (l l' : list sentry),
           tie_fresh = Ok s /\
           tie_edited = Ok s' /\
           graph_to_paths true s = Ok ps /\
           graph_to_paths true s' = Ok ps' /\
           sp_entries s ps = Ok l /\
           sp_entries s' ps' = Ok l' /\
           Permutation (map sp_view l) (map sp_view l') /\ map sp_view l <> map sp_view l'.
Print Assumptions C04_search_content_applies.

Theorem C04_search_order_antisym :
  forall x y : sview, sv_le x y = true -> sv_le y x = true -> x = y.
Proof. exact Determinism2.sv_le_antisym. Qed.
Check C04_search_order_antisym :
  forall x y : sview, sv_le x y = true -> sv_le y x = true -> x = y.
Print Assumptions C04_search_order_antisym.

Theorem C04_search_ties :
  forall x y : sentry, eqv sp_le x y = true <-> sp_view x = sp_view y.
Proof. exact Determinism2.sp_le_ties. Qed.
Check C04_search_ties :
  forall x y : sentry, eqv sp_le x y = true <-> sp_view x = sp_view y.
Print Assumptions C04_search_ties.

Theorem C04_search_sort_content :
  forall l l' : list sentry,
         Permutation (map sp_view l) (map sp_view l') ->
         map sp_view (stable_sort sp_le l) = map sp_view (stable_sort sp_le l').
Proof. exact Determinism2.search_sort_content. Qed.
Check C04_search_sort_content :
  forall l l' : list sentry,
         Permutation (map sp_view l) (map sp_view l') ->
         map sp_view (stable_sort sp_le l) = map sp_view (stable_sort sp_le l').
Print Assumptions C04_search_sort_content.

