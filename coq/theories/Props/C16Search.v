(* Props/C16Search.v - property C16: the first sort of the search index (Graph::search_paths, comparator repaired for F-SEARCHTIE) is a function of the entries, not of their order: permutation invariance of the whole list when no two entries say the same, equality of everything but the node ids without that premise; what ties are (Determinism2.v)
   Only statements, each closed by an `exact`, pinned by a `Check`, followed by `Print Assumptions`. *)
From Coq Require Import ZArith Permutation List.
From IweV Require Import Str Text Ast RelPath Arena Project Library Index IndexFacts Paths PathsFacts Determinism Determinism2.
Local Open Scope string_scope.
Local Open Scope list_scope.

Theorem C16_search_paths_perm :
  forall l l' : list sentry,
         Permutation l l' ->
         NoDup l ->
         (forall x y : sentry, In x l -> In y l -> sp_view x = sp_view y -> x = y) ->
         stable_sort sp_le l = stable_sort sp_le l'.
Proof. exact Determinism2.search_sort_perm. Qed.
Check C16_search_paths_perm :
  forall l l' : list sentry,
         Permutation l l' ->
         NoDup l ->
         (forall x y : sentry, In x l -> In y l -> sp_view x = sp_view y -> x = y) ->
         stable_sort sp_le l = stable_sort sp_le l'.
Print Assumptions C16_search_paths_perm.

Theorem C16_search_paths_perm_content :
  forall l l' : list sentry,
         Permutation l l' -> map sp_view (stable_sort sp_le l) = map sp_view (stable_sort sp_le l').
Proof. exact Determinism2.search_sort_perm_content. Qed.
Check C16_search_paths_perm_content :
  forall l l' : list sentry,
         Permutation l l' -> map sp_view (stable_sort sp_le l) = map sp_view (stable_sort sp_le l').
Print Assumptions C16_search_paths_perm_content.

Theorem C16_search_paths_content :
  forall (s s' : gstate) (ps ps' : list (list nat)) (l l' : list sentry),
         sp_entries s ps = Ok l ->
         sp_entries s' ps' = Ok l' ->
         Permutation (map sp_view l) (map sp_view l') ->
         exists r r' : list spath,
           search_paths_of s ps = Ok r /\
           search_paths_of s' ps' = Ok r' /\
           map (sp_obs (gr_arena (gs_graph s))) r = map (sp_obs (gr_arena (gs_graph s'))) r'.
Proof. exact Determinism2.search_paths_content. Qed.
Check C16_search_paths_content :
  forall (s s' : gstate) (ps ps' : list (list nat)) (l l' : list sentry),
         sp_entries s ps = Ok l ->
         sp_entries s' ps' = Ok l' ->
         Permutation (map sp_view l) (map sp_view l') ->
         exists r r' : list spath,
           search_paths_of s ps = Ok r /\
           search_paths_of s' ps' = Ok r' /\
           map (sp_obs (gr_arena (gs_graph s))) r = map (sp_obs (gr_arena (gs_graph s'))) r'.
Print Assumptions C16_search_paths_content.

Theorem C16_search_paths_ties :
  forall (s : gstate) (ps : list (list nat)) (r : list spath),
         search_paths_of s ps = Ok r ->
         exists l : list sentry,
           sp_entries s ps = Ok l /\
           map (fun e : spath * list string => sp_ids (fst e)) l = ps /\
           r = map fst (stable_sort sp_le l) /\
           Permutation l (stable_sort sp_le l) /\
           Sorted.StronglySorted (lep sp_le) (stable_sort sp_le l) /\
           (forall x y : sentry, eqv sp_le x y = true <-> sp_view x = sp_view y).
Proof. exact Determinism2.search_paths_of_ties. Qed.
Check C16_search_paths_ties :
  forall (s : gstate) (ps : list (list nat)) (r : list spath),
         search_paths_of s ps = Ok r ->
         exists l : list sentry,
           sp_entries s ps = Ok l /\
           map (fun e : spath * list string => sp_ids (fst e)) l = ps /\
           r = map fst (stable_sort sp_le l) /\
           Permutation l (stable_sort sp_le l) /\
           Sorted.StronglySorted (lep sp_le) (stable_sort sp_le l) /\
           (forall x y : sentry, eqv sp_le x y = true <-> sp_view x = sp_view y).
Print Assumptions C16_search_paths_ties.

Theorem C16_global_search_content :
  forall (qe : bool) (score : string -> Z) (a a' : arena) (r r' : list spath),
         map (sp_obs a) r = map (sp_obs a') r' ->
         map (sp_obs a) (global_search qe (map (fun p : spath => (p, score (sp_text p))) r)) =
         map (sp_obs a') (global_search qe (map (fun p : spath => (p, score (sp_text p))) r')).
Proof. exact Determinism2.global_search_content. Qed.
Check C16_global_search_content :
  forall (qe : bool) (score : string -> Z) (a a' : arena) (r r' : list spath),
         map (sp_obs a) r = map (sp_obs a') r' ->
         map (sp_obs a) (global_search qe (map (fun p : spath => (p, score (sp_text p))) r)) =
         map (sp_obs a') (global_search qe (map (fun p : spath => (p, score (sp_text p))) r')).
Print Assumptions C16_global_search_content.

