(* Props/C06.v — formatting refreshes link titles and never retargets or rewrites a link. *)
From IweV Require Import Check_Norm NormFacts RelPathFacts.
Local Open Scope string_scope.
Local Open Scope list_scope.

(* Title refresh (GraphInline::normalize) keeps the destination and the kind of every link and
   image of a line, in order, for every title table and every inline tree. *)
Theorem C06_sites_kept :
  forall (ctx : titles) (i : inline), top_sites (normalize_inline ctx i) = top_sites i.
Proof. exact refresh_keeps_sites. Qed.
Check C06_sites_kept : forall (ctx : titles) (i : inline), top_sites (normalize_inline ctx i) = top_sites i.
Print Assumptions C06_sites_kept.

(* The text rule, for every link: a regular note link gets exactly the title of its key when
   there is one and keeps its text otherwise; a piped wiki link keeps its text; a bare wiki link
   has none; an external link is returned unchanged. *)
Theorem C06_text_rule :
  forall (ctx : titles) (url title : string) (lt : link_type) (l : list inline),
  normalize_inline ctx (Link url title lt l) =
  if is_ref_url url then
    match lt with
    | Regular => match ctx (key_name url) with
                 | Some t => Link url title Regular [Str t]
                 | None => Link url title Regular l
                 end
    | WikiLink => Link url title WikiLink []
    | WikiLinkPiped => Link url title WikiLinkPiped l
    end
  else Link url title lt l.
Proof. exact refresh_text_rule. Qed.
Check C06_text_rule :
  forall (ctx : titles) (url title : string) (lt : link_type) (l : list inline),
  normalize_inline ctx (Link url title lt l) =
  if is_ref_url url then
    match lt with
    | Regular => match ctx (key_name url) with
                 | Some t => Link url title Regular [Str t]
                 | None => Link url title Regular l
                 end
    | WikiLink => Link url title WikiLink []
    | WikiLinkPiped => Link url title WikiLinkPiped l
    end
  else Link url title lt l.
Print Assumptions C06_text_rule.

(* A block reference is stored as the key it resolves to and written back as the url relative
   to the note's directory; that url resolves, from the same directory, to the same key
   (for canonical keys and directories of any depth; this is C15's law). *)
Theorem C06_block_reference_target :
  forall ks ds : list string,
    Forall good_name ks -> Forall good_name ds -> ends_with MD (join SEPS ks) = false ->
    forall text rt,
    match project (join SEPS ds) (T None (NRef (join SEPS ks) text rt) []) with
    | [GPara [Link url _ rt' _]] => from_rel_link_url url (join SEPS ds) = join SEPS ks /\ rt' = rt
    | _ => False
    end.
Proof.
  intros ks ds Hk Hd Hmd text rt. cbn [project project_node].
  split; [now apply roundtrip_canonical | reflexivity].
Qed.
Check C06_block_reference_target :
  forall ks ds : list string,
    Forall good_name ks -> Forall good_name ds -> ends_with MD (join SEPS ks) = false ->
    forall text rt,
    match project (join SEPS ds) (T None (NRef (join SEPS ks) text rt) []) with
    | [GPara [Link url _ rt' _]] => from_rel_link_url url (join SEPS ds) = join SEPS ks /\ rt' = rt
    | _ => False
    end.
Print Assumptions C06_block_reference_target.
