(* Props/C11.v — property C11: no edit notification is lost, whatever requests are in flight.
   Statements about the router LTS of Router.v; every theorem quantifies over the server type,
   the notification / request / value types, `apply` and `handler` (any functions), every list
   of messages and every schedule (inductive reachability, no bound). *)
From IweV Require Import Str Arena Router RouterFacts.
From Coq Require Import Permutation.
Local Open Scope list_scope.

(* Repaired notification rule (R10: the loop waits for Arc::strong_count = 1): in every state
   no step can leave (the server is idle: inbox consumed up to `exit`, no live worker, loop not
   waiting) the server is the fold of ALL notifications the client sent, in order.  Holds for
   both worker rules. *)
Theorem C11_no_loss :
  forall (server note req val : Type) (apply : server -> note -> server)
         (handler : server -> req -> res val) (msgs : list (msg note req)) (s0 : server)
         (wv : variant) (tr : list label) (s : state server note req val),
    steps apply handler Repaired wv (init msgs s0) tr s ->
    quiescent apply handler Repaired wv s ->
    srv s = fold_left apply (notes_of (served msgs)) s0.
Proof. exact no_loss. Qed.

Check C11_no_loss :
  forall (server note req val : Type) (apply : server -> note -> server)
         (handler : server -> req -> res val) (msgs : list (msg note req)) (s0 : server)
         (wv : variant) (tr : list label) (s : state server note req val),
    steps apply handler Repaired wv (init msgs s0) tr s ->
    quiescent apply handler Repaired wv s ->
    srv s = fold_left apply (notes_of (served msgs)) s0.
Print Assumptions C11_no_loss.

(* ... which for the server "key -> text" is: each note equals the last text sent for it. *)
Theorem C11_last_text :
  forall (req val : Type) (handler : kv_server -> req -> res val)
         (msgs : list (msg (string * string) req)) (s0 : kv_server) (wv : variant)
         (tr : list label) (s : state kv_server (string * string) req val) (k : string),
    steps kv_apply handler Repaired wv (init msgs s0) tr s ->
    quiescent kv_apply handler Repaired wv s ->
    srv s k = match last_write k (notes_of (served msgs)) with Some t => Some t | None => s0 k end.
Proof. exact last_text_wins. Qed.

Check C11_last_text :
  forall (req val : Type) (handler : kv_server -> req -> res val)
         (msgs : list (msg (string * string) req)) (s0 : kv_server) (wv : variant)
         (tr : list label) (s : state kv_server (string * string) req val) (k : string),
    steps kv_apply handler Repaired wv (init msgs s0) tr s ->
    quiescent kv_apply handler Repaired wv s ->
    srv s k = match last_write k (notes_of (served msgs)) with Some t => Some t | None => s0 k end.
Print Assumptions C11_last_text.

(* Read your writes: whatever the client receives for the request at inbox position p was
   computed by the handler from the server state that contains exactly the notifications sent
   before p — however many other workers were being started, computed, answered or cleaned up. *)
Theorem C11_read_your_writes :
  forall (server note req val : Type) (apply : server -> note -> server)
         (handler : server -> req -> res val) (msgs : list (msg note req)) (s0 : server)
         (wv : variant) (tr : list label) (s : state server note req val) (o : out val),
    steps apply handler Repaired wv (init msgs s0) tr s ->
    In o (outbox s) ->
    exists q, nth_error msgs (out_pos o) = Some (MReq q)
              /\ In o (emit wv (out_pos o) q (compute handler (server_at apply msgs s0 (out_pos o)) q)).
Proof. exact read_your_writes. Qed.

Check C11_read_your_writes :
  forall (server note req val : Type) (apply : server -> note -> server)
         (handler : server -> req -> res val) (msgs : list (msg note req)) (s0 : server)
         (wv : variant) (tr : list label) (s : state server note req val) (o : out val),
    steps apply handler Repaired wv (init msgs s0) tr s ->
    In o (outbox s) ->
    exists q, nth_error msgs (out_pos o) = Some (MReq q)
              /\ In o (emit wv (out_pos o) q (compute handler (server_at apply msgs s0 (out_pos o)) q)).
Print Assumptions C11_read_your_writes.

(* the same for a worker that has computed but not yet answered *)
Theorem C11_computed_from_prefix :
  forall (server note req val : Type) (apply : server -> note -> server)
         (handler : server -> req -> res val) (msgs : list (msg note req)) (s0 : server)
         (wv : variant) (tr : list label) (s : state server note req val)
         (w : worker req val) (r : res (option val)),
    steps apply handler Repaired wv (init msgs s0) tr s ->
    In w (live s) -> w_phase w = Computed r ->
    nth_error msgs (w_pos w) = Some (MReq (w_req w))
    /\ r = compute handler (server_at apply msgs s0 (w_pos w)) (w_req w).
Proof. exact computed_from_prefix. Qed.

Check C11_computed_from_prefix :
  forall (server note req val : Type) (apply : server -> note -> server)
         (handler : server -> req -> res val) (msgs : list (msg note req)) (s0 : server)
         (wv : variant) (tr : list label) (s : state server note req val)
         (w : worker req val) (r : res (option val)),
    steps apply handler Repaired wv (init msgs s0) tr s ->
    In w (live s) -> w_phase w = Computed r ->
    nth_error msgs (w_pos w) = Some (MReq (w_req w))
    /\ r = compute handler (server_at apply msgs s0 (w_pos w)) (w_req w).
Print Assumptions C11_computed_from_prefix.

(* Invariants, for every variant of both rules: the strong count is 1 + the number of live
   workers; and (repaired notification rule) the server — with the notification the loop is
   holding while it waits — is the fold of the notifications taken so far. *)
Theorem C11_arc_invariant :
  forall (server note req val : Type) (apply : server -> note -> server)
         (handler : server -> req -> res val) (msgs : list (msg note req)) (s0 : server)
         (nv wv : variant) (tr : list label) (s : state server note req val),
    steps apply handler nv wv (init msgs s0) tr s -> arc s = 1 + length (live s).
Proof. exact arc_invariant. Qed.

Check C11_arc_invariant :
  forall (server note req val : Type) (apply : server -> note -> server)
         (handler : server -> req -> res val) (msgs : list (msg note req)) (s0 : server)
         (nv wv : variant) (tr : list label) (s : state server note req val),
    steps apply handler nv wv (init msgs s0) tr s -> arc s = 1 + length (live s).
Print Assumptions C11_arc_invariant.

Theorem C11_server_invariant :
  forall (server note req val : Type) (apply : server -> note -> server)
         (handler : server -> req -> res val) (msgs : list (msg note req)) (s0 : server)
         (wv : variant) (tr : list label) (s : state server note req val),
    steps apply handler Repaired wv (init msgs s0) tr s ->
    match waiting s with None => srv s | Some n => apply (srv s) n end
    = fold_left apply (notes_of (firstn (taken s) msgs)) s0.
Proof. exact server_invariant. Qed.

Check C11_server_invariant :
  forall (server note req val : Type) (apply : server -> note -> server)
         (handler : server -> req -> res val) (msgs : list (msg note req)) (s0 : server)
         (wv : variant) (tr : list label) (s : state server note req val),
    steps apply handler Repaired wv (init msgs s0) tr s ->
    match waiting s with None => srv s | Some n => apply (srv s) n end
    = fold_left apply (notes_of (firstn (taken s) msgs)) s0.
Print Assumptions C11_server_invariant.

(* No deadlock, for every variant: in every reachable state (1) some label is enabled unless
   the state is quiescent, (2) every live worker can take its next step, (3) the loop is blocked
   only while it holds a notification, and then (4) only while arc > 1 with a live worker,
   (5) the state can be run to quiescence, (6) in at most [measure] steps (every run is finite). *)
Theorem C11_no_deadlock :
  forall (server note req val : Type) (apply : server -> note -> server)
         (handler : server -> req -> res val) (msgs : list (msg note req)) (s0 : server)
         (nv wv : variant) (tr : list label) (s : state server note req val),
    steps apply handler nv wv (init msgs s0) tr s ->
    (quiescentb s = false -> exists l s', step apply handler nv wv s l = Some s')
    /\ (forall w, In w (live s) -> exists s', step apply handler nv wv s (next_label w) = Some s')
    /\ (stopped s = false -> inbox s <> [] -> step apply handler nv wv s LoopTake = None ->
        exists n, waiting s = Some n)
    /\ (forall n, waiting s = Some n -> step apply handler nv wv s LoopResume = None ->
        1 < arc s /\ live s <> [])
    /\ (exists tr' s', steps apply handler nv wv s tr' s' /\ quiescent apply handler nv wv s')
    /\ (forall tr' s', steps apply handler nv wv s tr' s' -> length tr' <= measure s).
Proof. exact no_deadlock. Qed.

Check C11_no_deadlock :
  forall (server note req val : Type) (apply : server -> note -> server)
         (handler : server -> req -> res val) (msgs : list (msg note req)) (s0 : server)
         (nv wv : variant) (tr : list label) (s : state server note req val),
    steps apply handler nv wv (init msgs s0) tr s ->
    (quiescentb s = false -> exists l s', step apply handler nv wv s l = Some s')
    /\ (forall w, In w (live s) -> exists s', step apply handler nv wv s (next_label w) = Some s')
    /\ (stopped s = false -> inbox s <> [] -> step apply handler nv wv s LoopTake = None ->
        exists n, waiting s = Some n)
    /\ (forall n, waiting s = Some n -> step apply handler nv wv s LoopResume = None ->
        1 < arc s /\ live s <> [])
    /\ (exists tr' s', steps apply handler nv wv s tr' s' /\ quiescent apply handler nv wv s')
    /\ (forall tr' s', steps apply handler nv wv s tr' s' -> length tr' <= measure s).
Print Assumptions C11_no_deadlock.

(* Only the loop creates clones (and only when it takes a request); while the loop waits it
   takes nothing, so the count cannot grow: the wait of R10 ends. *)
Theorem C11_only_loop_clones :
  forall (server note req val : Type) (apply : server -> note -> server)
         (handler : server -> req -> res val) (nv wv : variant)
         (s s' : state server note req val) (l : label),
    step apply handler nv wv s l = Some s' ->
    (arc s < arc s' -> l = LoopTake /\ exists q rest, inbox s = MReq q :: rest)
    /\ (forall n, waiting s = Some n -> l <> LoopTake /\ arc s' <= arc s).
Proof. exact loop_clones. Qed.

Check C11_only_loop_clones :
  forall (server note req val : Type) (apply : server -> note -> server)
         (handler : server -> req -> res val) (nv wv : variant)
         (s s' : state server note req val) (l : label),
    step apply handler nv wv s l = Some s' ->
    (arc s < arc s' -> l = LoopTake /\ exists q rest, inbox s = MReq q :: rest)
    /\ (forall n, waiting s = Some n -> l <> LoopTake /\ arc s' <= arc s).
Print Assumptions C11_only_loop_clones.

(* As found (Arc::get_mut(..).unwrap() under catch_unwind): one request still alive when the
   didChange arrives, and the edit is gone — the server is idle with the old text. *)
Theorem C11_as_found_refuted :
  exists s, steps ex_apply ex_handler AsFound Repaired (init ex11_msgs 0) ex11_sched s
            /\ quiescent ex_apply ex_handler AsFound Repaired s
            /\ srv s = 0 /\ fold_left ex_apply (notes_of (served ex11_msgs)) 0 = 7 /\ dropped s = [1].
Proof. exact as_found_loses_edit. Qed.

Check C11_as_found_refuted :
  exists s, steps ex_apply ex_handler AsFound Repaired (init ex11_msgs 0) ex11_sched s
            /\ quiescent ex_apply ex_handler AsFound Repaired s
            /\ srv s = 0 /\ fold_left ex_apply (notes_of (served ex11_msgs)) 0 = 7 /\ dropped s = [1].
Print Assumptions C11_as_found_refuted.

(* the hypotheses are satisfiable by a non-trivial run: the same messages, the same schedule
   plus the end of the wait, under the repaired rule: the edit lands, the request was answered
   from the state before it *)
Example C11_nonvacuous :
  exists s, steps ex_apply ex_handler Repaired Repaired (init ex11_msgs 0)
              [LoopTake; LoopTake; WStart 0; WCompute 0; WRespond 0; WExit 0; LoopResume] s
            /\ srv s = 7 /\ outbox s = [Resp 0 1%N (BResult 0)].
Proof. exact repaired_keeps_edit. Qed.
