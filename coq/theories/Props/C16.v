(* Props/C16.v — results do not depend on thread count, load order or hash seeds.
   The logic part is a theorem: the order in which the notes of a library arrive cannot change
   the graph `Graph::import` builds.  The runtime part (separate processes with fresh hash
   seeds x rayon pool sizes x insertion orders) cannot be a theorem; it is exercised on every
   run and the dumps are compared in Coq (Check_C16.v). *)
From IweV Require Import Str Text Ast RelPath Arena Project Library Determinism.
From Coq Require Import Permutation.
Local Open Scope string_scope.
Local Open Scope list_scope.

(* For every library state and every permutation of it (HashMap iteration order, order of file
   reads, any schedule of the parallel parse), with distinct note names: import builds the very
   same graph - arena slot by slot, node ids included, keys, line maps, titles, metadata. *)
Theorem C16_import_order :
  forall s s' : list note,
    Permutation s s' -> NoDup (map note_name s) -> import_state s = import_state s'.
Proof. exact import_order_irrelevant. Qed.
Check C16_import_order :
  forall s s' : list note,
    Permutation s s' -> NoDup (map note_name s) -> import_state s = import_state s'.
Print Assumptions C16_import_order.

(* The sort itself: for any key function, sorting two permutations of a list with distinct keys
   gives the same list (uniqueness of the sorted permutation under Rust's byte-wise `str` order). *)
Theorem C16_sort_unique :
  forall (A : Type) (key : A -> string) (l l' : list A),
    Permutation l l' -> NoDup (map key l) -> sort_by_key key l = sort_by_key key l'.
Proof. exact @sort_of_permutation. Qed.
Check C16_sort_unique :
  forall (A : Type) (key : A -> string) (l l' : list A),
    Permutation l l' -> NoDup (map key l) -> sort_by_key key l = sort_by_key key l'.
Print Assumptions C16_sort_unique.

(* rayon is only used through order-preserving `par_iter().map(f).collect()`: whatever the
   partition into chunks, the result is the sequential map. *)
Theorem C16_par_map :
  forall (A B : Type) (f : A -> B) (chunks : list (list A)),
    par_map f chunks = map f (concat chunks).
Proof. exact @par_map_is_map. Qed.
Check C16_par_map :
  forall (A B : Type) (f : A -> B) (chunks : list (list A)),
    par_map f chunks = map f (concat chunks).
Print Assumptions C16_par_map.

(* non-vacuity: a three-note state in two orders *)
Example C16_example :
  let s := [("b", None, [DPara (0,1) [Str "x"]]); ("a", None, []); ("d/c", Some "m", [])] : list note in
  NoDup (map note_name s) /\ map note_name (sort_by_key note_name s) = ["a"; "b"; "d/c"] /\
  import_state s = import_state (rev s).
Proof.
  cbn zeta. split; [repeat constructor; cbn; intuition discriminate|]. split; reflexivity.
Qed.
