(* Props/C12Resolve.v - property C12: the exact panic domain of codeAction/resolve (ActionsTotal.v)
   Only statements, each closed by an `exact`, pinned by a `Check`, followed by `Print Assumptions`. *)
From Coq Require Import ZArith Permutation List.
From IweV Require Import Str Text Ast RelPath Arena ArenaWF ArenaFacts Project Library TreeOps TreeOpsFacts Actions ActFacts ForestFacts Index Reachable ActionsTotal ActionsGraph.
Local Open Scope string_scope.
Local Open Scope list_scope.

Theorem C12_resolve_panic_domain :
  forall (cx : actx) (k : akind) (kg : keygen) (target : nat),
         (k = SectionExtract ->
          forall (key : string) (tree0 : tree),
          cx_key_of cx target = Ok key -> cx_collect cx key = Ok tree0 -> ids_distinct tree0 = true) ->
         is_ok (handle_resolve cx k kg target) = resolve_domain cx k kg target.
Proof. exact ActionsTotal.C12_resolve_panic_domain. Qed.
Check C12_resolve_panic_domain :
  forall (cx : actx) (k : akind) (kg : keygen) (target : nat),
         (k = SectionExtract ->
          forall (key : string) (tree0 : tree),
          cx_key_of cx target = Ok key -> cx_collect cx key = Ok tree0 -> ids_distinct tree0 = true) ->
         is_ok (handle_resolve cx k kg target) = resolve_domain cx k kg target.
Print Assumptions C12_resolve_panic_domain.

Theorem C12_not_offered_panics :
  forall (cx : actx) (k : akind) (kg : keygen) (target : nat),
         k <> InlineSection ->
         k <> InlineQuote ->
         offered cx k target = false -> is_ok (handle_resolve cx k kg target) = false.
Proof. exact ActionsTotal.C12_not_offered_panics. Qed.
Check C12_not_offered_panics :
  forall (cx : actx) (k : akind) (kg : keygen) (target : nat),
         k <> InlineSection ->
         k <> InlineQuote ->
         offered cx k target = false -> is_ok (handle_resolve cx k kg target) = false.
Print Assumptions C12_not_offered_panics.

Theorem C12_inline_not_offered_domain :
  forall (cx : actx) (k : akind) (kg : keygen) (target : nat) (key : string) (tree0 : tree),
         k = InlineSection \/ k = InlineQuote ->
         cx_key_of cx target = Ok key ->
         cx_collect cx key = Ok tree0 ->
         offered cx k target = false ->
         is_ok (handle_resolve cx k kg target) =
         resolvable cx k kg tree0 target &&
         ((reference_key tree0 target =? key) || negb (cx_exists cx (reference_key tree0 target))).
Proof. exact ActionsTotal.C12_inline_not_offered_domain. Qed.
Check C12_inline_not_offered_domain :
  forall (cx : actx) (k : akind) (kg : keygen) (target : nat) (key : string) (tree0 : tree),
         k = InlineSection \/ k = InlineQuote ->
         cx_key_of cx target = Ok key ->
         cx_collect cx key = Ok tree0 ->
         offered cx k target = false ->
         is_ok (handle_resolve cx k kg target) =
         resolvable cx k kg tree0 target &&
         ((reference_key tree0 target =? key) || negb (cx_exists cx (reference_key tree0 target))).
Print Assumptions C12_inline_not_offered_domain.

