(* Props/C03Reader.v - property C03: the reader's stack machine (reader.rs + document.rs append_inline, append_block) is total exactly on the grammar inG; conventional grammar inG_doc; every panic site has a shortest witness outside the grammar (ReaderTotal.v)
   Only statements, each closed by an `exact`, pinned by a `Check`, followed by `Print Assumptions`. *)
From Coq Require Import ZArith Permutation List.
From IweV Require Import Str Text Ast Arena Pos PosFacts ReaderTotal.
Local Open Scope string_scope.
Local Open Scope list_scope.

Theorem C03_reader_total :
  forall (M : mode) (evs : list ev),
         inG evs = true -> exists st : rst, run_events M rst0 evs = Ok st.
Proof. exact ReaderTotal.C03_reader_total. Qed.
Check C03_reader_total :
  forall (M : mode) (evs : list ev),
         inG evs = true -> exists st : rst, run_events M rst0 evs = Ok st.
Print Assumptions C03_reader_total.

Theorem C03_reader_total_blocks :
  forall (M : mode) (evs : list ev),
         inG evs = true -> exists bs : list pblock, read_events M evs = Ok bs.
Proof. exact ReaderTotal.C03_reader_total_blocks. Qed.
Check C03_reader_total_blocks :
  forall (M : mode) (evs : list ev),
         inG evs = true -> exists bs : list pblock, read_events M evs = Ok bs.
Print Assumptions C03_reader_total_blocks.

Theorem C03_reader_exact :
  forall (M : mode) (evs : list ev),
         inG evs = false -> exists s : string, run_events M rst0 evs = Panic s /\ In s live_sites.
Proof. exact ReaderTotal.C03_reader_exact. Qed.
Check C03_reader_exact :
  forall (M : mode) (evs : list ev),
         inG evs = false -> exists s : string, run_events M rst0 evs = Panic s /\ In s live_sites.
Print Assumptions C03_reader_exact.

Theorem C03_reader_dead_sites :
  forall (M : mode) (evs : list ev) (s : string),
         run_events M rst0 evs = Panic s -> In s live_sites /\ ~ In s dead_sites.
Proof. exact ReaderTotal.C03_reader_dead_sites. Qed.
Check C03_reader_dead_sites :
  forall (M : mode) (evs : list ev) (s : string),
         run_events M rst0 evs = Panic s -> In s live_sites /\ ~ In s dead_sites.
Print Assumptions C03_reader_dead_sites.

Theorem C03_reader_total_head :
  forall (M : mode) (evs : list ev),
         reader_grammar_ok evs = true -> exists hs : bool * rst, run_h M (false, rst0) evs = Ok hs.
Proof. exact ReaderTotal.C03_reader_total_head. Qed.
Check C03_reader_total_head :
  forall (M : mode) (evs : list ev),
         reader_grammar_ok evs = true -> exists hs : bool * rst, run_h M (false, rst0) evs = Ok hs.
Print Assumptions C03_reader_total_head.

Theorem C03_reader_exact_head :
  forall (M : mode) (evs : list ev),
         reader_grammar_ok evs = false ->
         exists s : string, run_h M (false, rst0) evs = Panic s /\ In s live_sites.
Proof. exact ReaderTotal.C03_reader_exact_head. Qed.
Check C03_reader_exact_head :
  forall (M : mode) (evs : list ev),
         reader_grammar_ok evs = false ->
         exists s : string, run_h M (false, rst0) evs = Panic s /\ In s live_sites.
Print Assumptions C03_reader_exact_head.

Theorem C03_reader_total_doc :
  forall (M : mode) (evs : list ev),
         inG_doc evs = true ->
         exists st : rst,
           run_events M rst0 evs = Ok st /\ r_inl st = [] /\ r_blk st = [] /\ r_meta st = false.
Proof. exact ReaderTotal.C03_reader_total_doc. Qed.
Check C03_reader_total_doc :
  forall (M : mode) (evs : list ev),
         inG_doc evs = true ->
         exists st : rst,
           run_events M rst0 evs = Ok st /\ r_inl st = [] /\ r_blk st = [] /\ r_meta st = false.
Print Assumptions C03_reader_total_doc.

Theorem C03_inG_doc_sub :
  forall evs : list ev, inG_doc evs = true -> inG evs = true.
Proof. exact ReaderTotal.inG_doc_sub. Qed.
Check C03_inG_doc_sub :
  forall evs : list ev, inG_doc evs = true -> inG evs = true.
Print Assumptions C03_inG_doc_sub.

Theorem C03_reader_refuted_shortest :
  forall (M : mode) (e : ev) (s : string),
         step M rst0 e = Panic s ->
         In s ["pop_inline: unwrap on None"; "pop_block: unwrap on None"; "to have element"].
Proof. exact ReaderTotal.C03_reader_refuted_shortest. Qed.
Check C03_reader_refuted_shortest :
  forall (M : mode) (e : ev) (s : string),
         step M rst0 e = Panic s ->
         In s ["pop_inline: unwrap on None"; "pop_block: unwrap on None"; "to have element"].
Print Assumptions C03_reader_refuted_shortest.

Theorem C03_reader_refuted_no_item :
  refutes [EStart TList 0 1; EText 1 0 1] "append_inline: no item".
Proof. exact ReaderTotal.C03_reader_refuted_no_item. Qed.
Check C03_reader_refuted_no_item :
  refutes [EStart TList 0 1; EText 1 0 1] "append_inline: no item".
Print Assumptions C03_reader_refuted_no_item.

Theorem C03_reader_refuted_pop_block :
  refutes [EEnd TPara] "pop_block: unwrap on None".
Proof. exact ReaderTotal.C03_reader_refuted_pop_block. Qed.
Check C03_reader_refuted_pop_block :
  refutes [EEnd TPara] "pop_block: unwrap on None".
Print Assumptions C03_reader_refuted_pop_block.

