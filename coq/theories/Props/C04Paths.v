(* Props/C04Paths.v - property C04: the outline paths as chains of heading texts do not depend on the edit history; their order does (PathsHistory.v)
   Only statements, each closed by an `exact`, pinned by a `Check`, followed by `Print Assumptions`. *)
From Coq Require Import ZArith Permutation List.
From IweV Require Import Str Text Ast RelPath Arena ArenaWF ArenaFacts Project Library LibraryFacts Index IndexFacts IndexHistory Paths PathsFacts HistoryWF HistoryText Reachable PathsHistory.
Local Open Scope string_scope.
Local Open Scope list_scope.

Theorem C04_paths_no_history :
  forall (notes : list (string * option string * list dblock)) (ops : list op)
           (notes' : list (string * option string * list dblock)) (ops' : list op) 
           (s s' : gstate) (ps ps' : list (list nat)),
         distinct_keys notes ->
         distinct_keys notes' ->
         (forall k : string,
          blocks_of (final_texts notes ops) k = blocks_of (final_texts notes' ops') k) ->
         reached notes ops s ->
         reached notes' ops' s' ->
         graph_to_paths true s = Ok ps ->
         graph_to_paths true s' = Ok ps' ->
         Permutation (map (texts_of (arena_of s)) ps) (map (texts_of (arena_of s')) ps').
Proof. exact PathsHistory.C04_paths_no_history. Qed.
Check C04_paths_no_history :
  forall (notes : list (string * option string * list dblock)) (ops : list op)
           (notes' : list (string * option string * list dblock)) (ops' : list op) 
           (s s' : gstate) (ps ps' : list (list nat)),
         distinct_keys notes ->
         distinct_keys notes' ->
         (forall k : string,
          blocks_of (final_texts notes ops) k = blocks_of (final_texts notes' ops') k) ->
         reached notes ops s ->
         reached notes' ops' s' ->
         graph_to_paths true s = Ok ps ->
         graph_to_paths true s' = Ok ps' ->
         Permutation (map (texts_of (arena_of s)) ps) (map (texts_of (arena_of s')) ps').
Print Assumptions C04_paths_no_history.

Theorem C04_paths_no_history_runs :
  forall (notes : list (string * option string * list dblock)) (ops : list op)
           (notes' : list (string * option string * list dblock)) (ops' : list op),
         distinct_keys notes ->
         distinct_keys notes' ->
         (forall k : string,
          blocks_of (final_texts notes ops) k = blocks_of (final_texts notes' ops') k) ->
         exists (s s' : gstate) (ps ps' : list (list nat)),
           reached notes ops s /\
           reached notes' ops' s' /\
           graph_to_paths true s = Ok ps /\
           graph_to_paths true s' = Ok ps' /\
           NoDup ps /\
           NoDup ps' /\
           (forall p : list nat, In p ps -> exists ts : list string, texts_of (arena_of s) p = Ok ts) /\
           (forall p : list nat,
            In p ps' -> exists ts : list string, texts_of (arena_of s') p = Ok ts) /\
           Permutation (map (texts_of (arena_of s)) ps) (map (texts_of (arena_of s')) ps').
Proof. exact PathsHistory.C04_paths_no_history_runs. Qed.
Check C04_paths_no_history_runs :
  forall (notes : list (string * option string * list dblock)) (ops : list op)
           (notes' : list (string * option string * list dblock)) (ops' : list op),
         distinct_keys notes ->
         distinct_keys notes' ->
         (forall k : string,
          blocks_of (final_texts notes ops) k = blocks_of (final_texts notes' ops') k) ->
         exists (s s' : gstate) (ps ps' : list (list nat)),
           reached notes ops s /\
           reached notes' ops' s' /\
           graph_to_paths true s = Ok ps /\
           graph_to_paths true s' = Ok ps' /\
           NoDup ps /\
           NoDup ps' /\
           (forall p : list nat, In p ps -> exists ts : list string, texts_of (arena_of s) p = Ok ts) /\
           (forall p : list nat,
            In p ps' -> exists ts : list string, texts_of (arena_of s') p = Ok ts) /\
           Permutation (map (texts_of (arena_of s)) ps) (map (texts_of (arena_of s')) ps').
Print Assumptions C04_paths_no_history_runs.

Theorem C04_paths_fresh_import :
  forall (notes : list (string * option string * list dblock)) (ops : list op)
           (fresh : list (string * option string * list dblock)),
         distinct_keys notes ->
         distinct_keys fresh ->
         (forall k : string,
          blocks_of (last_op (ops_of fresh)) k = blocks_of (final_texts notes ops) k) ->
         exists (s s' : gstate) (ps ps' : list (list nat)),
           reached notes ops s /\
           import_state_v true fresh = Ok s' /\
           graph_to_paths true s = Ok ps /\
           graph_to_paths true s' = Ok ps' /\
           Permutation (map (texts_of (arena_of s)) ps) (map (texts_of (arena_of s')) ps').
Proof. exact PathsHistory.C04_paths_fresh_import. Qed.
Check C04_paths_fresh_import :
  forall (notes : list (string * option string * list dblock)) (ops : list op)
           (fresh : list (string * option string * list dblock)),
         distinct_keys notes ->
         distinct_keys fresh ->
         (forall k : string,
          blocks_of (last_op (ops_of fresh)) k = blocks_of (final_texts notes ops) k) ->
         exists (s s' : gstate) (ps ps' : list (list nat)),
           reached notes ops s /\
           import_state_v true fresh = Ok s' /\
           graph_to_paths true s = Ok ps /\
           graph_to_paths true s' = Ok ps' /\
           Permutation (map (texts_of (arena_of s)) ps) (map (texts_of (arena_of s')) ps').
Print Assumptions C04_paths_fresh_import.

Theorem C04_paths_iso :
  forall (s s' : gstate) (f f' : spec) (ps ps' : list (list nat)),
         Inv s ->
         Inv s' ->
         tree_inv (gs_graph s) f ->
         tree_inv (gs_graph s') f' ->
         (forall k : string, blocks_of f k = blocks_of f' k) ->
         graph_to_paths true s = Ok ps ->
         graph_to_paths true s' = Ok ps' ->
         Permutation (map (texts_of (arena_of s)) ps) (map (texts_of (arena_of s')) ps').
Proof. exact PathsHistory.paths_iso. Qed.
Check C04_paths_iso :
  forall (s s' : gstate) (f f' : spec) (ps ps' : list (list nat)),
         Inv s ->
         Inv s' ->
         tree_inv (gs_graph s) f ->
         tree_inv (gs_graph s') f' ->
         (forall k : string, blocks_of f k = blocks_of f' k) ->
         graph_to_paths true s = Ok ps ->
         graph_to_paths true s' = Ok ps' ->
         Permutation (map (texts_of (arena_of s)) ps) (map (texts_of (arena_of s')) ps').
Print Assumptions C04_paths_iso.

Theorem C04_paths_order_refuted :
  exists
           (notes : list (string * option string * list dblock)) (ops : list op) 
         (notes' : list (string * option string * list dblock)) (ops' : list op) 
         (s s' : gstate) (ps ps' : list (list nat)),
           distinct_keys notes /\
           distinct_keys notes' /\
           (forall k : string, final_texts notes ops k = final_texts notes' ops' k) /\
           reached notes ops s /\
           reached notes' ops' s' /\
           graph_to_paths true s = Ok ps /\
           graph_to_paths true s' = Ok ps' /\
           map (texts_of (arena_of s)) ps = [Ok ["Y"]; Ok ["X"]] /\
           map (texts_of (arena_of s')) ps' = [Ok ["X"]; Ok ["Y"]].
Proof. exact PathsHistory.C04_paths_order_refuted. Qed.
Check C04_paths_order_refuted :
  exists
           (notes : list (string * option string * list dblock)) (ops : list op) 
         (notes' : list (string * option string * list dblock)) (ops' : list op) 
         (s s' : gstate) (ps ps' : list (list nat)),
           distinct_keys notes /\
           distinct_keys notes' /\
           (forall k : string, final_texts notes ops k = final_texts notes' ops' k) /\
           reached notes ops s /\
           reached notes' ops' s' /\
           graph_to_paths true s = Ok ps /\
           graph_to_paths true s' = Ok ps' /\
           map (texts_of (arena_of s)) ps = [Ok ["Y"]; Ok ["X"]] /\
           map (texts_of (arena_of s')) ps' = [Ok ["X"]; Ok ["Y"]].
Print Assumptions C04_paths_order_refuted.

