(* Props/C06Links.v — C06 on whole notes and whole libraries (LinksFacts.v): the link occurrences of the blocks
   iwe writes correspond one to one, in document order, to those of the blocks it read, under the rule
   [link_rule] (kind, destination / resolved key, text = title or unchanged); at every reachable state of a
   library; and through the re-read of the written text (Reparse.rr) on the class [occ_stable]. *)
From IweV Require Import Str Text Ast RelPath Arena Project Library SectionsSpec HistoryWF HistoryText Reparse LinksFacts.
Local Open Scope string_scope.
Local Open Scope list_scope.

Theorem C06_note_links :
  forall (ctx : titles) (key : string) (bs : list dblock),
  Forall2 (link_rule ctx (key_parent key)) (dlinks bs)
          (glinks (project (key_parent key) (tmap (norm_node ctx) (spec_tree key bs)))).
Proof. exact LinksFacts.C06_note_links. Qed.
Check C06_note_links :
  forall (ctx : titles) (key : string) (bs : list dblock),
  Forall2 (link_rule ctx (key_parent key)) (dlinks bs)
          (glinks (project (key_parent key) (tmap (norm_node ctx) (spec_tree key bs)))).
Print Assumptions C06_note_links.

Theorem C06_library_links :
  forall notes ops : list op, NoDup (map note_key notes) ->
  exists g, run ops (import notes) = Ok g /\
    let f := over (last_op ops) (last_op (ops_of notes)) in
    (forall k, get_key_title g k = first_heading_title f k) /\
    forall o tables k m bs, f k = Some (m, bs) ->
      let G := project (key_parent k) (tmap (norm_node (get_key_title g)) (spec_tree k bs)) in
      to_markdown o tables g k = Ok (wrap_metadata m (fst (blocks_md o LFS tables G))) /\
      Forall2 (link_rule (get_key_title g) (key_parent k)) (dlinks bs) (glinks G).
Proof. exact LinksFacts.C06_library_links. Qed.
Check C06_library_links :
  forall notes ops : list op, NoDup (map note_key notes) ->
  exists g, run ops (import notes) = Ok g /\
    let f := over (last_op ops) (last_op (ops_of notes)) in
    (forall k, get_key_title g k = first_heading_title f k) /\
    forall o tables k m bs, f k = Some (m, bs) ->
      let G := project (key_parent k) (tmap (norm_node (get_key_title g)) (spec_tree k bs)) in
      to_markdown o tables g k = Ok (wrap_metadata m (fst (blocks_md o LFS tables G))) /\
      Forall2 (link_rule (get_key_title g) (key_parent k)) (dlinks bs) (glinks G).
Print Assumptions C06_library_links.

Theorem C06_second_pass_links :
  forall (o : opts) (ctx : titles) (key : string) (bs : list dblock),
  let g := project (key_parent key) (tmap (norm_node ctx) (spec_tree key bs)) in
  forallb (occ_stable o) g = true ->
  dlinks (rr o g) = map (reread_occ o) (glinks g) /\
  Forall2 (reread_rule o (key_parent key)) (glinks g) (dlinks (rr o g)) /\
  Forall2 (fun d r => exists w, link_rule ctx (key_parent key) d w /\ reread_rule o (key_parent key) w r)
          (dlinks bs) (dlinks (rr o g)).
Proof. exact LinksFacts.C06_second_pass_links. Qed.
Check C06_second_pass_links :
  forall (o : opts) (ctx : titles) (key : string) (bs : list dblock),
  let g := project (key_parent key) (tmap (norm_node ctx) (spec_tree key bs)) in
  forallb (occ_stable o) g = true ->
  dlinks (rr o g) = map (reread_occ o) (glinks g) /\
  Forall2 (reread_rule o (key_parent key)) (glinks g) (dlinks (rr o g)) /\
  Forall2 (fun d r => exists w, link_rule ctx (key_parent key) d w /\ reread_rule o (key_parent key) w r)
          (dlinks bs) (dlinks (rr o g)).
Print Assumptions C06_second_pass_links.

(* F-INLINEDIR (repaired: inline note links are kept by key and written relative to the note, like block
   references).  The rule for an inline note link, spelled out: its destination is the path, relative to the note's
   directory, of the key K the typed url names from that directory; it leads to K again with either extension;
   outside an image description a regular link carries the title of K. *)
Theorem C06_inline_rule :
  forall (ctx : titles) (dir : string) (d g : occ) (lt : link_type),
    link_rule ctx dir d g -> o_kind d = KNote lt ->
    let K := from_rel_link_url (o_dest d) dir in
    is_ref_url K = true ->
    o_dest g = to_rel_link_url K dir /\
    join_normalized dir (o_dest g) = K /\
    (forall ext, ext = MD \/ ext = "" -> from_rel_link_url (ref_url (o_dest g) ext) dir = K) /\
    (o_alt d = false ->
     o_text g = match lt with
                | Regular => match ctx K with Some t => [Str t] | None => kept_text dir (o_text d) end
                | WikiLink => []
                | WikiLinkPiped => kept_text dir (o_text d)
                end).
Proof. exact LinksFacts.C06_inline_rule. Qed.
Check C06_inline_rule :
  forall (ctx : titles) (dir : string) (d g : occ) (lt : link_type),
    link_rule ctx dir d g -> o_kind d = KNote lt ->
    let K := from_rel_link_url (o_dest d) dir in
    is_ref_url K = true ->
    o_dest g = to_rel_link_url K dir /\
    join_normalized dir (o_dest g) = K /\
    (forall ext, ext = MD \/ ext = "" -> from_rel_link_url (ref_url (o_dest g) ext) dir = K) /\
    (o_alt d = false ->
     o_text g = match lt with
                | Regular => match ctx K with Some t => [Str t] | None => kept_text dir (o_text d) end
                | WikiLink => []
                | WikiLinkPiped => kept_text dir (o_text d)
                end).
Print Assumptions C06_inline_rule.

(* the text of a regular inline link is the title of the note the WRITTEN link resolves to, in every directory
   (formerly under the hypothesis key_from_file_name (o_dest d) = from_rel_link_url (o_dest d) dir) *)
Theorem C06_inline_resolved :
  forall (ctx : titles) (dir : string) (d g : occ),
    link_rule ctx dir d g -> o_kind d = KNote Regular -> o_alt d = false ->
    is_ref_url (from_rel_link_url (o_dest d) dir) = true ->
    o_text g = match ctx (join_normalized dir (o_dest g)) with
               | Some t => [Str t]
               | None => kept_text dir (o_text d)
               end.
Proof. exact LinksFacts.C06_inline_resolved. Qed.
Check C06_inline_resolved :
  forall (ctx : titles) (dir : string) (d g : occ),
    link_rule ctx dir d g -> o_kind d = KNote Regular -> o_alt d = false ->
    is_ref_url (from_rel_link_url (o_dest d) dir) = true ->
    o_text g = match ctx (join_normalized dir (o_dest g)) with
               | Some t => [Str t]
               | None => kept_text dir (o_text d)
               end.
Print Assumptions C06_inline_resolved.

(* the witness of the finding is an instance of the rule now: in d/n the inline link `b.md` and the block
   reference `b.md` both get the title of d/b; in the root both get the title of b *)
Theorem C06_inline_dir_repaired :
  glinks (written fd_ctx "d/n" fd_bs) =
    [Occ (KNote Regular) false "b" [Str "SUB"]; Occ (KBlock Regular) false "b" [Str "SUB"]] /\
  glinks (written fd_ctx "n" fd_bs) =
    [Occ (KNote Regular) false "b" [Str "TOP"]; Occ (KBlock Regular) false "b" [Str "TOP"]].
Proof. exact LinksFacts.C06_inline_dir_repaired. Qed.
Check C06_inline_dir_repaired :
  glinks (written fd_ctx "d/n" fd_bs) =
    [Occ (KNote Regular) false "b" [Str "SUB"]; Occ (KBlock Regular) false "b" [Str "SUB"]] /\
  glinks (written fd_ctx "n" fd_bs) =
    [Occ (KNote Regular) false "b" [Str "TOP"]; Occ (KBlock Regular) false "b" [Str "TOP"]].
Print Assumptions C06_inline_dir_repaired.

(* the hypothesis is_ref_url K is needed, as it is for block references (C06_block_kind_refuted in LinksFacts.v):
   `./mailto:x` is a note url, its key `mailto:x` reads as an external url *)
Theorem C06_inline_kind_refuted :
  exists ctx key bs lt, dlinks bs = [Occ (KNote lt) false "./mailto:x" [Str "m"]] /\
    glinks (written ctx key bs) = [Occ (KExt lt) false "mailto:x" [Str "m"]].
Proof. exact LinksFacts.C06_inline_kind_refuted. Qed.
Check C06_inline_kind_refuted :
  exists ctx key bs lt, dlinks bs = [Occ (KNote lt) false "./mailto:x" [Str "m"]] /\
    glinks (written ctx key bs) = [Occ (KExt lt) false "mailto:x" [Str "m"]].
Print Assumptions C06_inline_kind_refuted.

(* what is written for a note link or a block reference resolves, from the note's directory, to the key the
   typed url resolved to - with either extension, for every key, also one ending in `.md` (the file `x.md.md`);
   formerly refuted for such keys (C06_block_md_refuted: finding F-C14-5 / F14-double-md seen from C06) *)
Theorem C06_written_resolves :
  forall (ctx : titles) (dir : string) (d g : occ) (ext : string),
    link_rule ctx dir d g ->
    match o_kind d with
    | KNote _ => is_ref_url (from_rel_link_url (o_dest d) dir) = true
    | KBlock _ => True
    | _ => False
    end ->
    ext = MD \/ ext = "" ->
    from_rel_link_url (ref_url (o_dest g) ext) dir = from_rel_link_url (o_dest d) dir.
Proof. exact LinksFacts.C06_written_resolves. Qed.
Check C06_written_resolves :
  forall (ctx : titles) (dir : string) (d g : occ) (ext : string),
    link_rule ctx dir d g ->
    match o_kind d with
    | KNote _ => is_ref_url (from_rel_link_url (o_dest d) dir) = true
    | KBlock _ => True
    | _ => False
    end ->
    ext = MD \/ ext = "" ->
    from_rel_link_url (ref_url (o_dest g) ext) dir = from_rel_link_url (o_dest d) dir.
Print Assumptions C06_written_resolves.

(* ... and so does its re-read from the written text *)
Theorem C06_reread_resolves :
  forall (o : opts) (dir : string) (g r : occ),
    reread_rule o dir g r ->
    refs_extension o = MD \/ refs_extension o = "" -> is_ref_url (o_dest g) = true ->
    match o_kind g with KImage => False | _ => True end ->
    from_rel_link_url (o_dest r) dir = join_normalized dir (o_dest g).
Proof. exact LinksFacts.C06_reread_resolves. Qed.
Check C06_reread_resolves :
  forall (o : opts) (dir : string) (g r : occ),
    reread_rule o dir g r ->
    refs_extension o = MD \/ refs_extension o = "" -> is_ref_url (o_dest g) = true ->
    match o_kind g with KImage => False | _ => True end ->
    from_rel_link_url (o_dest r) dir = join_normalized dir (o_dest g).
Print Assumptions C06_reread_resolves.

Theorem C06_block_md_kept :
  exists ctx key bs d g, dlinks bs = [d] /\ glinks (written ctx key bs) = [g] /\
    from_rel_link_url (o_dest d) (key_parent key) = "d/a.md" /\ o_dest g = "a.md" /\
    ref_url (o_dest g) "" = "a.md.md" /\
    from_rel_link_url (ref_url (o_dest g) "") (key_parent key) = from_rel_link_url (o_dest d) (key_parent key) /\
    from_rel_link_url (ref_url (o_dest g) MD) (key_parent key) = from_rel_link_url (o_dest d) (key_parent key).
Proof. exact LinksFacts.C06_block_md_kept. Qed.
Check C06_block_md_kept :
  exists ctx key bs d g, dlinks bs = [d] /\ glinks (written ctx key bs) = [g] /\
    from_rel_link_url (o_dest d) (key_parent key) = "d/a.md" /\ o_dest g = "a.md" /\
    ref_url (o_dest g) "" = "a.md.md" /\
    from_rel_link_url (ref_url (o_dest g) "") (key_parent key) = from_rel_link_url (o_dest d) (key_parent key) /\
    from_rel_link_url (ref_url (o_dest g) MD) (key_parent key) = from_rel_link_url (o_dest d) (key_parent key).
Print Assumptions C06_block_md_kept.
