(* Props/C02.v — normalization is a fixpoint.
   The byte-level statement (format (format x) = format x) runs through pulldown-cmark, which
   is not modelled; it is decided on every run from the implementation's own output
   (sub-property 1 of the check) and by the correspondence of the model with both passes.
   What is proved here are the model-side reasons: every rewrite the formatter applies to
   inline content is idempotent. *)
From IweV Require Import Check_Norm NormFacts.
Local Open Scope string_scope.
Local Open Scope list_scope.

(* title refresh applied twice is title refresh applied once, for every title table *)
Theorem C02_refresh_idempotent :
  forall (ctx : titles) (i : inline),
    normalize_inline ctx (normalize_inline ctx i) = normalize_inline ctx i.
Proof. exact refresh_idempotent. Qed.
Check C02_refresh_idempotent :
  forall (ctx : titles) (i : inline),
    normalize_inline ctx (normalize_inline ctx i) = normalize_inline ctx i.
Print Assumptions C02_refresh_idempotent.

(* whatever is projected is already well nested: a second pass has no level to repair *)
Theorem C02_levels_stable :
  forall (parent : string) (t : tree), gwn_all (project parent t) = true.
Proof. exact project_well_nested. Qed.
Check C02_levels_stable : forall (parent : string) (t : tree), gwn_all (project parent t) = true.
Print Assumptions C02_levels_stable.
