(* Props/C01.v — normalization never loses or invents note content.
   Proved: the projector (tree -> blocks) emits every line of inline content, every code body
   and every rule of the tree exactly once and in document order, for every tree.
   The reader -> arena half runs through the transliterated builder (Arena.v), whose
   conservation is decided on every run from the implementation's observations (atoms). *)
From IweV Require Import Check_Norm NormFacts.
Local Open Scope string_scope.
Local Open Scope list_scope.

Theorem C01_project_conserves :
  forall (parent : string) (t : tree),
    flat_map gcontent (project parent t) = tcontent parent t.
Proof. exact project_conserves. Qed.
Check C01_project_conserves :
  forall (parent : string) (t : tree),
    flat_map gcontent (project parent t) = tcontent parent t.
Print Assumptions C01_project_conserves.

Example C01_project_conserves_example :
  tcontent "" (T None (NDocument "k") [T None (NSection [Str "a"]) [T None NBList [T None (NSection [Str "i"]) [T None (NLeaf [Str "p"]) []]]];
                                       T None (NRaw None "c") []])
  = [CI [Str "a"]; CI [Str "i"]; CI [Str "p"]; CC None "c"].
Proof. reflexivity. Qed.
