(* Props/C01.v — normalization never loses or invents note content.
   Proved: the projector (tree -> blocks) emits every line of inline content, every code body
   and every rule of the tree exactly once and in document order, for every tree.
   The reader -> arena half runs through the transliterated builder (Arena.v), whose
   conservation is decided on every run from the implementation's observations (atoms). *)
From IweV Require Import Check_Norm NormFacts SectionsSpec SectionsFacts.
Local Open Scope string_scope.
Local Open Scope list_scope.

Theorem C01_project_conserves :
  forall (parent : string) (t : tree),
    flat_map gcontent (project parent t) = tcontent parent t.
Proof. exact project_conserves. Qed.
Check C01_project_conserves :
  forall (parent : string) (t : tree),
    flat_map gcontent (project parent t) = tcontent parent t.
Print Assumptions C01_project_conserves.

Example C01_project_conserves_example :
  tcontent "" (T None (NDocument "k") [T None (NSection [Str "a"]) [T None NBList [T None (NSection [Str "i"]) [T None (NLeaf [Str "p"]) []]]];
                                       T None (NRaw None "c") []])
  = [CI [Str "a"]; CI [Str "i"]; CI [Str "p"]; CC None "c"].
Proof. reflexivity. Qed.


(* From the blocks of a note to its tree: [spec_tree key bs] is the tree the blocks determine
   (SectionsSpec.v; compared with the transliterated builder and through it with the
   implementation on every run).  For EVERY list of blocks of any length and nesting the tree says
   what the blocks say: every block's content (its line of inlines, its code body, its rule, its
   table cells; an item's lead text as the item's line, an empty line for an item that does not
   start with text) occurs exactly once and in document order.
   (Before the builder repair of F-LEADPANIC / F-ITEMLEAD: only for lists in which no item starts
   with a code block, quote, table or rule, or starts with a list and holds further blocks.) *)
Theorem C01_tree_conserves :
  forall (key : string) (bs : list dblock),
    tcontent (key_parent key) (spec_tree key bs) = bscontent (key_parent key) bs.
Proof. exact spec_conserves. Qed.
Check C01_tree_conserves :
  forall (key : string) (bs : list dblock),
    tcontent (key_parent key) (spec_tree key bs) = bscontent (key_parent key) bs.
Print Assumptions C01_tree_conserves.

(* ... and so do the blocks written for it. *)
Theorem C01_written_conserves :
  forall (key : string) (bs : list dblock),
    flat_map gcontent (project (key_parent key) (spec_tree key bs)) = bscontent (key_parent key) bs.
Proof. exact spec_written_conserves. Qed.
Check C01_written_conserves :
  forall (key : string) (bs : list dblock),
    flat_map gcontent (project (key_parent key) (spec_tree key bs)) = bscontent (key_parent key) bs.
Print Assumptions C01_written_conserves.

Example C01_written_example :
  let bs := [DHeader (0,1) 2 [Str "t"]; DPara (2,3) [Str "p"];
             DBList [[DHeader (4,5) 1 [Str "i"]; DCode (5,7) None "c"]; []; [DOList [[DPara (8,9) [Str "x"]]]]];
             DQuote (10,12) [DRule (10,11); DPara (11,12) [Str "q"]]] in
  flat_map gcontent (project "" (spec_tree "k" bs)) =
  [CI [Str "t"]; CI [Str "p"]; CI [Str "i"]; CC None "c"; CI [Str "x"]; CR; CI [Str "q"]].
Proof. reflexivity. Qed.

(* items that do not start with text: a code block, then a list followed by a paragraph *)
Example C01_written_example_no_text :
  let bs := [DBList [[DCode (0,2) None "c"; DPara (2,3) [Str "p"]];
                     [DBList [[DPara (3,4) [Str "x"]; DPara (4,5) [Str "y"]]]; DPara (5,6) [Str "z"]]]] in
  flat_map gcontent (project "" (spec_tree "k" bs)) =
  [CI []; CC None "c"; CI [Str "p"]; CI []; CI [Str "x"]; CI [Str "y"]; CI [Str "z"]].
Proof. reflexivity. Qed.
