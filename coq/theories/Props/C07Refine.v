(* Props/C07Refine.v - property C07: level identity for the tree read back from the built arena (SectionsRefine.v)
   Only statements, each closed by an `exact`, pinned by a `Check`, followed by `Print Assumptions`. *)
From Coq Require Import ZArith Permutation List.
From IweV Require Import Str Ast RelPath Arena ArenaWF ArenaFacts Project SectionsSpec BuilderFacts Check_Norm NormFacts SectionsFacts SectionsRefine.
Local Open Scope string_scope.
Local Open Scope list_scope.

Theorem C07_sections_refines :
  forall (a : arena) (key : string) (bs : list dblock),
         exists (st : bst) (t : tree),
           build_document a key bs = Ok st /\
           collect_raw (b_arena st) (Datatypes.length a) = Ok (Some t) /\
           tree_eqb_noid t (spec_tree key bs) = true.
Proof. exact SectionsRefine.sections_refines. Qed.
Check C07_sections_refines :
  forall (a : arena) (key : string) (bs : list dblock),
         exists (st : bst) (t : tree),
           build_document a key bs = Ok st /\
           collect_raw (b_arena st) (Datatypes.length a) = Ok (Some t) /\
           tree_eqb_noid t (spec_tree key bs) = true.
Print Assumptions C07_sections_refines.

Theorem C07_built_identity :
  forall (a : arena) (key : string) (bs : list dblock),
         well_nested (hlv bs) = true ->
         exists (st : bst) (t : tree),
           build_document a key bs = Ok st /\
           collect_raw (b_arena st) (Datatypes.length a) = Ok (Some t) /\
           glevels (project (key_parent key) t) = hlv bs.
Proof. exact SectionsRefine.built_identity. Qed.
Check C07_built_identity :
  forall (a : arena) (key : string) (bs : list dblock),
         well_nested (hlv bs) = true ->
         exists (st : bst) (t : tree),
           build_document a key bs = Ok st /\
           collect_raw (b_arena st) (Datatypes.length a) = Ok (Some t) /\
           glevels (project (key_parent key) t) = hlv bs.
Print Assumptions C07_built_identity.

