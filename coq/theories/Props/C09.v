(* Props/C09.v — property C09: extract and inline refactorings move content without losing or
   duplicating it.  Statements about the transliterated SectionExtract::extract_rec,
   Tree::remove_node / append_pre_header / replace (TreeOps.v, Actions.v), for trees of any
   size and nesting.  `plug C x`: subtree x in the one-hole context C; `ctx_free id C`: no node
   of the context carries the id (ids come from the arena, one per node). *)
From IweV Require Import RelPathFacts Check_Norm NormFacts TreeOps Actions TreeOpsFacts Check_Act Check_C10 ActFacts.
From Coq Require Import Permutation.
Local Open Scope string_scope.
Local Open Scope list_scope.

(* Extract section: the source differs from the original only at the parent (id p) of the
   extracted section x (id e): x is taken out and ONE reference, titled with the plain text of
   x's heading, stands at the pre-sub-header position (after the non-section children l1, before
   the earlier sub-sections m); all other children lists, on every level, are the same terms;
   the new note is exactly x (written from level 1: the projector starts at level 0). *)
Theorem C09_extract :
  forall e p k C i n l1 m x r,
    ctx_free p C -> ctx_free e C ->
    oid_is i p = true -> oid_is i e = false ->
    forallb nonsec l1 = true -> forallb is_section m = true -> is_section x = true -> id_eq x e = true ->
    Forall (fun t => contains t e = false) l1 -> Forall (fun t => contains t e = false) m ->
    Forall (fun t => id_eq t e = false) r ->
    let src := plug C (T i n (l1 ++ m ++ x :: r)) in
    extract_rec e p k src = Ok (plug C (T i n (l1 ++ ref_tree k (node_plain_text (t_node x)) :: m ++ r))) /\
    tget src e = Ok x.
Proof. exact extract_spec. Qed.
Check C09_extract :
  forall e p k C i n l1 m x r,
    ctx_free p C -> ctx_free e C ->
    oid_is i p = true -> oid_is i e = false ->
    forallb nonsec l1 = true -> forallb is_section m = true -> is_section x = true -> id_eq x e = true ->
    Forall (fun t => contains t e = false) l1 -> Forall (fun t => contains t e = false) m ->
    Forall (fun t => id_eq t e = false) r ->
    let src := plug C (T i n (l1 ++ m ++ x :: r)) in
    extract_rec e p k src = Ok (plug C (T i n (l1 ++ ref_tree k (node_plain_text (t_node x)) :: m ++ r))) /\
    tget src e = Ok x.
Print Assumptions C09_extract.

(* Content: the source after the extraction together with the new note holds every content line
   of the original exactly once, plus the one reference line (contexts of documents, sections
   and quotes: the action is offered for headers outside lists only). *)
Theorem C09_extract_content :
  forall parent C i n l1 m x r k text,
    flat_ctx C -> flat_node n = true ->
    Permutation
      (tcontent parent (plug C (T i n (l1 ++ ref_tree k text :: m ++ r))) ++ tcontent parent x)
      (CI (ref_inlines parent k text Regular) :: tcontent parent (plug C (T i n (l1 ++ m ++ x :: r)))).
Proof. exact extract_content. Qed.
Check C09_extract_content :
  forall parent C i n l1 m x r k text,
    flat_ctx C -> flat_node n = true ->
    Permutation
      (tcontent parent (plug C (T i n (l1 ++ ref_tree k text :: m ++ r))) ++ tcontent parent x)
      (CI (ref_inlines parent k text Regular) :: tcontent parent (plug C (T i n (l1 ++ m ++ x :: r)))).
Print Assumptions C09_extract_content.

(* Inline as section: the reference R (id tid) leaves the section (id sid) that holds it and the
   referenced note's tree stands, as it is, at the pre-sub-header position of that section. *)
Theorem C09_inline_section :
  forall sid tid inl C i n a R b,
    ctx_free tid C -> ctx_free sid C ->
    oid_is i sid = true -> oid_is i tid = false -> id_eq R tid = true ->
    Forall (fun t => contains t tid = false) a -> Forall (fun t => contains t tid = false) b ->
    Forall (fun t => contains t sid = false) a -> Forall (fun t => contains t sid = false) b ->
    append_pre_header sid inl (remove_node tid (plug C (T i n (a ++ R :: b)))) =
    plug C (T i n (insert_at (pre_sub_header_position (T i n (a ++ b))) inl (a ++ b))).
Proof. exact inline_section_spec. Qed.
Check C09_inline_section :
  forall sid tid inl C i n a R b,
    ctx_free tid C -> ctx_free sid C ->
    oid_is i sid = true -> oid_is i tid = false -> id_eq R tid = true ->
    Forall (fun t => contains t tid = false) a -> Forall (fun t => contains t tid = false) b ->
    Forall (fun t => contains t sid = false) a -> Forall (fun t => contains t sid = false) b ->
    append_pre_header sid inl (remove_node tid (plug C (T i n (a ++ R :: b)))) =
    plug C (T i n (insert_at (pre_sub_header_position (T i n (a ++ b))) inl (a ++ b))).
Print Assumptions C09_inline_section.

(* Inline as quote: the reference is replaced, in place, by a quote over the note's children. *)
Theorem C09_inline_quote :
  forall tid inl C i n c,
    ctx_free tid C -> oid_is i tid = true ->
    replace tid (T None NQuote (t_children inl)) (plug C (T i n c)) = plug C (T None NQuote (t_children inl)).
Proof. exact inline_quote_spec. Qed.
Check C09_inline_quote :
  forall tid inl C i n c,
    ctx_free tid C -> oid_is i tid = true ->
    replace tid (T None NQuote (t_children inl)) (plug C (T i n c)) = plug C (T None NQuote (t_children inl)).
Print Assumptions C09_inline_quote.

(* Round trip at tree level: after extracting the FIRST sub-section x (reference at its place:
   l1 are the non-section children, r starts with a section or is empty), inlining the
   reference with the new note's tree (a document node over x) puts that document node exactly
   where x was; a document node is transparent to the projector, so the blocks written are
   those of the original. *)
Theorem C09_roundtrip :
  forall sid tid C i n l1 x r R dk di,
    ctx_free tid C -> ctx_free sid C ->
    oid_is i sid = true -> oid_is i tid = false -> id_eq R tid = true ->
    forallb nonsec l1 = true -> (match r with [] => true | y :: _ => is_section y end) = true ->
    Forall (fun t => contains t tid = false) l1 -> Forall (fun t => contains t tid = false) r ->
    Forall (fun t => contains t sid = false) l1 -> Forall (fun t => contains t sid = false) r ->
    append_pre_header sid (T di (NDocument dk) [x]) (remove_node tid (plug C (T i n (l1 ++ R :: r)))) =
    plug C (T i n (l1 ++ T di (NDocument dk) [x] :: r)).
Proof. exact roundtrip_spec. Qed.
Check C09_roundtrip :
  forall sid tid C i n l1 x r R dk di,
    ctx_free tid C -> ctx_free sid C ->
    oid_is i sid = true -> oid_is i tid = false -> id_eq R tid = true ->
    forallb nonsec l1 = true -> (match r with [] => true | y :: _ => is_section y end) = true ->
    Forall (fun t => contains t tid = false) l1 -> Forall (fun t => contains t tid = false) r ->
    Forall (fun t => contains t sid = false) l1 -> Forall (fun t => contains t sid = false) r ->
    append_pre_header sid (T di (NDocument dk) [x]) (remove_node tid (plug C (T i n (l1 ++ R :: r)))) =
    plug C (T i n (l1 ++ T di (NDocument dk) [x] :: r)).
Print Assumptions C09_roundtrip.

Theorem C09_roundtrip_projection :
  forall parent hl i n l di dk x r,
    flat_node n = true ->
    project_node parent hl (T i n (l ++ T di (NDocument dk) [x] :: r)) = project_node parent hl (T i n (l ++ x :: r)).
Proof. exact project_document_transparent. Qed.
Check C09_roundtrip_projection :
  forall parent hl i n l di dk x r,
    flat_node n = true ->
    project_node parent hl (T i n (l ++ T di (NDocument dk) [x] :: r)) = project_node parent hl (T i n (l ++ x :: r)).
Print Assumptions C09_roundtrip_projection.

(* Fresh keys, random mode: for any oracle `fresh` whose answer is not among the keys (the exit
   condition of random_key's loop), the one key an extraction creates is that answer. *)
Theorem C09_fresh :
  forall (fresh : list string -> string), (forall ks, ~ In (fresh ks) ks) ->
  forall cx target ks rest l,
    changes cx SectionExtract (KRand (fresh ks :: rest)) target = Ok (Some l) ->
    created l = [fresh ks] /\ ~ In (fresh ks) ks.
Proof. exact extract_key_fresh. Qed.
Check C09_fresh :
  forall (fresh : list string -> string), (forall ks, ~ In (fresh ks) ks) ->
  forall cx target ks rest l,
    changes cx SectionExtract (KRand (fresh ks :: rest)) target = Ok (Some l) ->
    created l = [fresh ks] /\ ~ In (fresh ks) ks.
Print Assumptions C09_fresh.

(* Sequential-key mode (F11): extract sub-sections gives every new note the same key. *)
Theorem C09_subsections_seq_reuse_refuted :
  exists k s1 s2 rest,
    changes cx1 SubSectionsExtract KSeq 1 = Ok (Some (Create k :: Update k "" s1 :: Create k :: Update k "" s2 :: rest))
    /\ s1 <> s2.
Proof. exact subsections_seq_reuse. Qed.
Check C09_subsections_seq_reuse_refuted :
  exists k s1 s2 rest,
    changes cx1 SubSectionsExtract KSeq 1 = Ok (Some (Create k :: Update k "" s1 :: Create k :: Update k "" s2 :: rest))
    /\ s1 <> s2.
Print Assumptions C09_subsections_seq_reuse_refuted.

(* As found before 637566e, append_pre_header did not terminate on a note inlined into itself:
   no amount of fuel lets the literal function return; the repaired function returns. *)
Theorem C09_self_inline_as_found_refuted :
  (forall fuel, exists s, append_pre_header_as_found fuel 1 (sec 1 "s" []) (sec 1 "s" []) = Panic s) /\
  append_pre_header 1 (sec 1 "s" []) (sec 1 "s" []) = sec 1 "s" [sec 1 "s" []].
Proof. split; [exact append_pre_header_as_found_diverges | exact append_pre_header_self_terminates]. Qed.
Check C09_self_inline_as_found_refuted :
  (forall fuel, exists s, append_pre_header_as_found fuel 1 (sec 1 "s" []) (sec 1 "s" []) = Panic s) /\
  append_pre_header 1 (sec 1 "s" []) (sec 1 "s" []) = sec 1 "s" [sec 1 "s" []].
Print Assumptions C09_self_inline_as_found_refuted.

(* Links (F-C09-cross-dir-inline, repaired): the inlined note's tree holds its inline links by key and the
   projector writes them relative to the note they are written into; what is written resolves to the same key
   from there - every key and directory of legal names, either extension.  (Formerly C09_links_cross_dir_refuted:
   an inline link was a raw url, which names different notes from different directories.) *)
Theorem C09_links_cross_dir_kept :
  forall (ks ds : list string) (ext title : string) (lt : link_type) (l : list inline),
    Forall RelPathFacts.good_name ks -> Forall RelPathFacts.good_name ds -> ext = MD \/ ext = "" ->
    let K := join SEPS ks in let D := join SEPS ds in
    is_ref_url K = true ->
    rel_inline D (Link K title lt l) = Link (to_rel_link_url K D) title lt (map (rel_inline D) l) /\
    from_rel_link_url (ref_url (to_rel_link_url K D) ext) D = K.
Proof. exact inline_cross_dir_kept. Qed.
Check C09_links_cross_dir_kept :
  forall (ks ds : list string) (ext title : string) (lt : link_type) (l : list inline),
    Forall RelPathFacts.good_name ks -> Forall RelPathFacts.good_name ds -> ext = MD \/ ext = "" ->
    let K := join SEPS ks in let D := join SEPS ds in
    is_ref_url K = true ->
    rel_inline D (Link K title lt l) = Link (to_rel_link_url K D) title lt (map (rel_inline D) l) /\
    from_rel_link_url (ref_url (to_rel_link_url K D) ext) D = K.
Print Assumptions C09_links_cross_dir_kept.

Theorem C09_links_cross_dir_witness :
  rel_inline (key_parent "a") (to_ginline (key_parent "d/b") (Link "c" "" Regular [Str "c"])) = Link "d/c" "" Regular [Str "c"] /\
  from_rel_link_url "d/c" (key_parent "a") = from_rel_link_url "c" (key_parent "d/b").
Proof. exact inline_cross_dir_witness. Qed.
Check C09_links_cross_dir_witness :
  rel_inline (key_parent "a") (to_ginline (key_parent "d/b") (Link "c" "" Regular [Str "c"])) = Link "d/c" "" Regular [Str "c"] /\
  from_rel_link_url "d/c" (key_parent "a") = from_rel_link_url "c" (key_parent "d/b").
Print Assumptions C09_links_cross_dir_witness.

(* the hypotheses of C09_extract are satisfiable: second sub-section of a section with text *)
Example C09_extract_nonvacuous :
  let x := sec 5 "b" [leaf 6 "t"] in
  let C := [F (Some 0) (NDocument "k") [] []] in
  ctx_free 1 C /\ ctx_free 5 C /\
  extract_rec 5 1 "new" (plug C (T (Some 1) (NSection [Str "s"]) ([leaf 2 "p"] ++ [sec 3 "a" []] ++ x :: [sec 7 "c" []])))
  = Ok (plug C (T (Some 1) (NSection [Str "s"]) ([leaf 2 "p"] ++ ref_tree "new" "b" :: [sec 3 "a" []] ++ [sec 7 "c" []]))).
Proof. cbv zeta. split; [repeat constructor|]. split; [repeat constructor|]. vm_compute. reflexivity. Qed.
