(* Props/C09Offers.v - property C09 (also C10, C12, C03): every code action the server offers resolves to an edit of the documented shape (ActionsTotal.v, ActionsGraph.v)
   Only statements, each closed by an `exact`, pinned by a `Check`, followed by `Print Assumptions`. *)
From Coq Require Import ZArith Permutation List.
From IweV Require Import Str Text Ast RelPath Arena ArenaWF ArenaFacts Project Library TreeOps TreeOpsFacts Actions ActFacts ForestFacts Index Reachable ActionsTotal ActionsGraph.
Local Open Scope string_scope.
Local Open Scope list_scope.

Theorem C09_offered_resolves :
  forall (cx : actx) (k : akind) (kg : keygen) (target : nat) (key : string) 
           (tree0 : tree) (title : string),
         cx_key_of cx target = Ok key ->
         cx_collect cx key = Ok tree0 ->
         ids_ok tree0 = true ->
         (forall k' : string, cx_exists cx k' = true -> exists t' : tree, cx_collect cx k' = Ok t') ->
         kg_has kg (draws_needed k tree0 target) = true ->
         action cx k target = Ok (Some title) ->
         exists l : list change,
           handle_resolve cx k kg target = Ok l /\ l <> [] /\ shape_b k key l = true.
Proof. exact ActionsTotal.C09_offered_resolves. Qed.
Check C09_offered_resolves :
  forall (cx : actx) (k : akind) (kg : keygen) (target : nat) (key : string) 
           (tree0 : tree) (title : string),
         cx_key_of cx target = Ok key ->
         cx_collect cx key = Ok tree0 ->
         ids_ok tree0 = true ->
         (forall k' : string, cx_exists cx k' = true -> exists t' : tree, cx_collect cx k' = Ok t') ->
         kg_has kg (draws_needed k tree0 target) = true ->
         action cx k target = Ok (Some title) ->
         exists l : list change,
           handle_resolve cx k kg target = Ok l /\ l <> [] /\ shape_b k key l = true.
Print Assumptions C09_offered_resolves.

Theorem C09_offer_shapes :
  forall (cx : actx) (k : akind) (kg : keygen) (target : nat) (key : string) 
           (tree0 : tree) (title : string) (l : list change),
         cx_key_of cx target = Ok key ->
         cx_collect cx key = Ok tree0 ->
         ids_ok tree0 = true ->
         (forall k' : string, cx_exists cx k' = true -> exists t' : tree, cx_collect cx k' = Ok t') ->
         kg_has kg (draws_needed k tree0 target) = true ->
         action cx k target = Ok (Some title) ->
         handle_resolve cx k kg target = Ok l -> offer_shape cx k kg key tree0 target l.
Proof. exact ActionsTotal.C09_offer_shapes. Qed.
Check C09_offer_shapes :
  forall (cx : actx) (k : akind) (kg : keygen) (target : nat) (key : string) 
           (tree0 : tree) (title : string) (l : list change),
         cx_key_of cx target = Ok key ->
         cx_collect cx key = Ok tree0 ->
         ids_ok tree0 = true ->
         (forall k' : string, cx_exists cx k' = true -> exists t' : tree, cx_collect cx k' = Ok t') ->
         kg_has kg (draws_needed k tree0 target) = true ->
         action cx k target = Ok (Some title) ->
         handle_resolve cx k kg target = Ok l -> offer_shape cx k kg key tree0 target l.
Print Assumptions C09_offer_shapes.

Theorem C09_action_total :
  forall (cx : actx) (k : akind) (target : nat) (key : string) (tree0 : tree),
         cx_key_of cx target = Ok key ->
         cx_collect cx key = Ok tree0 ->
         (k = InlineSection \/ k = InlineQuote -> contains tree0 target = true) ->
         exists o : option string, action cx k target = Ok o.
Proof. exact ActionsTotal.C09_action_total. Qed.
Check C09_action_total :
  forall (cx : actx) (k : akind) (target : nat) (key : string) (tree0 : tree),
         cx_key_of cx target = Ok key ->
         cx_collect cx key = Ok tree0 ->
         (k = InlineSection \/ k = InlineQuote -> contains tree0 target = true) ->
         exists o : option string, action cx k target = Ok o.
Print Assumptions C09_action_total.

Theorem C09_offered_resolves_graph :
  forall (g : graph) (k : akind) (kg : keygen) (target : nat) (title : string),
         wf_b (gr_arena g) (gr_keys g) = true ->
         action (graph_ctx g) k target = Ok (Some title) ->
         exists (key : string) (tree0 : tree),
           key_of g target = Ok key /\
           collect_key g key = Ok tree0 /\
           ids_ok tree0 = true /\
           (kg_has kg (draws_needed k tree0 target) = true ->
            exists l : list change,
              handle_resolve (graph_ctx g) k kg target = Ok l /\
              l <> [] /\ shape_b k key l = true /\ offer_shape (graph_ctx g) k kg key tree0 target l).
Proof. exact ActionsGraph.C09_offered_resolves_graph. Qed.
Check C09_offered_resolves_graph :
  forall (g : graph) (k : akind) (kg : keygen) (target : nat) (title : string),
         wf_b (gr_arena g) (gr_keys g) = true ->
         action (graph_ctx g) k target = Ok (Some title) ->
         exists (key : string) (tree0 : tree),
           key_of g target = Ok key /\
           collect_key g key = Ok tree0 /\
           ids_ok tree0 = true /\
           (kg_has kg (draws_needed k tree0 target) = true ->
            exists l : list change,
              handle_resolve (graph_ctx g) k kg target = Ok l /\
              l <> [] /\ shape_b k key l = true /\ offer_shape (graph_ctx g) k kg key tree0 target l).
Print Assumptions C09_offered_resolves_graph.

Theorem C09_code_action_resolves :
  forall (g : graph) (key0 : string) (line : nat) (k : akind) (kg : keygen) 
           (target : nat) (title : string),
         wf_b (gr_arena g) (gr_keys g) = true ->
         handle_code_action g key0 line k = Ok (Some (title, target)) ->
         exists (key : string) (tree0 : tree),
           key_of g target = Ok key /\
           collect_key g key = Ok tree0 /\
           (kg_has kg (draws_needed k tree0 target) = true ->
            exists l : list change,
              handle_resolve (graph_ctx g) k kg target = Ok l /\ l <> [] /\ shape_b k key l = true).
Proof. exact ActionsGraph.C09_code_action_resolves. Qed.
Check C09_code_action_resolves :
  forall (g : graph) (key0 : string) (line : nat) (k : akind) (kg : keygen) 
           (target : nat) (title : string),
         wf_b (gr_arena g) (gr_keys g) = true ->
         handle_code_action g key0 line k = Ok (Some (title, target)) ->
         exists (key : string) (tree0 : tree),
           key_of g target = Ok key /\
           collect_key g key = Ok tree0 /\
           (kg_has kg (draws_needed k tree0 target) = true ->
            exists l : list change,
              handle_resolve (graph_ctx g) k kg target = Ok l /\ l <> [] /\ shape_b k key l = true).
Print Assumptions C09_code_action_resolves.

Theorem C09_reached_offered_resolves :
  forall (notes : list (string * option string * list dblock)) (ops : list IndexHistory.op)
           (s : gstate) (k : akind) (kg : keygen) (target : nat) (title : string),
         distinct_keys notes ->
         reached notes ops s ->
         action (graph_ctx (gs_graph s)) k target = Ok (Some title) ->
         exists (key : string) (tree0 : tree),
           key_of (gs_graph s) target = Ok key /\
           collect_key (gs_graph s) key = Ok tree0 /\
           (kg_has kg (draws_needed k tree0 target) = true ->
            exists l : list change,
              handle_resolve (graph_ctx (gs_graph s)) k kg target = Ok l /\
              l <> [] /\ shape_b k key l = true).
Proof. exact ActionsGraph.reached_C09_offered_resolves. Qed.
Check C09_reached_offered_resolves :
  forall (notes : list (string * option string * list dblock)) (ops : list IndexHistory.op)
           (s : gstate) (k : akind) (kg : keygen) (target : nat) (title : string),
         distinct_keys notes ->
         reached notes ops s ->
         action (graph_ctx (gs_graph s)) k target = Ok (Some title) ->
         exists (key : string) (tree0 : tree),
           key_of (gs_graph s) target = Ok key /\
           collect_key (gs_graph s) key = Ok tree0 /\
           (kg_has kg (draws_needed k tree0 target) = true ->
            exists l : list change,
              handle_resolve (graph_ctx (gs_graph s)) k kg target = Ok l /\
              l <> [] /\ shape_b k key l = true).
Print Assumptions C09_reached_offered_resolves.

Theorem C09_collect_ids_ok :
  forall (ctx : titles) (a : arena) (root : nat) (t : tree),
         arena_ok a = true -> collect ctx a root = Ok t -> ids_ok t = true.
Proof. exact ActionsGraph.collect_ids_ok. Qed.
Check C09_collect_ids_ok :
  forall (ctx : titles) (a : arena) (root : nat) (t : tree),
         arena_ok a = true -> collect ctx a root = Ok t -> ids_ok t = true.
Print Assumptions C09_collect_ids_ok.

