(* Props/C03.v — no document can crash, hang or kill the server or CLI.
   Rocq cannot observe a crash; what is proved is that the modelled builder — the code that turns
   the blocks of ANY note into arena nodes (SectionsBuilder + GraphBuilder, every `expect`,
   `unwrap` and `panic!` of which is an explicit Panic result of the model) — has no reachable
   panic site and terminates, on every input, in every arena; and that the walks up
   the prev links terminate in a well-formed arena (C20_owner_total).  Every other operation is
   exercised on every run (Check_C03.v). *)
From IweV Require Import Str Text Ast RelPath Arena Project Library BuilderFacts.
Local Open Scope string_scope.
Local Open Scope list_scope.

(* For EVERY list of reader blocks, of any size and nesting, for every note key and every arena:
   the builder returns normally.  The fuel the model gives itself (4 * size + 8) is enough for
   every input, i.e. the mutual recursion process_blocks / process_sections /
   process_section / section_block / block is well founded.
   (Before the repair of F-LEADPANIC the statement carried the hypothesis that every list item
   starts with a paragraph, a heading or a list, or is empty.) *)
Theorem C03_build_total :
  forall (a : arena) (key : string) (bs : list dblock),
    exists st, build_document a key bs = Ok st /\
               ext (a ++ [GN (KDocument key) None None None]) (b_arena st).
Proof. exact build_document_total. Qed.
Check C03_build_total :
  forall (a : arena) (key : string) (bs : list dblock),
    exists st, build_document a key bs = Ok st /\
               ext (a ++ [GN (KDocument key) None None None]) (b_arena st).
Print Assumptions C03_build_total.

(* Loading a whole library (Graph::import) and replacing the blocks of one note
   (Graph::from_markdown, after the reader) never panic, whatever the blocks. *)
Theorem C03_import_total :
  forall notes : list (string * option string * list dblock), exists g, import notes = Ok g.
Proof. exact import_total. Qed.
Check C03_import_total :
  forall notes : list (string * option string * list dblock), exists g, import notes = Ok g.
Print Assumptions C03_import_total.

Theorem C03_from_blocks_total :
  forall (g : graph) key meta bs, exists g', from_blocks g key meta bs = Ok g'.
Proof. exact from_blocks_total. Qed.
Check C03_from_blocks_total :
  forall (g : graph) key meta bs, exists g', from_blocks g key meta bs = Ok g'.
Print Assumptions C03_from_blocks_total.

(* The formerly excluded class (known finding F-LEADPANIC, repaired): a list item that starts with
   a quote is a section without text over the quote. *)
Theorem C03_build_lead_quote :
  option_map (fun st => map g_kind (b_arena st))
    (match build_document [] "n" [DBList [[DQuote (0, 1) [DPara (0, 1) [Str "q"]]]]] with Ok st => Some st | Panic _ => None end)
  = Some [KDocument "n"; KBList; KSection []; KQuote; KLeaf [Str "q"]].
Proof. exact build_document_lead_quote. Qed.
Check C03_build_lead_quote :
  option_map (fun st => map g_kind (b_arena st))
    (match build_document [] "n" [DBList [[DQuote (0, 1) [DPara (0, 1) [Str "q"]]]]] with Ok st => Some st | Panic _ => None end)
  = Some [KDocument "n"; KBList; KSection []; KQuote; KLeaf [Str "q"]].
Print Assumptions C03_build_lead_quote.
