(* Props/C03.v — no document can crash, hang or kill the server or CLI.
   Rocq cannot observe a crash; what is proved is that the modelled builder — the code that turns
   the blocks of ANY note into arena nodes (SectionsBuilder + GraphBuilder, every `expect`,
   `unwrap` and `panic!` of which is an explicit Panic result of the model) — has no reachable
   panic site and terminates, on the stated input class, in every arena; and that the walks up
   the prev links terminate in a well-formed arena (C20_owner_total).  Every other operation is
   exercised on every run (Check_C03.v). *)
From IweV Require Import Str Text Ast RelPath Arena Project Library BuilderFacts.
Local Open Scope string_scope.
Local Open Scope list_scope.

(* For every list of reader blocks, of any size and nesting, in which every list item starts
   with a paragraph, a heading or a list (or is empty), for every note key and every arena:
   the builder returns normally.  The fuel the model gives itself (4 * size + 8) is enough for
   every such input, i.e. the mutual recursion process_blocks / process_sections /
   process_section / section_block / block is well founded. *)
Theorem C03_build_total :
  forall (a : arena) (key : string) (bs : list dblock),
    Forall (fun b => item_leads_ok b = true) bs ->
    exists st, build_document a key bs = Ok st /\
               ext (a ++ [GN (KDocument key) None None None]) (b_arena st).
Proof. exact build_document_total. Qed.
Check C03_build_total :
  forall (a : arena) (key : string) (bs : list dblock),
    Forall (fun b => item_leads_ok b = true) bs ->
    exists st, build_document a key bs = Ok st /\
               ext (a ++ [GN (KDocument key) None None None]) (b_arena st).
Print Assumptions C03_build_total.

(* Loading a whole library (Graph::import) and replacing the blocks of one note
   (Graph::from_markdown, after the reader) never panic on that class. *)
Theorem C03_import_total :
  forall notes : list (string * option string * list dblock),
    Forall note_ok notes -> exists g, import notes = Ok g.
Proof. exact import_total. Qed.
Check C03_import_total :
  forall notes : list (string * option string * list dblock),
    Forall note_ok notes -> exists g, import notes = Ok g.
Print Assumptions C03_import_total.

Theorem C03_from_blocks_total :
  forall (g : graph) key meta bs,
    Forall (fun b => item_leads_ok b = true) bs -> exists g', from_blocks g key meta bs = Ok g'.
Proof. exact from_blocks_total. Qed.
Check C03_from_blocks_total :
  forall (g : graph) key meta bs,
    Forall (fun b => item_leads_ok b = true) bs -> exists g', from_blocks g key meta bs = Ok g'.
Print Assumptions C03_from_blocks_total.

(* The excluded class is a genuine defect of the pinned tree: a list item that starts with a
   quote (or a code block, table, rule) panics `section_block` (known finding F-LEADPANIC). *)
Theorem C03_build_refuted :
  exists bs, build_document [] "n" bs = Panic "section block panic" /\
             bs = [DBList [[DQuote (0, 1) [DPara (0, 1) [Str "q"]]]]].
Proof. exact build_document_refuted. Qed.
Check C03_build_refuted :
  exists bs, build_document [] "n" bs = Panic "section block panic" /\
             bs = [DBList [[DQuote (0, 1) [DPara (0, 1) [Str "q"]]]]].
Print Assumptions C03_build_refuted.

(* non-vacuity: a nested document with headings inside items, a list that starts an item and
   a quote satisfies the hypothesis *)
Example C03_hypothesis_example :
  Forall (fun b => item_leads_ok b = true)
    [DHeader (0,1) 2 [Str "t"];
     DBList [[DHeader (2,3) 1 [Str "h"]; DCode (3,5) None "c"]; []; [DOList [[DPara (6,7) [Str "x"]]]]];
     DQuote (8,9) [DRule (8,9); DBList [[DPara (9,10) [Str "y"]; DQuote (10,11) []]]]].
Proof. repeat constructor. Qed.
