(* Props/C04.v — incremental edits leave the same library as a fresh start.
   The full statement (every answer of the server after any history equals the answer of a
   server started on the final texts) is decided on every run from the implementation's own
   answers (Check_Hist.v: texts, titles, block at each line, backlinks, outline paths, search
   results, after every step of every generated history, against a database built from
   scratch), and by the correspondence of the model's run of the same history.
   Proved here: the title cache keeps no trace of earlier versions. *)
From IweV Require Import Str Text Ast RelPath Arena Project Library LibraryFacts.
Local Open Scope string_scope.
Local Open Scope list_scope.

(* Whatever the library and its title cache were before — any history — after a note is
   (re)built its title is the plain text of its first block if that is a section and absent
   otherwise: exactly what a fresh start computes from the same arena. *)
Theorem C04_title_no_history :
  forall g key meta bs g',
    from_blocks g key meta bs = Ok g' ->
    get_key_title g' key = extract_ref_text (gr_arena g') (length (gr_arena g)).
Proof. exact from_blocks_title. Qed.
Check C04_title_no_history :
  forall g key meta bs g',
    from_blocks g key meta bs = Ok g' ->
    get_key_title g' key = extract_ref_text (gr_arena g') (length (gr_arena g)).
Print Assumptions C04_title_no_history.

(* ... and the titles of all other notes are untouched by the edit. *)
Theorem C04_title_frame :
  forall g key meta bs g' k',
    from_blocks g key meta bs = Ok g' -> String.eqb k' key = false ->
    get_key_title g' k' = get_key_title g k'.
Proof. exact from_blocks_title_frame. Qed.
Check C04_title_frame :
  forall g key meta bs g' k',
    from_blocks g key meta bs = Ok g' -> String.eqb k' key = false ->
    get_key_title g' k' = get_key_title g k'.
Print Assumptions C04_title_frame.

(* As found in the pinned tree the cache entry was never removed; repaired by the `fix:` commit
   recorded in known_findings.txt. *)
Theorem C04_title_as_found_refuted :
  get_key_title stale_title_witness "a" = Some "old title" /\
  extract_ref_text (gr_arena stale_title_witness) 0 = None.
Proof. exact refresh_title_as_found_refuted. Qed.
Check C04_title_as_found_refuted :
  get_key_title stale_title_witness "a" = Some "old title" /\
  extract_ref_text (gr_arena stale_title_witness) 0 = None.
Print Assumptions C04_title_as_found_refuted.
