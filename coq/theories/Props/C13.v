(* Props/C13.v — property C13: positions sent and received refer to the right place in the
   editor's text.  Only statements, each closed by an `exact`, pinned by a `Check`, and
   followed by `Print Assumptions`.  Model: Pos.v (+ Library.v for the line map); proofs:
   PosFacts.v, PosLib.v.  `as_found` is the pinned tree; `v_crlf` / `v_utf16` are the two
   repairs delivered as fix-c13-crlf.patch / fix-c13-utf16.patch. *)
From IweV Require Import Str Text Ast Arena Pos PosFacts Library PosLib.
Local Open Scope string_scope.
Local Open Scope list_scope.

(* the table the variant's `line_starts` builds locates every offset of the text at its line and byte column — for the repaired table on any text, for the as-found one on texts without CR *)
Theorem C13_line_starts :
  forall (v : variant) (t : string) (o : nat),
    (v_crlf v = true \/ no_cr t = true) -> o <= String.length t ->
    locate (line_starts v t) o = byte_pos t o.
Proof. exact C13_line_starts_locate. Qed.

Check C13_line_starts :
  forall (v : variant) (t : string) (o : nat),
    (v_crlf v = true \/ no_cr t = true) -> o <= String.length t ->
    locate (line_starts v t) o = byte_pos t o.
Print Assumptions C13_line_starts.

(* as found, a CRLF line before the offset shifts the column (witness `para\r\n\r\ntext [link](to)`, the `[` at byte 13 is reported at column 7 instead of 5) *)
Theorem C13_crlf_refuted :
  exists t o, o <= String.length t /\ locate (line_starts as_found t) o <> byte_pos t o /\
              t = sb [112;97;114;97;13;10;13;10;116;101;120;116;32;91;108;105;110;107;93;40;116;111;41]%N /\ o = 13.
Proof. exact PosFacts.C13_crlf_refuted. Qed.

Check C13_crlf_refuted :
  exists t o, o <= String.length t /\ locate (line_starts as_found t) o <> byte_pos t o /\
              t = sb [112;97;114;97;13;10;13;10;116;101;120;116;32;91;108;105;110;107;93;40;116;111;41]%N /\ o = 13.
Print Assumptions C13_crlf_refuted.

(* the one-pass position used by the check is the declarative LSP position (line feeds before the offset, UTF-16 length of the decoded text after the last one) *)
Theorem C13_lsp_pos_walk :
  forall (t : string) (o : nat), lsp_pos_walk t o = lsp_pos t o.
Proof. exact lsp_pos_walk_spec. Qed.

Check C13_lsp_pos_walk :
  forall (t : string) (o : nat), lsp_pos_walk t o = lsp_pos t o.
Print Assumptions C13_lsp_pos_walk.

(* byte columns (as found): to_inline_range is the LSP span when only ASCII precedes both ends on their lines *)
Theorem C13_inline_range :
  forall (v : variant) (t : string) (s e : nat),
    v_utf16 v = false -> (v_crlf v = true \/ no_cr t = true) ->
    s <= String.length t -> e <= String.length t ->
    ascii_before t s = true -> ascii_before t e = true ->
    to_inline_range v t (line_starts v t) s e = (lsp_pos t s, lsp_pos t e).
Proof. exact inline_range_bytes. Qed.

Check C13_inline_range :
  forall (v : variant) (t : string) (s e : nat),
    v_utf16 v = false -> (v_crlf v = true \/ no_cr t = true) ->
    s <= String.length t -> e <= String.length t ->
    ascii_before t s = true -> ascii_before t e = true ->
    to_inline_range v t (line_starts v t) s e = (lsp_pos t s, lsp_pos t e).
Print Assumptions C13_inline_range.

(* as found, a non-ASCII character before the link shifts its columns (witness `é [l](to)`: 3..10 instead of 2..9) *)
Theorem C13_utf16_refuted :
  exists t s e, s <= e <= String.length t /\ no_cr t = true /\
    to_inline_range as_found t (line_starts as_found t) s e <> (lsp_pos t s, lsp_pos t e) /\
    t = sb [195;169;32;91;108;93;40;116;111;41]%N /\ s = 3 /\ e = 10.
Proof. exact PosFacts.C13_utf16_refuted. Qed.

Check C13_utf16_refuted :
  exists t s e, s <= e <= String.length t /\ no_cr t = true /\
    to_inline_range as_found t (line_starts as_found t) s e <> (lsp_pos t s, lsp_pos t e) /\
    t = sb [195;169;32;91;108;93;40;116;111;41]%N /\ s = 3 /\ e = 10.
Print Assumptions C13_utf16_refuted.

(* UTF-16 columns (repaired): the position of every offset at a character boundary is its LSP position, whatever precedes it *)
Theorem C13_position_utf16 :
  forall (v : variant) (t : string) (x : nat),
    v_utf16 v = true -> (v_crlf v = true \/ no_cr t = true) -> x <= String.length t ->
    is_char_boundary t x = true ->
    is_char_boundary t (x - String.length (after_last_lf (stake x t))) = true ->
    to_position v t (line_starts v t) x = lsp_pos t x.
Proof. exact inline_position_utf16. Qed.

Check C13_position_utf16 :
  forall (v : variant) (t : string) (x : nat),
    v_utf16 v = true -> (v_crlf v = true \/ no_cr t = true) -> x <= String.length t ->
    is_char_boundary t x = true ->
    is_char_boundary t (x - String.length (after_last_lf (stake x t))) = true ->
    to_position v t (line_starts v t) x = lsp_pos t x.
Print Assumptions C13_position_utf16.

(* what link_at returns, for blocks and inlines nested to any depth: the first link (outermost first, left to right) containing the position, among the inlines of the first block (children before parents, document order) whose line range covers the line *)
Theorem C13_link_at_char :
  forall (bs : list pblock) (p : pos),
    no_bad_lists bs ->
    link_at bs p =
    Ok (match find (covers (fst p)) (doc_search_order bs) with
        | Some b => find (in_span p) (links_of_list (child_inlines b))
        | None => None
        end).
Proof. exact link_at_char. Qed.

Check C13_link_at_char :
  forall (bs : list pblock) (p : pos),
    no_bad_lists bs ->
    link_at bs p =
    Ok (match find (covers (fst p)) (doc_search_order bs) with
        | Some b => find (in_span p) (links_of_list (child_inlines b))
        | None => None
        end).
Print Assumptions C13_link_at_char.

(* with exact block ranges and non-overlapping links, link_at returns l exactly when the position is inside l's range *)
Theorem C13_link_at :
  forall (bs : list pblock) (p : pos) (l : pinl),
    no_bad_lists bs -> block_ranges_exact bs -> links_disjoint bs ->
    (link_at bs p = Ok (Some l) <->
     exists b, In b (doc_search_order bs) /\ In l (links_of_list (child_inlines b)) /\ in_span p l = true).
Proof. exact C13_link_at_iff. Qed.

Check C13_link_at :
  forall (bs : list pblock) (p : pos) (l : pinl),
    no_bad_lists bs -> block_ranges_exact bs -> links_disjoint bs ->
    (link_at bs p = Ok (Some l) <->
     exists b, In b (doc_search_order bs) /\ In l (links_of_list (child_inlines b)) /\ in_span p l = true).
Print Assumptions C13_link_at.

(* and nothing at a position that no link's range contains *)
Theorem C13_link_at_nothing :
  forall (bs : list pblock) (p : pos),
    no_bad_lists bs ->
    (forall b l, In b (doc_search_order bs) -> In l (links_of_list (child_inlines b)) -> in_span p l = false) ->
    link_at bs p = Ok None.
Proof. exact C13_link_at_none. Qed.

Check C13_link_at_nothing :
  forall (bs : list pblock) (p : pos),
    no_bad_lists bs ->
    (forall b l, In b (doc_search_order bs) -> In l (links_of_list (child_inlines b)) -> in_span p l = false) ->
    link_at bs p = Ok None.
Print Assumptions C13_link_at_nothing.

(* F3: a list whose first item is empty makes link_at panic *)
Theorem C13_empty_item_refuted :
  exists p : pos, link_at bad_list_witness p = Panic "line_range: unwrap on None" /\ p = (1, 3).
Proof. exact C13_bad_list_refuted. Qed.

Check C13_empty_item_refuted :
  exists p : pos, link_at bad_list_witness p = Panic "line_range: unwrap on None" /\ p = (1, 3).
Print Assumptions C13_empty_item_refuted.

(* block_ranges_exact fails for a multi-line paragraph at the end of a text without final newline: to_line_range drops its last line even with a correct line table, the link there is not found *)
Theorem C13_last_line_refuted :
  exists d, read_events (code_mode as_found w_last_line_text) w_last_line_events = Ok d /\
            link_at d (1, 7) = Ok None /\
            irange_contains (spec_span w_last_line_text 18 25) (1, 7) = true /\
            to_line_range (line_starts_fixed w_last_line_text) 0 27 = (0, 1) /\
            spec_lines w_last_line_text 0 27 = (0, 2).
Proof. exact PosFacts.C13_last_line_refuted. Qed.

Check C13_last_line_refuted :
  exists d, read_events (code_mode as_found w_last_line_text) w_last_line_events = Ok d /\
            link_at d (1, 7) = Ok None /\
            irange_contains (spec_span w_last_line_text 18 25) (1, 7) = true /\
            to_line_range (line_starts_fixed w_last_line_text) 0 27 = (0, 1) /\
            spec_lines w_last_line_text 0 27 = (0, 2).
Print Assumptions C13_last_line_refuted.

(* … for the continuation line of a tight list item (the implicit paragraph gets the range of its first inline) *)
Theorem C13_tight_item_refuted :
  exists d, read_events (code_mode as_found w_tight_text) w_tight_events = Ok d /\
            link_at d (1, 9) = Ok None /\
            irange_contains (spec_span w_tight_text 16 23) (1, 9) = true.
Proof. exact PosFacts.C13_tight_item_refuted. Qed.

Check C13_tight_item_refuted :
  exists d, read_events (code_mode as_found w_tight_text) w_tight_events = Ok d /\
            link_at d (1, 9) = Ok None /\
            irange_contains (spec_span w_tight_text 16 23) (1, 9) = true.
Print Assumptions C13_tight_item_refuted.

(* … and for links in table cells (tables have no child inlines) *)
Theorem C13_table_refuted :
  exists d, read_events (code_mode as_found w_table_text) w_table_events = Ok d /\
            link_at d (2, 3) = Ok None /\
            irange_contains (spec_span w_table_text 14 21) (2, 3) = true.
Proof. exact PosFacts.C13_table_refuted. Qed.

Check C13_table_refuted :
  exists d, read_events (code_mode as_found w_table_text) w_table_events = Ok d /\
            link_at d (2, 3) = Ok None /\
            irange_contains (spec_span w_table_text 14 21) (2, 3) = true.
Print Assumptions C13_table_refuted.

(* the rename range of a one-line link written `[label](url)`, label written as its plain text, is exactly the url *)
Theorem C13_key_range :
  forall (lt : link_type) (url : string) (line sc : nat) (kids : list pinl),
    let n := plain_len (PNode (KLink lt url) ((0, 0), (0, 0)) kids) in
    key_range (PNode (KLink lt url) ((line, sc), (line, sc + 1 + n + 2 + String.length url + 1)) kids) =
    Ok (Some ((line, sc + 1 + n + 2), (line, sc + 1 + n + 2 + String.length url))).
Proof. exact key_range_inline_link. Qed.

Check C13_key_range :
  forall (lt : link_type) (url : string) (line sc : nat) (kids : list pinl),
    let n := plain_len (PNode (KLink lt url) ((0, 0), (0, 0)) kids) in
    key_range (PNode (KLink lt url) ((line, sc), (line, sc + 1 + n + 2 + String.length url + 1)) kids) =
    Ok (Some ((line, sc + 1 + n + 2), (line, sc + 1 + n + 2 + String.length url))).
Print Assumptions C13_key_range.

(* for a wiki link the rename range is empty and behind the key *)
Theorem C13_key_range_wiki_refuted :
  exists l, key_range l = Ok (Some ((0, 7), (0, 7))) /\
            l = PNode (KLink WikiLink "wiki") ((0, 0), (0, 8)) [PStr 4].
Proof. exact PosFacts.C13_key_range_wiki_refuted. Qed.

Check C13_key_range_wiki_refuted :
  exists l, key_range l = Ok (Some ((0, 7), (0, 7))) /\
            l = PNode (KLink WikiLink "wiki") ((0, 0), (0, 8)) [PStr 4].
Print Assumptions C13_key_range_wiki_refuted.

(* get_node_id_at returns id exactly when id's entry is the last one of the note's line map whose range contains the line (innermost / latest block) *)
Theorem C13_node_at_line :
  forall (g : graph) (key : string) (m : list (nat * lrange)) (line id : nat),
    alookup key (gr_maps g) = Some m ->
    (get_node_id_at g key line = Ok (Some id) <->
     exists m1 r m2, m = m1 ++ (id, r) :: m2 /\ range_contains r line = true /\
                     Forall (fun e => range_contains (snd e) line = false) m2).
Proof. exact node_at_line_some. Qed.

Check C13_node_at_line :
  forall (g : graph) (key : string) (m : list (nat * lrange)) (line id : nat),
    alookup key (gr_maps g) = Some m ->
    (get_node_id_at g key line = Ok (Some id) <->
     exists m1 r m2, m = m1 ++ (id, r) :: m2 /\ range_contains r line = true /\
                     Forall (fun e => range_contains (snd e) line = false) m2).
Print Assumptions C13_node_at_line.

(* and no node exactly when no entry contains the line *)
Theorem C13_node_at_line_none :
  forall (g : graph) (key : string) (m : list (nat * lrange)) (line : nat),
    alookup key (gr_maps g) = Some m ->
    (get_node_id_at g key line = Ok None <-> Forall (fun e => range_contains (snd e) line = false) m).
Proof. exact node_at_line_none. Qed.

Check C13_node_at_line_none :
  forall (g : graph) (key : string) (m : list (nat * lrange)) (line : nat),
    alookup key (gr_maps g) = Some m ->
    (get_node_id_at g key line = Ok None <-> Forall (fun e => range_contains (snd e) line = false) m).
Print Assumptions C13_node_at_line_none.

(* the hypotheses of C13_link_at are satisfiable by a non-trivial document, and on it the
   model reader, link_at, key_range and the LSP span of pulldown's byte range agree *)
Example C13_nonvacuous :
  exists d l, read_events (code_mode as_found w_plain_text) w_plain_events = Ok d /\
              link_at d (2, 5) = Ok (Some l) /\ link_at d (2, 14) = Ok (Some l) /\
              link_at d (2, 4) = Ok None /\ link_at d (2, 15) = Ok None /\
              inline_range l = spec_span w_plain_text 11 21 /\
              key_range l = Ok (Some ((2, 12), (2, 14))).
Proof. exact C13_plain_example. Qed.
