(* Props/C13.v — property C13: positions sent and received refer to the right place in the
   editor's text.  Only statements, each closed by an `exact`, pinned by a `Check`, and
   followed by `Print Assumptions`.  Model: Pos.v (+ Library.v for the line map); proofs:
   PosFacts.v, PosLib.v.  `as_found` is the tree before the repairs of this property, `repaired`
   the current tree; each flag of `variant` is one `fix:` commit of /repo (see Pos.v). *)
From IweV Require Import Str Text Ast Arena Pos PosFacts Library PosLib.
Local Open Scope string_scope.
Local Open Scope list_scope.

(* the table the variant's `line_starts` builds locates every offset of the text at its line and byte column — for the repaired table on any text, for the as-found one on texts without CR *)
Theorem C13_line_starts :
  forall (v : variant) (t : string) (o : nat),
    (v_crlf v = true \/ no_cr t = true) -> o <= String.length t ->
    locate (line_starts v t) o = byte_pos t o.
Proof. exact C13_line_starts_locate. Qed.

Check C13_line_starts :
  forall (v : variant) (t : string) (o : nat),
    (v_crlf v = true \/ no_cr t = true) -> o <= String.length t ->
    locate (line_starts v t) o = byte_pos t o.
Print Assumptions C13_line_starts.

(* as found, a CRLF line before the offset shifts the column (witness `para\r\n\r\ntext [link](to)`, the `[` at byte 13 is reported at column 7 instead of 5) *)
Theorem C13_crlf_refuted :
  exists t o, o <= String.length t /\ locate (line_starts as_found t) o <> byte_pos t o /\
              t = sb [112;97;114;97;13;10;13;10;116;101;120;116;32;91;108;105;110;107;93;40;116;111;41]%N /\ o = 13.
Proof. exact PosFacts.C13_crlf_refuted. Qed.

Check C13_crlf_refuted :
  exists t o, o <= String.length t /\ locate (line_starts as_found t) o <> byte_pos t o /\
              t = sb [112;97;114;97;13;10;13;10;116;101;120;116;32;91;108;105;110;107;93;40;116;111;41]%N /\ o = 13.
Print Assumptions C13_crlf_refuted.

(* the one-pass position used by the check is the declarative LSP position (line feeds before the offset, UTF-16 length of the decoded text after the last one) *)
Theorem C13_lsp_pos_walk :
  forall (t : string) (o : nat), lsp_pos_walk t o = lsp_pos t o.
Proof. exact lsp_pos_walk_spec. Qed.

Check C13_lsp_pos_walk :
  forall (t : string) (o : nat), lsp_pos_walk t o = lsp_pos t o.
Print Assumptions C13_lsp_pos_walk.

(* byte columns (as found): to_inline_range is the LSP span when only ASCII precedes both ends on their lines *)
Theorem C13_inline_range :
  forall (v : variant) (t : string) (s e : nat),
    v_utf16 v = false -> (v_crlf v = true \/ no_cr t = true) ->
    s <= String.length t -> e <= String.length t ->
    ascii_before t s = true -> ascii_before t e = true ->
    to_inline_range v t (line_starts v t) s e = (lsp_pos t s, lsp_pos t e).
Proof. exact inline_range_bytes. Qed.

Check C13_inline_range :
  forall (v : variant) (t : string) (s e : nat),
    v_utf16 v = false -> (v_crlf v = true \/ no_cr t = true) ->
    s <= String.length t -> e <= String.length t ->
    ascii_before t s = true -> ascii_before t e = true ->
    to_inline_range v t (line_starts v t) s e = (lsp_pos t s, lsp_pos t e).
Print Assumptions C13_inline_range.

(* as found, a non-ASCII character before the link shifts its columns (witness `é [l](to)`: 3..10 instead of 2..9) *)
Theorem C13_utf16_refuted :
  exists t s e, s <= e <= String.length t /\ no_cr t = true /\
    to_inline_range as_found t (line_starts as_found t) s e <> (lsp_pos t s, lsp_pos t e) /\
    t = sb [195;169;32;91;108;93;40;116;111;41]%N /\ s = 3 /\ e = 10.
Proof. exact PosFacts.C13_utf16_refuted. Qed.

Check C13_utf16_refuted :
  exists t s e, s <= e <= String.length t /\ no_cr t = true /\
    to_inline_range as_found t (line_starts as_found t) s e <> (lsp_pos t s, lsp_pos t e) /\
    t = sb [195;169;32;91;108;93;40;116;111;41]%N /\ s = 3 /\ e = 10.
Print Assumptions C13_utf16_refuted.

(* UTF-16 columns (repaired): the position of every offset at a character boundary is its LSP position, whatever precedes it *)
Theorem C13_position_utf16 :
  forall (v : variant) (t : string) (x : nat),
    v_utf16 v = true -> (v_crlf v = true \/ no_cr t = true) -> x <= String.length t ->
    is_char_boundary t x = true ->
    is_char_boundary t (x - String.length (after_last_lf (stake x t))) = true ->
    to_position v t (line_starts v t) x = lsp_pos t x.
Proof. exact inline_position_utf16. Qed.

Check C13_position_utf16 :
  forall (v : variant) (t : string) (x : nat),
    v_utf16 v = true -> (v_crlf v = true \/ no_cr t = true) -> x <= String.length t ->
    is_char_boundary t x = true ->
    is_char_boundary t (x - String.length (after_last_lf (stake x t))) = true ->
    to_position v t (line_starts v t) x = lsp_pos t x.
Print Assumptions C13_position_utf16.

(* what link_at returns, for blocks and inlines nested to any depth: the first link (outermost first, left to right) containing the position, among the inlines of the first block (children before parents, document order; for a table since the repair v_table: the inlines of its cells) whose line range covers the line.  Since the repair v_empty_item for EVERY document; as found for documents without a list whose first item is empty *)
Theorem C13_link_at_char :
  forall (v : variant) (bs : list pblock) (p : pos),
    (v_empty_item v = true \/ no_bad_lists bs) ->
    link_at v bs p =
    Ok (match find (covers v (fst p)) (doc_search_order bs) with
        | Some b => find (in_span p) (links_of_list (child_inlines v b))
        | None => None
        end).
Proof. exact link_at_char. Qed.

Check C13_link_at_char :
  forall (v : variant) (bs : list pblock) (p : pos),
    (v_empty_item v = true \/ no_bad_lists bs) ->
    link_at v bs p =
    Ok (match find (covers v (fst p)) (doc_search_order bs) with
        | Some b => find (in_span p) (links_of_list (child_inlines v b))
        | None => None
        end).
Print Assumptions C13_link_at_char.

(* link_at of the current tree returns normally on every document at every position (as found it panicked on a list whose first item is empty: C13_empty_item_refuted) *)
Theorem C13_link_at_total :
  forall (v : variant) (bs : list pblock) (p : pos),
    v_empty_item v = true -> exists r, link_at v bs p = Ok r.
Proof. exact link_at_total. Qed.

Check C13_link_at_total :
  forall (v : variant) (bs : list pblock) (p : pos),
    v_empty_item v = true -> exists r, link_at v bs p = Ok r.
Print Assumptions C13_link_at_total.

(* with exact block ranges and non-overlapping links, link_at returns l exactly when the position is inside l's range *)
Theorem C13_link_at :
  forall (v : variant) (bs : list pblock) (p : pos) (l : pinl),
    (v_empty_item v = true \/ no_bad_lists bs) -> block_ranges_exact v bs -> links_disjoint v bs ->
    (link_at v bs p = Ok (Some l) <->
     exists b, In b (doc_search_order bs) /\ In l (links_of_list (child_inlines v b)) /\ in_span p l = true).
Proof. exact C13_link_at_iff. Qed.

Check C13_link_at :
  forall (v : variant) (bs : list pblock) (p : pos) (l : pinl),
    (v_empty_item v = true \/ no_bad_lists bs) -> block_ranges_exact v bs -> links_disjoint v bs ->
    (link_at v bs p = Ok (Some l) <->
     exists b, In b (doc_search_order bs) /\ In l (links_of_list (child_inlines v b)) /\ in_span p l = true).
Print Assumptions C13_link_at.

(* and nothing at a position that no link's range contains *)
Theorem C13_link_at_nothing :
  forall (v : variant) (bs : list pblock) (p : pos),
    (v_empty_item v = true \/ no_bad_lists bs) ->
    (forall b l, In b (doc_search_order bs) -> In l (links_of_list (child_inlines v b)) -> in_span p l = false) ->
    link_at v bs p = Ok None.
Proof. exact C13_link_at_none. Qed.

Check C13_link_at_nothing :
  forall (v : variant) (bs : list pblock) (p : pos),
    (v_empty_item v = true \/ no_bad_lists bs) ->
    (forall b l, In b (doc_search_order bs) -> In l (links_of_list (child_inlines v b)) -> in_span p l = false) ->
    link_at v bs p = Ok None.
Print Assumptions C13_link_at_nothing.

(* F3, repaired (d2c35b3): as found a list whose first item is empty made link_at panic; the repaired link_at finds the link of the second item *)
Theorem C13_empty_item_refuted :
  exists p : pos, link_at as_found bad_list_witness p = Panic "line_range: unwrap on None" /\ p = (1, 3) /\
                  link_at repaired bad_list_witness p = Ok (Some (PNode (KLink Regular "x") ((1, 2), (1, 8)) [PStr 1])).
Proof. exact C13_bad_list_refuted. Qed.

Check C13_empty_item_refuted :
  exists p : pos, link_at as_found bad_list_witness p = Panic "line_range: unwrap on None" /\ p = (1, 3) /\
                  link_at repaired bad_list_witness p = Ok (Some (PNode (KLink Regular "x") ((1, 2), (1, 8)) [PStr 1])).
Print Assumptions C13_empty_item_refuted.

(* OPEN (F-C13-last-line): block_ranges_exact fails, in the current tree too, for a range that ends inside a line: to_line_range drops its last line even with a correct line table (witness `x [l\nm](to)`: the link runs over the line break and ends the text, the position on its second line is not found) *)
Theorem C13_last_line_refuted :
  exists d, read_events (code_mode repaired w_last_line_text) w_last_line_events = Ok d /\
            read_events (code_mode as_found w_last_line_text) w_last_line_events = Ok d /\
            link_at repaired d (1, 2) = Ok None /\
            irange_contains (spec_span w_last_line_text 2 11) (1, 2) = true /\
            to_line_range (line_starts_fixed w_last_line_text) 0 11 = (0, 1) /\
            spec_lines w_last_line_text 0 11 = (0, 2).
Proof. exact PosFacts.C13_last_line_refuted. Qed.

Check C13_last_line_refuted :
  exists d, read_events (code_mode repaired w_last_line_text) w_last_line_events = Ok d /\
            read_events (code_mode as_found w_last_line_text) w_last_line_events = Ok d /\
            link_at repaired d (1, 2) = Ok None /\
            irange_contains (spec_span w_last_line_text 2 11) (1, 2) = true /\
            to_line_range (line_starts_fixed w_last_line_text) 0 11 = (0, 1) /\
            spec_lines w_last_line_text 0 11 = (0, 2).
Print Assumptions C13_last_line_refuted.

(* repaired (0e730dd): as found the implicit paragraph of a tight list item got the range of its first inline, the link on the continuation line was not found *)
Theorem C13_tight_item_refuted :
  exists d, read_events (code_mode as_found w_tight_text) w_tight_events = Ok d /\
            link_at as_found d (1, 9) = Ok None /\
            irange_contains (spec_span w_tight_text 16 23) (1, 9) = true.
Proof. exact PosFacts.C13_tight_item_refuted. Qed.

Check C13_tight_item_refuted :
  exists d, read_events (code_mode as_found w_tight_text) w_tight_events = Ok d /\
            link_at as_found d (1, 9) = Ok None /\
            irange_contains (spec_span w_tight_text 16 23) (1, 9) = true.
Print Assumptions C13_tight_item_refuted.

(* ... the repaired reader builds the specification's document for that text and the link is found *)
Theorem C13_tight_item_repaired :
  exists d l, read_events (code_mode repaired w_tight_text) w_tight_events = Ok d /\
              read_events (spec_mode w_tight_text) w_tight_events = Ok d /\
              link_at repaired d (1, 9) = Ok (Some l) /\ inline_range l = spec_span w_tight_text 16 23.
Proof. exact PosFacts.C13_tight_item_repaired. Qed.

Check C13_tight_item_repaired :
  exists d l, read_events (code_mode repaired w_tight_text) w_tight_events = Ok d /\
              read_events (spec_mode w_tight_text) w_tight_events = Ok d /\
              link_at repaired d (1, 9) = Ok (Some l) /\ inline_range l = spec_span w_tight_text 16 23.
Print Assumptions C13_tight_item_repaired.

(* since the repair v_tight the reader builds exactly the specification's document (every block with the lines its source spans, every inline with its LSP span) on EVERY event stream whose events each get exact lines and an exact span: no block range is derived from the wrong inline any more *)
Theorem C13_reader_spec :
  forall (v : variant) (t : string) (evs : list ev),
    v_tight v = true -> Forall (modes_agree (code_mode v t) (spec_mode t)) evs ->
    read_events (code_mode v t) evs = read_events (spec_mode t) evs.
Proof. exact PosFacts.C13_reader_spec. Qed.

Check C13_reader_spec :
  forall (v : variant) (t : string) (evs : list ev),
    v_tight v = true -> Forall (modes_agree (code_mode v t) (spec_mode t)) evs ->
    read_events (code_mode v t) evs = read_events (spec_mode t) evs.
Print Assumptions C13_reader_spec.

(* to_line_range gives a byte range exactly the lines it spans when the range ends behind a line feed or lies on one line (the complement is the open finding F-C13-last-line) *)
Theorem C13_line_range_exact :
  forall (v : variant) (t : string) (s e : nat),
    (v_crlf v = true \/ no_cr t = true) -> s <= e -> e <= String.length t ->
    (nth_byte t (e - 1) = Some LF \/ fst (lsp_pos_walk t s) = fst (lsp_pos_walk t e)) ->
    to_line_range (line_starts v t) s e = spec_lines t s e.
Proof. exact line_range_exact. Qed.

Check C13_line_range_exact :
  forall (v : variant) (t : string) (s e : nat),
    (v_crlf v = true \/ no_cr t = true) -> s <= e -> e <= String.length t ->
    (nth_byte t (e - 1) = Some LF \/ fst (lsp_pos_walk t s) = fst (lsp_pos_walk t e)) ->
    to_line_range (line_starts v t) s e = spec_lines t s e.
Print Assumptions C13_line_range_exact.

(* the reader of the current tree builds exactly the specification's document - every block with the lines its source spans, every inline with its LSP span - on EVERY event stream whose byte ranges lie in the text on character boundaries and end behind a line feed or on their first line *)
Theorem C13_reader_spec_exact :
  forall (v : variant) (t : string) (evs : list ev),
    v_tight v = true -> v_utf16 v = true -> (v_crlf v = true \/ no_cr t = true) ->
    Forall (ev_exact t) evs ->
    read_events (code_mode v t) evs = read_events (spec_mode t) evs.
Proof. exact PosFacts.C13_reader_spec_exact. Qed.

Check C13_reader_spec_exact :
  forall (v : variant) (t : string) (evs : list ev),
    v_tight v = true -> v_utf16 v = true -> (v_crlf v = true \/ no_cr t = true) ->
    Forall (ev_exact t) evs ->
    read_events (code_mode v t) evs = read_events (spec_mode t) evs.
Print Assumptions C13_reader_spec_exact.

(* as found that premise did not suffice (every event of the tight-item witness gets exact ranges, the implicit paragraph does not) *)
Theorem C13_reader_spec_as_found_refuted :
  Forall (modes_agree (code_mode as_found w_tight_text) (spec_mode w_tight_text)) w_tight_events /\
  read_events (code_mode as_found w_tight_text) w_tight_events <> read_events (spec_mode w_tight_text) w_tight_events.
Proof. exact PosFacts.C13_reader_spec_as_found_refuted. Qed.

Check C13_reader_spec_as_found_refuted :
  Forall (modes_agree (code_mode as_found w_tight_text) (spec_mode w_tight_text)) w_tight_events /\
  read_events (code_mode as_found w_tight_text) w_tight_events <> read_events (spec_mode w_tight_text) w_tight_events.
Print Assumptions C13_reader_spec_as_found_refuted.

(* repaired (113c625): as found links in table cells were never found (tables had no child inlines) *)
Theorem C13_table_refuted :
  exists d, read_events (code_mode as_found w_table_text) w_table_events = Ok d /\
            link_at as_found d (2, 3) = Ok None /\
            irange_contains (spec_span w_table_text 14 21) (2, 3) = true.
Proof. exact PosFacts.C13_table_refuted. Qed.

Check C13_table_refuted :
  exists d, read_events (code_mode as_found w_table_text) w_table_events = Ok d /\
            link_at as_found d (2, 3) = Ok None /\
            irange_contains (spec_span w_table_text 14 21) (2, 3) = true.
Print Assumptions C13_table_refuted.

(* ... the repaired link_at finds the link in the cell, on exactly its span *)
Theorem C13_table_repaired :
  exists d l, read_events (code_mode repaired w_table_text) w_table_events = Ok d /\
              link_at repaired d (2, 3) = Ok (Some l) /\ inline_range l = spec_span w_table_text 14 21 /\
              link_at repaired d (2, 1) = Ok None /\ link_at repaired d (2, 9) = Ok None.
Proof. exact PosFacts.C13_table_repaired. Qed.

Check C13_table_repaired :
  exists d l, read_events (code_mode repaired w_table_text) w_table_events = Ok d /\
              link_at repaired d (2, 3) = Ok (Some l) /\ inline_range l = spec_span w_table_text 14 21 /\
              link_at repaired d (2, 1) = Ok None /\ link_at repaired d (2, 9) = Ok None.
Print Assumptions C13_table_repaired.

(* the rename range of a one-line link written `[label](url)`, label written as its plain text, is exactly the url *)
Theorem C13_key_range :
  forall (lt : link_type) (url : string) (line sc : nat) (kids : list pinl),
    let n := plain_len (PNode (KLink lt url) ((0, 0), (0, 0)) kids) in
    key_range (PNode (KLink lt url) ((line, sc), (line, sc + 1 + n + 2 + String.length url + 1)) kids) =
    Ok (Some ((line, sc + 1 + n + 2), (line, sc + 1 + n + 2 + String.length url))).
Proof. exact key_range_inline_link. Qed.

Check C13_key_range :
  forall (lt : link_type) (url : string) (line sc : nat) (kids : list pinl),
    let n := plain_len (PNode (KLink lt url) ((0, 0), (0, 0)) kids) in
    key_range (PNode (KLink lt url) ((line, sc), (line, sc + 1 + n + 2 + String.length url + 1)) kids) =
    Ok (Some ((line, sc + 1 + n + 2), (line, sc + 1 + n + 2 + String.length url))).
Print Assumptions C13_key_range.

(* for a wiki link the rename range is empty and behind the key *)
Theorem C13_key_range_wiki_refuted :
  exists l, key_range l = Ok (Some ((0, 7), (0, 7))) /\
            l = PNode (KLink WikiLink "wiki") ((0, 0), (0, 8)) [PStr 4].
Proof. exact PosFacts.C13_key_range_wiki_refuted. Qed.

Check C13_key_range_wiki_refuted :
  exists l, key_range l = Ok (Some ((0, 7), (0, 7))) /\
            l = PNode (KLink WikiLink "wiki") ((0, 0), (0, 8)) [PStr 4].
Print Assumptions C13_key_range_wiki_refuted.

(* get_node_id_at returns id exactly when id's entry is the last one of the note's line map whose range contains the line (innermost / latest block) *)
Theorem C13_node_at_line :
  forall (g : graph) (key : string) (m : list (nat * lrange)) (line id : nat),
    alookup key (gr_maps g) = Some m ->
    (get_node_id_at g key line = Ok (Some id) <->
     exists m1 r m2, m = m1 ++ (id, r) :: m2 /\ range_contains r line = true /\
                     Forall (fun e => range_contains (snd e) line = false) m2).
Proof. exact node_at_line_some. Qed.

Check C13_node_at_line :
  forall (g : graph) (key : string) (m : list (nat * lrange)) (line id : nat),
    alookup key (gr_maps g) = Some m ->
    (get_node_id_at g key line = Ok (Some id) <->
     exists m1 r m2, m = m1 ++ (id, r) :: m2 /\ range_contains r line = true /\
                     Forall (fun e => range_contains (snd e) line = false) m2).
Print Assumptions C13_node_at_line.

(* and no node exactly when no entry contains the line *)
Theorem C13_node_at_line_none :
  forall (g : graph) (key : string) (m : list (nat * lrange)) (line : nat),
    alookup key (gr_maps g) = Some m ->
    (get_node_id_at g key line = Ok None <-> Forall (fun e => range_contains (snd e) line = false) m).
Proof. exact node_at_line_none. Qed.

Check C13_node_at_line_none :
  forall (g : graph) (key : string) (m : list (nat * lrange)) (line : nat),
    alookup key (gr_maps g) = Some m ->
    (get_node_id_at g key line = Ok None <-> Forall (fun e => range_contains (snd e) line = false) m).
Print Assumptions C13_node_at_line_none.

(* the hypotheses of C13_link_at are satisfiable by a non-trivial document, and on it the
   model reader, link_at, key_range and the LSP span of pulldown's byte range agree *)
Example C13_nonvacuous :
  exists d l, read_events (code_mode repaired w_plain_text) w_plain_events = Ok d /\
              link_at repaired d (2, 5) = Ok (Some l) /\ link_at repaired d (2, 14) = Ok (Some l) /\
              link_at repaired d (2, 4) = Ok None /\ link_at repaired d (2, 15) = Ok None /\
              inline_range l = spec_span w_plain_text 11 21 /\
              key_range l = Ok (Some ((2, 12), (2, 14))).
Proof. exact C13_plain_example. Qed.
