(* Props/C20Patch.v - property C20: patch graphs built from trees - wf_b implies the partition and owner predicates of the per-run check in every arena; Graph::build_key_from_iter keeps all three on every well-formed graph; the model of new_patch + build_key_from_iter passes sub-properties 4-7 and stage 11 of the history check on every tree (PatchWF.v, Check_Patch.v)
   Only statements, each closed by an `exact`, pinned by a `Check`, followed by `Print Assumptions`. *)
From Coq Require Import ZArith Permutation List.
From IweV Require Import Str Text Ast RelPath Arena ArenaWF ArenaFacts SectionsRefine TreeBuild TreeBuildFacts Check_Patch PatchWF.
Local Open Scope string_scope.
Local Open Scope list_scope.

Theorem C20_wf_partition :
  forall (a : arena) (keys : list (string * nat)),
         wf_b a keys = true -> partition_ok a keys = true.
Proof. exact PatchWF.wf_partition. Qed.
Check C20_wf_partition :
  forall (a : arena) (keys : list (string * nat)),
         wf_b a keys = true -> partition_ok a keys = true.
Print Assumptions C20_wf_partition.

Theorem C20_wf_owners :
  forall (a : arena) (keys : list (string * nat)),
         wf_b a keys = true -> owners_ok a keys = true.
Proof. exact PatchWF.wf_owners. Qed.
Check C20_wf_owners :
  forall (a : arena) (keys : list (string * nat)),
         wf_b a keys = true -> owners_ok a keys = true.
Print Assumptions C20_wf_owners.

Theorem C20_build_key_from_iter_wf :
  forall (a : arena) (keys : list (string * nat)) (key : string) (t : tree),
         wf_b a keys = true ->
         buildable t = true ->
         exists st : bst,
           build_key_from_iter a key t = Ok st /\
           wf_b (b_arena st) ((key, Datatypes.length a) :: keys) = true /\
           partition_ok (b_arena st) ((key, Datatypes.length a) :: keys) = true /\
           owners_ok (b_arena st) ((key, Datatypes.length a) :: keys) = true /\
           firstn (Datatypes.length a) (b_arena st) = a /\
           collect_raw (b_arena st) (Datatypes.length a) =
           Ok (Some (label (built_tree key t) (Datatypes.length a))).
Proof. exact PatchWF.build_key_from_iter_wf. Qed.
Check C20_build_key_from_iter_wf :
  forall (a : arena) (keys : list (string * nat)) (key : string) (t : tree),
         wf_b a keys = true ->
         buildable t = true ->
         exists st : bst,
           build_key_from_iter a key t = Ok st /\
           wf_b (b_arena st) ((key, Datatypes.length a) :: keys) = true /\
           partition_ok (b_arena st) ((key, Datatypes.length a) :: keys) = true /\
           owners_ok (b_arena st) ((key, Datatypes.length a) :: keys) = true /\
           firstn (Datatypes.length a) (b_arena st) = a /\
           collect_raw (b_arena st) (Datatypes.length a) =
           Ok (Some (label (built_tree key t) (Datatypes.length a))).
Print Assumptions C20_build_key_from_iter_wf.

Theorem C20_patch_graph_wf :
  forall (key : string) (t : tree),
         buildable t = true ->
         exists st : bst,
           build_key_from_iter patch_arena0 key t = Ok st /\
           wf_b (b_arena st) [(key, 0)] = true /\
           partition_ok (b_arena st) [(key, 0)] = true /\
           owners_ok (b_arena st) [(key, 0)] = true /\
           collect_raw (b_arena st) 0 = Ok (Some (label (built_tree key t) 0)) /\
           Datatypes.length (b_arena st) = tree_nodes (built_tree key t).
Proof. exact PatchWF.patch_graph_wf. Qed.
Check C20_patch_graph_wf :
  forall (key : string) (t : tree),
         buildable t = true ->
         exists st : bst,
           build_key_from_iter patch_arena0 key t = Ok st /\
           wf_b (b_arena st) [(key, 0)] = true /\
           partition_ok (b_arena st) [(key, 0)] = true /\
           owners_ok (b_arena st) [(key, 0)] = true /\
           collect_raw (b_arena st) 0 = Ok (Some (label (built_tree key t) 0)) /\
           Datatypes.length (b_arena st) = tree_nodes (built_tree key t).
Print Assumptions C20_patch_graph_wf.

Theorem C20_patch_model_passes :
  forall (kind : nat) (key : string) (t : tree),
         patch_props_of [model_obs kind key t] = [] /\
         po_corr_back (model_obs kind key t) = true /\ po_corr_arena (model_obs kind key t) = true.
Proof. exact PatchWF.patch_model_passes. Qed.
Check C20_patch_model_passes :
  forall (kind : nat) (key : string) (t : tree),
         patch_props_of [model_obs kind key t] = [] /\
         po_corr_back (model_obs kind key t) = true /\ po_corr_arena (model_obs kind key t) = true.
Print Assumptions C20_patch_model_passes.

