(* Props/C04Text.v - property C04, text half: tree, text, title and metadata of every note after any history are functions of the final texts
   Only statements, each closed by an `exact`, pinned by a `Check`, followed by `Print Assumptions`. *)
From Coq Require Import ZArith Permutation List.
From IweV Require Import Str Text Ast RelPath Arena ArenaWF Project Library Check_Norm SectionsSpec SectionsRefine HistoryWF HistoryText.
Local Open Scope string_scope.
Local Open Scope list_scope.

Theorem C04_collect_after_history :
  forall ops : list op,
         exists g : graph,
           run ops (Ok empty_graph) = Ok g /\
           (forall (k : string) (m : option string) (bs : list dblock),
            last_op ops k = Some (m, bs) -> settled g k m bs) /\
           (forall k : string, In k (map fst (gr_keys g)) <-> In k (map op_key ops)) /\
           NoDup (map fst (gr_keys g)).
Proof. exact HistoryText.collect_after_history. Qed.
Check C04_collect_after_history :
  forall ops : list op,
         exists g : graph,
           run ops (Ok empty_graph) = Ok g /\
           (forall (k : string) (m : option string) (bs : list dblock),
            last_op ops k = Some (m, bs) -> settled g k m bs) /\
           (forall k : string, In k (map fst (gr_keys g)) <-> In k (map op_key ops)) /\
           NoDup (map fst (gr_keys g)).
Print Assumptions C04_collect_after_history.

Theorem C04_collect_after_import_history :
  forall notes ops : list op,
         NoDup (map note_key notes) ->
         exists g : graph,
           run ops (import notes) = Ok g /\
           (forall (k : string) (m : option string) (bs : list dblock),
            last_op ops k = Some (m, bs) -> settled g k m bs) /\
           (forall (name : string) (m : option string) (bs : list dblock),
            In (name, m, bs) notes ->
            ~ In (key_name name) (map op_key ops) ->
            settled g (key_name name) m bs) /\
           (forall k : string,
            In k (map fst (gr_keys g)) <-> In k (map op_key ops) \/ In k (map note_key notes)) /\
           NoDup (map fst (gr_keys g)).
Proof. exact HistoryText.collect_after_import_history. Qed.
Check C04_collect_after_import_history :
  forall notes ops : list op,
         NoDup (map note_key notes) ->
         exists g : graph,
           run ops (import notes) = Ok g /\
           (forall (k : string) (m : option string) (bs : list dblock),
            last_op ops k = Some (m, bs) -> settled g k m bs) /\
           (forall (name : string) (m : option string) (bs : list dblock),
            In (name, m, bs) notes ->
            ~ In (key_name name) (map op_key ops) ->
            settled g (key_name name) m bs) /\
           (forall k : string,
            In k (map fst (gr_keys g)) <-> In k (map op_key ops) \/ In k (map note_key notes)) /\
           NoDup (map fst (gr_keys g)).
Print Assumptions C04_collect_after_import_history.

Theorem C04_text_after_history :
  forall ops : list op,
         exists g : graph,
           run ops (Ok empty_graph) = Ok g /\
           (forall (o : opts) (tables : list string) (k : string),
            to_markdown o tables g k = spec_markdown o tables (last_op ops) k /\
            rmap erase (collect_key g k) = spec_collect (last_op ops) k /\
            get_key_title g k = spec_title (last_op ops) k).
Proof. exact HistoryText.text_after_history. Qed.
Check C04_text_after_history :
  forall ops : list op,
         exists g : graph,
           run ops (Ok empty_graph) = Ok g /\
           (forall (o : opts) (tables : list string) (k : string),
            to_markdown o tables g k = spec_markdown o tables (last_op ops) k /\
            rmap erase (collect_key g k) = spec_collect (last_op ops) k /\
            get_key_title g k = spec_title (last_op ops) k).
Print Assumptions C04_text_after_history.

Theorem C04_text_after_import_history :
  forall notes ops : list op,
         NoDup (map note_key notes) ->
         exists g : graph,
           run ops (import notes) = Ok g /\
           (forall (o : opts) (tables : list string) (k : string),
            to_markdown o tables g k =
            spec_markdown o tables (over (last_op ops) (last_op (ops_of notes))) k /\
            rmap erase (collect_key g k) =
            spec_collect (over (last_op ops) (last_op (ops_of notes))) k /\
            get_key_title g k = spec_title (over (last_op ops) (last_op (ops_of notes))) k).
Proof. exact HistoryText.text_after_import_history. Qed.
Check C04_text_after_import_history :
  forall notes ops : list op,
         NoDup (map note_key notes) ->
         exists g : graph,
           run ops (import notes) = Ok g /\
           (forall (o : opts) (tables : list string) (k : string),
            to_markdown o tables g k =
            spec_markdown o tables (over (last_op ops) (last_op (ops_of notes))) k /\
            rmap erase (collect_key g k) =
            spec_collect (over (last_op ops) (last_op (ops_of notes))) k /\
            get_key_title g k = spec_title (over (last_op ops) (last_op (ops_of notes))) k).
Print Assumptions C04_text_after_import_history.

Theorem C04_text_no_history :
  forall notes ops notes' ops' : list op,
         NoDup (map note_key notes) ->
         NoDup (map note_key notes') ->
         (forall k : string,
          over (last_op ops) (last_op (ops_of notes)) k =
          over (last_op ops') (last_op (ops_of notes')) k) ->
         exists g g' : graph,
           run ops (import notes) = Ok g /\
           run ops' (import notes') = Ok g' /\
           (forall (o : opts) (tables : list string) (k : string),
            to_markdown o tables g k = to_markdown o tables g' k /\
            rmap erase (collect_key g k) = rmap erase (collect_key g' k) /\
            get_key_title g k = get_key_title g' k).
Proof. exact HistoryText.text_no_history_runs. Qed.
Check C04_text_no_history :
  forall notes ops notes' ops' : list op,
         NoDup (map note_key notes) ->
         NoDup (map note_key notes') ->
         (forall k : string,
          over (last_op ops) (last_op (ops_of notes)) k =
          over (last_op ops') (last_op (ops_of notes')) k) ->
         exists g g' : graph,
           run ops (import notes) = Ok g /\
           run ops' (import notes') = Ok g' /\
           (forall (o : opts) (tables : list string) (k : string),
            to_markdown o tables g k = to_markdown o tables g' k /\
            rmap erase (collect_key g k) = rmap erase (collect_key g' k) /\
            get_key_title g k = get_key_title g' k).
Print Assumptions C04_text_no_history.

Theorem C04_text_fresh_updates :
  forall ops fresh : list op,
         Permutation (final_ops ops) fresh ->
         exists g g' : graph,
           run ops (Ok empty_graph) = Ok g /\
           run fresh (Ok empty_graph) = Ok g' /\
           (forall (o : opts) (tables : list string) (k : string),
            to_markdown o tables g k = to_markdown o tables g' k /\
            rmap erase (collect_key g k) = rmap erase (collect_key g' k) /\
            get_key_title g k = get_key_title g' k).
Proof. exact HistoryText.text_fresh_updates. Qed.
Check C04_text_fresh_updates :
  forall ops fresh : list op,
         Permutation (final_ops ops) fresh ->
         exists g g' : graph,
           run ops (Ok empty_graph) = Ok g /\
           run fresh (Ok empty_graph) = Ok g' /\
           (forall (o : opts) (tables : list string) (k : string),
            to_markdown o tables g k = to_markdown o tables g' k /\
            rmap erase (collect_key g k) = rmap erase (collect_key g' k) /\
            get_key_title g k = get_key_title g' k).
Print Assumptions C04_text_fresh_updates.

Theorem C04_text_fresh_import :
  forall ops notes : list op,
         Permutation (final_ops ops) (ops_of notes) ->
         exists g g' : graph,
           run ops (Ok empty_graph) = Ok g /\
           import notes = Ok g' /\
           (forall (o : opts) (tables : list string) (k : string),
            to_markdown o tables g k = to_markdown o tables g' k /\
            rmap erase (collect_key g k) = rmap erase (collect_key g' k) /\
            get_key_title g k = get_key_title g' k).
Proof. exact HistoryText.text_fresh_import. Qed.
Check C04_text_fresh_import :
  forall ops notes : list op,
         Permutation (final_ops ops) (ops_of notes) ->
         exists g g' : graph,
           run ops (Ok empty_graph) = Ok g /\
           import notes = Ok g' /\
           (forall (o : opts) (tables : list string) (k : string),
            to_markdown o tables g k = to_markdown o tables g' k /\
            rmap erase (collect_key g k) = rmap erase (collect_key g' k) /\
            get_key_title g k = get_key_title g' k).
Print Assumptions C04_text_fresh_import.

Theorem C04_title_after_history :
  forall ops : list op,
         exists g : graph,
           run ops (Ok empty_graph) = Ok g /\
           (forall k : string,
            get_key_title g k =
            match last_op ops k with
            | Some (_, DHeader _ _ l :: _) =>
                Some (inlines_plain_text (to_ginlines (key_parent k) l))
            | _ => None
            end).
Proof. exact HistoryText.title_after_history. Qed.
Check C04_title_after_history :
  forall ops : list op,
         exists g : graph,
           run ops (Ok empty_graph) = Ok g /\
           (forall k : string,
            get_key_title g k =
            match last_op ops k with
            | Some (_, DHeader _ _ l :: _) =>
                Some (inlines_plain_text (to_ginlines (key_parent k) l))
            | _ => None
            end).
Print Assumptions C04_title_after_history.

Theorem C04_update_key_text :
  forall (g : graph) (f : spec) (key : string) (meta : option string) (bs : list dblock),
         text_inv g f ->
         exists g' : graph, update_key g key meta bs = Ok g' /\ text_inv g' (upd f key (meta, bs)).
Proof. exact HistoryText.update_key_text. Qed.
Check C04_update_key_text :
  forall (g : graph) (f : spec) (key : string) (meta : option string) (bs : list dblock),
         text_inv g f ->
         exists g' : graph, update_key g key meta bs = Ok g' /\ text_inv g' (upd f key (meta, bs)).
Print Assumptions C04_update_key_text.

