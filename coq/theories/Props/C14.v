(* Props/C14.v — property C14: a file on disk, its `file://` URI and its note key name the same
   note.  Only statements, each closed by an `exact`, pinned by a `Check`, and followed by
   `Print Assumptions`. *)
From IweV Require Import Str RelPath RelPathFacts Arena Url UrlFacts.
Local Open Scope string_scope.
Local Open Scope list_scope.

(* The codec: decoding what `Url::from_file_path` writes for a path component gives the
   component back, for every byte string. *)
Theorem C14_pct_roundtrip : forall bytes, pct_decode (pct_encode_segment bytes) = bytes.
Proof. exact pct_roundtrip. Qed.

Check C14_pct_roundtrip : forall bytes, pct_decode (pct_encode_segment bytes) = bytes.
Print Assumptions C14_pct_roundtrip.

(* The repaired BasePath (fix-c14-uri-key.patch).  For every library path `/b1/../bn` with or
   without a trailing slash and every note file <dirs>/<stem>.md — all names any non-empty byte
   strings without `/` other than `.` and `..`, also a stem that itself ends in `.md` (the file
   `x.md.md` is the note `x.md`: finding F-C14-5, repaired) —
   the editor's URI of the file exists, url_to_key maps it to the key the disk loader gives the
   file, key_to_url of that key is that URI, and the URI opens exactly that file. *)
Theorem C14_same_note :
  forall (bs : list string) (slash : bool) (dirs : list string) (stem : string),
    bs <> [] -> Forall good_name bs -> Forall good_name (dirs ++ [stem]) ->
    let base := base_path bs slash in
    let comps := dirs ++ [stem] in
    exists u p,
      file_uri (note_path base comps) = Some u /\
      url_to_key_fixed base u = disk_key comps /\
      key_to_url_fixed base (disk_key comps) = Ok (Some u) /\
      to_file_path u = Some p /\
      path_components p = path_components (note_path base comps).
Proof. exact same_note_fixed. Qed.

Check C14_same_note :
  forall (bs : list string) (slash : bool) (dirs : list string) (stem : string),
    bs <> [] -> Forall good_name bs -> Forall good_name (dirs ++ [stem]) ->
    let base := base_path bs slash in
    let comps := dirs ++ [stem] in
    exists u p,
      file_uri (note_path base comps) = Some u /\
      url_to_key_fixed base u = disk_key comps /\
      key_to_url_fixed base (disk_key comps) = Ok (Some u) /\
      to_file_path u = Some p /\
      path_components p = path_components (note_path base comps).
Print Assumptions C14_same_note.

(* the hypotheses are satisfiable by a hostile instance: spaces, `%`, `#`, non-ASCII, nested
   directories, a library path with a space and a trailing slash *)
Example C14_same_note_nonvacuous :
  Forall good_name ["r"; "my lib"] /\ Forall good_name (["d#1"; "é"] ++ ["100% a?b"]) /\
  base_path ["r"; "my lib"] true = "/r/my lib/" /\
  file_uri (note_path "/r/my lib/" ["d#1"; "é"; "100% a?b"]) =
    Some "file:///r/my%20lib/d%231/%C3%A9/100%25%20a%3Fb.md" /\
  url_to_key_fixed "/r/my lib/" "file:///r/my%20lib/d%231/%C3%A9/100%25%20a%3Fb.md" = "d#1/é/100% a?b".
Proof. repeat split; repeat constructor; try discriminate. Qed.

(* As found, the half that maps the editor's URI to a key holds when the library path has no
   trailing slash and neither it nor the note's names contain a byte that needs
   percent-encoding, and the relative path does not itself start with `file:`. *)
Theorem C14_url_to_key_as_found :
  forall (bs dirs : list string) (stem : string),
    bs <> [] -> Forall good_name bs -> Forall good_name (dirs ++ [stem]) ->
    forallb url_safe bs = true -> forallb url_safe (dirs ++ [stem]) = true ->
    starts_with "file:" (join SEPS (dirs ++ [stem +++ MD])) = false ->
    let base := base_path bs false in
    let comps := dirs ++ [stem] in
    exists u, file_uri (note_path base comps) = Some u /\
              url_to_key_as_found (server_prefix base) u = disk_key comps.
Proof. exact url_to_key_as_found_safe. Qed.

Check C14_url_to_key_as_found :
  forall (bs dirs : list string) (stem : string),
    bs <> [] -> Forall good_name bs -> Forall good_name (dirs ++ [stem]) ->
    forallb url_safe bs = true -> forallb url_safe (dirs ++ [stem]) = true ->
    starts_with "file:" (join SEPS (dirs ++ [stem +++ MD])) = false ->
    let base := base_path bs false in
    let comps := dirs ++ [stem] in
    exists u, file_uri (note_path base comps) = Some u /\
              url_to_key_as_found (server_prefix base) u = disk_key comps.
Print Assumptions C14_url_to_key_as_found.

(* As found, class K1: a name with a byte that file:// URIs percent-encode — space, non-ASCII,
   `%`, `?`, `#` — is loaded under one key and addressed by its URI under another. *)
Theorem C14_unsafe_refuted :
  (as_found_breaks_key "/r/lib" ["a b"] /\ needs_encoding "a b" = true) /\
  (as_found_breaks_key "/r/lib" ["é"] /\ needs_encoding "é" = true) /\
  (as_found_breaks_key "/r/lib" ["100%"] /\ needs_encoding "100%" = true) /\
  (as_found_breaks_key "/r/lib" ["q?x"] /\ needs_encoding "q?x" = true) /\
  (as_found_breaks_key "/r/lib" ["a#b"] /\ needs_encoding "a#b" = true).
Proof. exact (conj space_refuted (conj non_ascii_refuted (conj percent_refuted (conj question_refuted hash_refuted)))). Qed.

Check C14_unsafe_refuted :
  (as_found_breaks_key "/r/lib" ["a b"] /\ needs_encoding "a b" = true) /\
  (as_found_breaks_key "/r/lib" ["é"] /\ needs_encoding "é" = true) /\
  (as_found_breaks_key "/r/lib" ["100%"] /\ needs_encoding "100%" = true) /\
  (as_found_breaks_key "/r/lib" ["q?x"] /\ needs_encoding "q?x" = true) /\
  (as_found_breaks_key "/r/lib" ["a#b"] /\ needs_encoding "a#b" = true).
Print Assumptions C14_unsafe_refuted.

(* As found, class K2: key_to_url hands the raw key to Url::join; `%XX`, `?`, `#`, `\`, a leading
   space, a drive-like first segment make the answered URI open another file, a scheme-like
   key leaves the file scheme. *)
Theorem C14_join_refuted :
  (as_found_opens_other "/r/lib" ["a%20b"] /\ join_reinterprets ["a%20b"] = true) /\
  (as_found_opens_other "/r/lib" ["q?x"] /\ join_reinterprets ["q?x"] = true) /\
  (as_found_opens_other "/r/lib" ["a#b"] /\ join_reinterprets ["a#b"] = true) /\
  (as_found_opens_other "/r/lib" ["a\b"] /\ join_reinterprets ["a\b"] = true) /\
  (as_found_opens_other "/r/lib" [" x"] /\ join_reinterprets [" x"] = true) /\
  (as_found_opens_other "/r/lib" ["C|"; "x"] /\ join_reinterprets ["C|"; "x"] = true) /\
  (key_to_url_as_found (server_prefix "/r/lib") (disk_key ["a:b"]) = Ok None /\ join_reinterprets ["a:b"] = true).
Proof.
  exact (conj join_percent_refuted (conj join_question_refuted (conj join_hash_refuted
        (conj join_backslash_refuted (conj join_leading_space_refuted (conj join_drive_refuted join_scheme_refuted)))))).
Qed.

Check C14_join_refuted :
  (as_found_opens_other "/r/lib" ["a%20b"] /\ join_reinterprets ["a%20b"] = true) /\
  (as_found_opens_other "/r/lib" ["q?x"] /\ join_reinterprets ["q?x"] = true) /\
  (as_found_opens_other "/r/lib" ["a#b"] /\ join_reinterprets ["a#b"] = true) /\
  (as_found_opens_other "/r/lib" ["a\b"] /\ join_reinterprets ["a\b"] = true) /\
  (as_found_opens_other "/r/lib" [" x"] /\ join_reinterprets [" x"] = true) /\
  (as_found_opens_other "/r/lib" ["C|"; "x"] /\ join_reinterprets ["C|"; "x"] = true) /\
  (key_to_url_as_found (server_prefix "/r/lib") (disk_key ["a:b"]) = Ok None /\ join_reinterprets ["a:b"] = true).
Print Assumptions C14_join_refuted.

(* As found, classes K3 / K4: a library path with a space (or `#`), or with a trailing slash. *)
Theorem C14_base_refuted :
  (as_found_breaks_key "/r/my lib" ["a"] /\ base_unsafe "/r/my lib" = true) /\
  (as_found_opens_other "/r/a#b" ["a"] /\ base_unsafe "/r/a#b" = true).
Proof. exact (conj base_space_refuted base_hash_refuted). Qed.

Check C14_base_refuted :
  (as_found_breaks_key "/r/my lib" ["a"] /\ base_unsafe "/r/my lib" = true) /\
  (as_found_opens_other "/r/a#b" ["a"] /\ base_unsafe "/r/a#b" = true).
Print Assumptions C14_base_refuted.

Theorem C14_trailing_slash :
  as_found_breaks_key "/r/lib/" ["a"] /\ base_trailing_slash "/r/lib/" = true.
Proof. exact trailing_slash_refuted. Qed.

Check C14_trailing_slash :
  as_found_breaks_key "/r/lib/" ["a"] /\ base_trailing_slash "/r/lib/" = true.
Print Assumptions C14_trailing_slash.

(* former K5 (F-C14-5, repaired): one trailing `.md` is stripped, so x.md.md and x.md are the two notes
   `x.md` and `x`, and the URI answered for the note `x.md` opens x.md.md. *)
Theorem C14_md_once :
  disk_key ["x.md"] = "x.md" /\ disk_key ["x"] = "x" /\ loaded ["x.md"] = true /\ loaded ["x"] = true /\
  url_to_key_fixed "/r/lib" "file:///r/lib/x.md.md" = "x.md" /\ url_to_key_fixed "/r/lib" "file:///r/lib/x.md" = "x" /\
  exists u p, key_to_url_fixed "/r/lib" (disk_key ["x.md"]) = Ok (Some u) /\ to_file_path u = Some p /\
              u = "file:///r/lib/x.md.md" /\
              path_components p = path_components (note_path "/r/lib" ["x.md"]).
Proof. exact md_md_distinct. Qed.

Check C14_md_once :
  disk_key ["x.md"] = "x.md" /\ disk_key ["x"] = "x" /\ loaded ["x.md"] = true /\ loaded ["x"] = true /\
  url_to_key_fixed "/r/lib" "file:///r/lib/x.md.md" = "x.md" /\ url_to_key_fixed "/r/lib" "file:///r/lib/x.md" = "x" /\
  exists u p, key_to_url_fixed "/r/lib" (disk_key ["x.md"]) = Ok (Some u) /\ to_file_path u = Some p /\
              u = "file:///r/lib/x.md.md" /\
              path_components p = path_components (note_path "/r/lib" ["x.md"]).
Print Assumptions C14_md_once.

(* K6: trim_start_matches strips a repeated prefix: the URI of <lib>/file:/r/lib/x.md is taken
   for the note x (the repaired url_to_key gives the loader's key). *)
Theorem C14_prefix_once :
  let S := server_prefix "/r/lib" in
  let u := S +++ S +++ "x.md" in
  url_to_key_as_found S u = "x" /\ to_file_path u = Some "/r/lib/file:///r/lib/x.md" /\
  url_to_key_fixed "/r/lib" u = "file:/r/lib/x" /\ prefix_repeats S u = true.
Proof. exact prefix_once_refuted. Qed.

Check C14_prefix_once :
  let S := server_prefix "/r/lib" in
  let u := S +++ S +++ "x.md" in
  url_to_key_as_found S u = "x" /\ to_file_path u = Some "/r/lib/file:///r/lib/x.md" /\
  url_to_key_fixed "/r/lib" u = "file:/r/lib/x" /\ prefix_repeats S u = true.
Print Assumptions C14_prefix_once.

(* K7 / K8: URIs as other clients spell them (an escaped `:`, a query and fragment). *)
Theorem C14_client_uri_refuted :
  (let u := server_prefix "/r/lib" +++ "a%3Ab.md" in
   to_file_path u = Some "/r/lib/a:b.md" /\ url_to_key_as_found (server_prefix "/r/lib") u = "a%3Ab" /\
   url_to_key_fixed "/r/lib" u = "a:b" /\ disk_key ["a:b"] = "a:b" /\ uri_has_escape u = true) /\
  (let u := server_prefix "/r/lib" +++ "x.md?q#f" in
   to_file_path u = Some "/r/lib/x.md" /\ url_to_key_as_found (server_prefix "/r/lib") u = "x.md?q#f" /\
   url_to_key_fixed "/r/lib" u = "x" /\ uri_has_query u = true).
Proof. exact (conj escape_refuted query_refuted). Qed.

Check C14_client_uri_refuted :
  (let u := server_prefix "/r/lib" +++ "a%3Ab.md" in
   to_file_path u = Some "/r/lib/a:b.md" /\ url_to_key_as_found (server_prefix "/r/lib") u = "a%3Ab" /\
   url_to_key_fixed "/r/lib" u = "a:b" /\ disk_key ["a:b"] = "a:b" /\ uri_has_escape u = true) /\
  (let u := server_prefix "/r/lib" +++ "x.md?q#f" in
   to_file_path u = Some "/r/lib/x.md" /\ url_to_key_as_found (server_prefix "/r/lib") u = "x.md?q#f" /\
   url_to_key_fixed "/r/lib" u = "x" /\ uri_has_query u = true).
Print Assumptions C14_client_uri_refuted.
