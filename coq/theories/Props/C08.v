(* Props/C08.v — property C08: rename moves a note and keeps every link pointing at it.
   Only statements, each closed by an `exact`, pinned by a `Check`, followed by
   `Print Assumptions`.  The model is Rename.v (`Tree::change_key`, `GraphInline::change_key`,
   the reference scan, `handle_rename`, the editor's `apply_edits`); [fx : fixes] selects the
   unchanged tree ([as_found]) or the repairs ([repaired]; /repo is `FX false true true true`:
   front matter, dangling link, one reading of the new name). *)
From IweV Require Import Str Text Ast RelPath Arena Project Library Rename RenameFacts.
Local Open Scope string_scope.
Local Open Scope list_scope.

(* ---- what change_key rewrites: every tree, any size and nesting, both variants --------------- *)

(* In document order, the reference occurrences of the changed tree are those of the tree:
   an occurrence whose key is [old] (a block reference by its resolved key, an inline note link
   by its url as the reader left it, `Key::name(url)`) now has the key [new], with its kind and title — and its text,
   for a block reference always, for an inline link iff the label repair is in — unchanged;
   every other occurrence is returned as it was. *)
Definition C08_change_key_targets_stmt : Prop :=
  forall (fx : fixes) (old new : string) (t : tree),
    link_key new ->
    Forall2 (fun o o' =>
               (occ_hits old o = true -> occ_key o' = Some new /\ occ_text_kept fx o o') /\
               (occ_hits old o = false -> o' = o))
            (tree_occs t) (tree_occs (change_key_tree fx old new t)).
Theorem C08_change_key_targets : C08_change_key_targets_stmt.
Proof. exact change_key_targets. Qed.
Check C08_change_key_targets : C08_change_key_targets_stmt.
Print Assumptions C08_change_key_targets.

(* a tree that does not reference [old] is returned unchanged *)
Definition C08_change_key_noop_stmt : Prop :=
  forall (fx : fixes) (old new : string) (t : tree),
    (forall o, In o (tree_occs t) -> occ_hits old o = false) -> change_key_tree fx old new t = t.
Theorem C08_change_key_noop : C08_change_key_noop_stmt.
Proof. exact change_key_noop. Qed.
Check C08_change_key_noop : C08_change_key_noop_stmt.
Print Assumptions C08_change_key_noop.

(* with the destinations and texts of note links blanked, the changed tree IS the tree: ids,
   node kinds, nesting, words, code, tables, external links and images are untouched *)
Definition C08_change_key_frame_stmt : Prop :=
  forall (fx : fixes) (old new : string) (t : tree),
    is_ref_url new = true -> erase_tree (change_key_tree fx old new t) = erase_tree t.
Theorem C08_change_key_frame : C08_change_key_frame_stmt.
Proof. exact change_key_frame. Qed.
Check C08_change_key_frame : C08_change_key_frame_stmt.
Print Assumptions C08_change_key_frame.

(* ---- the taken-name guard ------------------------------------------------------------------------ *)

(* the key the new name stands for exists: refused.  In the repaired tree that key is the name
   read from the directory of the note that holds the cursor ([new_key_of]: from_rel_link_url
   new_name (key_parent doc) when fx_subdir, Key::from_file_name new_name as found) *)
Definition C08_taken_stmt : Prop :=
  forall fx o (g : graph) tables L doc site new_name,
    tlib_of_graph g tables = Ok L ->
    In (new_key_of fx doc new_name) (map fst (gr_keys g)) ->
    handle_rename fx o g tables doc site new_name = Ok (RErr (taken_msg new_name)).
Theorem C08_taken : C08_taken_stmt.
Proof. exact taken_refused_graph. Qed.
Check C08_taken : C08_taken_stmt.
Print Assumptions C08_taken.

(* ---- rename issued from a note in the library root (every variant of the tree) ----------------- *)

(* For every library (keys pairwise different), every link under the cursor of a root note
   that resolves to an existing note k, every free new name written as its key (in the root or
   in a sub-directory, no `.md`): handle_rename returns operations that apply cleanly to the
   library's files and leave: under the new name the text of change_key k new (tree of k)
   (with k's front matter iff that repair is in), no file k, for every other note that
   references k the text of its changed tree, every other file as it was, and no further file. *)
Definition C08_root_stmt : Prop :=
  forall (fx : fixes) (o : opts) (L : tlib) (doc url new : string),
    NoDup (tl_keys L) ->
    key_parent doc = "" ->
    In (from_rel_link_url url "") (tl_keys L) ->
    ends_with MD new = false ->
    from_rel_link_url new "" = new ->
    ~ In new (tl_keys L) ->
    exists (nk : tnote) (ops : list op),
      tl_find L (from_rel_link_url url "") = Some nk /\
      rename_core fx o tree_scan L doc (Ok (Some url)) new = Ok (REdits ops) /\
      forall st : store, files_of L st ->
        exists st' : store,
          apply_edits ops st = Some st' /\
          st' new = Some (new_text_of fx o url new nk new (if fx_meta fx then tn_meta nk else None)) /\
          st' (from_rel_link_url url "") = None /\
          (forall n, In n L -> tn_key n <> from_rel_link_url url "" ->
             st' (tn_key n) = if tree_refers (from_rel_link_url url "") (tn_tree n)
                              then Some (new_text_of fx o url new n (tn_key n) (tn_meta n))
                              else st (tn_key n)) /\
          (forall s, ~ In s (tl_keys L) -> s <> new -> st' s = None).
Theorem C08_root : C08_root_stmt.
Proof. exact rename_root. Qed.
Check C08_root : C08_root_stmt.
Print Assumptions C08_root.

(* ---- rename issued from a note in any directory (the repaired tree) ------------------------------ *)

(* With the new name read once (fx_subdir), C08_root holds from every note and for every spelling
   of the new name: no hypothesis on the directory of the cursor's note, on `.md` or on the way
   the name is written is left.  k and new are the link under the cursor and the typed name, both
   read from the directory of the note that holds the cursor; the operations are overrides of
   notes of the library other than k, then delete k, create and fill the file of the KEY new
   (root-relative: a name typed `new` in d/ makes d/new.md, `../new` makes new.md). *)
Definition C08_subdir_stmt : Prop :=
  forall (fx : fixes) (o : opts) (L : tlib) (doc url new_name : string),
    fx_subdir fx = true ->
    NoDup (tl_keys L) ->
    In (from_rel_link_url url (key_parent doc)) (tl_keys L) ->
    ~ In (from_rel_link_url new_name (key_parent doc)) (tl_keys L) ->
    let k := from_rel_link_url url (key_parent doc) in
    let new := from_rel_link_url new_name (key_parent doc) in
    exists (nk : tnote) (ops : list op),
      tl_find L k = Some nk /\
      rename_core fx o tree_scan L doc (Ok (Some url)) new_name = Ok (REdits ops) /\
      (exists ov, ops = ov ++ [OpDelete k; OpCreate new;
                               OpInsert new (text_of fx o k new nk new (if fx_meta fx then tn_meta nk else None))] /\
                  Forall (fun x => exists a t, x = OpOverride a t /\ In a (tl_keys L) /\ a <> k) ov) /\
      forall st : store, files_of L st ->
        exists st' : store,
          apply_edits ops st = Some st' /\
          st' new = Some (text_of fx o k new nk new (if fx_meta fx then tn_meta nk else None)) /\
          st' k = None /\
          (forall n, In n L -> tn_key n <> k ->
             st' (tn_key n) = if tree_refers k (tn_tree n)
                              then Some (text_of fx o k new n (tn_key n) (tn_meta n))
                              else st (tn_key n)) /\
          (forall s, ~ In s (tl_keys L) -> s <> new -> st' s = None).
Theorem C08_subdir : C08_subdir_stmt.
Proof. exact rename_subdir. Qed.
Check C08_subdir : C08_subdir_stmt.
Print Assumptions C08_subdir.

(* rename does not panic: with the dangling-link and the one-key repairs in, rename_core answers
   for every library, every directory of the cursor's note, every site the reader found and
   every new name, as long as the index answers; and so does handle_rename on a graph whose
   library collects *)
Definition C08_no_panic_stmt : Prop :=
  (forall fx o (scan : scan_t) L doc s new_name,
     fx_dangling fx = true -> fx_subdir fx = true ->
     (forall key, exists r, scan key = Ok r) ->
     exists r, rename_core fx o scan L doc (Ok s) new_name = Ok r) /\
  (forall fx o (g : graph) tables L doc s new_name,
     fx_dangling fx = true -> fx_subdir fx = true ->
     tlib_of_graph g tables = Ok L ->
     (forall key, exists r, index_scan (gr_arena g) key = Ok r) ->
     exists r, handle_rename fx o g tables doc (Ok s) new_name = Ok r).
Theorem C08_no_panic : C08_no_panic_stmt.
Proof. exact (conj rename_core_total handle_rename_total). Qed.
Check C08_no_panic : C08_no_panic_stmt.
Print Assumptions C08_no_panic.

(* C08_root is stated over the collected trees ([tree_scan]); handle_rename asks the index.
   The two agree whenever the index answers for the library's notes what a scan of their trees
   answers, i.e. when no arena node lies outside the collected trees. *)
Definition C08_index_bridge_stmt : Prop :=
  forall fx o (g : graph) tables L doc site new_name,
    tlib_of_graph g tables = Ok L ->
    (forall key, exists r, index_scan (gr_arena g) key = Ok r /\
                           forall n, In n L -> r n = tree_refers key (tn_tree n)) ->
    handle_rename fx o g tables doc site new_name = rename_core fx o tree_scan L doc site new_name.
Theorem C08_index_bridge : C08_index_bridge_stmt.
Proof. exact handle_rename_trees. Qed.
Check C08_index_bridge : C08_index_bridge_stmt.
Print Assumptions C08_index_bridge.

(* the hypotheses are satisfiable: two notes, `a` = "[label](k) x" and `k` = "# K" *)
Example C08_root_nonvacuous :
  NoDup (tl_keys W1) /\ key_parent "a" = "" /\ In (from_rel_link_url "k" "") (tl_keys W1) /\
  ends_with MD "new" = false /\ from_rel_link_url "new" "" = "new" /\ ~ In "new" (tl_keys W1).
Proof. exact rename_root_nonvacuous. Qed.

(* ---- link texts ------------------------------------------------------------------------------------ *)

(* a block reference, through collect / change_key / collect in the patch graph: its text is the
   one it had, or the title of the note it names (regular reference with a known title), or
   empty for a bare wiki link; change_key never touches it *)
Definition C08_text_block_stmt : Prop :=
  forall (ctx : titles) fx old new key text rt,
  exists text',
    pointer_node ctx (KRef key text rt) = Some (NRef key text' rt) /\
    renorm_node (change_key_node fx old new (NRef key text' rt))
      = NRef (if String.eqb key old then new else key) text' rt /\
    (text' = text \/ (rt = Regular /\ ctx key = Some text') \/ (rt = WikiLink /\ text' = "")).
Theorem C08_text_block : C08_text_block_stmt.
Proof. exact block_text_rule. Qed.
Check C08_text_block : C08_text_block_stmt.
Print Assumptions C08_text_block.

(* as found, `[label](k) x` comes back as `[](new) x`: the label is gone (finding F-C08-label) *)
Definition C08_text_inline_refuted_stmt : Prop :=
  rename_core as_found o0 tree_scan W1 "a" (Ok (Some "k")) "new"
  = Ok (REdits [OpOverride "a" ("[](new) x" +++ LFS); OpDelete "k"; OpCreate "new"; OpInsert "new" ("# K" +++ LFS)]).
Theorem C08_text_inline_refuted : C08_text_inline_refuted_stmt.
Proof. exact label_lost_as_found. Qed.
Check C08_text_inline_refuted : C08_text_inline_refuted_stmt.
Print Assumptions C08_text_inline_refuted.

(* ---- the other defects of the unchanged tree, each with its witness ---------------------------- *)

(* a rename issued from a note in a sub-directory: as found (whatever the other repairs) a panic,
   `build_key(new_name)` vs `export_key(from_rel_link_url(new_name, dir))`; with the one-key repair
   the name typed over the placeholder `../k` is read from d/ like the placeholder (`new` -> d/new,
   `../new` -> new, `b` -> d/b is taken); the same for a name not spelled like its key (`./new`) *)
Definition C08_subdir_refuted_stmt : Prop :=
  (forall l m d, rename_core (FX l m d false) o0 tree_scan W2 "d/b" (Ok (Some "../k")) "new" = Panic "to have key") /\
  (forall l m d,
     rename_core (FX l m d true) o0 tree_scan W2 "d/b" (Ok (Some "../k")) "new"
     = Ok (REdits [OpOverride "d/b" ("[K](new)" +++ LFS); OpDelete "k"; OpCreate "d/new"; OpInsert "d/new" ("# K" +++ LFS)]) /\
     rename_core (FX l m d true) o0 tree_scan W2 "d/b" (Ok (Some "../k")) "../new"
     = Ok (REdits [OpOverride "d/b" ("[K](../new)" +++ LFS); OpDelete "k"; OpCreate "new"; OpInsert "new" ("# K" +++ LFS)]) /\
     rename_core (FX l m d true) o0 tree_scan W2 "d/b" (Ok (Some "../k")) "b"
     = Ok (RErr (taken_msg "b"))) /\
  (forall l m d,
     rename_core (FX l m d false) o0 tree_scan W2 "k" (Ok (Some "k")) "./new" = Panic "to have key" /\
     rename_core (FX l m d true) o0 tree_scan W2 "k" (Ok (Some "k")) "./new"
     = Ok (REdits [OpOverride "d/b" ("[K](../new)" +++ LFS); OpDelete "k"; OpCreate "new"; OpInsert "new" ("# K" +++ LFS)])).
Theorem C08_subdir_refuted : C08_subdir_refuted_stmt.
Proof. exact (conj subdir_panics_as_found (conj subdir_renames_repaired unspelled_name_as_found_and_repaired)). Qed.
Check C08_subdir_refuted : C08_subdir_refuted_stmt.
Print Assumptions C08_subdir_refuted.

(* a link to no note under the cursor: panic as found, no edit when repaired *)
Definition C08_dangling_refuted_stmt : Prop :=
  rename_core as_found o0 tree_scan W1 "a" (Ok (Some "missing")) "new" = Panic "to have key" /\
  rename_core repaired o0 tree_scan W1 "a" (Ok (Some "missing")) "new" = Ok RNone.
Theorem C08_dangling_refuted : C08_dangling_refuted_stmt.
Proof. exact (conj dangling_panics_as_found dangling_refused_repaired). Qed.
Check C08_dangling_refuted : C08_dangling_refuted_stmt.
Print Assumptions C08_dangling_refuted.

(* the front matter of the renamed note is dropped as found, kept when repaired *)
Definition C08_front_matter_refuted_stmt : Prop :=
  rename_core as_found o0 tree_scan W4 "a" (Ok (Some "k")) "new"
  = Ok (REdits [OpOverride "a" ("[K](new)" +++ LFS); OpDelete "k"; OpCreate "new"; OpInsert "new" ("# K" +++ LFS)]) /\
  rename_core repaired o0 tree_scan W4 "a" (Ok (Some "k")) "new"
  = Ok (REdits [OpOverride "a" ("[K](new)" +++ LFS); OpDelete "k"; OpCreate "new";
                OpInsert "new" ("---" +++ LFS +++ "title: t" +++ LFS +++ "---" +++ LFS +++ LFS +++ "# K" +++ LFS)]).
Theorem C08_front_matter_refuted : C08_front_matter_refuted_stmt.
Proof. exact (conj front_matter_lost_as_found front_matter_kept_repaired). Qed.
Check C08_front_matter_refuted : C08_front_matter_refuted_stmt.
Print Assumptions C08_front_matter_refuted.

(* links in table cells are not rewritten (any variant) *)
Definition C08_unrewritten_refuted_stmt : Prop :=
  (forall fx, change_key_tree fx "k" "new" W5_tree = W5_tree /\ tree_refers "k" W5_tree = false).
Theorem C08_unrewritten_refuted : C08_unrewritten_refuted_stmt.
Proof. exact table_link_untouched. Qed.
Check C08_unrewritten_refuted : C08_unrewritten_refuted_stmt.
Print Assumptions C08_unrewritten_refuted.

(* F-C08-rawurl and the inline part of F-C08-newname, repaired: the graph holds an inline note link by the key it
   names from the note's directory (`./k` in the root and `../k` in d/ are the note k and are retargeted, `k` typed
   in d/ is d/k and is left alone), and a note that moves to another directory has its inline links written
   relative to the new place, like its block references (formerly C08_unrewritten_refuted stated the opposite) *)
Definition C08_inline_by_key_stmt : Prop :=
  (forall fx,
     from_rel_link_url "./k" "" = "k" /\ from_rel_link_url "../k" "d" = "k" /\ from_rel_link_url "k" "d" = "d/k" /\
     change_key_inline fx "k" "new" (to_ginline "" (Link "./k" "" Regular [Str "x"]))
     = Link "new" "" Regular (if fx_label fx then [Str "x"] else []) /\
     change_key_inline fx "k" "new" (to_ginline "d" (Link "../k" "" Regular [Str "x"]))
     = Link "new" "" Regular (if fx_label fx then [Str "x"] else []) /\
     change_key_inline fx "k" "new" (to_ginline "d" (Link "k" "" Regular [Str "x"])) = Link "d/k" "" Regular [Str "x"]) /\
  (forall fx, rename_core fx o0 tree_scan W7 "k" (Ok (Some "k")) "d/new"
              = Ok (REdits [OpDelete "k"; OpCreate "d/new"; OpInsert "d/new" ("see [A](../a)" +++ LFS +++ LFS +++ "[A](../a)" +++ LFS)]) /\
              from_rel_link_url "../a" (key_parent "d/new") = "a").
Theorem C08_inline_by_key : C08_inline_by_key_stmt.
Proof. exact (conj raw_url_retargeted move_dir_inline_rebased). Qed.
Check C08_inline_by_key : C08_inline_by_key_stmt.
Print Assumptions C08_inline_by_key.

(* every inline note link the reader builds is kept by the key it resolves to from the note's directory, so
   change_key hits it exactly when it resolves to the renamed note (and reads as a note url) *)
Theorem C08_inline_hit_resolved :
  forall old url dir,
    is_ref_url url = true ->
    change_key_inline as_found old "n" (to_ginline dir (Link url "" Regular [])) =
    if is_ref_url (from_rel_link_url url dir) && String.eqb (from_rel_link_url url dir) old
    then Link "n" "" Regular [] else Link (from_rel_link_url url dir) "" Regular [].
Proof. exact link_hits_resolved. Qed.
Check C08_inline_hit_resolved :
  forall old url dir,
    is_ref_url url = true ->
    change_key_inline as_found old "n" (to_ginline dir (Link url "" Regular [])) =
    if is_ref_url (from_rel_link_url url dir) && String.eqb (from_rel_link_url url dir) old
    then Link "n" "" Regular [] else Link (from_rel_link_url url dir) "" Regular [].
Print Assumptions C08_inline_hit_resolved.
