(* Props/C14Links.v — property C14, third leg: the note other notes reach by linking to <path> is
   the note loaded from the file <path>.md.  Only statements, each closed by an `exact`, pinned by
   a `Check`, and followed by `Print Assumptions`. *)
From IweV Require Import Str Ast RelPath RelPathFacts Arena Url UrlFacts LinkPaths LinkPathsFacts.
Local Open Scope string_scope.
Local Open Scope list_scope.

(* For every note file <dirs>/<stem>.md with legal names (any depth) and every link url: when the
   link, read from the directory <dirs> of the linking FILE (`.` stays, `..` one directory up, one
   `.md` taken off: LinkPaths.link_target, which uses no key text), names a file t inside the
   library, the key under which iwe files the link - Key::from_rel_link_url(url, key.parent()) with
   key the loader's key of the linking file - is the loader's key of t. *)
Theorem C14_link_reaches :
  forall (dirs : list string) (stem url : string) (t : list string),
    Forall good_name dirs -> good_name stem ->
    link_target (dirs ++ [stem]) url = Some t ->
    t <> [] /\ from_rel_link_url url (key_parent (disk_key (dirs ++ [stem]))) = disk_key t.
Proof. exact link_reaches. Qed.

Check C14_link_reaches :
  forall (dirs : list string) (stem url : string) (t : list string),
    Forall good_name dirs -> good_name stem ->
    link_target (dirs ++ [stem]) url = Some t ->
    t <> [] /\ from_rel_link_url url (key_parent (disk_key (dirs ++ [stem]))) = disk_key t.
Print Assumptions C14_link_reaches.

(* The same for a link INSIDE A SENTENCE (F-C14-inline-dir, repaired): the url the graph holds for it - what
   find-references and rename compare (GraphInline::ref_key) - is the loader's key of the file the link names from
   the linking file's directory. *)
Theorem C14_inline_link_reaches :
  forall (dirs : list string) (stem url title : string) (lt : link_type) (ils : list inline) (t : list string),
    Forall good_name dirs -> good_name stem ->
    link_target (dirs ++ [stem]) url = Some t ->
    to_ginline (key_parent (disk_key (dirs ++ [stem]))) (Link url title lt ils) =
    Link (disk_key t) title lt (map (to_ginline (key_parent (disk_key (dirs ++ [stem])))) ils).
Proof. exact inline_link_reaches. Qed.

Check C14_inline_link_reaches :
  forall (dirs : list string) (stem url title : string) (lt : link_type) (ils : list inline) (t : list string),
    Forall good_name dirs -> good_name stem ->
    link_target (dirs ++ [stem]) url = Some t ->
    to_ginline (key_parent (disk_key (dirs ++ [stem]))) (Link url title lt ils) =
    Link (disk_key t) title lt (map (to_ginline (key_parent (disk_key (dirs ++ [stem])))) ils).
Print Assumptions C14_inline_link_reaches.

(* A note link (not http/https/mailto, last component a name) that leaves the library gets a key
   that no file with legal names has: it reaches no note. *)
Theorem C14_link_outside :
  forall (dirs : list string) (stem url : string),
    Forall good_name dirs -> good_name stem ->
    is_ref_url url = true -> names_a_file (components (strip_md url)) = true ->
    link_target (dirs ++ [stem]) url = None ->
    forall t, Forall good_name t -> t <> [] ->
    from_rel_link_url url (key_parent (disk_key (dirs ++ [stem]))) <> disk_key t.
Proof. exact link_outside. Qed.

Check C14_link_outside :
  forall (dirs : list string) (stem url : string),
    Forall good_name dirs -> good_name stem ->
    is_ref_url url = true -> names_a_file (components (strip_md url)) = true ->
    link_target (dirs ++ [stem]) url = None ->
    forall t, Forall good_name t -> t <> [] ->
    from_rel_link_url url (key_parent (disk_key (dirs ++ [stem]))) <> disk_key t.
Print Assumptions C14_link_outside.

(* The seeded change r3-C14 (`Key::parent` = the text before the FIRST slash) as a model variant
   falsifies C14_link_reaches two directories down: `[Topic](topic)` in areas/work/log.md. *)
Theorem C14_first_slash_parent_refuted :
  exists dirs stem url t,
    Forall good_name dirs /\ good_name stem /\ link_target (dirs ++ [stem]) url = Some t /\
    from_rel_link_url url (key_parent_first_slash (disk_key (dirs ++ [stem]))) <> disk_key t.
Proof. exact first_slash_parent_refuted. Qed.

Check C14_first_slash_parent_refuted :
  exists dirs stem url t,
    Forall good_name dirs /\ good_name stem /\ link_target (dirs ++ [stem]) url = Some t /\
    from_rel_link_url url (key_parent_first_slash (disk_key (dirs ++ [stem]))) <> disk_key t.
Print Assumptions C14_first_slash_parent_refuted.

(* non-vacuity: the hypotheses hold for a nested file and a `..` link *)
Example C14_link_reaches_instance :
  link_target (["areas"; "work"] ++ ["log"]) "../topic.md" = Some ["areas"; "topic"] /\
  from_rel_link_url "../topic.md" (key_parent (disk_key (["areas"; "work"] ++ ["log"]))) = "areas/topic".
Proof. split; reflexivity. Qed.
