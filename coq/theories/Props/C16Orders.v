(* Props/C16Orders.v - property C16: the index getters, the outline paths, the search order and the export do not depend on hash-map / hash-set iteration order (Determinism2.v)
   Only statements, each closed by an `exact`, pinned by a `Check`, followed by `Print Assumptions`. *)
From Coq Require Import ZArith Permutation List.
From IweV Require Import Str Text Ast RelPath Arena Project Library Index IndexFacts Paths PathsFacts Determinism Determinism2.
Local Open Scope string_scope.
Local Open Scope list_scope.

Theorem C16_index_sets :
  forall (a : arena) (ri ri' : refindex),
         (forall (k : string) (x : nat), In x (kget k (ri_block ri)) <-> In x (kget k (ri_block ri'))) ->
         (forall (k : string) (x : nat),
          In x (kget k (ri_inline ri)) <-> In x (kget k (ri_inline ri'))) ->
         forall k : string,
         get_block_references_to a ri k = get_block_references_to a ri' k /\
         get_inline_references_to a ri k = get_inline_references_to a ri' k.
Proof. exact Determinism2.C16_index_sets. Qed.
Check C16_index_sets :
  forall (a : arena) (ri ri' : refindex),
         (forall (k : string) (x : nat), In x (kget k (ri_block ri)) <-> In x (kget k (ri_block ri'))) ->
         (forall (k : string) (x : nat),
          In x (kget k (ri_inline ri)) <-> In x (kget k (ri_inline ri'))) ->
         forall k : string,
         get_block_references_to a ri k = get_block_references_to a ri' k /\
         get_inline_references_to a ri k = get_inline_references_to a ri' k.
Print Assumptions C16_index_sets.

Theorem C16_index_sets_perm :
  forall m m1 m' : kmap,
         Forall2 (fun e e' : string * list nat => fst e = fst e' /\ Permutation (snd e) (snd e')) m
           m1 ->
         Permutation m1 m' ->
         NoDup (map fst m1) -> forall (k : string) (x : nat), In x (kget k m) <-> In x (kget k m').
Proof. exact Determinism2.C16_index_sets_perm. Qed.
Check C16_index_sets_perm :
  forall m m1 m' : kmap,
         Forall2 (fun e e' : string * list nat => fst e = fst e' /\ Permutation (snd e) (snd e')) m
           m1 ->
         Permutation m1 m' ->
         NoDup (map fst m1) -> forall (k : string) (x : nat), In x (kget k m) <-> In x (kget k m').
Print Assumptions C16_index_sets_perm.

Theorem C16_index_insert_order :
  forall (ps ps' : list (string * nat)) (m : kmap),
         Permutation ps ps' ->
         forall (k : string) (x : nat),
         In x (kget k (kadd_all ps m)) <-> In x (kget k (kadd_all ps' m)).
Proof. exact Determinism2.C16_index_insert_order. Qed.
Check C16_index_insert_order :
  forall (ps ps' : list (string * nat)) (m : kmap),
         Permutation ps ps' ->
         forall (k : string) (x : nat),
         In x (kget k (kadd_all ps m)) <-> In x (kget k (kadd_all ps' m)).
Print Assumptions C16_index_insert_order.

Theorem C16_index_merge_order :
  forall ri ri' o o' : refindex,
         index_equiv ri ri' ->
         Permutation (ri_block o) (ri_block o') ->
         Permutation (ri_inline o) (ri_inline o') -> index_equiv (merge ri o) (merge ri' o').
Proof. exact Determinism2.C16_index_merge_order. Qed.
Check C16_index_merge_order :
  forall ri ri' o o' : refindex,
         index_equiv ri ri' ->
         Permutation (ri_block o) (ri_block o') ->
         Permutation (ri_inline o) (ri_inline o') -> index_equiv (merge ri o) (merge ri' o').
Print Assumptions C16_index_merge_order.

Theorem C16_paths_set :
  forall l l' : list (list nat),
         (forall p : list nat, In p l <-> In p l') -> sort_paths l = sort_paths l'.
Proof. exact Determinism2.C16_paths_set. Qed.
Check C16_paths_set :
  forall l l' : list (list nat),
         (forall p : list nat, In p l <-> In p l') -> sort_paths l = sort_paths l'.
Print Assumptions C16_paths_set.

Theorem C16_path_cmp_total_order :
  (forall p q : list nat, path_cmp p q <> Gt -> path_cmp q p <> Gt -> p = q) /\
         (forall p q r : list nat, path_cmp p q <> Gt -> path_cmp q r <> Gt -> path_cmp p r <> Gt) /\
         (forall p q : list nat, path_cmp p q <> Gt \/ path_cmp q p <> Gt).
Proof. exact Determinism2.C16_path_cmp_total_order. Qed.
Check C16_path_cmp_total_order :
  (forall p q : list nat, path_cmp p q <> Gt -> path_cmp q p <> Gt -> p = q) /\
         (forall p q r : list nat, path_cmp p q <> Gt -> path_cmp q r <> Gt -> path_cmp p r <> Gt) /\
         (forall p q : list nat, path_cmp p q <> Gt \/ path_cmp q p <> Gt).
Print Assumptions C16_path_cmp_total_order.

Theorem C16_paths_perm :
  forall (refs refs' : string -> res (list nat)) (order order' : list nat) (a : arena),
         (forall k : string, res_seteq (refs k) (refs' k)) ->
         (forall x : nat, In x order <-> In x order') ->
         res_agree (graph_to_paths_gen refs order a) (graph_to_paths_gen refs' order' a).
Proof. exact Determinism2.C16_paths_perm. Qed.
Check C16_paths_perm :
  forall (refs refs' : string -> res (list nat)) (order order' : list nat) (a : arena),
         (forall k : string, res_seteq (refs k) (refs' k)) ->
         (forall x : nat, In x order <-> In x order') ->
         res_agree (graph_to_paths_gen refs order a) (graph_to_paths_gen refs' order' a).
Print Assumptions C16_paths_perm.

Theorem C16_paths_model :
  forall (s : gstate) (m : kmap) (order : list nat),
         (forall (k : string) (x : nat), In x (kget k (ri_block (gs_index s))) <-> In x (kget k m)) ->
         (forall x : nat, In x order <-> x < Datatypes.length (gr_arena (gs_graph s))) ->
         res_agree (graph_to_paths true s)
           (graph_to_paths_gen (hash_refs (gr_arena (gs_graph s)) m) order (gr_arena (gs_graph s))).
Proof. exact Determinism2.C16_paths_model. Qed.
Check C16_paths_model :
  forall (s : gstate) (m : kmap) (order : list nat),
         (forall (k : string) (x : nat), In x (kget k (ri_block (gs_index s))) <-> In x (kget k m)) ->
         (forall x : nat, In x order <-> x < Datatypes.length (gr_arena (gs_graph s))) ->
         res_agree (graph_to_paths true s)
           (graph_to_paths_gen (hash_refs (gr_arena (gs_graph s)) m) order (gr_arena (gs_graph s))).
Print Assumptions C16_paths_model.

Theorem C16_paths_state :
  forall (filt : bool) (s s' : gstate),
         state_equiv s s' ->
         graph_to_paths filt s = graph_to_paths filt s' /\ search_paths filt s = search_paths filt s'.
Proof. exact Determinism2.C16_paths_state. Qed.
Check C16_paths_state :
  forall (filt : bool) (s s' : gstate),
         state_equiv s s' ->
         graph_to_paths filt s = graph_to_paths filt s' /\ search_paths filt s = search_paths filt s'.
Print Assumptions C16_paths_state.

Theorem C16_search_stable :
  forall (qe : bool) (scored scored' : list (spath * Z)),
         Permutation scored scored' ->
         (forall z : spath * Z, filter (gs_eqv qe z) scored = filter (gs_eqv qe z) scored') ->
         global_search qe scored = global_search qe scored'.
Proof. exact Determinism2.C16_search_stable. Qed.
Check C16_search_stable :
  forall (qe : bool) (scored scored' : list (spath * Z)),
         Permutation scored scored' ->
         (forall z : spath * Z, filter (gs_eqv qe z) scored = filter (gs_eqv qe z) scored') ->
         global_search qe scored = global_search qe scored'.
Print Assumptions C16_search_stable.

Theorem C16_search_distinct :
  forall (qe : bool) (scored scored' : list (spath * Z)),
         Permutation scored scored' ->
         NoDup scored ->
         (forall x y : spath * Z, In x scored -> In y scored -> gs_eqv qe x y = true -> x = y) ->
         global_search qe scored = global_search qe scored'.
Proof. exact Determinism2.C16_search_distinct. Qed.
Check C16_search_distinct :
  forall (qe : bool) (scored scored' : list (spath * Z)),
         Permutation scored scored' ->
         NoDup scored ->
         (forall x y : spath * Z, In x scored -> In y scored -> gs_eqv qe x y = true -> x = y) ->
         global_search qe scored = global_search qe scored'.
Print Assumptions C16_search_distinct.

Theorem C16_search_ties :
  forall (qe : bool) (scored : list (spath * Z)),
         exists all : list (spath * Z),
           global_search qe scored = firstn 100 (map fst all) /\
           Permutation scored all /\
           Sorted.StronglySorted (fun x y : spath * Z => gs_le qe x y = true) all /\
           (forall z : spath * Z, filter (gs_eqv qe z) all = filter (gs_eqv qe z) scored).
Proof. exact Determinism2.C16_search_ties. Qed.
Check C16_search_ties :
  forall (qe : bool) (scored : list (spath * Z)),
         exists all : list (spath * Z),
           global_search qe scored = firstn 100 (map fst all) /\
           Permutation scored all /\
           Sorted.StronglySorted (fun x y : spath * Z => gs_le qe x y = true) all /\
           (forall z : spath * Z, filter (gs_eqv qe z) all = filter (gs_eqv qe z) scored).
Print Assumptions C16_search_ties.

Theorem C16_search_pipeline :
  forall (qe : bool) (score : spath -> Z) (s : gstate) (m : kmap) (order : list nat),
         (forall (k : string) (x : nat), In x (kget k (ri_block (gs_index s))) <-> In x (kget k m)) ->
         (forall x : nat, In x order <-> x < Datatypes.length (gr_arena (gs_graph s))) ->
         res_agree (global_search_of qe score (search_paths true s))
           (global_search_of qe score
              (search_paths_gen (hash_refs (gr_arena (gs_graph s)) m) order s)).
Proof. exact Determinism2.C16_search_pipeline. Qed.
Check C16_search_pipeline :
  forall (qe : bool) (score : spath -> Z) (s : gstate) (m : kmap) (order : list nat),
         (forall (k : string) (x : nat), In x (kget k (ri_block (gs_index s))) <-> In x (kget k m)) ->
         (forall x : nat, In x order <-> x < Datatypes.length (gr_arena (gs_graph s))) ->
         res_agree (global_search_of qe score (search_paths true s))
           (global_search_of qe score
              (search_paths_gen (hash_refs (gr_arena (gs_graph s)) m) order s)).
Print Assumptions C16_search_pipeline.

Theorem C16_export_perm :
  forall (tm : string -> res string) (order order' : list string),
         Permutation order order' ->
         NoDup order -> res_agree (export_sorted tm order) (export_sorted tm order').
Proof. exact Determinism2.C16_export_perm. Qed.
Check C16_export_perm :
  forall (tm : string -> res string) (order order' : list string),
         Permutation order order' ->
         NoDup order -> res_agree (export_sorted tm order) (export_sorted tm order').
Print Assumptions C16_export_perm.

Theorem C16_export_graph :
  forall (o : opts) (tables : string -> list string) (g g' : graph),
         graph_equiv g g' ->
         res_agree (export_graph o tables g (map fst (gr_keys g)))
           (export_graph o tables g' (map fst (gr_keys g'))).
Proof. exact Determinism2.C16_export_graph. Qed.
Check C16_export_graph :
  forall (o : opts) (tables : string -> list string) (g g' : graph),
         graph_equiv g g' ->
         res_agree (export_graph o tables g (map fst (gr_keys g)))
           (export_graph o tables g' (map fst (gr_keys g'))).
Print Assumptions C16_export_graph.

Theorem C16_search_order_refuted :
  exists l l' : list (spath * Z),
           Permutation l l' /\
           NoDup l /\
           global_search true l <> global_search true l' /\
           global_search false l <> global_search false l'.
Proof. exact Determinism2.global_search_order_refuted. Qed.
Check C16_search_order_refuted :
  exists l l' : list (spath * Z),
           Permutation l l' /\
           NoDup l /\
           global_search true l <> global_search true l' /\
           global_search false l <> global_search false l'.
Print Assumptions C16_search_order_refuted.

Theorem C16_to_markdown_hashmaps :
  forall (o : opts) (tables : list string) (g g' : graph) (key : string),
         graph_equiv g g' -> to_markdown o tables g key = to_markdown o tables g' key.
Proof. exact Determinism2.to_markdown_hashmaps. Qed.
Check C16_to_markdown_hashmaps :
  forall (o : opts) (tables : list string) (g g' : graph) (key : string),
         graph_equiv g g' -> to_markdown o tables g key = to_markdown o tables g' key.
Print Assumptions C16_to_markdown_hashmaps.

