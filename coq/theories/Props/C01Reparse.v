(* Props/C01Reparse.v - property C01 (text level): every content item written is re-read by the re-parse specification as one item, in order
   Only statements, each closed by an `exact`, pinned by a `Check`, followed by `Print Assumptions`. *)
From Coq Require Import ZArith Permutation List.
From IweV Require Import Str Text Ast RelPath Arena Project SectionsSpec Check_Norm NormFacts SectionsFacts HistoryText Reparse ReparseFacts.
Local Open Scope string_scope.
Local Open Scope list_scope.

Theorem C01_reparse_conserves :
  forall (dir : string) (o : opts) (g : list gblock),
         reparse_safe o g = true ->
         Forall2 (reread_item dir o) (flat_map gcontent g) (bscontent dir (rr o g)).
Proof. exact ReparseFacts.reparse_conserves. Qed.
Check C01_reparse_conserves :
  forall (dir : string) (o : opts) (g : list gblock),
         reparse_safe o g = true ->
         Forall2 (reread_item dir o) (flat_map gcontent g) (bscontent dir (rr o g)).
Print Assumptions C01_reparse_conserves.

Example C01_reparse_nonvacuous :
  reparse_safe ex_opts ex_written = true /\ length (flat_map gcontent ex_written) = 17.
Proof. split; vm_compute; reflexivity. Qed.
