(* Props/C17.v — property C17: squash expands references to a bounded depth and always
   terminates.  Only statements, each closed by an `exact`, pinned by a `Check`, and followed
   by `Print Assumptions`.

   [squash g key d] is the transliteration of Graph::squash / Tree::squash_from_pointer over
   the arena (Squash.v); [expand lk d t] is the recursive expansion over the notes' collected
   trees, by recursion on the depth and structural recursion on the tree: a total function
   for every lookup [lk], i.e. for every reference graph (cycles, self-loops, dangling). *)
From IweV Require Import Str Ast RelPath Arena Project Library Squash SquashFacts.
Local Open Scope string_scope.
Local Open Scope list_scope.

(* On every library whose notes can be collected (each note's arena part is a finite tree:
   what `import` builds; checked on every case), for every key and every depth, the code
   computes exactly the expansion of the collected trees: same nodes, same ids, same order. *)
Theorem C17_equation :
  forall g, collectable g = true ->
  forall key d, squash g key d = squash_spec g key d.
Proof. exact squash_is_expand. Qed.

Check C17_equation :
  forall g, collectable g = true ->
  forall key d, squash g key d = squash_spec g key d.
Print Assumptions C17_equation.

(* Termination: for an existing key the fuel [sq_fuel g] (arena length + 1 per note entered)
   suffices at every depth, whatever the reference graph: the result is never the
   out-of-fuel panic, nor any other. *)
Theorem C17_terminates :
  forall g, collectable g = true ->
  forall key root d, alookup key (gr_keys g) = Some root ->
    exists doc, collect_key g key = Ok doc /\ squash g key d = Ok (expand (lk_graph g) d doc).
Proof. exact squash_terminates. Qed.

Check C17_terminates :
  forall g, collectable g = true ->
  forall key root d, alookup key (gr_keys g) = Some root ->
    exists doc, collect_key g key = Ok doc /\ squash g key d = Ok (expand (lk_graph g) d doc).
Print Assumptions C17_terminates.

(* The expansion equation of one node: its children are visited in the order
   first child, later non-references, later references (tree.rs:362-383), each replaced by
   [child_spec]. *)
Theorem C17_node :
  forall lk d i n kids,
    expand lk d (T i n kids) =
    T i n (concat (order_tagged (map (fun c => (is_ref c, child_spec lk d c)) kids))).
Proof. exact expand_T. Qed.

Check C17_node :
  forall lk d i n kids,
    expand lk d (T i n kids) =
    T i n (concat (order_tagged (map (fun c => (is_ref c, child_spec lk d c)) kids))).
Print Assumptions C17_node.

(* a reference with depth > 0 to an existing note is replaced by the children of that note's
   document squashed at depth - 1 *)
Theorem C17_ref_expanded :
  forall lk d c k doc,
    ref_key c = Some k -> lk k = Some doc -> child_spec lk (S d) c = t_children (expand lk d doc).
Proof. exact child_ref_expanded. Qed.

Check C17_ref_expanded :
  forall lk d c k doc,
    ref_key c = Some k -> lk k = Some doc -> child_spec lk (S d) c = t_children (expand lk d doc).
Print Assumptions C17_ref_expanded.

(* a reference to a missing note is kept as it is, at every depth *)
Theorem C17_missing :
  forall lk d c k,
    ref_key c = Some k -> lk k = None -> refs_leaf c = true -> child_spec lk d c = [c].
Proof. exact child_ref_missing. Qed.

Check C17_missing :
  forall lk d c k,
    ref_key c = Some k -> lk k = None -> refs_leaf c = true -> child_spec lk d c = [c].
Print Assumptions C17_missing.

(* a reference met at depth 0 is kept as it is *)
Theorem C17_depth0_ref :
  forall lk c k, ref_key c = Some k -> refs_leaf c = true -> child_spec lk 0 c = [c].
Proof. exact child_ref_depth0. Qed.

Check C17_depth0_ref :
  forall lk c k, ref_key c = Some k -> refs_leaf c = true -> child_spec lk 0 c = [c].
Print Assumptions C17_depth0_ref.

(* any other child is squashed at the same depth *)
Theorem C17_nonref :
  forall lk d c, ref_key c = None -> child_spec lk d c = [expand lk d c].
Proof. exact child_nonref. Qed.

Check C17_nonref :
  forall lk d c, ref_key c = None -> child_spec lk d c = [expand lk d c].
Print Assumptions C17_nonref.

(* depth 0 expands nothing: only the order of siblings changes ... *)
Theorem C17_depth0 : forall lk t, expand lk 0 t = expand0 t.
Proof. exact expand_depth0. Qed.

Check C17_depth0 : forall lk t, expand lk 0 t = expand0 t.
Print Assumptions C17_depth0.

(* ... and not even that when, in every sibling list, no non-reference follows a reference
   after the first child (C17_order_note: this is where the code's order and an "in place"
   reading differ; content is conserved either way, see C17_content_once) *)
Theorem C17_order_note : forall t, refs_last t = true -> expand0 t = t.
Proof. exact expand0_id. Qed.

Check C17_order_note : forall t, refs_last t = true -> expand0 t = t.
Print Assumptions C17_order_note.

(* Content: mark the root note's nodes by their ids ([own]); if no note of the library
   carries a marked id, the marked non-reference nodes of the result are exactly the
   non-reference nodes of the root, once each, in the root's order. *)
Theorem C17_content_once :
  forall (own : option nat -> bool) (lk : lookup),
    (forall k doc, lk k = Some doc -> foreign own doc) ->
    forall d t, refs_leaf t = true ->
      filter (keep own) (items (expand lk d t)) = filter (keep own) (items t).
Proof. exact content_once. Qed.

Check C17_content_once :
  forall (own : option nat -> bool) (lk : lookup),
    (forall k doc, lk k = Some doc -> foreign own doc) ->
    forall d t, refs_leaf t = true ->
      filter (keep own) (items (expand lk d t)) = filter (keep own) (items t).
Print Assumptions C17_content_once.

(* Size: with notes of at most s nodes and at most r references each, the result has at most
   bound s r d = s + r * bound s r (d-1) nodes ... *)
Theorem C17_size_bound :
  forall lk s r,
    (forall k doc, lk k = Some doc -> tsize doc <= s /\ nrefs doc <= r) ->
    forall d t, tsize t <= s -> nrefs t <= r -> tsize (expand lk d t) <= bound s r d.
Proof. exact size_bound. Qed.

Check C17_size_bound :
  forall lk s r,
    (forall k doc, lk k = Some doc -> tsize doc <= s /\ nrefs doc <= r) ->
    forall d t, tsize t <= s -> nrefs t <= r -> tsize (expand lk d t) <= bound s r d.
Print Assumptions C17_size_bound.

(* ... which is at most s * (r+1)^d, and exactly s * (d+1) when r = 1 (chains, rings and
   single self-loops: why depth 255 is feasible there) *)
Theorem C17_bound_pow : forall s r d, bound s r d <= s * (r + 1) ^ d.
Proof. exact bound_pow. Qed.

Check C17_bound_pow : forall s r d, bound s r d <= s * (r + 1) ^ d.
Print Assumptions C17_bound_pow.

Theorem C17_bound_linear : forall s d, bound s 1 d = s * (d + 1).
Proof. exact bound_linear. Qed.

Check C17_bound_linear : forall s d, bound s 1 d = s * (d + 1).
Print Assumptions C17_bound_linear.

(* The CLI path (`iwe squash`: squashed tree -> build_key_from_iter on a fresh graph ->
   export_key) returns for an existing key at every depth, whatever the reference graph and
   however deep the squashed tree nests its sections: it prints the rendering of the
   expansion.  (As found the projector computed the heading level in a u8 and panicked on a
   tree nesting sections 256 deep - finding F-C17-1, repaired: the level is a usize.) *)
Theorem C17_cli_returns :
  forall g, collectable g = true ->
  forall key root d, alookup key (gr_keys g) = Some root ->
    exists doc, collect_key g key = Ok doc /\
      (do t <- squash g key d; squash_cli_text key t) =
      Ok (tree_to_markdown (Opts "") [] (key_parent key) (expand (lk_graph g) d doc)).
Proof. exact squash_cli_returns. Qed.

Check C17_cli_returns :
  forall g, collectable g = true ->
  forall key root d, alookup key (gr_keys g) = Some root ->
    exists doc, collect_key g key = Ok doc /\
      (do t <- squash g key d; squash_cli_text key t) =
      Ok (tree_to_markdown (Opts "") [] (key_parent key) (expand (lk_graph g) d doc)).
Print Assumptions C17_cli_returns.

(* the hypotheses are satisfiable by a non-trivial instance: two notes that reference each
   other (a cycle), built by the model of `import` from reader blocks, squashed at depth 3 *)
Definition ex_notes : list (string * option string * list dblock) :=
  [("n1", None, [DHeader (0, 1) 1 [Str "a"]; DPara (2, 3) [Str "ta"]; DPara (4, 5) [Link "n2" "" Regular [Str "b"]]]);
   ("n2", None, [DHeader (0, 1) 1 [Str "b"]; DPara (2, 3) [Link "n1" "" Regular [Str "a"]]; DPara (4, 5) [Str "tb"]])].

Example C17_nonvacuous :
  match import ex_notes with
  | Ok g =>
      collectable g &&
      match squash g "n1" 3, squash g "n1" 0, collect_key g "n1" with
      | Ok t3, Ok t0, Ok c => Nat.ltb (tsize c) (tsize t3) && tree_eqb t0 c && refs_leaf c
      | _, _, _ => false
      end
  | Panic _ => false
  end = true.
Proof. vm_compute. reflexivity. Qed.
