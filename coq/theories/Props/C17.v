(* Props/C17.v — property C17 (placeholder, filled below) *)
From IweV Require Import Str Ast Arena Project Library Squash SquashFacts.
