(* Props/C12Server.v - property C12 / C03 at the level of the handlers (Server.v, ServerFacts.v): the panic domain of the iwes request handlers at every state reached by Server::new on notes with distinct keys and any notifications, totality for requests about existing notes, the router of Router.v instantiated with these handlers
   Only statements, each closed by an `exact`, pinned by a `Check`, followed by `Print Assumptions`. *)
From Coq Require Import ZArith Permutation List.
From IweV Require Import Str Text Ast RelPath Arena ArenaWF ArenaFacts ForestFacts Project Library Index IndexHistory Paths Reachable TreeOps Actions ActionsTotal ActionsGraph Router RouterFacts Server ServerFacts.
Local Open Scope string_scope.
Local Open Scope list_scope.

Theorem C12_panic_sound :
  forall (cf : config) (sv : sstate) (r : request),
         SInv sv -> may_panic cf sv r = false -> exists v : response, handle cf sv r = Ok v.
Proof. exact ServerFacts.C12_panic_sound. Qed.
Check C12_panic_sound :
  forall (cf : config) (sv : sstate) (r : request),
         SInv sv -> may_panic cf sv r = false -> exists v : response, handle cf sv r = Ok v.
Print Assumptions C12_panic_sound.

Theorem C12_handler_panic_domain :
  forall (cf : config) (sv : sstate) (r : request) (site : string),
         SInv sv -> handle cf sv r = Panic site -> may_panic cf sv r = true.
Proof. exact ServerFacts.C12_handler_panic_domain. Qed.
Check C12_handler_panic_domain :
  forall (cf : config) (sv : sstate) (r : request) (site : string),
         SInv sv -> handle cf sv r = Panic site -> may_panic cf sv r = true.
Print Assumptions C12_handler_panic_domain.

Theorem C12_handlers_total :
  forall (cf : config) (notes : list (string * option string * list dblock))
           (docs : list (string * doc)) (ns : list note) (sv : sstate) (r : request),
         distinct_keys notes ->
         sreached notes docs ns sv ->
         config_ok cf -> request_ok cf sv r -> exists v : response, handle cf sv r = Ok v.
Proof. exact ServerFacts.C12_handlers_total. Qed.
Check C12_handlers_total :
  forall (cf : config) (notes : list (string * option string * list dblock))
           (docs : list (string * doc)) (ns : list note) (sv : sstate) (r : request),
         distinct_keys notes ->
         sreached notes docs ns sv ->
         config_ok cf -> request_ok cf sv r -> exists v : response, handle cf sv r = Ok v.
Print Assumptions C12_handlers_total.

Theorem C12_key_methods_exact :
  forall (cf : config) (sv : sstate) (key : string),
         SInv sv ->
         let ex := key_exists (gs_graph (ss_gs sv)) key in
         is_ok (handle cf sv (RInlayHint key)) = ex /\
         is_ok (handle cf sv (RFormatting key)) = ex /\
         (forall (line : nat) (er : bool) (only : option (list akind)),
          is_ok (handle cf sv (RCodeAction key line er only)) = ex).
Proof. exact ServerFacts.C12_key_methods_exact. Qed.
Check C12_key_methods_exact :
  forall (cf : config) (sv : sstate) (key : string),
         SInv sv ->
         let ex := key_exists (gs_graph (ss_gs sv)) key in
         is_ok (handle cf sv (RInlayHint key)) = ex /\
         is_ok (handle cf sv (RFormatting key)) = ex /\
         (forall (line : nat) (er : bool) (only : option (list akind)),
          is_ok (handle cf sv (RCodeAction key line er only)) = ex).
Print Assumptions C12_key_methods_exact.

Theorem C12_resolve_panic_exact :
  forall (cf : config) (sv : sstate) (k : akind) (target : nat) (kg : keygen),
         SInv sv ->
         base_ok (cf_base cf) = true ->
         is_ok (handle cf sv (RCodeActionResolve (Some k) (Some target) kg)) =
         resolve_domain (graph_ctx (gs_graph (ss_gs sv))) k kg target.
Proof. exact ServerFacts.resolve_panic_exact. Qed.
Check C12_resolve_panic_exact :
  forall (cf : config) (sv : sstate) (k : akind) (target : nat) (kg : keygen),
         SInv sv ->
         base_ok (cf_base cf) = true ->
         is_ok (handle cf sv (RCodeActionResolve (Some k) (Some target) kg)) =
         resolve_domain (graph_ctx (gs_graph (ss_gs sv))) k kg target.
Print Assumptions C12_resolve_panic_exact.

Theorem C12_server_exactly_once :
  forall (cf : config) (msgs : list (msg note request)) (sv0 : sstate) 
           (nv : variant) (tr : list label) (st : state sstate note request response),
         steps apply_note (handle cf) nv Repaired (init msgs sv0) tr st ->
         quiescent apply_note (handle cf) nv Repaired st ->
         Permutation (resp_keys (outbox st)) (req_keys 0 (served msgs)).
Proof. exact ServerFacts.C12_server_exactly_once. Qed.
Check C12_server_exactly_once :
  forall (cf : config) (msgs : list (msg note request)) (sv0 : sstate) 
           (nv : variant) (tr : list label) (st : state sstate note request response),
         steps apply_note (handle cf) nv Repaired (init msgs sv0) tr st ->
         quiescent apply_note (handle cf) nv Repaired st ->
         Permutation (resp_keys (outbox st)) (req_keys 0 (served msgs)).
Print Assumptions C12_server_exactly_once.

Theorem C12_server_keeps_serving :
  forall (cf : config) (nv wv : variant) (st st' : state sstate note request response)
           (p : nat),
         step apply_note (handle cf) nv wv st (WCompute p) = Some st' ->
         srv st' = srv st /\
         arc st' = arc st /\
         inbox st' = inbox st /\
         waiting st' = waiting st /\
         outbox st' = outbox st /\
         stopped st' = stopped st /\ Datatypes.length (live st') = Datatypes.length (live st).
Proof. exact ServerFacts.C12_server_keeps_serving. Qed.
Check C12_server_keeps_serving :
  forall (cf : config) (nv wv : variant) (st st' : state sstate note request response)
           (p : nat),
         step apply_note (handle cf) nv wv st (WCompute p) = Some st' ->
         srv st' = srv st /\
         arc st' = arc st /\
         inbox st' = inbox st /\
         waiting st' = waiting st /\
         outbox st' = outbox st /\
         stopped st' = stopped st /\ Datatypes.length (live st') = Datatypes.length (live st).
Print Assumptions C12_server_keeps_serving.

Theorem C12_answered_with_result :
  forall (cf : config) (notes : list (string * option string * list dblock))
           (docs : list (string * doc)) (msgs : list (msg note request)) 
           (sv0 : sstate) (tr : list label) (st : state sstate note request response) 
           (p : nat) (id : N) (b : body response),
         distinct_keys notes ->
         server_new notes docs = Ok sv0 ->
         config_ok cf ->
         steps apply_note (handle cf) Repaired Repaired (init msgs sv0) tr st ->
         In (Resp p id b) (outbox st) ->
         exists q : Router.request request,
           nth_error msgs p = Some (MReq q) /\
           id = r_id q /\
           (let sv := server_at apply_note msgs sv0 p in
            SInv sv /\
            match r_kind q with
            | KShutdown => b = BNull
            | KCmd r => request_ok cf sv r -> b = BNull
            | KPlain r =>
                request_ok cf sv r -> exists v : response, handle cf sv r = Ok v /\ b = BResult v
            end).
Proof. exact ServerFacts.C12_answered_with_result. Qed.
Check C12_answered_with_result :
  forall (cf : config) (notes : list (string * option string * list dblock))
           (docs : list (string * doc)) (msgs : list (msg note request)) 
           (sv0 : sstate) (tr : list label) (st : state sstate note request response) 
           (p : nat) (id : N) (b : body response),
         distinct_keys notes ->
         server_new notes docs = Ok sv0 ->
         config_ok cf ->
         steps apply_note (handle cf) Repaired Repaired (init msgs sv0) tr st ->
         In (Resp p id b) (outbox st) ->
         exists q : Router.request request,
           nth_error msgs p = Some (MReq q) /\
           id = r_id q /\
           (let sv := server_at apply_note msgs sv0 p in
            SInv sv /\
            match r_kind q with
            | KShutdown => b = BNull
            | KCmd r => request_ok cf sv r -> b = BNull
            | KPlain r =>
                request_ok cf sv r -> exists v : response, handle cf sv r = Ok v /\ b = BResult v
            end).
Print Assumptions C12_answered_with_result.

Theorem C12_error_means_class :
  forall (cf : config) (notes : list (string * option string * list dblock))
           (docs : list (string * doc)) (msgs : list (msg note request)) 
           (sv0 : sstate) (tr : list label) (st : state sstate note request response) 
           (p : nat) (id : N),
         distinct_keys notes ->
         server_new notes docs = Ok sv0 ->
         steps apply_note (handle cf) Repaired Repaired (init msgs sv0) tr st ->
         In (Resp p id BError) (outbox st) ->
         exists (q : Router.request request) (r : request),
           nth_error msgs p = Some (MReq q) /\
           (r_kind q = KPlain r \/ r_kind q = KCmd r) /\
           may_panic cf (server_at apply_note msgs sv0 p) r = true.
Proof. exact ServerFacts.C12_error_means_class. Qed.
Check C12_error_means_class :
  forall (cf : config) (notes : list (string * option string * list dblock))
           (docs : list (string * doc)) (msgs : list (msg note request)) 
           (sv0 : sstate) (tr : list label) (st : state sstate note request response) 
           (p : nat) (id : N),
         distinct_keys notes ->
         server_new notes docs = Ok sv0 ->
         steps apply_note (handle cf) Repaired Repaired (init msgs sv0) tr st ->
         In (Resp p id BError) (outbox st) ->
         exists (q : Router.request request) (r : request),
           nth_error msgs p = Some (MReq q) /\
           (r_kind q = KPlain r \/ r_kind q = KCmd r) /\
           may_panic cf (server_at apply_note msgs sv0 p) r = true.
Print Assumptions C12_error_means_class.

Theorem C12_sreached_reached :
  forall (notes : list (string * option string * list dblock)) (docs : list (string * doc))
           (ns : list note) (sv : sstate),
         sreached notes docs ns sv -> reached notes (ops_of_notes ns) (ss_gs sv).
Proof. exact ServerFacts.sreached_reached. Qed.
Check C12_sreached_reached :
  forall (notes : list (string * option string * list dblock)) (docs : list (string * doc))
           (ns : list note) (sv : sstate),
         sreached notes docs ns sv -> reached notes (ops_of_notes ns) (ss_gs sv).
Print Assumptions C12_sreached_reached.

