(* Props/C10.v — property C10: list/section conversions keep content and undo each other.
   Statements about Tree::change_list_type / wrap_into_list / unwrap_list (TreeOps.v) for trees
   of any size and nesting and any node ids (ids need not be unique).  `plug C x` is the tree
   with subtree x in the one-hole context C; `tcontent` is the content sequence of C01. *)
From IweV Require Import Check_Norm NormFacts TreeOps Actions TreeOpsFacts Check_Act Check_C10 ActFacts.
Local Open Scope string_scope.
Local Open Scope list_scope.

(* Changing a list's type twice restores the tree (hence the written note). *)
Theorem C10_type_involution :
  forall id t, change_list_type id (change_list_type id t) = t.
Proof. exact change_list_type_involutive. Qed.
Check C10_type_involution : forall id t, change_list_type id (change_list_type id t) = t.
Print Assumptions C10_type_involution.

(* Scope: each operation rewrites the node with the id in place; every ancestor, with all its
   other children on every level (the context C), is the same term before and after, and the
   children of the converted node are kept as they are (order and nesting inside). *)
Theorem C10_scope :
  forall id C i n c, ctx_free id C -> oid_is i id = true ->
    change_list_type id (plug C (T i n c)) = plug C (T i (flip_list n) c) /\
    wrap_into_list id (plug C (T i n c)) = plug C (T i NBList [T i n c]) /\
    forall pi pn l r, frame_free id (F pi pn l r) ->
      unwrap_list id (plug (F pi pn l r :: C) (T i n c)) = plug C (T pi pn (l ++ c ++ r)).
Proof.
  intros id C i n c HC Hi. split; [now apply scope_change_list_type|]. split; [now apply scope_wrap_into_list|].
  intros pi pn l r Hf. apply scope_unwrap_list; [constructor; assumption | exact Hi].
Qed.
Check C10_scope :
  forall id C i n c, ctx_free id C -> oid_is i id = true ->
    change_list_type id (plug C (T i n c)) = plug C (T i (flip_list n) c) /\
    wrap_into_list id (plug C (T i n c)) = plug C (T i NBList [T i n c]) /\
    forall pi pn l r, frame_free id (F pi pn l r) ->
      unwrap_list id (plug (F pi pn l r :: C) (T i n c)) = plug C (T pi pn (l ++ c ++ r)).
Print Assumptions C10_scope.

(* A tree without the id is not touched at all. *)
Theorem C10_scope_untouched :
  forall id t, contains t id = false ->
    change_list_type id t = t /\ wrap_into_list id t = t /\ unwrap_list id t = t.
Proof. intros id t H. auto using change_list_type_notin, wrap_into_list_notin, unwrap_list_notin. Qed.
Check C10_scope_untouched :
  forall id t, contains t id = false ->
    change_list_type id t = t /\ wrap_into_list id t = t /\ unwrap_list id t = t.
Print Assumptions C10_scope_untouched.

(* Conservation: the sequence of content lines (heading / paragraph / item / cell inlines, code
   bodies, rules) of the tree, and therefore of the blocks the projector writes, is the same
   before and after: nothing lost, nothing duplicated, order kept.  The list/section marker is
   not content.  wrap_dom: the nodes with the id are sections outside list items (what the
   action checks with is_header); unwrap_dom: they are lists of sections whose parent is not a
   list (what get_top_level_surrounding_list_id returns on reader-built trees). *)
Theorem C10_conserve :
  forall parent id t,
    tcontent parent (change_list_type id t) = tcontent parent t /\
    (wrap_dom id t = true -> tcontent parent (wrap_into_list id t) = tcontent parent t) /\
    (unwrap_dom id t = true -> tcontent parent (unwrap_list id t) = tcontent parent t).
Proof.
  intros. split; [apply change_list_type_content|]. split; [apply wrap_into_list_content | apply unwrap_list_content].
Qed.
Check C10_conserve :
  forall parent id t,
    tcontent parent (change_list_type id t) = tcontent parent t /\
    (wrap_dom id t = true -> tcontent parent (wrap_into_list id t) = tcontent parent t) /\
    (unwrap_dom id t = true -> tcontent parent (unwrap_list id t) = tcontent parent t).
Print Assumptions C10_conserve.

Theorem C10_conserve_blocks :
  forall parent id t,
    flat_map gcontent (project parent (change_list_type id t)) = flat_map gcontent (project parent t) /\
    (wrap_dom id t = true ->
       flat_map gcontent (project parent (wrap_into_list id t)) = flat_map gcontent (project parent t)) /\
    (unwrap_dom id t = true ->
       flat_map gcontent (project parent (unwrap_list id t)) = flat_map gcontent (project parent t)).
Proof.
  intros. split; [apply change_list_type_blocks|]. split; [apply wrap_into_list_blocks | apply unwrap_list_blocks].
Qed.
Check C10_conserve_blocks :
  forall parent id t,
    flat_map gcontent (project parent (change_list_type id t)) = flat_map gcontent (project parent t) /\
    (wrap_dom id t = true ->
       flat_map gcontent (project parent (wrap_into_list id t)) = flat_map gcontent (project parent t)) /\
    (unwrap_dom id t = true ->
       flat_map gcontent (project parent (unwrap_list id t)) = flat_map gcontent (project parent t)).
Print Assumptions C10_conserve_blocks.

(* Section -> list -> sections at tree level: list-to-sections at the id of the new list (it
   carries the section's id) gives back exactly the original tree, for any tree whose root does
   not carry the id (the root is the document node). *)
Theorem C10_wrap_unwrap :
  forall id t, id_eq t id = false -> unwrap_list id (wrap_into_list id t) = t.
Proof. exact unwrap_wrap. Qed.
Check C10_wrap_unwrap : forall id t, id_eq t id = false -> unwrap_list id (wrap_into_list id t) = t.
Print Assumptions C10_wrap_unwrap.

Theorem C10_wrap_unwrap_root_refuted :
  exists t id, id_eq t id = true /\ unwrap_list id (wrap_into_list id t) <> t.
Proof. exact unwrap_wrap_root_refuted. Qed.
Check C10_wrap_unwrap_root_refuted : exists t id, id_eq t id = true /\ unwrap_list id (wrap_into_list id t) <> t.
Print Assumptions C10_wrap_unwrap_root_refuted.

(* Through the text the round trip is NOT unconditional (the second action works on the re-read
   note).  (a) After a sibling section: the text written for the wrapped tree is, byte for byte,
   the text of the tree in which the new list belongs to that sibling; list -> sections on that
   tree writes a deeper heading.  (b) Next to a bullet list the wrapped tree is written as two
   bullet lists a blank line apart, which the original did not contain. *)
Theorem C10_wrap_unwrap_after_section_refuted :
  let t := doc 0 [sec 1 "a" []; sec 2 "b" []] in
  let t2 := doc 0 [sec 1 "a" [T (Some 9) NBList [sec 2 "b" []]]] in
  tree_is_header 2 t = true /\
  adjacent_lists (project "" (wrap_into_list 2 t)) = false /\
  md (wrap_into_list 2 t) = md t2 /\
  get_top_level_surrounding_list_id 2 t2 = Some 9 /\
  md (unwrap_list 9 t2) <> md t.
Proof. exact wrap_after_section_ambiguous. Qed.
Check C10_wrap_unwrap_after_section_refuted :
  let t := doc 0 [sec 1 "a" []; sec 2 "b" []] in
  let t2 := doc 0 [sec 1 "a" [T (Some 9) NBList [sec 2 "b" []]]] in
  tree_is_header 2 t = true /\
  adjacent_lists (project "" (wrap_into_list 2 t)) = false /\
  md (wrap_into_list 2 t) = md t2 /\
  get_top_level_surrounding_list_id 2 t2 = Some 9 /\
  md (unwrap_list 9 t2) <> md t.
Print Assumptions C10_wrap_unwrap_after_section_refuted.

Theorem C10_wrap_unwrap_adjacent_refuted :
  let t := doc 0 [sec 1 "s" [T (Some 2) NBList [sec 3 "x" []]; sec 4 "b" []]] in
  tree_is_header 4 t = true /\
  adjacent_lists (project "" t) = false /\
  adjacent_lists (project "" (wrap_into_list 4 t)) = true /\
  md (wrap_into_list 4 t) = "# s" +++ LFS +++ LFS +++ "- x" +++ LFS +++ LFS +++ "- b" +++ LFS.
Proof. exact wrap_creates_adjacent_lists. Qed.
Check C10_wrap_unwrap_adjacent_refuted :
  let t := doc 0 [sec 1 "s" [T (Some 2) NBList [sec 3 "x" []]; sec 4 "b" []]] in
  tree_is_header 4 t = true /\
  adjacent_lists (project "" t) = false /\
  adjacent_lists (project "" (wrap_into_list 4 t)) = true /\
  md (wrap_into_list 4 t) = "# s" +++ LFS +++ LFS +++ "- x" +++ LFS +++ LFS +++ "- b" +++ LFS.
Print Assumptions C10_wrap_unwrap_adjacent_refuted.

(* list -> sections below a level-6 heading writes `#######` (class 4) *)
Theorem C10_unwrap_depth7_refuted :
  let t := doc 0 [sec 1 "1" [sec 2 "2" [sec 3 "3" [sec 4 "4" [sec 5 "5" [sec 6 "6" [T (Some 7) NBList [sec 8 "x" []]]]]]]]] in
  max_levels (project "" t) = 6 /\ max_levels (project "" (unwrap_list 7 t)) = 7.
Proof. exact unwrap_depth7. Qed.
Check C10_unwrap_depth7_refuted :
  let t := doc 0 [sec 1 "1" [sec 2 "2" [sec 3 "3" [sec 4 "4" [sec 5 "5" [sec 6 "6" [T (Some 7) NBList [sec 8 "x" []]]]]]]]] in
  max_levels (project "" t) = 6 /\ max_levels (project "" (unwrap_list 7 t)) = 7.
Print Assumptions C10_unwrap_depth7_refuted.

(* the hypotheses are satisfiable by a non-trivial instance: a sub-section with a nested list in a
   section, converted in place *)
Example C10_nonvacuous :
  let x := sec 4 "b" [T (Some 5) NOList [sec 6 "i" [leaf 7 "p"]]] in
  let C := [F (Some 1) (NSection [Str "s"]) [leaf 2 "q"] [sec 8 "c" []]; F (Some 0) (NDocument "k") [] []] in
  ctx_free 4 C /\ wrap_dom 4 (plug C x) = true /\ unwrap_dom 5 (plug C x) = true /\
  wrap_into_list 4 (plug C x) = plug C (T (Some 4) NBList [x]) /\
  unwrap_list 5 (plug C x) = plug C (sec 4 "b" [sec 6 "i" [leaf 7 "p"]]).
Proof.
  cbv zeta. split; [|repeat split; vm_compute; reflexivity].
  repeat constructor.
Qed.
