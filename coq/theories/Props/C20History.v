(* Props/C20History.v - property C20: deletion, single updates and whole histories keep the forest invariant; frame
   Only statements, each closed by an `exact`, pinned by a `Check`, followed by `Print Assumptions`. *)
From Coq Require Import ZArith Permutation List.
From IweV Require Import Str Ast RelPath Arena ArenaWF ArenaFacts Project Library Check_Norm BuilderWF HistoryWF HistoryClosed.
Local Open Scope string_scope.
Local Open Scope list_scope.

Theorem C20_delete_branch_wf :
  forall (a : arena) (root : nat) (n : gnode) (k : string),
         arena_ok a = true ->
         get a root = Some n ->
         g_kind n = KDocument k ->
         exists a' : arena,
           delete_branch (S (Datatypes.length a)) a root = Ok a' /\
           Datatypes.length a' = Datatypes.length a /\
           arena_ok a' = true /\
           (forall id : nat,
            In id (subtree_ids (S (Datatypes.length a)) a root) -> get a' id = Some empty_node) /\
           (forall id : nat,
            ~ In id (subtree_ids (S (Datatypes.length a)) a root) -> get a' id = get a id).
Proof. exact HistoryWF.delete_branch_wf. Qed.
Check C20_delete_branch_wf :
  forall (a : arena) (root : nat) (n : gnode) (k : string),
         arena_ok a = true ->
         get a root = Some n ->
         g_kind n = KDocument k ->
         exists a' : arena,
           delete_branch (S (Datatypes.length a)) a root = Ok a' /\
           Datatypes.length a' = Datatypes.length a /\
           arena_ok a' = true /\
           (forall id : nat,
            In id (subtree_ids (S (Datatypes.length a)) a root) -> get a' id = Some empty_node) /\
           (forall id : nat,
            ~ In id (subtree_ids (S (Datatypes.length a)) a root) -> get a' id = get a id).
Print Assumptions C20_delete_branch_wf.

Theorem C20_build_document_frame :
  forall (a : arena) (key : string) (bs : list dblock) (st : bst),
         build_document a key bs = Ok st -> firstn (Datatypes.length a) (b_arena st) = a.
Proof. exact HistoryWF.build_document_frame. Qed.
Check C20_build_document_frame :
  forall (a : arena) (key : string) (bs : list dblock) (st : bst),
         build_document a key bs = Ok st -> firstn (Datatypes.length a) (b_arena st) = a.
Print Assumptions C20_build_document_frame.

Theorem C20_update_frame :
  forall (g : graph) (key : string) (meta : option string) (bs : list dblock) 
           (g' : graph) (k' : string) (root' : nat),
         wf_b (gr_arena g) (gr_keys g) = true ->
         update_key g key meta bs = Ok g' ->
         k' <> key ->
         alookup k' (gr_keys g) = Some root' ->
         alookup k' (gr_keys g') = Some root' /\
         (forall id : nat,
          In id (subtree_ids (S (Datatypes.length (gr_arena g))) (gr_arena g) root') ->
          get (gr_arena g') id = get (gr_arena g) id).
Proof. exact HistoryWF.update_frame. Qed.
Check C20_update_frame :
  forall (g : graph) (key : string) (meta : option string) (bs : list dblock) 
           (g' : graph) (k' : string) (root' : nat),
         wf_b (gr_arena g) (gr_keys g) = true ->
         update_key g key meta bs = Ok g' ->
         k' <> key ->
         alookup k' (gr_keys g) = Some root' ->
         alookup k' (gr_keys g') = Some root' /\
         (forall id : nat,
          In id (subtree_ids (S (Datatypes.length (gr_arena g))) (gr_arena g) root') ->
          get (gr_arena g') id = get (gr_arena g) id).
Print Assumptions C20_update_frame.

Theorem C20_update_key_wf :
  forall (g : graph) (key : string) (meta : option string) (bs : list dblock),
         wf_b (gr_arena g) (gr_keys g) = true ->
         NoDup (map fst (gr_keys g)) ->
         exists g' : graph,
           update_key g key meta bs = Ok g' /\
           wf_b (gr_arena g') (gr_keys g') = true /\ NoDup (map fst (gr_keys g')).
Proof. exact HistoryClosed.update_key_wf_closed. Qed.
Check C20_update_key_wf :
  forall (g : graph) (key : string) (meta : option string) (bs : list dblock),
         wf_b (gr_arena g) (gr_keys g) = true ->
         NoDup (map fst (gr_keys g)) ->
         exists g' : graph,
           update_key g key meta bs = Ok g' /\
           wf_b (gr_arena g') (gr_keys g') = true /\ NoDup (map fst (gr_keys g')).
Print Assumptions C20_update_key_wf.

Theorem C20_history_wf :
  forall ops : list (string * option string * list dblock),
         exists g : graph,
           fold_left
             (fun (acc : res graph) (op : string * option string * list dblock) =>
              do g0 <- acc; let '(k, m, bs) := op in update_key g0 k m bs) ops 
             (Ok empty_graph) = Ok g /\ wf_b (gr_arena g) (gr_keys g) = true.
Proof. exact HistoryClosed.history_wf_closed. Qed.
Check C20_history_wf :
  forall ops : list (string * option string * list dblock),
         exists g : graph,
           fold_left
             (fun (acc : res graph) (op : string * option string * list dblock) =>
              do g0 <- acc; let '(k, m, bs) := op in update_key g0 k m bs) ops 
             (Ok empty_graph) = Ok g /\ wf_b (gr_arena g) (gr_keys g) = true.
Print Assumptions C20_history_wf.

Theorem C20_import_wf_keys :
  forall notes : list (string * option string * list dblock),
         NoDup (map note_key notes) ->
         exists g : graph,
           import notes = Ok g /\ wf_b (gr_arena g) (gr_keys g) = true /\ NoDup (map fst (gr_keys g)).
Proof. exact HistoryClosed.import_wf_closed. Qed.
Check C20_import_wf_keys :
  forall notes : list (string * option string * list dblock),
         NoDup (map note_key notes) ->
         exists g : graph,
           import notes = Ok g /\ wf_b (gr_arena g) (gr_keys g) = true /\ NoDup (map fst (gr_keys g)).
Print Assumptions C20_import_wf_keys.

Theorem C20_history_from_import_wf :
  forall notes ops : list (string * option string * list dblock),
         NoDup (map note_key notes) ->
         exists g : graph,
           fold_left
             (fun (acc : res graph) (op : string * option string * list dblock) =>
              do g0 <- acc; let '(k, m, bs) := op in update_key g0 k m bs) ops 
             (import notes) = Ok g /\ wf_b (gr_arena g) (gr_keys g) = true.
Proof. exact HistoryClosed.history_from_import_wf_closed. Qed.
Check C20_history_from_import_wf :
  forall notes ops : list (string * option string * list dblock),
         NoDup (map note_key notes) ->
         exists g : graph,
           fold_left
             (fun (acc : res graph) (op : string * option string * list dblock) =>
              do g0 <- acc; let '(k, m, bs) := op in update_key g0 k m bs) ops 
             (import notes) = Ok g /\ wf_b (gr_arena g) (gr_keys g) = true.
Print Assumptions C20_history_from_import_wf.

Theorem C20_update_key_wf_refuted :
  exists g : graph,
           wf_b (gr_arena g) (gr_keys g) = true /\
           (exists g' : graph,
              update_key g "k" None [] = Ok g' /\ wf_b (gr_arena g') (gr_keys g') = false).
Proof. exact HistoryWF.update_key_wf_refuted. Qed.
Check C20_update_key_wf_refuted :
  exists g : graph,
           wf_b (gr_arena g) (gr_keys g) = true /\
           (exists g' : graph,
              update_key g "k" None [] = Ok g' /\ wf_b (gr_arena g') (gr_keys g') = false).
Print Assumptions C20_update_key_wf_refuted.

Theorem C20_import_dup_refuted :
  exists (notes : list (string * option string * list dblock)) (g : graph),
           map (fun n : string * option string * list dblock => fst (fst n)) notes = ["x"; "x"] /\
           import notes = Ok g /\ wf_b (gr_arena g) (gr_keys g) = false.
Proof. exact HistoryWF.import_wf_refuted. Qed.
Check C20_import_dup_refuted :
  exists (notes : list (string * option string * list dblock)) (g : graph),
           map (fun n : string * option string * list dblock => fst (fst n)) notes = ["x"; "x"] /\
           import notes = Ok g /\ wf_b (gr_arena g) (gr_keys g) = false.
Print Assumptions C20_import_dup_refuted.

Theorem C20_import_double_md_wf :
  exists g : graph,
    import [("x", None, [DPara (0, 1) [Str "p"]]); ("x.md", None, [])] = Ok g /\
    map fst (gr_keys g) = ["x"; "x.md"] /\ wf_b (gr_arena g) (gr_keys g) = true.
Proof. exact HistoryWF.import_double_md_wf. Qed.
Check C20_import_double_md_wf :
  exists g : graph,
    import [("x", None, [DPara (0, 1) [Str "p"]]); ("x.md", None, [])] = Ok g /\
    map fst (gr_keys g) = ["x"; "x.md"] /\ wf_b (gr_arena g) (gr_keys g) = true.
Print Assumptions C20_import_double_md_wf.

