(* Props/C20TreeBuild.v - property C20 (also C17/C08/C09/C10): patch graphs built from trees (GraphBuilder::insert_from_iter over a TreeIter) keep the forest invariant and read back as the tree (TreeBuild.v, TreeBuildFacts.v)
   Only statements, each closed by an `exact`, pinned by a `Check`, followed by `Print Assumptions`. *)
From Coq Require Import ZArith Permutation List.
From IweV Require Import Str Text Ast RelPath Arena ArenaWF ArenaFacts Project Library SectionsRefine HistoryText
  Squash Rename TreeBuild TreeBuildFacts TreeBuildSquash.
Local Open Scope string_scope.
Local Open Scope list_scope.

Theorem C20_collect_build :
  forall (a : arena) (key : string) (t : tree),
       arena_ok a = true ->
       buildable t = true ->
       exists st : bst,
         build_key_from_iter a key t = Ok st /\
         arena_ok (b_arena st) = true /\
         firstn (Datatypes.length a) (b_arena st) = a /\
         Datatypes.length (b_arena st) = Datatypes.length a + tsz (built_tree key t) /\
         (exists n : gnode,
            get (b_arena st) (Datatypes.length a) = Some n /\
            g_kind n = KDocument key /\ g_prev n = None /\ g_next n = None) /\
         (forall (id : nat) (n : gnode),
          Datatypes.length a < id ->
          get (b_arena st) id = Some n -> is_emptyk (g_kind n) = false /\ is_dock (g_kind n) = false) /\
         collect_raw (b_arena st) (Datatypes.length a) =
         Ok (Some (label (built_tree key t) (Datatypes.length a))).
Proof. exact TreeBuildFacts.collect_build. Qed.
Check C20_collect_build :
  forall (a : arena) (key : string) (t : tree),
       arena_ok a = true ->
       buildable t = true ->
       exists st : bst,
         build_key_from_iter a key t = Ok st /\
         arena_ok (b_arena st) = true /\
         firstn (Datatypes.length a) (b_arena st) = a /\
         Datatypes.length (b_arena st) = Datatypes.length a + tsz (built_tree key t) /\
         (exists n : gnode,
            get (b_arena st) (Datatypes.length a) = Some n /\
            g_kind n = KDocument key /\ g_prev n = None /\ g_next n = None) /\
         (forall (id : nat) (n : gnode),
          Datatypes.length a < id ->
          get (b_arena st) id = Some n -> is_emptyk (g_kind n) = false /\ is_dock (g_kind n) = false) /\
         collect_raw (b_arena st) (Datatypes.length a) =
         Ok (Some (label (built_tree key t) (Datatypes.length a))).
Print Assumptions C20_collect_build.

Theorem C20_build_panics :
  forall (a : arena) (key : string) (t : tree),
       arena_ok a = true -> buildable t = false -> build_key_from_iter a key t = Panic "cant set child".
Proof. exact TreeBuildFacts.build_panics. Qed.
Check C20_build_panics :
  forall (a : arena) (key : string) (t : tree),
       arena_ok a = true -> buildable t = false -> build_key_from_iter a key t = Panic "cant set child".
Print Assumptions C20_build_panics.

Theorem C20_build_returns_iff :
  forall (a : arena) (key : string) (t : tree),
       arena_ok a = true -> (exists st : bst, build_key_from_iter a key t = Ok st) <-> buildable t = true.
Proof. exact TreeBuildFacts.build_returns_iff. Qed.
Check C20_build_returns_iff :
  forall (a : arena) (key : string) (t : tree),
       arena_ok a = true -> (exists st : bst, build_key_from_iter a key t = Ok st) <-> buildable t = true.
Print Assumptions C20_build_returns_iff.

Theorem C20_build_collect_build :
  forall (a b : arena) (key key' : string) (t t1 : tree),
       arena_ok a = true ->
       arena_ok b = true ->
       buildable t = true ->
       tree_read_back a key t = Ok (Some t1) ->
       buildable t1 = true /\
       tree_read_back b key' t1 = Ok (Some (label (built_tree key' t) (Datatypes.length b))) /\
       (key' = key -> tree_read_back b key' t1 = Ok (Some (label t1 (Datatypes.length b)))) /\
       (key' = key -> Datatypes.length b = Datatypes.length a -> tree_read_back b key' t1 = Ok (Some t1)).
Proof. exact TreeBuildFacts.build_collect_build. Qed.
Check C20_build_collect_build :
  forall (a b : arena) (key key' : string) (t t1 : tree),
       arena_ok a = true ->
       arena_ok b = true ->
       buildable t = true ->
       tree_read_back a key t = Ok (Some t1) ->
       buildable t1 = true /\
       tree_read_back b key' t1 = Ok (Some (label (built_tree key' t) (Datatypes.length b))) /\
       (key' = key -> tree_read_back b key' t1 = Ok (Some (label t1 (Datatypes.length b)))) /\
       (key' = key -> Datatypes.length b = Datatypes.length a -> tree_read_back b key' t1 = Ok (Some t1)).
Print Assumptions C20_build_collect_build.

Theorem C20_built_tree_doc_free :
  forall (key : string) (i : option nat) (k : string) (kids : list tree),
       forallb doc_free kids = true ->
       built_tree key (T i (NDocument k) kids) = T None (NDocument key) (map erase kids).
Proof. exact TreeBuildFacts.built_tree_doc_free. Qed.
Check C20_built_tree_doc_free :
  forall (key : string) (i : option nat) (k : string) (kids : list tree),
       forallb doc_free kids = true ->
       built_tree key (T i (NDocument k) kids) = T None (NDocument key) (map erase kids).
Print Assumptions C20_built_tree_doc_free.

Theorem C20_built_tree_drops_after_document :
  exists t : tree,
         buildable t = true /\
         t =
         T None (NSection [Str "s"])
           [T None (NDocument "d") [T None (NLeaf [Str "kept"]) []]; T None (NLeaf [Str "lost"]) []] /\
         tree_read_back [] "k" t =
         Ok
           (Some
              (T (Some 0) (NDocument "k")
                 [T (Some 1) (NSection [Str "s"]) [T (Some 2) (NLeaf [Str "kept"]) []]])).
Proof. exact TreeBuildFacts.built_tree_drops_after_document. Qed.
Check C20_built_tree_drops_after_document :
  exists t : tree,
         buildable t = true /\
         t =
         T None (NSection [Str "s"])
           [T None (NDocument "d") [T None (NLeaf [Str "kept"]) []]; T None (NLeaf [Str "lost"]) []] /\
         tree_read_back [] "k" t =
         Ok
           (Some
              (T (Some 0) (NDocument "k")
                 [T (Some 1) (NSection [Str "s"]) [T (Some 2) (NLeaf [Str "kept"]) []]])).
Print Assumptions C20_built_tree_drops_after_document.

Theorem C20_collect_build_refuted :
  exists t : tree,
         buildable t = false /\
         t = T None (NLeaf [Str "l"]) [T None (NLeaf [Str "c"]) []] /\
         build_key_from_iter [] "k" t = Panic "cant set child".
Proof. exact TreeBuildFacts.collect_build_refuted. Qed.
Check C20_collect_build_refuted :
  exists t : tree,
         buildable t = false /\
         t = T None (NLeaf [Str "l"]) [T None (NLeaf [Str "c"]) []] /\
         build_key_from_iter [] "k" t = Panic "cant set child".
Print Assumptions C20_collect_build_refuted.

