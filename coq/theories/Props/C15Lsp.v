(* Props/C15Lsp.v - property C15, the links an editor is handed (LSP stage of the check): the completion list the model writes for a note, read back as [text](url) and resolved from the directory of the ASKING note, leads to the notes it was written for and offers every note (sub-property 5: on the model's own answer, and on every observed answer that passes the correspondence stage); the list written for a note in another directory does not (witness of a list kept across requests); the reference an extraction leaves resolves to the created note (sub-property 6); a whole session of the model never flags a stage or a sub-property.
   Only statements, each closed by an `exact`, pinned by a `Check`, followed by `Print Assumptions`. *)
From Coq Require Import ZArith Permutation List.
From IweV Require Import Str Harness RelPath Check_C15 RelPathLawsB CompletionLinks.
Local Open Scope string_scope.
Local Open Scope list_scope.

Theorem C15_completion_links_resolve :
  forall (l : lib) (A : string),
         canonicalb A = true ->
         lib_okb l = true -> NoDup (map fst l) -> completion_ok l A (completion_items l A) = true.
Proof. exact CompletionLinks.C15_completion_links_resolve. Qed.
Check C15_completion_links_resolve :
  forall (l : lib) (A : string),
         canonicalb A = true ->
         lib_okb l = true -> NoDup (map fst l) -> completion_ok l A (completion_items l A) = true.
Print Assumptions C15_completion_links_resolve.

Theorem C15_completion_observed_ok :
  forall (l : lib) (A : string) (items : list (string * string)),
         canonicalb A = true ->
         lib_okb l = true ->
         NoDup (map fst l) ->
         same_items (completion_items l A) items = true -> completion_ok l A items = true.
Proof. exact CompletionLinks.C15_completion_observed_ok. Qed.
Check C15_completion_observed_ok :
  forall (l : lib) (A : string) (items : list (string * string)),
         canonicalb A = true ->
         lib_okb l = true ->
         NoDup (map fst l) ->
         same_items (completion_items l A) items = true -> completion_ok l A items = true.
Print Assumptions C15_completion_observed_ok.

Theorem C15_completion_other_directory_refuted :
  exists (l : lib) (A B : string),
           canonicalb A = true /\
           canonicalb B = true /\
           lib_okb l = true /\
           NoDup (map fst l) /\
           completion_ok l A (completion_items l A) = true /\
           completion_ok l B (completion_items l B) = true /\
           completion_ok l B (completion_items l A) = false.
Proof. exact CompletionLinks.C15_completion_other_directory_refuted. Qed.
Check C15_completion_other_directory_refuted :
  exists (l : lib) (A B : string),
           canonicalb A = true /\
           canonicalb B = true /\
           lib_okb l = true /\
           NoDup (map fst l) /\
           completion_ok l A (completion_items l A) = true /\
           completion_ok l B (completion_items l B) = true /\
           completion_ok l B (completion_items l A) = false.
Print Assumptions C15_completion_other_directory_refuted.

Theorem C15_completion_same_directory :
  forall (l : lib) (A B : string),
         key_parent A = key_parent B -> completion_items l A = completion_items l B.
Proof. exact CompletionLinks.C15_completion_same_directory. Qed.
Check C15_completion_same_directory :
  forall (l : lib) (A B : string),
         key_parent A = key_parent B -> completion_items l A = completion_items l B.
Print Assumptions C15_completion_same_directory.

Theorem C15_extract_reference_resolves :
  forall ext src id title : string,
         canonicalb src = true ->
         canonicalb (extract_new_key src id) = true ->
         ext = MD \/ ext = "" ->
         contains_char RB title = false ->
         extract_ok src title (extract_new_key src id) [extract_link ext src id title] = true.
Proof. exact CompletionLinks.C15_extract_reference_resolves. Qed.
Check C15_extract_reference_resolves :
  forall ext src id title : string,
         canonicalb src = true ->
         canonicalb (extract_new_key src id) = true ->
         ext = MD \/ ext = "" ->
         contains_char RB title = false ->
         extract_ok src title (extract_new_key src id) [extract_link ext src id title] = true.
Print Assumptions C15_extract_reference_resolves.

Theorem C15_session_model_ok :
  forall (ext : string) (steps : list step) (l : lib),
         ext = MD \/ ext = "" ->
         lib_okb l = true ->
         NoDup (map fst l) ->
         forallb step_okb steps = true -> run_steps ext l (model_steps ext l steps) = ([], []).
Proof. exact CompletionLinks.C15_session_model_ok. Qed.
Check C15_session_model_ok :
  forall (ext : string) (steps : list step) (l : lib),
         ext = MD \/ ext = "" ->
         lib_okb l = true ->
         NoDup (map fst l) ->
         forallb step_okb steps = true -> run_steps ext l (model_steps ext l steps) = ([], []).
Print Assumptions C15_session_model_ok.

Theorem C15_link_read_back :
  forall t u : string, contains_char RB t = false -> parse_link (write_link t u) = Some (t, u).
Proof. exact CompletionLinks.parse_link_write. Qed.
Check C15_link_read_back :
  forall t u : string, contains_char RB t = false -> parse_link (write_link t u) = Some (t, u).
Print Assumptions C15_link_read_back.

Theorem C15_link_read_back_bracket_refuted :
  exists t u : string, parse_link (write_link t u) <> Some (t, u).
Proof. exact CompletionLinks.parse_link_bracket_refuted. Qed.
Check C15_link_read_back_bracket_refuted :
  exists t u : string, parse_link (write_link t u) <> Some (t, u).
Print Assumptions C15_link_read_back_bracket_refuted.

