(* Props/C20Builder.v - property C20 (also C03/C05/C17/C18): the builder keeps the forest invariant on EVERY input (BuilderWF.v, ForestFacts.v)
   Only statements, each closed by an `exact`, pinned by a `Check`, followed by `Print Assumptions`. *)
From Coq Require Import ZArith Permutation List.
From IweV Require Import Str Ast RelPath Arena ArenaWF ArenaFacts Project Library BuilderFacts SectionsFacts Check_Norm ForestFacts BuilderWF.
Local Open Scope string_scope.
Local Open Scope list_scope.

Theorem C20_build_document_wf :
  forall (a : arena) (key : string) (bs : list dblock),
         arena_ok a = true ->
         exists st : bst,
           build_document a key bs = Ok st /\
           arena_ok (b_arena st) = true /\
           firstn (Datatypes.length a) (b_arena st) = a /\
           (exists n : gnode,
              get (b_arena st) (Datatypes.length a) = Some n /\
              g_kind n = KDocument key /\ g_prev n = None /\ g_next n = None) /\
           (forall (id : nat) (n : gnode),
            Datatypes.length a < id ->
            get (b_arena st) id = Some n ->
            is_emptyk (g_kind n) = false /\ is_dock (g_kind n) = false).
Proof. exact BuilderWF.build_document_wf. Qed.
Check C20_build_document_wf :
  forall (a : arena) (key : string) (bs : list dblock),
         arena_ok a = true ->
         exists st : bst,
           build_document a key bs = Ok st /\
           arena_ok (b_arena st) = true /\
           firstn (Datatypes.length a) (b_arena st) = a /\
           (exists n : gnode,
              get (b_arena st) (Datatypes.length a) = Some n /\
              g_kind n = KDocument key /\ g_prev n = None /\ g_next n = None) /\
           (forall (id : nat) (n : gnode),
            Datatypes.length a < id ->
            get (b_arena st) id = Some n ->
            is_emptyk (g_kind n) = false /\ is_dock (g_kind n) = false).
Print Assumptions C20_build_document_wf.

Theorem C20_build_document_owned :
  forall (a : arena) (key : string) (bs : list dblock),
         arena_ok a = true ->
         exists st : bst,
           build_document a key bs = Ok st /\
           (forall id : nat,
            Datatypes.length a <= id < Datatypes.length (b_arena st) ->
            to_document (S id) (b_arena st) id = Ok (Datatypes.length a)) /\
           Permutation
             (subtree_ids (S (Datatypes.length (b_arena st))) (b_arena st) (Datatypes.length a))
             (seq (Datatypes.length a) (Datatypes.length (b_arena st) - Datatypes.length a)).
Proof. exact BuilderWF.build_document_owned. Qed.
Check C20_build_document_owned :
  forall (a : arena) (key : string) (bs : list dblock),
         arena_ok a = true ->
         exists st : bst,
           build_document a key bs = Ok st /\
           (forall id : nat,
            Datatypes.length a <= id < Datatypes.length (b_arena st) ->
            to_document (S id) (b_arena st) id = Ok (Datatypes.length a)) /\
           Permutation
             (subtree_ids (S (Datatypes.length (b_arena st))) (b_arena st) (Datatypes.length a))
             (seq (Datatypes.length a) (Datatypes.length (b_arena st) - Datatypes.length a)).
Print Assumptions C20_build_document_owned.

Theorem C20_from_blocks_wf :
  forall (g : graph) (key : string) (meta : option string) (bs : list dblock),
         arena_ok (gr_arena g) = true ->
         exists g' : graph,
           from_blocks g key meta bs = Ok g' /\
           arena_ok (gr_arena g') = true /\
           firstn (Datatypes.length (gr_arena g)) (gr_arena g') = gr_arena g.
Proof. exact BuilderWF.from_blocks_wf. Qed.
Check C20_from_blocks_wf :
  forall (g : graph) (key : string) (meta : option string) (bs : list dblock),
         arena_ok (gr_arena g) = true ->
         exists g' : graph,
           from_blocks g key meta bs = Ok g' /\
           arena_ok (gr_arena g') = true /\
           firstn (Datatypes.length (gr_arena g)) (gr_arena g') = gr_arena g.
Print Assumptions C20_from_blocks_wf.

Theorem C20_import_wf :
  forall notes : list (string * option string * list dblock),
         exists g : graph, import notes = Ok g /\ arena_ok (gr_arena g) = true.
Proof. exact BuilderWF.import_wf. Qed.
Check C20_import_wf :
  forall notes : list (string * option string * list dblock),
         exists g : graph, import notes = Ok g /\ arena_ok (gr_arena g) = true.
Print Assumptions C20_import_wf.

Theorem C20_itemlead :
  exists st : bst,
           build_document [] "n" itemlead_witness = Ok st /\
           arena_ok (b_arena st) = true /\
           subtree_ids (S (Datatypes.length (b_arena st))) (b_arena st) 0 = [0; 1; 2; 3; 4; 5; 6].
Proof. exact BuilderWF.build_document_itemlead. Qed.
Check C20_itemlead :
  exists st : bst,
           build_document [] "n" itemlead_witness = Ok st /\
           arena_ok (b_arena st) = true /\
           subtree_ids (S (Datatypes.length (b_arena st))) (b_arena st) 0 = [0; 1; 2; 3; 4; 5; 6].
Print Assumptions C20_itemlead.

Theorem C20_subtree_sound :
  forall a : arena,
         arena_ok a = true ->
         forall f x y : nat, lv a x -> In y (subtree_ids f a x) -> x <= y /\ lv a y /\ anc a x y.
Proof. exact ForestFacts.subtree_sound. Qed.
Check C20_subtree_sound :
  forall a : arena,
         arena_ok a = true ->
         forall f x y : nat, lv a x -> In y (subtree_ids f a x) -> x <= y /\ lv a y /\ anc a x y.
Print Assumptions C20_subtree_sound.

Theorem C20_subtree_NoDup :
  forall a : arena, arena_ok a = true -> forall f x : nat, lv a x -> NoDup (subtree_ids f a x).
Proof. exact ForestFacts.subtree_NoDup. Qed.
Check C20_subtree_NoDup :
  forall a : arena, arena_ok a = true -> forall f x : nat, lv a x -> NoDup (subtree_ids f a x).
Print Assumptions C20_subtree_NoDup.

Theorem C20_subtree_complete :
  forall a : arena,
         arena_ok a = true ->
         forall f x y : nat,
         Datatypes.length a < f + x -> lv a x -> lv a y -> anc a x y -> In y (subtree_ids f a x).
Proof. exact ForestFacts.subtree_complete. Qed.
Check C20_subtree_complete :
  forall a : arena,
         arena_ok a = true ->
         forall f x y : nat,
         Datatypes.length a < f + x -> lv a x -> lv a y -> anc a x y -> In y (subtree_ids f a x).
Print Assumptions C20_subtree_complete.

Theorem C20_subtree_owner_iff :
  forall a : arena,
         arena_ok a = true ->
         forall (r : nat) (rn : gnode) (key : string),
         get a r = Some rn ->
         g_kind rn = KDocument key ->
         forall y : nat,
         In y (subtree_ids (S (Datatypes.length a)) a r) <-> lv a y /\ to_document (S y) a y = Ok r.
Proof. exact ForestFacts.subtree_owner_iff. Qed.
Check C20_subtree_owner_iff :
  forall a : arena,
         arena_ok a = true ->
         forall (r : nat) (rn : gnode) (key : string),
         get a r = Some rn ->
         g_kind rn = KDocument key ->
         forall y : nat,
         In y (subtree_ids (S (Datatypes.length a)) a r) <-> lv a y /\ to_document (S y) a y = Ok r.
Print Assumptions C20_subtree_owner_iff.

