(* Props/C20.v — the document graph stays a well-formed forest after every operation.
   The invariant is ArenaWF.arena_ok (every live slot: documents are roots; every other node
   hangs below an earlier live node as exactly one of its child / next; child and next links
   point at later live nodes that point back).  The same executable invariant (with the key map
   conditions, the partition of live nodes into the notes' trees and the owner check) is
   evaluated on the implementation's own arena after every operation of every history of
   every run. *)
From IweV Require Import Str Ast Arena ArenaWF ArenaFacts.
Local Open Scope string_scope.
Local Open Scope list_scope.

(* The only operation that links nodes: under the cursor discipline (the cursor is a live node
   whose link slot is free) add_node does not panic, keeps the arena well formed, allocates the
   next id and leaves the cursor on it.  For every arena, cursor and node kind. *)
Theorem C20_add_node :
  forall (st : bst) (k : gkind),
    arena_ok (b_arena st) = true ->
    disciplined (b_arena st) (b_cur st) (b_insert st) ->
    is_emptyk k = false -> is_dock k = false ->
    exists st', add_node st k = Ok st' /\ arena_ok (b_arena st') = true /\
                b_cur st' = length (b_arena st) /\ b_insert st' = false /\
                length (b_arena st') = S (length (b_arena st)).
Proof. exact add_node_wf. Qed.
Check C20_add_node :
  forall (st : bst) (k : gkind),
    arena_ok (b_arena st) = true ->
    disciplined (b_arena st) (b_cur st) (b_insert st) ->
    is_emptyk k = false -> is_dock k = false ->
    exists st', add_node st k = Ok st' /\ arena_ok (b_arena st') = true /\
                b_cur st' = length (b_arena st) /\ b_insert st' = false /\
                length (b_arena st') = S (length (b_arena st)).
Print Assumptions C20_add_node.

(* Starting a note (Graph::build_key) keeps the invariant and hands the builder a disciplined
   cursor, in every arena. *)
Theorem C20_build_key :
  forall (a : arena) (key : string),
    arena_ok a = true ->
    arena_ok (b_arena (build_key a key)) = true /\
    disciplined (b_arena (build_key a key)) (b_cur (build_key a key)) (b_insert (build_key a key)).
Proof. exact build_key_wf. Qed.
Check C20_build_key :
  forall (a : arena) (key : string),
    arena_ok a = true ->
    arena_ok (b_arena (build_key a key)) = true /\
    disciplined (b_arena (build_key a key)) (b_cur (build_key a key)) (b_insert (build_key a key)).
Print Assumptions C20_build_key.

(* Asking for the note of any live block terminates (at most id+1 steps: ids only grow) and
   answers with a document node. *)
Theorem C20_owner_total :
  forall a, arena_ok a = true ->
  forall id n, get a id = Some n -> is_emptyk (g_kind n) = false ->
  exists r rn key, to_document (S id) a id = Ok r /\ r <= id /\ get a r = Some rn /\ g_kind rn = KDocument key.
Proof. exact to_document_total. Qed.
Check C20_owner_total :
  forall a, arena_ok a = true ->
  forall id n, get a id = Some n -> is_emptyk (g_kind n) = false ->
  exists r rn key, to_document (S id) a id = Ok r /\ r <= id /\ get a r = Some rn /\ g_kind rn = KDocument key.
Print Assumptions C20_owner_total.

(* The answer is consistent along the tree: a block reached through a child or next link has the
   same note as the block it was reached from, so walking a note never enters another note. *)
Theorem C20_owner_consistent :
  forall a, arena_ok a = true ->
  forall id n c, get a id = Some n -> is_emptyk (g_kind n) = false ->
    (g_child n = Some c \/ g_next n = Some c) ->
    forall r, to_document (S id) a id = Ok r -> to_document (S c) a c = Ok r.
Proof. exact owner_of_linked. Qed.
Check C20_owner_consistent :
  forall a, arena_ok a = true ->
  forall id n c, get a id = Some n -> is_emptyk (g_kind n) = false ->
    (g_child n = Some c \/ g_next n = Some c) ->
    forall r, to_document (S id) a id = Ok r -> to_document (S c) a c = Ok r.
Print Assumptions C20_owner_consistent.

(* non-vacuity: a two-note arena with a tombstone satisfies the invariant, and a cursor on its
   last section is disciplined *)
Example C20_example :
  let a := [GN (KDocument "a") None None (Some 1); GN (KSection [Str "t"]) (Some 0) None (Some 2);
            GN (KLeaf [Str "p"]) (Some 1) None None; GN KEmpty None None None;
            GN (KDocument "b") None None (Some 5); GN (KSection [Str "u"]) (Some 4) None None] in
  wf_b a [("a", 0); ("b", 4)] = true /\ partition_ok a [("a", 0); ("b", 4)] = true /\
  disciplined a 5 true.
Proof.
  cbn zeta. repeat split; try reflexivity.
  eexists. split; [reflexivity|]. cbn. auto.
Qed.
