(* Props/C04Index.v - property C04 (and C05): the reference index stays exact along every edit history (IndexHistory.v)
   Only statements, each closed by an `exact`, pinned by a `Check`, followed by `Print Assumptions`. *)
From Coq Require Import ZArith Permutation List.
From IweV Require Import Str Text Ast RelPath Arena ArenaWF ArenaFacts BuilderFacts Project Library LibraryFacts Index IndexFacts IndexHistory.
Local Open Scope string_scope.
Local Open Scope list_scope.

Theorem C04_update_key_evolves :
  forall (g : graph) (key : string) (meta : option string) (bs : list dblock) (g' : graph),
         update_key g key meta bs = Ok g' ->
         evolves (gr_arena g) (gr_arena g') /\
         Datatypes.length (gr_arena g) < Datatypes.length (gr_arena g') /\
         alookup key (gr_keys g') = Some (Datatypes.length (gr_arena g)).
Proof. exact IndexHistory.update_key_evolves. Qed.
Check C04_update_key_evolves :
  forall (g : graph) (key : string) (meta : option string) (bs : list dblock) (g' : graph),
         update_key g key meta bs = Ok g' ->
         evolves (gr_arena g) (gr_arena g') /\
         Datatypes.length (gr_arena g) < Datatypes.length (gr_arena g') /\
         alookup key (gr_keys g') = Some (Datatypes.length (gr_arena g)).
Print Assumptions C04_update_key_evolves.

Theorem C04_dead_stays_dead :
  forall (tbl : bool) (ops : list op) (s s' : gstate) (x : nat),
         run_updates tbl s ops = Ok s' ->
         kind_at (arena_of s) x = Some KEmpty -> kind_at (arena_of s') x = Some KEmpty.
Proof. exact IndexHistory.run_dead_stays_dead. Qed.
Check C04_dead_stays_dead :
  forall (tbl : bool) (ops : list op) (s s' : gstate) (x : nat),
         run_updates tbl s ops = Ok s' ->
         kind_at (arena_of s) x = Some KEmpty -> kind_at (arena_of s') x = Some KEmpty.
Print Assumptions C04_dead_stays_dead.

Theorem C04_index_import_invariant :
  forall (tbl : bool) (notes : list (string * option string * list dblock)) (s : gstate),
         import_state_v tbl notes = Ok s -> IdxInv s.
Proof. exact IndexHistory.index_import_invariant. Qed.
Check C04_index_import_invariant :
  forall (tbl : bool) (notes : list (string * option string * list dblock)) (s : gstate),
         import_state_v tbl notes = Ok s -> IdxInv s.
Print Assumptions C04_index_import_invariant.

Theorem C04_index_history_invariant :
  forall (tbl : bool) (s : gstate) (key : string) (meta : option string) 
           (bs : list dblock) (s' : gstate),
         IdxInv s ->
         update_state_v tbl s key meta bs = Ok s' ->
         covers tbl (arena_of s) (arena_of s') -> IdxInv s'.
Proof. exact IndexHistory.index_history_invariant. Qed.
Check C04_index_history_invariant :
  forall (tbl : bool) (s : gstate) (key : string) (meta : option string) 
           (bs : list dblock) (s' : gstate),
         IdxInv s ->
         update_state_v tbl s key meta bs = Ok s' ->
         covers tbl (arena_of s) (arena_of s') -> IdxInv s'.
Print Assumptions C04_index_history_invariant.

Theorem C04_covers_necessary :
  forall (tbl : bool) (s : gstate) (key : string) (meta : option string) 
           (bs : list dblock) (s' : gstate),
         IdxInv s ->
         update_state_v tbl s key meta bs = Ok s' ->
         IdxInv s' -> covers tbl (arena_of s) (arena_of s').
Proof. exact IndexHistory.covers_necessary. Qed.
Check C04_covers_necessary :
  forall (tbl : bool) (s : gstate) (key : string) (meta : option string) 
           (bs : list dblock) (s' : gstate),
         IdxInv s ->
         update_state_v tbl s key meta bs = Ok s' ->
         IdxInv s' -> covers tbl (arena_of s) (arena_of s').
Print Assumptions C04_covers_necessary.

Theorem C04_index_run_invariant :
  forall (tbl : bool) (ops : list op) (s s' : gstate),
         IdxInv s -> run_updates tbl s ops = Ok s' -> covered_run tbl s ops -> IdxInv s'.
Proof. exact IndexHistory.index_run_invariant. Qed.
Check C04_index_run_invariant :
  forall (tbl : bool) (ops : list op) (s s' : gstate),
         IdxInv s -> run_updates tbl s ops = Ok s' -> covered_run tbl s ops -> IdxInv s'.
Print Assumptions C04_index_run_invariant.

Theorem C04_index_no_history :
  forall (tbl : bool) (notes : list (string * option string * list dblock)) 
           (ops : list op) (s0 s : gstate),
         import_state_v tbl notes = Ok s0 ->
         run_updates tbl s0 ops = Ok s ->
         covered_run tbl s0 ops ->
         forall k : string,
         block_refs_to s k = Ok (exact_refs (arena_of s) k) /\
         inline_refs_to s k = Ok (exact_inline (arena_of s) k).
Proof. exact IndexHistory.C04_index_no_history. Qed.
Check C04_index_no_history :
  forall (tbl : bool) (notes : list (string * option string * list dblock)) 
           (ops : list op) (s0 s : gstate),
         import_state_v tbl notes = Ok s0 ->
         run_updates tbl s0 ops = Ok s ->
         covered_run tbl s0 ops ->
         forall k : string,
         block_refs_to s k = Ok (exact_refs (arena_of s) k) /\
         inline_refs_to s k = Ok (exact_inline (arena_of s) k).
Print Assumptions C04_index_no_history.

Theorem C04_index_history_independent :
  forall (tbl : bool) (notes1 : list (string * option string * list dblock)) 
           (ops1 : list op) (s01 s1 : gstate) (notes2 : list (string * option string * list dblock))
           (ops2 : list op) (s02 s2 : gstate),
         import_state_v tbl notes1 = Ok s01 ->
         run_updates tbl s01 ops1 = Ok s1 ->
         covered_run tbl s01 ops1 ->
         import_state_v tbl notes2 = Ok s02 ->
         run_updates tbl s02 ops2 = Ok s2 ->
         covered_run tbl s02 ops2 ->
         arena_of s1 = arena_of s2 ->
         forall k : string,
         block_refs_to s1 k = block_refs_to s2 k /\ inline_refs_to s1 k = inline_refs_to s2 k.
Proof. exact IndexHistory.C04_index_history_independent. Qed.
Check C04_index_history_independent :
  forall (tbl : bool) (notes1 : list (string * option string * list dblock)) 
           (ops1 : list op) (s01 s1 : gstate) (notes2 : list (string * option string * list dblock))
           (ops2 : list op) (s02 s2 : gstate),
         import_state_v tbl notes1 = Ok s01 ->
         run_updates tbl s01 ops1 = Ok s1 ->
         covered_run tbl s01 ops1 ->
         import_state_v tbl notes2 = Ok s02 ->
         run_updates tbl s02 ops2 = Ok s2 ->
         covered_run tbl s02 ops2 ->
         arena_of s1 = arena_of s2 ->
         forall k : string,
         block_refs_to s1 k = block_refs_to s2 k /\ inline_refs_to s1 k = inline_refs_to s2 k.
Print Assumptions C04_index_history_independent.

Theorem C04_index_sound_no_history :
  forall (tbl : bool) (notes : list (string * option string * list dblock)) 
           (ops : list op) (s0 s : gstate),
         import_state_v tbl notes = Ok s0 ->
         run_updates tbl s0 ops = Ok s ->
         forall k : string,
         (exists l : list nat,
            block_refs_to s k = Ok l /\ (forall x : nat, In x l -> In x (exact_refs (arena_of s) k))) /\
         (exists l : list nat,
            inline_refs_to s k = Ok l /\
            (forall x : nat, In x l -> In x (exact_inline (arena_of s) k))).
Proof. exact IndexHistory.C04_index_sound_no_history. Qed.
Check C04_index_sound_no_history :
  forall (tbl : bool) (notes : list (string * option string * list dblock)) 
           (ops : list op) (s0 s : gstate),
         import_state_v tbl notes = Ok s0 ->
         run_updates tbl s0 ops = Ok s ->
         forall k : string,
         (exists l : list nat,
            block_refs_to s k = Ok l /\ (forall x : nat, In x l -> In x (exact_refs (arena_of s) k))) /\
         (exists l : list nat,
            inline_refs_to s k = Ok l /\
            (forall x : nat, In x l -> In x (exact_inline (arena_of s) k))).
Print Assumptions C04_index_sound_no_history.

Theorem C04_covers_of_wf :
  forall (tbl : bool) (a : list gnode) (a' : arena),
         wf_arena a' ->
         tbl = true \/
         (forall (i : nat) (n : gnode),
          Datatypes.length a <= i -> get a' i = Some n -> table_with_next n = false) ->
         (forall x : nat, Datatypes.length a <= x -> alive a' x -> below a' (Datatypes.length a) x) ->
         covers tbl a a'.
Proof. exact IndexHistory.covers_of_wf. Qed.
Check C04_covers_of_wf :
  forall (tbl : bool) (a : list gnode) (a' : arena),
         wf_arena a' ->
         tbl = true \/
         (forall (i : nat) (n : gnode),
          Datatypes.length a <= i -> get a' i = Some n -> table_with_next n = false) ->
         (forall x : nat, Datatypes.length a <= x -> alive a' x -> below a' (Datatypes.length a) x) ->
         covers tbl a a'.
Print Assumptions C04_covers_of_wf.

Theorem C04_index_as_found_refuted :
  exists
           (notes : list (string * option string * list dblock)) (ops : list op) 
         (s0 s : gstate) (k : string),
           import_state notes = Ok s0 /\
           run_updates false s0 ops = Ok s /\
           block_refs_to s k = Ok [21; 24] /\
           exact_refs (arena_of s) k = [21; 24; 26] /\ covered_runb false s0 ops = false.
Proof. exact IndexHistory.index_history_as_found_refuted. Qed.
Check C04_index_as_found_refuted :
  exists
           (notes : list (string * option string * list dblock)) (ops : list op) 
         (s0 s : gstate) (k : string),
           import_state notes = Ok s0 /\
           run_updates false s0 ops = Ok s /\
           block_refs_to s k = Ok [21; 24] /\
           exact_refs (arena_of s) k = [21; 24; 26] /\ covered_runb false s0 ops = false.
Print Assumptions C04_index_as_found_refuted.

Theorem C04_index_former_orphan :
  (exists s : gstate,
            import_state_v true [("d", None, orphan_note)] = Ok s /\ block_refs_to s "b" = Ok [5]) /\
         (exists s0 s : gstate,
            import_state_v true [] = Ok s0 /\
            run_updates true s0 [("d", None, orphan_note)] = Ok s /\
            block_refs_to s "b" = Ok [5] /\
            exact_refs (arena_of s) "b" = [5] /\
            covered_runb true s0 [("d", None, orphan_note)] = true).
Proof. exact IndexHistory.index_history_former_orphan. Qed.
Check C04_index_former_orphan :
  (exists s : gstate,
            import_state_v true [("d", None, orphan_note)] = Ok s /\ block_refs_to s "b" = Ok [5]) /\
         (exists s0 s : gstate,
            import_state_v true [] = Ok s0 /\
            run_updates true s0 [("d", None, orphan_note)] = Ok s /\
            block_refs_to s "b" = Ok [5] /\
            exact_refs (arena_of s) "b" = [5] /\
            covered_runb true s0 [("d", None, orphan_note)] = true).
Print Assumptions C04_index_former_orphan.

