(* Props/C18.v — property C18: symbol search and path listings show every heading and only
   real ones.  Only statements, each closed by an `exact`, pinned by a `Check`, and followed
   by `Print Assumptions`. *)
From Coq Require Import ZArith Permutation.
From IweV Require Import Str Text Ast RelPath Arena Project Library Index IndexFacts Paths PathsFacts.
Local Open Scope string_scope.
Local Open Scope list_scope.

(* Soundness, for both variants of the index reads and every graph state: a path listed by
   graph_to_paths is a chain — each step goes from a section to the section it is the parent
   of, or to a section directly below the document of a note that a block reference below
   the first section includes (handed on only by references sitting directly below a
   document node); every element is a heading: a live Section node whose ancestors are
   Section nodes up to its Document (so outside lists and block quotes); the first element
   is a top-level heading of a note to which the index (as read by the variant) has no
   block reference. *)
Theorem C18_sound :
  forall filt s ps p,
    graph_to_paths filt s = Ok ps -> In p ps ->
    chain filt s p /\ Forall (heading s) p /\
    exists first rest key d k,
      p = first :: rest /\
      graph_node_key (nav_fuel (gr_arena (gs_graph s))) (gr_arena (gs_graph s)) first = Ok key /\
      path_refs filt s key = Ok [] /\
      parent_of (gr_arena (gs_graph s)) first = Ok (Some d) /\ doc s d k.
Proof. exact graph_to_paths_sound. Qed.

Check C18_sound :
  forall filt s ps p,
    graph_to_paths filt s = Ok ps -> In p ps ->
    chain filt s p /\ Forall (heading s) p /\
    exists first rest key d k,
      p = first :: rest /\
      graph_node_key (nav_fuel (gr_arena (gs_graph s))) (gr_arena (gs_graph s)) first = Ok key /\
      path_refs filt s key = Ok [] /\
      parent_of (gr_arena (gs_graph s)) first = Ok (Some d) /\ doc s d k.
Print Assumptions C18_sound.

(* Finiteness: on an arena whose prev links point backward (decidable, evaluated on every
   observed arena) and an index whose ids are arena slots, the recursion of paths_for_node —
   through section parents and through the parents of every referrer, guarded by the set of
   ids on the stack — returns within the fuel the model gives it, whatever cycles the
   references form: the stack holds distinct slots, so it is never deeper than the arena. *)
Theorem C18_finite :
  forall filt s id,
    bwd (gr_arena (gs_graph s)) -> idx_in_range s -> id < length (gr_arena (gs_graph s)) ->
    exists ps, paths_for_node filt (paths_fuel (gr_arena (gs_graph s))) s id [] = Ok ps.
Proof. exact paths_for_node_terminates. Qed.

Check C18_finite :
  forall filt s id,
    bwd (gr_arena (gs_graph s)) -> idx_in_range s -> id < length (gr_arena (gs_graph s)) ->
    exists ps, paths_for_node filt (paths_fuel (gr_arena (gs_graph s))) s id [] = Ok ps.
Print Assumptions C18_finite.

(* Completeness, depth 0: in a note to which the index (as read by the variant) has no block
   reference, every heading — `heading_has_chain`: every heading has its chain of ancestors
   [top-level heading; ...; h] — is the last element of a listed path, namely that chain.
   Hypotheses: prev links point backward, and graph_to_paths returned (it panics on arenas
   with orphaned sections).  Completeness across block references (C18_complete_rooted) is
   not proved; it is evaluated on every run's observations. *)
Theorem C18_complete_unreferenced :
  forall filt s, bwd (gr_arena (gs_graph s)) ->
  forall ps h q d k,
    graph_to_paths filt s = Ok ps -> hchain s h q d -> doc s d k -> path_refs filt s k = Ok [] ->
    In q ps /\ lastn q = Some h.
Proof. exact complete_unreferenced. Qed.

Check C18_complete_unreferenced :
  forall filt s, bwd (gr_arena (gs_graph s)) ->
  forall ps h q d k,
    graph_to_paths filt s = Ok ps -> hchain s h q d -> doc s d k -> path_refs filt s k = Ok [] ->
    In q ps /\ lastn q = Some h.
Print Assumptions C18_complete_unreferenced.

Theorem C18_heading_has_chain :
  forall s h, heading s h -> exists q d, hchain s h q d.
Proof. exact heading_hchain. Qed.

Check C18_heading_has_chain :
  forall s h, heading s h -> exists q d, hchain s h q d.
Print Assumptions C18_heading_has_chain.

(* Search: whatever the paths and the fuzzy scores (the matcher is an oracle), global_search
   returns at most 100 entries, they are the first 100 of a permutation of all scored paths
   that is sorted by the comparator of database.rs, and for the empty query the reference
   counts (node_rank) never increase along the result. *)
Theorem C18_search_bound :
  forall qe scored,
    length (global_search qe scored) <= 100 /\
    exists all, global_search qe scored = firstn 100 (map fst all) /\
                Permutation scored all /\ sorted (gs_le qe) all /\
                (qe = true -> ranks_noninc (global_search qe scored)).
Proof. exact global_search_spec. Qed.

Check C18_search_bound :
  forall qe scored,
    length (global_search qe scored) <= 100 /\
    exists all, global_search qe scored = firstn 100 (map fst all) /\
                Permutation scored all /\ sorted (gs_le qe) all /\
                (qe = true -> ranks_noninc (global_search qe scored)).
Print Assumptions C18_search_bound.

(* F12 (open finding): notes that include each other, and a note that includes itself, get no
   path at all — only the stand-alone note d is listed, with either variant of the reads *)
Theorem C18_cycle_refuted :
  (do s <- import_state_v true cycle_witness; graph_to_paths true s) = Ok [[11]] /\
  (do s <- import_state_v false cycle_witness; graph_to_paths false s) = Ok [[11]] /\
  (do s <- import_state_v true cycle_witness; Ok (map (fun i => kind_at (gr_arena (gs_graph s)) i) [1; 4; 5; 8]))
    = Ok [Ok (KSection [Str "a"]); Ok (KSection [Str "b"]); Ok (KSection [Str "sub"]); Ok (KSection [Str "c"])].
Proof. exact cycle_refuted. Qed.

Check C18_cycle_refuted :
  (do s <- import_state_v true cycle_witness; graph_to_paths true s) = Ok [[11]] /\
  (do s <- import_state_v false cycle_witness; graph_to_paths false s) = Ok [[11]] /\
  (do s <- import_state_v true cycle_witness; Ok (map (fun i => kind_at (gr_arena (gs_graph s)) i) [1; 4; 5; 8]))
    = Ok [Ok (KSection [Str "a"]); Ok (KSection [Str "b"]); Ok (KSection [Str "sub"]); Ok (KSection [Str "c"])].
Print Assumptions C18_cycle_refuted.

(* R3 (fixed by 81d1287): with the raw index reads a note stays hidden after its last
   referrer dropped the link; with the filtered reads its headings are listed again *)
Theorem C18_stale_refuted :
  stale_history true false = Ok [[7]] /\ stale_history true true = Ok [[4]; [4; 5]; [7]].
Proof. exact stale_refuted. Qed.

Check C18_stale_refuted :
  stale_history true false = Ok [[7]] /\ stale_history true true = Ok [[4]; [4; 5]; [7]].
Print Assumptions C18_stale_refuted.

(* the hypotheses of C18_finite hold of a state with a reference cycle, and its walk returns *)
Example C18_nonvacuous :
  exists s, import_state_v true cycle_witness = Ok s /\
            bwdb (gr_arena (gs_graph s)) = true /\
            paths_for_node true (paths_fuel (gr_arena (gs_graph s))) s 5 [] = Ok [[1; 4; 5]; [4; 5]; [5]].
Proof. eexists. split; [vm_compute; reflexivity|]. split; vm_compute; reflexivity. Qed.
