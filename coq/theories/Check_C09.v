(* Check_C09.v — property C09 (extract / inline move content without losing or duplicating it):
   predicates evaluated on the implementation's observations (WorkspaceEdits of the real server,
   edited notes re-read by the real reader, the inline step after an extraction), and the
   classifiers of the known classes. *)
From IweV Require Export Check_Act.
Local Open Scope string_scope.
Local Open Scope list_scope.

Definition blocks_of (c : libcase) (key : string) : option (list dblock) :=
  match note_in_of c key with
  | Some ni => match ni_blocks ni with Ok bs => Some bs | Panic _ => None end
  | None => None
  end.

Definition ref_atoms (k : string) : list string := ["P"; "u:" +++ k].

(* block references to [k] in the blocks of a note of directory [d]: their link texts *)
Fixpoint block_refs (d k : string) (b : dblock) {struct b} : list (list inline) :=
  let fix go (l : list dblock) : list (list inline) := match l with [] => [] | x :: r => block_refs d k x ++ go r end in
  let fix goi (l : list (list dblock)) : list (list inline) := match l with [] => [] | x :: r => go x ++ goi r end in
  match b with
  | DPara _ [Link url _ _ l] => if is_ref_url url && String.eqb (from_rel_link_url url d) k then [l] else []
  | DQuote _ bs => go bs
  | DOList its | DBList its => goi its
  | _ => []
  end.

(* the plain text iwe takes for a heading: a bare wiki link has no text of its own in the graph
   (GraphInline::normalize), everything else as Node::plain_text *)
Fixpoint title_inline (i : inline) : string :=
  let fix go (l : list inline) : string := match l with [] => "" | x :: r => title_inline x +++ go r end in
  match i with
  | Str s => s
  | Code s => s
  | Math _ => ""
  | Emph l | Strong l | Strike l => go l
  | Link url _ lt l => if is_ref_url url then match lt with WikiLink => "" | _ => go l end else go l
  | Image _ _ l => go l
  end.
Definition title_text (l : list inline) : string := sconcat (map title_inline l).

(* ---------- what the model says about the input (classifiers) ---------------------------------- *)

Definition target_tree (g : graph) (s : step) : option (tree * nat) :=
  match step_target s, collect_key g (st_key s) with
  | Some id, Ok t => Some (t, id)
  | _, _ => None
  end.

Definition ref_key_of (g : graph) (s : step) : option string :=
  match target_tree g s with
  | Some (t, id) => match tfind id t with
                    | Some x => node_reference_key (t_node x)
                    | None => None
                    end
  | None => None
  end.

(* the atoms of the block reference under the cursor: a piped wiki link carries its text *)
Definition ref_atoms_of (g : graph) (s : step) : list string :=
  match target_tree g s with
  | Some (t, id) => match tfind id t with
                    | Some (T _ (NRef k text WikiLinkPiped) _) => ref_atoms k ++ map (fun w => "w:" +++ w) (words text)
                    | Some (T _ (NRef k _ _) _) => ref_atoms k
                    | _ => []
                    end
  | None => []
  end.

(* sub-sections that an extraction of sub-sections takes *)
Definition n_subsections (g : graph) (s : step) : nat :=
  match target_tree g s with
  | Some (t, id) => match tfind id t with
                    | Some x => length (filter is_section (t_children x))
                    | None => 0
                    end
  | None => 0
  end.

(* is the extracted section the first sub-section of its parent? *)
Definition first_subsection (g : graph) (s : step) : bool :=
  match target_tree g s with
  | Some (t, id) =>
      match get_surrounding_section_id id t with
      | Some p => match tfind p t with
                  | Some pt => match filter is_section (t_children pt) with
                               | x :: _ => id_eq x id
                               | [] => false
                               end
                  | None => false
                  end
      | None => false
      end
  | None => false
  end.

(* which classes can explain the failure of which sub-property *)
Definition explain_C09 (p : N) : list N :=
  match p with
  | 1%N => []
  | 2%N => [13; 14]%N
  | 3%N => [13]%N
  | 4%N => [13; 14; 17; 18]%N
  | 5%N => [13; 14; 17; 18]%N
  | 6%N => [2; 13; 14]%N
  | 7%N => [2; 13; 14; 17; 18]%N
  | _ => []
  end.

(* sub-properties
   1 an offered action resolves to an edit (no panic, no missing `changes`)
   2 created keys are new to the library and pairwise distinct
   3 shape of the edit: extract = create + fill each new note, then update the source;
     inline = delete the referenced note (another note than the source), update the source;
     nothing else is touched
   4 conservation and placement, on the re-read notes (atoms with link targets resolved from each
     note's own directory): extract: source' minus one reference per new note, with the new
     notes' atoms spliced back, is the source; inline: source minus the reference, with the
     inlined note's atoms (in a quote for inline-quote) spliced in, is source'
   5 extract: exactly one block reference per new note in source', titled with the plain text of
     the new note's first heading, which is at level 1; the new note carries no front matter
   6 front matter of the source kept
   7 extract the first sub-section, inline it again: the formatted original is back and the new
     note is deleted
   classes
   1 outside the reparse-safe text domain (text-level predicates not evaluated)
   2 the source note has front matter
   (10, 11, 12 - dangling reference, reference outside any section, reference to the note itself -
    were classes of the tree before the repair "do not offer to inline a reference that cannot be
    inlined"; such an offer is now a correspondence failure and its resolution an unexcused one)
   13 sequential-key mode and more than one sub-section: one key for all new notes
   14 sequential-key mode and the key `keys+1` is already a note
   (15 - inline of a note from another directory that holds inline note links, F-C09-cross-dir-inline - is
    repaired: inline links are kept by key and written relative to the note they are written into)
   17 the result holds a heading deeper than 6 (inline below a deep section)
   18 the result holds two lists of the same type side by side
   (19 - a rule or table right under the text of a tight item - is repaired in the writer, F-TIGHTTAIL) *)
Definition eval_act (c : actcase) (g : graph) (a : act_obs) : list N * list N :=
  let lc := ac_lib c in
  let s := ao_first a in
  let key := st_key s in
  let kind := st_kind s in
  let keys := lib_keys lc in
  let rk := ref_key_of g s in
  let seq_key := from_rel_link_url (dec (length keys + 1)) (key_parent key) in
  let src_meta := match note_in_of lc key with Some ni => ni_meta ni | None => None end in
  let cls :=
    flag 1 (lib_dom lc) ++
    flag 2 (match src_meta with Some _ => false | None => true end) ++
    flag 13 (negb (ac_seq c && Nat.eqb kind 2 && Nat.ltb 1 (n_subsections g s))) ++
    flag 14 (negb (ac_seq c && (Nat.eqb kind 1 || Nat.eqb kind 2) && mem_str seq_key keys)) in
  let result_blocks :=
    match model_tree_changes (cached_ctx g) (ac_seq c) s with
    | Ok l => flat_map (fun ch => match ch with Update _ parent t => [project parent t] | _ => [] end) l
    | Panic _ => []
    end in
  let cls := cls ++
    flag 17 (negb (existsb (fun bs => Nat.ltb 6 (max_levels bs)) result_blocks)) ++
    flag 18 (negb (existsb adjacent_lists result_blocks)) in
  match st_changes s with
  | Panic _ => explain_fails explain_C09 [1%N] cls
  | Ok l =>
      let created := created_keys l in
      let p2 := forallb (fun k => negb (mem_str k keys)) created && nodup_str created in
      let before := match blocks_of lc key with Some bs => note_atoms key bs | None => [] end in
      let after_src := after_doc s key in
      let src' := match after_src with Some (_, bs) => note_atoms key bs | None => [] end in
      let new_atoms (k : string) := match after_doc s k with Some (_, bs) => note_atoms k bs | None => ["<missing>"] end in
      let extract := Nat.eqb kind 1 || Nat.eqb kind 2 in
      let p3 :=
        if extract then
          list_eqb och_eqb (map (fun c => match c with OUpdate k _ => OUpdate k "" | x => x end) l)
                   (flat_map (fun k => [OCreate k; OUpdate k ""]) created ++ [OUpdate key ""]) &&
          negb (match created with [] => true | _ => false end) &&
          (if Nat.eqb kind 1 then Nat.eqb (length created) 1 else true)
        else
          match l, rk with
          | [ORemove k; OUpdate k' _], Some r => String.eqb k r && String.eqb k' key && negb (String.eqb k key)
          | _, _ => false
          end in
      let p4 :=
        if extract then
          match created with
          | [k] => existsb (fun y => splice_rel before y (new_atoms k)) (delete_one (ref_atoms k) src')
          | _ =>
              (* several notes: multiset conservation *)
              let all := src' ++ flat_map new_atoms created in
              let want := before ++ flat_map ref_atoms created in
              Nat.eqb (length all) (length want) &&
              forallb (fun x => Nat.eqb (length (filter (String.eqb x) all)) (length (filter (String.eqb x) want))) want
          end
        else
          match rk with
          | Some k =>
              let inl := match blocks_of lc k with Some bs => note_atoms k bs | None => ["<missing>"] end in
              let piece := if Nat.eqb kind 4 then match inl with [] => [] | _ => "Q(" :: inl ++ [")"] end else inl in
              let ra := ref_atoms_of g s in
              if Nat.eqb kind 4 then
                (* in place of the reference *)
                existsb (fun pos => starts_with_l ra (skipn pos before) &&
                                    strs_eqb src' (firstn pos before ++ piece ++ skipn (pos + length ra) before))
                        (seq 0 (length before))
              else existsb (fun y => splice_rel src' y piece) (delete_one ra before)
          | None => false
          end in
      let p5 :=
        if extract then
          match after_src with
          | Some (_, bs) =>
              forallb (fun k =>
                 match after_doc s k with
                 (* a fresh note holds exactly the extracted section: no front matter of its own *)
                 | Some (None, DHeader _ 1 h :: _) =>
                     match flat_map (block_refs (key_parent key) k) bs with
                     | [l] => String.eqb (norm_text (inlines_plain_text l)) (norm_text (title_text h))
                     | _ => false
                     end
                 | _ => false
                 end) created
          | None => false
          end
        else true in
      let p6 := match after_src with Some (m, _) => ostring_eqb src_meta m | None => false end in
      let p7 :=
        if Nat.eqb kind 1 && first_subsection g s then
          match ao_second a, created with
          | Some s2, [k] =>
              match st_changes s2 with
              | Ok [ORemove k'; OUpdate k'' t2] =>
                  String.eqb k' k && String.eqb k'' key && text_eqb (Ok t2) (formatted_original lc key)
              | _ => false
              end
          | _, _ => false
          end
        else true in
      explain_fails explain_C09
        (if lib_dom lc then flag 2 p2 ++ flag 3 p3 ++ flag 4 p4 ++ flag 5 p5 ++ flag 6 p6 ++ flag 7 p7
         else flag 2 p2 ++ flag 3 p3) cls
  end.

Definition c09_kinds : list nat := [1; 2; 3; 4].

Definition run_C09 (c : actcase) : verdict :=
  let corr := act_corr c c09_kinds in
  match model_graph (ac_lib c) with
  | Ok g =>
      let acts := filter (fun a => existsb (Nat.eqb (st_kind (ao_first a))) c09_kinds) (ac_acts c) in
      (* every predicate is also evaluated on what a server with a history answered *)
      let per := map (eval_act c g) (acts ++ flat_map (hist_variants (ac_seq c)) acts) in
      let '(f, k) := combine_acts per in
      let hits := dedup_N (flat_map snd per) in
      V corr f (match f with [] => hits | _ => k end)
        (existsb (fun a => Nat.leb (st_kind (ao_first a)) 4) (ac_acts c))
  | Panic _ => V corr [] [] false
  end.
