(* TreeBuildSquash.v — the hypotheses of TreeBuildFacts.squash_cli_roundtrip hold for every tree
   `Graph::collect` and `Graph::squash` return on a well-formed library, so the CLI path of squash
   (main.rs:171-180: squash -> build_key_from_iter on a fresh graph -> export_key) prints the
   rendering of the squashed tree:

   collect_patchable     in a well-formed arena the tree `collect` returns from a document root is
                         [patchable]: a Document over children that hold no Document node, whose
                         Leaf/Raw/Rule/Reference/Table nodes have no children, and whose link texts
                         are fixed by a title-less refresh (they went through GraphNodePointer::node)
   expand_patchable      the squash expansion keeps that shape
   squash_cli_graph      for every graph satisfying the executable invariant wf_b, every key and
                         depth: squash returns a tree t, the builder returns on it, and the text
                         exported from the fresh graph is tree_to_markdown of t
   format_roundtrip      formatting (server.rs:273-284, collect -> patch graph -> export) in a patch
                         graph without titles. *)
From IweV Require Import Str Text Ast RelPath Arena ArenaWF ArenaFacts Project Library SectionsRefine
  Determinism2 HistoryText HistoryWF Squash SquashFacts Reachable Rename RenameFacts TreeBuild TreeBuildFacts.
From Coq Require Import Lia.
Local Open Scope string_scope.
Local Open Scope list_scope.

(* ---------- a title refresh is stable under a title-less refresh --------------------------------- *)

Lemma renorm_inline_idem ctx : forall i,
  normalize_inline no_titles (normalize_inline ctx i) = normalize_inline ctx i.
Proof.
  apply (inline_ind' (fun i => normalize_inline no_titles (normalize_inline ctx i) = normalize_inline ctx i));
    intros; cbn [normalize_inline]; try reflexivity.
  - f_equal. rewrite map_map. apply map_ext_Forall. assumption.
  - f_equal. rewrite map_map. apply map_ext_Forall. assumption.
  - f_equal. rewrite map_map. apply map_ext_Forall. assumption.
  - destruct (is_ref_url u) eqn:E; cbn [normalize_inline]; rewrite E; [|reflexivity].
    destruct lt; reflexivity.
Qed.

Lemma renorm_inlines_idem ctx l :
  normalize_inlines no_titles (normalize_inlines ctx l) = normalize_inlines ctx l.
Proof. unfold normalize_inlines. rewrite map_map. apply map_ext. apply renorm_inline_idem. Qed.

Lemma renorm_norm_node ctx nd : renorm_node (norm_node ctx nd) = norm_node ctx nd.
Proof.
  destruct nd; cbn [norm_node renorm_node]; try reflexivity.
  - now rewrite renorm_inlines_idem.
  - now rewrite renorm_inlines_idem.
  - destruct rt; reflexivity.
  - f_equal.
    + rewrite map_map. apply map_ext. apply renorm_inlines_idem.
    + rewrite map_map. apply map_ext. intros r. rewrite map_map. apply map_ext. apply renorm_inlines_idem.
Qed.

(* ---------- the shape ------------------------------------------------------------------------------- *)

(* a tree below a document root *)
Definition inner (t : tree) : Prop := doc_free t = true /\ shape_ok t = true /\ renorm_tree t = t.
Definition patchable (t : tree) : Prop := (exists k, t_node t = NDocument k) /\ Forall inner (t_children t).

Lemma forallb_Forall {A} (p : A -> bool) l : forallb p l = true <-> Forall (fun x => p x = true) l.
Proof. rewrite forallb_forall, Forall_forall. reflexivity. Qed.

Lemma inner_T i nd kids :
  match nd with NDocument _ => False | _ => True end -> renorm_node nd = nd ->
  (node_insertable nd = false -> kids = []) -> Forall inner kids -> inner (T i nd kids).
Proof.
  intros Hnd Hr Hleaf Hk. repeat split.
  - rewrite doc_free_T. apply Bool.andb_true_iff. split; [destruct nd; [contradiction | reflexivity ..]|].
    apply forallb_Forall. eapply Forall_impl; [|exact Hk]. now intros x (H & _).
  - rewrite shape_ok_T. apply Bool.andb_true_iff. split.
    + destruct (node_insertable nd); [reflexivity|]. now rewrite (Hleaf eq_refl).
    + apply forallb_Forall. eapply Forall_impl; [|exact Hk]. now intros x (_ & H & _).
  - cbn [renorm_tree]. rewrite Hr. f_equal. apply map_id_Forall. eapply Forall_impl; [|exact Hk]. now intros x (_ & _ & H).
Qed.

Lemma inner_inv i nd kids : inner (T i nd kids) ->
  match nd with NDocument _ => False | _ => True end /\ renorm_node nd = nd /\
  (node_insertable nd = false -> kids = []) /\ Forall inner kids.
Proof.
  intros (Hd & Hs & Hr). rewrite doc_free_T in Hd. rewrite shape_ok_T in Hs. cbn [renorm_tree] in Hr.
  apply Bool.andb_true_iff in Hd as [Hd1 Hd2]. apply Bool.andb_true_iff in Hs as [Hs1 Hs2].
  injection Hr as Hr1 Hr2.
  apply forallb_Forall in Hd2. apply forallb_Forall in Hs2.
  split; [destruct nd; [discriminate | exact I ..]|]. split; [exact Hr1|]. split.
  - intros Hi. rewrite Hi in Hs1. cbn [orb] in Hs1. destruct kids; [reflexivity | discriminate].
  - rewrite Forall_forall in *. intros x Hx. repeat split; auto.
    assert (E : forall l : list tree, map renorm_tree l = l -> forall y, In y l -> renorm_tree y = y).
    { induction l as [|z l IH]; intros Hm y Hy; [contradiction|]. cbn [map] in Hm. injection Hm as H1 H2.
      destruct Hy as [<-|Hy]; [exact H1 | now apply IH]. }
    now apply (E kids Hr2).
Qed.

(* what TreeBuildFacts asks of a tree *)
Lemma patchable_ok t : patchable t -> buildable t = true /\ inner_doc_free t = true /\ renorm_tree t = t.
Proof.
  destruct t as [i nd kids]. intros [(k & Hk) Hin]. cbn [t_node t_children] in *. subst nd.
  assert (Hd : forallb doc_free kids = true)
    by (apply forallb_Forall; eapply Forall_impl; [|exact Hin]; now intros x (H & _)).
  split; [|split].
  - unfold buildable. rewrite normf_cons, (normf_doc_free kids Hd). apply forallb_Forall, Forall_forall.
    intros x Hx. apply in_map_iff in Hx as (y & <- & Hy). rewrite Forall_forall in Hin.
    destruct (Hin y Hy) as (_ & Hs & _). clear - Hs. revert Hs.
    induction y as [j n ys IH] using tree_ind'. cbn [erase]. rewrite !shape_ok_T. intros H.
    apply Bool.andb_true_iff in H as [H1 H2]. apply Bool.andb_true_iff. split.
    + destruct ys; [exact H1|]. cbn [map]. exact H1.
    + apply forallb_Forall in H2. apply forallb_Forall, Forall_forall. intros z Hz.
      apply in_map_iff in Hz as (w & <- & Hw). rewrite Forall_forall in IH, H2. auto.
  - exact Hd.
  - cbn [renorm_tree renorm_node]. f_equal. apply map_id_Forall. eapply Forall_impl; [|exact Hin]. now intros x (_ & _ & H).
Qed.

(* ---------- collect returns that shape ------------------------------------------------------------------ *)

Definition linked_below (a : arena) (i : nat) : Prop := exists n p, get a i = Some n /\ g_prev n = Some p.

Lemma chain_linked a : arena_ok a = true -> forall fuel c ids,
  sibling_ids fuel a c = Ok ids -> linked_below a c -> Forall (linked_below a) ids.
Proof.
  intros Hok. induction fuel as [|f IH]; intros c ids H Hc; [discriminate|].
  rewrite sibling_ids_S in H. destruct (get a c) as [n|] eqn:Hg; [|discriminate].
  assert (He : is_emptyk (g_kind n) = false) by (destruct (g_kind n); try reflexivity; discriminate).
  assert (H' : match g_next n with None => Ok [c] | Some nx => do r <- sibling_ids f a nx; Ok (c :: r) end = Ok ids)
    by (destruct (g_kind n); try exact H; discriminate).
  clear H. destruct (g_next n) as [nx|] eqn:Hn.
  - apply bind_ok in H' as (r & Hr & E). inversion E; subst ids. constructor; [exact Hc|].
    apply (IH nx r Hr).
    pose proof (proj1 (arena_ok_spec a) Hok c n Hg) as Hnode.
    destruct (node_ok_live a c n Hnode He) as (_ & _ & _ & _ & Hb). rewrite Hn in Hb.
    destruct (back_ok_some _ _ _ Hb) as (_ & m & Hm & _ & Hp). now exists m, c.
  - inversion H'; subst ids. constructor; [exact Hc | constructor].
Qed.

Lemma fold_kids (step : nat -> res (option tree)) ids : forall kids,
  fold_right (fun i acc => do r <- acc; do t <- step i;
                Ok (match t with Some t => t :: r | None => r end)) (Ok []) ids = Ok kids ->
  forall t, In t kids -> exists i, In i ids /\ step i = Ok (Some t).
Proof.
  induction ids as [|i ids IH]; intros kids H t Ht; cbn [fold_right] in H.
  - inversion H; subst. contradiction.
  - apply bind_ok in H as (r & Hr & H). apply bind_ok in H as (o & Ho & H). inversion H; subst kids.
    destruct o as [t'|].
    + destruct Ht as [->|Ht]; [exists i; split; [now left | exact Ho]|].
      destruct (IH r Hr t Ht) as (j & Hj & Hs). exists j. split; [now right | exact Hs].
    + destruct (IH r Hr t Ht) as (j & Hj & Hs). exists j. split; [now right | exact Hs].
Qed.

Lemma node_insertable_norm ctx k nd : pointer_node ctx k = Some nd -> node_insertable nd = insertable k.
Proof. destruct k; cbn [pointer_node kind_node]; intros H; inversion H; reflexivity. Qed.

Lemma collect_fuel_shape ctx a : arena_ok a = true -> forall fuel id t,
  collect_fuel fuel (fun _ k => pointer_node ctx k) a id = Ok (Some t) ->
  exists n, get a id = Some n /\ pointer_node ctx (g_kind n) = Some (t_node t) /\
            Forall inner (t_children t) /\ (node_insertable (t_node t) = false -> t_children t = []).
Proof.
  intros Hok. induction fuel as [|f IH]; intros id t H; [discriminate|].
  rewrite collect_fuel_S in H. destruct (get a id) as [n|] eqn:Hg; [|discriminate].
  destruct (pointer_node ctx (g_kind n)) as [nd|] eqn:Hp; [|discriminate].
  apply bind_ok in H as (ids & Hids & H). apply bind_ok in H as (kids & Hkids & H).
  inversion H; subst t. clear H. cbn [t_node t_children]. exists n. split; [reflexivity|]. split; [exact Hp|].
  assert (He : is_emptyk (g_kind n) = false) by (destruct (g_kind n); try reflexivity; discriminate).
  pose proof (proj1 (arena_ok_spec a) Hok id n Hg) as Hnode.
  destruct (node_ok_live a id n Hnode He) as (_ & Hci & Hcb & _ & _).
  split.
  - apply Forall_forall. intros t' Ht'.
    destruct (fold_kids _ ids kids Hkids t' Ht') as (i & Hi & Hc).
    destruct (IH i t' Hc) as (m & Hm & Hpm & Hin & Hleaf).
    assert (Hl : linked_below a i).
    { destruct (g_child n) as [c|] eqn:Ec; [|inversion Hids; subst; contradiction].
      destruct (back_ok_some _ _ _ Hcb) as (_ & cn & Hcn & _ & Hcp).
      pose proof (chain_linked a Hok f c ids Hids ltac:(now exists cn, id)) as Hall.
      rewrite Forall_forall in Hall. now apply Hall. }
    destruct Hl as (m' & p & Hm' & Hpp). rewrite Hm in Hm'. inversion Hm'; subst m'.
    assert (Hem : is_emptyk (g_kind m) = false) by (destruct (g_kind m); try reflexivity; discriminate).
    pose proof (proj1 (arena_ok_spec a) Hok i m Hm) as Hnm.
    destruct (node_ok_live a i m Hnm Hem) as (Hup & _).
    destruct (up_ok_some _ _ _ _ Hup Hpp) as (Hnd & _).
    destruct t' as [j nd' kids']. cbn [t_node t_children] in *. apply inner_T; auto.
    + destruct (g_kind m); cbn in Hpm; inversion Hpm; try exact I. discriminate.
    + rewrite pointer_node_norm in Hpm. destruct (kind_node (g_kind m)) as [n0|]; [|discriminate].
      cbn in Hpm. inversion Hpm. apply renorm_norm_node.
  - intros Hni. rewrite (node_insertable_norm ctx _ _ Hp) in Hni. rewrite Hni in Hci.
    destruct (g_child n); [discriminate|]. inversion Hids; subst ids. cbn in Hkids. now inversion Hkids.
Qed.

Theorem collect_patchable ctx a root t :
  arena_ok a = true -> collect ctx a root = Ok t ->
  (exists n k, get a root = Some n /\ g_kind n = KDocument k) -> patchable t.
Proof.
  intros Hok H (n & k & Hn & Hk). unfold collect in H. apply bind_ok in H as (o & Ho & H).
  destruct o as [t'|]; [|discriminate]. inversion H; subst t'.
  destruct (collect_fuel_shape ctx a Hok _ _ _ Ho) as (n' & Hn' & Hp & Hin & _).
  rewrite Hn in Hn'. inversion Hn'; subst n'. rewrite Hk in Hp. cbn in Hp. inversion Hp as [Hp'].
  split; [now exists k | exact Hin].
Qed.

(* ---------- squash keeps it ------------------------------------------------------------------------------- *)

Lemma single_inner x : inner x -> Forall inner [x].
Proof. intros H. constructor; [exact H | constructor]. Qed.

Section Expand.
  Variable lk : lookup.
  Hypothesis Hlk : forall k doc, lk k = Some doc -> Forall inner (t_children doc).

  Lemma kids_expand d (kids : list tree) :
    (forall c, In c kids -> Forall inner (child_spec lk d c)) ->
    Forall inner (concat (order_tagged (map (fun c => (is_ref c, child_spec lk d c)) kids))).
  Proof.
    intros H. apply Forall_forall. intros x Hx. apply in_concat in Hx as (xs & Hxs & Hx).
    apply In_order_tagged in Hxs. rewrite map_map in Hxs. cbn [snd] in Hxs.
    apply in_map_iff in Hxs as (c & <- & Hc). specialize (H c Hc). rewrite Forall_forall in H. auto.
  Qed.

  Lemma expand_inner : forall d,
    (forall t, inner t -> inner (expand lk d t)) /\
    (forall t, Forall inner (t_children t) -> Forall inner (t_children (expand lk d t))).
  Proof.
    induction d as [|d [IHd1 IHd2]].
    - assert (A : forall t, inner t -> inner (expand lk 0 t)).
      { induction t as [i nd kids IH] using tree_ind'. intros Hi.
        destruct (inner_inv _ _ _ Hi) as (Hnd & Hr & Hleaf & Hk). rewrite expand_T. apply inner_T; auto.
        - intros Hn. rewrite (Hleaf Hn). reflexivity.
        - apply kids_expand. intros c Hc. rewrite Forall_forall in IH, Hk. unfold child_spec.
          destruct (ref_key c); apply single_inner; rewrite <- ?(expand_depth0 lk); apply IH; auto. }
      split; [exact A|]. intros [i nd kids] Hk. rewrite expand_T. cbn [t_children] in *.
      apply kids_expand. intros c Hc. rewrite Forall_forall in Hk. unfold child_spec.
      destruct (ref_key c); apply single_inner; rewrite <- ?(expand_depth0 lk); apply A; auto.
    - assert (C : forall c, inner c -> inner (expand lk (S d) c) -> Forall inner (child_spec lk (S d) c)).
      { intros c Hc He. unfold child_spec. destruct (ref_key c) as [k|].
        - destruct (lk k) as [doc|] eqn:L.
          + apply IHd2. eapply Hlk; eauto.
          + apply single_inner. rewrite <- (expand_depth0 lk).
            (* depth 0 is the base case of this induction, re-proved from IHd1 is not available: use the direct proof *)
            clear - c Hc Hlk. revert Hc. induction c as [i nd kids IH] using tree_ind'. intros Hi.
            destruct (inner_inv _ _ _ Hi) as (Hnd & Hr & Hleaf & Hk). rewrite expand_T. apply inner_T; auto.
            * intros Hn. rewrite (Hleaf Hn). reflexivity.
            * apply kids_expand. intros c Hc. rewrite Forall_forall in IH, Hk. unfold child_spec.
              destruct (ref_key c); apply single_inner; rewrite <- ?(expand_depth0 lk); apply IH; auto.
        - apply single_inner. exact He. }
      assert (A : forall t, inner t -> inner (expand lk (S d) t)).
      { induction t as [i nd kids IH] using tree_ind'. intros Hi.
        destruct (inner_inv _ _ _ Hi) as (Hnd & Hr & Hleaf & Hk). rewrite expand_T. apply inner_T; auto.
        - intros Hn. rewrite (Hleaf Hn). reflexivity.
        - apply kids_expand. intros c Hc. rewrite Forall_forall in IH, Hk. apply C; auto. }
      split; [exact A|]. intros [i nd kids] Hk. rewrite expand_T. cbn [t_children] in *.
      apply kids_expand. intros c Hc. rewrite Forall_forall in Hk. apply C; auto.
  Qed.

  Theorem expand_patchable d t : patchable t -> patchable (expand lk d t).
  Proof.
    intros [(k & Hk) Hin]. split.
    - destruct t as [i nd kids]. rewrite expand_T. cbn [t_node] in *. now exists k.
    - now apply (proj2 (expand_inner d)).
  Qed.
End Expand.

(* ---------- on a well-formed library ----------------------------------------------------------------------- *)

Lemma alookup_in_keys {A} k (l : list (string * A)) v : alookup k l = Some v -> In (k, v) l.
Proof.
  induction l as [|[k' v'] l IH]; cbn [alookup]; [discriminate|].
  destruct (String.eqb k k') eqn:E.
  - apply String.eqb_eq in E. subst k'. intros H. inversion H; subst. now left.
  - intros H. right. now apply IH.
Qed.

Lemma wf_collect_patchable g key t :
  wf_b (gr_arena g) (gr_keys g) = true -> collect_key g key = Ok t -> patchable t.
Proof.
  intros Hwf H. apply wf_b_spec in Hwf as (Hok & Hkeys & _). unfold collect_key in H.
  destruct (alookup key (gr_keys g)) as [root|] eqn:K; [|discriminate].
  apply (collect_patchable _ _ _ _ Hok H).
  destruct (proj1 (key_ok_spec _ _) (Hkeys _ (alookup_in_keys _ _ _ K))) as (n & Hn & Hk).
  now exists n, key.
Qed.

(* every tree Graph::squash returns on a well-formed library is in the class of the builder theorems *)
Theorem squash_patchable g key d t :
  wf_b (gr_arena g) (gr_keys g) = true -> squash g key d = Ok t -> patchable t.
Proof.
  intros Hwf H. pose proof (wf_b_collectable g Hwf) as C. rewrite (squash_is_expand g C) in H.
  unfold squash_spec in H. apply bind_ok in H as (doc & Hdoc & H). inversion H; subst t.
  apply expand_patchable.
  - intros k doc' L. unfold lk_graph in L. destruct (collect_key g k) as [x|] eqn:E; [|discriminate].
    inversion L; subst x. exact (proj2 (wf_collect_patchable g k doc' Hwf E)).
  - exact (wf_collect_patchable g key doc Hwf Hdoc).
Qed.

(* HEADLINE: `iwe squash` on a well-formed library prints the rendering of the squashed tree.
   [key'] is the key the CLI builds the patch under (the argument as given). *)
Theorem squash_cli_graph (o : opts) (tables : list string) g key key' root d :
  wf_b (gr_arena g) (gr_keys g) = true -> alookup key (gr_keys g) = Some root ->
  exists t st, squash g key d = Ok t /\ build_key_from_iter [] key' t = Ok st /\
    to_markdown o tables (cli_patch st key') key' = Ok (tree_to_markdown o tables (key_parent key') t) /\
    to_markdown (Opts "") [] (cli_patch st key') key' = squash_cli_text key' t.
Proof.
  intros Hwf K. pose proof (wf_b_collectable g Hwf) as C.
  destruct (squash_terminates g C key root d K) as (doc & _ & Hs).
  destruct (patchable_ok _ (squash_patchable g key d _ Hwf Hs)) as (Hb & Hd & Hn).
  destruct (squash_cli_roundtrip o tables key' _ Hb Hd Hn) as (st & H & E1 & E2).
  eexists. exists st. split; [exact Hs|]. split; [exact H|]. split; [exact E1 | exact E2].
Qed.
Print Assumptions squash_cli_graph.

(* formatting (server.rs:273-284): the note's collected tree is rebuilt in a patch graph and exported.
   In a patch graph that holds no titles the text is export_tree of the collected tree (Rename.v's
   model of the same path), for every key of a well-formed library and every arena of the patch *)
Theorem format_roundtrip (o : opts) (tables : list string) g key t (pa : arena) :
  wf_b (gr_arena g) (gr_keys g) = true -> collect_key g key = Ok t -> arena_ok pa = true ->
  exists st, build_key_from_iter pa key t = Ok st /\ arena_ok (b_arena st) = true /\
    forall p, gr_arena p = b_arena st -> alookup key (gr_keys p) = Some (length pa) -> gr_titles p = [] ->
      to_markdown o tables p key = Ok (export_tree o (alookup key (gr_meta p)) tables key t) /\
      to_markdown o tables p key = Ok (wrap_metadata (alookup key (gr_meta p)) (tree_to_markdown o tables (key_parent key) t)).
Proof.
  intros Hwf Hc Hpa. destruct (patchable_ok _ (wf_collect_patchable g key t Hwf Hc)) as (Hb & Hd & Hn).
  destruct (patch_export_is_export_tree o tables pa key t Hpa Hb Hd) as (st & H & E).
  destruct (collect_build pa key t Hpa Hb) as (st' & H' & Hok' & _). rewrite H in H'. inversion H'; subst st'.
  exists st. split; [exact H|]. split; [exact Hok'|]. intros p Ha Hk Ht.
  pose proof (E p Ha Hk Ht) as E1. split; [exact E1|]. rewrite E1. unfold export_tree. now rewrite Hn.
Qed.
Print Assumptions format_roundtrip.
