(* TreeOps.v — liwe::model::tree::Tree operations used by the code actions, transliterated
   (crates/liwe/src/model/tree.rs; line numbers of the pinned tree in comments).
   `map_children f` is `T i n (map f c)`.  No proofs here (TreeOpsFacts.v). *)
From IweV Require Import Str Ast Arena.
Local Open Scope string_scope.
Local Open Scope list_scope.

(* tree.rs:208 id_eq *)
Definition id_eq (t : tree) (id : nat) : bool :=
  match t_id t with Some i => Nat.eqb i id | None => false end.

(* tree.rs:24-43, 438-447 *)
Definition node_is_section (n : node) : bool := match n with NSection _ => true | _ => false end.
Definition node_is_list (n : node) : bool := match n with NBList | NOList => true | _ => false end.
Definition is_section (t : tree) : bool := node_is_section (t_node t).
Definition is_list (t : tree) : bool := node_is_list (t_node t).
Definition is_quote (t : tree) : bool := match t_node t with NQuote => true | _ => false end.
Definition is_reference (t : tree) : bool := match t_node t with NRef _ _ _ => true | _ => false end.
Definition is_bullet_list (t : tree) : bool := match t_node t with NBList => true | _ => false end.

(* node.rs:25 Node::plain_text *)
Definition node_plain_text (n : node) : string :=
  match n with
  | NSection l => inlines_plain_text l
  | NLeaf l => inlines_plain_text l
  | NRef _ text _ => text
  | NRaw _ content => content
  | _ => ""
  end.

(* node.rs:35 Node::reference_key *)
Definition node_reference_key (n : node) : option string :=
  match n with NRef k _ _ => Some k | _ => None end.

Definition find_map {A B} (f : A -> option B) : list A -> option B :=
  fix go (l : list A) : option B :=
    match l with
    | [] => None
    | x :: r => match f x with Some y => Some y | None => go r end
    end.

Fixpoint insert_at {A} (n : nat) (x : A) (l : list A) : list A :=
  match n, l with
  | O, _ => x :: l
  | S k, y :: r => y :: insert_at k x r
  | S _, [] => [x]            (* unreachable: every caller inserts at a position <= length *)
  end.

Fixpoint take_while {A} (p : A -> bool) (l : list A) : list A :=
  match l with
  | [] => []
  | x :: r => if p x then x :: take_while p r else []
  end.

(* tree.rs:305 contains *)
Fixpoint contains (t : tree) (id : nat) {struct t} : bool :=
  match t with T i _ c => id_eq t id || existsb (fun ch => contains ch id) c end.

(* tree.rs:309 parent_of *)
Definition parent_of (t : tree) (id : nat) : bool := existsb (fun ch => id_eq ch id) (t_children t).

(* tree.rs:408 find *)
Fixpoint tfind (id : nat) (t : tree) {struct t} : option tree :=
  match t with T _ _ c => if id_eq t id then Some t else find_map (fun ch => tfind id ch) c end.

(* tree.rs:416 get = find(id).unwrap() *)
Definition tget (t : tree) (id : nat) : res tree :=
  match tfind id t with Some x => Ok x | None => Panic "Tree::get: called `Option::unwrap()` on a `None` value" end.

(* tree.rs:420 reference_key (unwrap_or_default) *)
Definition reference_key (t : tree) (id : nat) : string :=
  match tfind id t with
  | Some x => match node_reference_key (t_node x) with Some k => k | None => "" end
  | None => ""
  end.

(* tree.rs:45 extract_sections; the HashMap is an association list (ids are distinct) *)
Fixpoint alookup_nat {A} (k : nat) (l : list (nat * A)) : option A :=
  match l with
  | [] => None
  | (k', v) :: r => if Nat.eqb k k' then Some v else alookup_nat k r
  end.

Fixpoint extract_sections (keys : list (nat * (string * string))) (t : tree) {struct t} : tree :=
  match t with
  | T i n c =>
      match (match i with Some id => alookup_nat id keys | None => None end) with
      | Some (key, text) => T None (NRef key text Regular) []
      | None => T i n (map (fun ch => extract_sections keys ch) c)
      end
  end.

(* tree.rs:63 replace *)
Fixpoint replace (id : nat) (new : tree) (t : tree) {struct t} : tree :=
  match t with T i n c => if id_eq t id then new else T i n (map (fun ch => replace id new ch) c) end.

(* tree.rs:71 change_list_type *)
Definition flip_list (n : node) : node :=
  match n with NBList => NOList | NOList => NBList | _ => n end.
Fixpoint change_list_type (id : nat) (t : tree) {struct t} : tree :=
  match t with
  | T i n c => if id_eq t id then T i (flip_list n) c else T i n (map (fun ch => change_list_type id ch) c)
  end.

(* tree.rs:128 update_node *)
Fixpoint update_node (id : nat) (inl : list inline) (t : tree) {struct t} : tree :=
  match t with
  | T i n c =>
      if id_eq t id then
        T i (match n with NSection _ => NSection inl | NLeaf _ => NLeaf inl | _ => n end) c
      else T i n (map (fun ch => update_node id inl ch) c)
  end.

(* tree.rs:146 pre_sub_header_position, :153 position *)
Definition pre_sub_header_position (t : tree) : nat :=
  length (take_while (fun ch => negb (is_section ch)) (t_children t)).
Definition position (t : tree) (id : nat) : nat :=
  length (take_while (fun ch => negb (id_eq ch id)) (t_children t)).

(* tree.rs:160 remove_node: children with that id are dropped at every level (not the root) *)
Fixpoint remove_node (id : nat) (t : tree) {struct t} : tree :=
  match t with
  | T i n c =>
      T i n ((fix go (l : list tree) : list tree :=
                match l with
                | [] => []
                | ch :: r => if id_eq ch id then go r else remove_node id ch :: go r
                end) c)
  end.

(* tree.rs:174 append_pre_header (as repaired by 637566e): the children are processed first,
   then [new] is inserted, as it is, among the children of every node with the target id. *)
Fixpoint append_pre_header (target : nat) (new : tree) (t : tree) {struct t} : tree :=
  match t with
  | T i n c =>
      let c' := map (fun ch => append_pre_header target new ch) c in
      T i n (if id_eq t target then insert_at (pre_sub_header_position t) new c' else c')
  end.

(* As found before 637566e the function inserted [new] first and then mapped itself over the
   extended children list, the inserted copy included: when [new] holds the target id again (a
   note inlined into itself) every copy receives a further copy and the recursion never ends
   (stack overflow, the process aborts).  The literal function needs fuel; no fuel suffices on
   such an input (TreeOpsFacts.append_pre_header_as_found_diverges). *)
Fixpoint append_pre_header_as_found (fuel : nat) (target : nat) (new : tree) (t : tree) {struct fuel} : res tree :=
  match fuel with
  | O => Panic "stack overflow: append_pre_header recursion does not end"
  | S f =>
      match t with
      | T i n c =>
          let c' := if id_eq t target then insert_at (pre_sub_header_position t) new c else c in
          do kids <- fold_right (fun ch acc => do r <- acc; do x <- append_pre_header_as_found f target new ch; Ok (x :: r)) (Ok []) c';
          Ok (T i n kids)
      end
  end.

(* tree.rs:238 wrap_into_list *)
Fixpoint wrap_into_list (id : nat) (t : tree) {struct t} : tree :=
  match t with
  | T i n c => if id_eq t id then T i NBList [t] else T i n (map (fun ch => wrap_into_list id ch) c)
  end.

(* tree.rs:250 unwrap_list *)
Fixpoint unwrap_list (id : nat) (t : tree) {struct t} : tree :=
  match t with
  | T i n c =>
      if existsb (fun ch => id_eq ch id) c then
        T i n (flat_map (fun ch => if id_eq ch id then t_children ch else [unwrap_list id ch]) c)
      else T i n (map (fun ch => unwrap_list id ch) c)
  end.

(* tree.rs:313 get_top_level_surrounding_list_id *)
Fixpoint get_top_level_surrounding_list_id (id : nat) (t : tree) {struct t} : option nat :=
  match t with
  | T i n c =>
      if contains t id && node_is_list n then i
      else (fix go (l : list tree) : option nat :=
              match l with
              | [] => None
              | ch :: r => if contains ch id then get_top_level_surrounding_list_id id ch else go r
              end) c
  end.

(* tree.rs:335 get_surrounding_list_id *)
Fixpoint get_surrounding_list_id (id : nat) (t : tree) {struct t} : option nat :=
  match t with
  | T i n c =>
      if node_is_list n && existsb (fun ch => id_eq ch id) c then i
      else (fix go (l : list tree) : option nat :=
              match l with
              | [] => None
              | ch :: r => if contains ch id then get_surrounding_list_id id ch else go r
              end) c
  end.

(* tree.rs:346 get_surrounding_section_id *)
Fixpoint get_surrounding_section_id (id : nat) (t : tree) {struct t} : option nat :=
  match t with
  | T i n c =>
      if node_is_section n && existsb (fun ch => id_eq ch id) c then i
      else (fix go (l : list tree) : option nat :=
              match l with
              | [] => None
              | ch :: r => if contains ch id then get_surrounding_section_id id ch else go r
              end) c
  end.

(* tree.rs:426 is_header: a section with that id that is not below a list *)
Fixpoint tree_is_header (id : nat) (t : tree) {struct t} : bool :=
  match t with
  | T i n c =>
      if node_is_section n && id_eq t id then true
      else if node_is_list n then false
      else existsb (fun ch => tree_is_header id ch) c
  end.
