(* ServerFacts.v — C12 / C03 at the level of the handlers (Server.v):
     S1   navigation used by the handlers is total on live nodes of a well-formed arena (node_key,
          key_of, owner, get_all_sub_nodes), Graph::search_paths returns at every state of
          Reachable.Inv, URLs are total for an absolute library directory;
     S1b  the line maps: every entry the builder puts into nodes_map is a slot it has just allocated
          (builder_map, by induction on the fuel of the five mutually recursive functions), every id
          in the map of a key is a node of the tree of that key after import and after every update
          (maps_own), `collect` reaches every node of the walk (collect_complete): the node under
          any line of an existing note is in the tree the code actions collect (line_target_ok_holds);
     S2   the server invariant [SInv] (Reachable.Inv + line maps + cached search paths) holds after
          Server::new on notes with distinct keys and after every notification (the server keeps
          serving: no notification panics);
     S3   C12_panic_sound / C12_handler_panic_domain: at every state of the invariant a handler
          panics only on a request of the decidable class [may_panic]; C12_handlers_total: requests
          about existing notes are answered; S3b: the classes are real (general theorems where the
          panic is forced, concrete witnesses otherwise);
     S4   the router of Router.v instantiated with [handle]: exactly once, with a RESULT for
          requests about existing notes, InternalError only for the class;
     S6   exact domains for the key methods; server states are Reachable.reached states. *)
From Coq Require Import Lia List Bool Arith ZArith Permutation.
From IweV Require Import Str Text Ast RelPath Arena ArenaWF ArenaFacts ForestFacts Project Library LibraryFacts
  HistoryWF HistoryClosed Index IndexFacts IndexHistory Paths PathsFacts Squash SquashFacts Reachable
  BuilderFacts BuilderWF TreeOps Actions TreeOpsFacts ActionsTotal ActionsGraph Router RouterFacts Server.
From IweV Require Rename RenameFacts Url UrlFacts.
From IweV Require Pos PosFacts.
Import ListNotations.
Local Open Scope string_scope.
Local Open Scope list_scope.

(* ================================================================================================ *)
(* S1 — helpers                                                                                      *)
(* ================================================================================================ *)

Lemma bind_inv {A B} (r : res A) (k : A -> res B) y :
  bind r k = Ok y -> exists x, r = Ok x /\ k x = Ok y.
Proof. destruct r as [x|s]; cbn; [eauto | discriminate]. Qed.

Lemma mapm_ok {A B} (f : A -> res B) l :
  (forall x, In x l -> exists y, f x = Ok y) -> exists ys, mapm f l = Ok ys.
Proof.
  induction l as [|x l IH]; intros H; [eexists; reflexivity|]. cbn [mapm].
  destruct (H x (or_introl eq_refl)) as (y & ->). cbn [bind].
  destruct IH as (ys & ->); [intros z Hz; apply H; now right|]. cbn [bind]. eauto.
Qed.

Lemma mapm_panic {A B} (f : A -> res B) l x s :
  In x l -> f x = Panic s -> exists s', mapm f l = Panic s'.
Proof.
  induction l as [|y l IH]; intros Hin Hf; [destruct Hin|]. cbn [mapm].
  destruct Hin as [->|Hin].
  - rewrite Hf. cbn. eauto.
  - destruct (f y); cbn [bind]; [|eauto]. destruct (IH Hin Hf) as (s' & ->). cbn. eauto.
Qed.

Lemma rmap_ok {A B} (f : A -> B) r : (exists x, r = Ok x) -> exists y, rmap f r = Ok y.
Proof. intros (x & ->). cbn. eauto. Qed.

(* ---------- URLs ----------------------------------------------------------------------------------- *)

Lemma starts_sep_app a b : starts_with SEPS a = true -> starts_with SEPS (a +++ b) = true.
Proof. destruct a as [|c a]; cbn; [discriminate|]. destruct (Ascii.eqb "/" c); auto. Qed.

Lemma key_url_ok base key : base_ok base = true -> exists u, key_url base key = Ok u.
Proof.
  intros H. unfold key_url, Url.file_uri.
  replace (base +++ SEPS +++ to_path key) with ((base +++ SEPS) +++ to_path key)
    by (now rewrite sapp_assoc).
  rewrite (starts_sep_app _ _ H). destruct (Url.path_components _); eauto.
Qed.

Lemma key_url_panics base key : base_ok base = false -> key_url base key = Panic "key_to_url: to work".
Proof.
  intros H. unfold key_url, Url.file_uri.
  replace (base +++ SEPS +++ to_path key) with ((base +++ SEPS) +++ to_path key)
    by (now rewrite sapp_assoc).
  unfold base_ok in H. destruct base as [|c b]; [discriminate|].
  cbn in H |- *. destruct (Ascii.eqb "/" c); [discriminate | reflexivity].
Qed.


(* ---------- `Url::parse("file://<base>/")` finds the scheme, `join` never fails for a file base --------- *)
Lemma sfilter_app f a b : Url.sfilter f (a +++ b) = Url.sfilter f a +++ Url.sfilter f b.
Proof. induction a as [|c a IH]; cbn; [reflexivity|]. destruct (f c); cbn; now rewrite IH. Qed.

Lemma url_input_prefix base :
  exists rest, Url.url_input (Url.server_prefix base) = "file:" +++ rest.
Proof.
  unfold Url.url_input, Url.server_prefix.
  change (Url.drop_while Url.c0_or_space ("file://" +++ base +++ SEPS)) with ("file://" +++ base +++ SEPS).
  replace ("file://" +++ base +++ SEPS) with (("file://" +++ base) +++ SEPS) by (now rewrite sapp_assoc).
  rewrite srev_append.
  change (Url.drop_while Url.c0_or_space (srev SEPS +++ srev ("file://" +++ base)))
    with (srev SEPS +++ srev ("file://" +++ base)).
  rewrite <- srev_append, srev_involutive, sapp_assoc.
  change ("file://" +++ base +++ SEPS) with ("file:" +++ ("//" +++ base +++ SEPS)).
  rewrite sfilter_app. eexists. reflexivity.
Qed.

Lemma finish_ok pr : exists u, Url.finish pr = Url.POk u.
Proof. unfold Url.finish. destruct pr as [p rest]. destruct (Url.query_and_fragment rest). eauto. Qed.

Lemma parse_file_not_err inp b : Url.parse_file inp b <> Url.PErr.
Proof.
  unfold Url.parse_file.
  assert (F : forall pr, Url.finish pr <> Url.PErr) by (intros pr; destruct (finish_ok pr) as (u & ->); discriminate).
  destruct inp as [|c1 r1].
  - destruct b as [[bp bq bf]|]; [discriminate | apply F].
  - destruct (Url.is_slash c1).
    + destruct r1 as [|c2 r2]; [apply F|]. destruct (Url.is_slash c2).
      * unfold Url.file_host_state. destruct r2 as [|c3 r3]; [apply F|]. destruct (Url.is_any _ c3); [apply F | discriminate].
      * destruct b as [[bp bq bf]|]; [|apply F]. destruct (Url.drive_letter_segment _); [apply F|].
        destruct (split_on SEP bp) as [|x [|first l]]; try apply F. destruct (Url.norm_drive_letter first); [discriminate | apply F].
    + destruct b as [[bp bq bf]|]; [|apply F].
      destruct (Ascii.eqb c1 "?"); [destruct (Url.query_and_fragment _); discriminate|].
      destruct (Ascii.eqb c1 "#"); [discriminate|]. destruct (Url.drive_letter_segment _); apply F.
Qed.

Lemma url_parse_prefix base : Url.url_parse (Url.server_prefix base) <> Url.PErr.
Proof.
  unfold Url.url_parse. destruct (url_input_prefix base) as (rest & ->).
  cbn. apply parse_file_not_err.
Qed.

Lemma url_join_not_err b s : Url.url_join b s <> Url.PErr.
Proof.
  unfold Url.url_join. destruct (Url.parse_scheme _) as [[sch rest]|]; [|apply parse_file_not_err].
  destruct (String.eqb sch "file"); [apply parse_file_not_err | discriminate].
Qed.

Lemma full_path_ok base url : exists r, Url.relative_to_full_path_as_found (Url.server_prefix base) url = Ok r.
Proof.
  unfold Url.relative_to_full_path_as_found, Url.key_to_url_as_found.
  destruct (Url.url_parse (Url.server_prefix base)) as [b| |] eqn:E; [| now apply url_parse_prefix in E | eauto].
  unfold Url.join_result. destruct (Url.url_join b _) as [u| |] eqn:J; [eauto | now apply url_join_not_err in J | eauto].
Qed.

(* ---------- navigation on live nodes of a well-formed arena ------------------------------------------ *)

Section NavTotal.
  Variable a : arena.
  Hypothesis Hok : arena_ok a = true.

  Lemma idx_to_document_live : forall fuel id, lv a id -> id < fuel ->
    exists d n k, Index.to_document fuel a id = Ok (Some d) /\ get a d = Some n /\ g_kind n = KDocument k.
  Proof.
    induction fuel as [|f IH]; intros id (n & Hn & He) Hf; [lia|].
    cbn [Index.to_document]. rewrite Hn.
    destruct (is_dock (g_kind n)) eqn:Hd.
    - destruct (g_kind n) eqn:K; try discriminate. exists id, n, key. auto.
    - destruct (live_prev a Hok id n Hn He Hd) as (p & pn & Hp & _ & Hlt & Hg & Hpe).
      rewrite Hp. destruct (IH p (ex_intro _ pn (conj Hg Hpe)) ltac:(lia)) as (d & dn & k & E & G & K).
      exists d, dn, k. split; [|auto]. destruct (g_kind n); try discriminate; exact E.
  Qed.

  (* NodePointer::node_key: the `unwrap` does not fire on a live node *)
  Lemma node_key_live id : lv a id -> exists k, node_key a id = Ok k.
  Proof.
    intros H. pose proof H as (n0 & Hn0 & _). apply ArenaFacts.get_lt in Hn0.
    destruct (idx_to_document_live (S (length a)) id H ltac:(lia)) as (d & dn & k & E & G & K).
    unfold node_key. rewrite E. cbn [bind]. rewrite G. destruct dn as [kk pp nn cc]. cbn in K. subst kk. eauto.
  Qed.

  Lemma key_of_fuel_live : forall fuel id, lv a id -> id < fuel -> exists k, key_of_fuel fuel a id = Ok k.
  Proof.
    induction fuel as [|f IH]; intros id (n & Hn & He) Hf; [lia|].
    cbn [key_of_fuel]. rewrite Hn. destruct (is_dock (g_kind n)) eqn:Hd.
    - destruct (g_kind n); try discriminate. eauto.
    - destruct (live_prev a Hok id n Hn He Hd) as (p & pn & _ & Hgp & Hlt & Hg & Hpe).
      rewrite Hgp. destruct (IH p (ex_intro _ pn (conj Hg Hpe)) ltac:(lia)) as (k & Hk).
      exists k. destruct (g_kind n); try discriminate; exact Hk.
  Qed.

  Lemma owner_fuel_live : forall fuel id, lv a id -> id < fuel -> exists k, Rename.owner_fuel fuel a id = Ok k.
  Proof.
    induction fuel as [|f IH]; intros id (n & Hn & He) Hf; [lia|].
    cbn [Rename.owner_fuel]. rewrite Hn. destruct (is_dock (g_kind n)) eqn:Hd.
    - destruct (g_kind n); try discriminate. eauto.
    - destruct (live_prev a Hok id n Hn He Hd) as (p & pn & _ & Hgp & Hlt & Hg & Hpe).
      rewrite Hgp. destruct (IH p (ex_intro _ pn (conj Hg Hpe)) ltac:(lia)) as (k & Hk).
      exists k. destruct (g_kind n); try discriminate; exact Hk.
  Qed.

  Lemma child_of_child n c : child_of n = Some c -> g_child n = Some c.
  Proof. unfold child_of. destruct (g_kind n); intros H; try discriminate; exact H. Qed.

  (* NodePointer::get_all_sub_nodes below a live node: returns, live nodes only *)
  Lemma all_sub_nodes_total : forall fuel id, lv a id -> length a - id <= fuel ->
    exists ids, all_sub_nodes fuel a id = Ok ids /\ forall i, In i ids -> lv a i.
  Proof.
    induction fuel as [|f IH]; intros id (n & Hn & He) Hf.
    - apply ArenaFacts.get_lt in Hn. lia.
    - cbn [all_sub_nodes]. unfold node_at. rewrite Hn. cbn [bind].
      assert (Hc : exists cs, (match child_of n with Some c => all_sub_nodes f a c | None => Ok [] end) = Ok cs /\
                              forall i, In i cs -> lv a i).
      { destruct (child_of n) as [c|] eqn:Hc; [|exists []; split; [reflexivity | intros i []]].
        apply child_of_child in Hc.
        destruct (link_down a Hok id n c Hn He (or_introl Hc)) as (Hlt & cn & Hg & Hce & _).
        apply (IH c (ex_intro _ cn (conj Hg Hce))). lia. }
      destruct Hc as (cs & -> & Lc). cbn [bind].
      assert (Hx : exists xs, (match g_kind n with
                               | KEmpty => Panic "next_id of Empty"
                               | KDocument _ => Ok []
                               | _ => match g_next n with Some x => all_sub_nodes f a x | None => Ok [] end
                               end) = Ok xs /\ forall i, In i xs -> lv a i).
      { assert (Hn' : exists xs, (match g_next n with Some x => all_sub_nodes f a x | None => Ok [] end) = Ok xs /\
                                 forall i, In i xs -> lv a i).
        { destruct (g_next n) as [x|] eqn:Hx; [|exists []; split; [reflexivity | intros i []]].
          destruct (link_down a Hok id n x Hn He (or_intror Hx)) as (Hlt & cn & Hg & Hce & _).
          apply (IH x (ex_intro _ cn (conj Hg Hce))). lia. }
        destruct (g_kind n); try discriminate; try exact Hn'.
        exists []. split; [reflexivity | intros i []]. }
      destruct Hx as (xs & -> & Lx). cbn [bind]. eexists. split; [reflexivity|].
      intros i [<-|Hi]; [now exists n|]. apply in_app_iff in Hi as [Hi|Hi]; auto.
  Qed.
End NavTotal.

Lemma filter_live_ok a ids : (forall i, In i ids -> i < length a) ->
  exists l, filter_live a ids = Ok l /\ forall x, In x l -> In x ids.
Proof.
  induction ids as [|i r IH]; intros H; [exists []; split; [reflexivity | intros x []]|].
  destruct IH as (l & E & L); [intros j Hj; apply H; now right|].
  unfold filter_live in *. cbn [fold_right]. rewrite E. cbn [bind].
  destruct (IndexFacts.get_lt a i (H i (or_introl eq_refl))) as (n & Hn).
  unfold Index.live. rewrite Hn. cbn [bind]. eexists. split; [reflexivity|].
  intros x Hx. destruct (negb (is_emptyk (g_kind n))); [destruct Hx as [<-|Hx]; [now left | right; auto] | right; auto].
Qed.

Lemma kind_at_lv a id : lv a id -> exists k, Paths.kind_at a id = Ok k /\ is_emptyk k = false.
Proof. intros (n & Hn & He). unfold Paths.kind_at. rewrite Hn. eauto. Qed.

(* ---------- Graph::search_paths (graph.rs:75-97) returns at every state of the invariant ------------- *)

Lemma texts_of_ok a ids : (forall i, In i ids -> i < length a) -> exists ts, texts_of a ids = Ok ts.
Proof.
  induction ids as [|i r IH]; intros H; [eexists; reflexivity|].
  destruct IH as (ts & E); [intros j Hj; apply H; now right|].
  unfold texts_of in *. cbn [fold_right]. rewrite E. cbn [bind].
  destruct (kind_at_ok a i (H i (or_introl eq_refl))) as (n & _ & K). unfold get_text. rewrite K. cbn [bind]. eauto.
Qed.

Lemma last_id_ok p : p <> [] -> exists x, last_id p = Ok x /\ In x p.
Proof.
  induction p as [|y r IH]; intros H; [congruence|]. destruct r as [|z r'].
  - exists y. split; [reflexivity | now left].
  - destruct IH as (x & E & Hx); [discriminate|]. exists x. split; [exact E | now right].
Qed.

Lemma node_rank_ok s id : Inv s -> lv (arena_of s) id -> exists r, node_rank s id = Ok r.
Proof.
  intros HI L. pose proof (Inv_arena_ok s HI) as Hok. destruct HI as (_ & _ & HX).
  unfold arena_of in *. set (a := gr_arena (gs_graph s)) in *.
  destruct L as (n & Hn & He). unfold node_rank. fold a. unfold is_primary_section. rewrite Hn.
  destruct (is_sectionk (g_kind n)) eqn:Hs; [|cbn [bind]; eauto].
  assert (Hd : is_dock (g_kind n) = false) by (destruct (g_kind n); try discriminate; reflexivity).
  destruct (live_prev a Hok id n Hn He Hd) as (p & pn & Hp & _ & Hlt & Hg & Hpe).
  rewrite Hp. unfold Paths.kind_at at 1. rewrite Hg. cbn [bind].
  destruct (is_documentk (g_kind pn)); [|eauto].
  pose proof (ArenaFacts.get_lt _ _ _ Hn) as Hlen.
  destruct (idx_to_document_live a Hok (nav_fuel a) id (ex_intro _ n (conj Hn He)) ltac:(unfold nav_fuel; lia))
    as (d & dn & k & E & G & K).
  rewrite E. cbn [bind]. unfold Paths.kind_at. rewrite G. cbn [bind]. rewrite K.
  destruct (getters_exact s HX k) as [-> ->]. cbn [bind]. eauto.
Qed.

Lemma sp_entries_ok s qs : Inv s ->
  (forall p, In p qs -> p <> [] /\ Forall (lv (arena_of s)) p) ->
  exists l0, sp_entries s qs = Ok l0 /\ forall x, In x l0 -> In (sp_ids (fst x)) qs.
Proof.
  intros HI. pose proof (Inv_arena_ok s HI) as Hok. unfold arena_of in *. unfold sp_entries.
  set (a := gr_arena (gs_graph s)) in *. cbv zeta.
  induction qs as [|p r IH]; intros HP'.
  - exists []. split; [reflexivity | intros x []].
  - destruct IH as (l0 & E & L); [intros q Hq; apply HP'; now right|].
    cbn [fold_right]. rewrite E. cbn [bind].
    destruct (HP' p (or_introl eq_refl)) as [Hne Hlv]. rewrite Forall_forall in Hlv.
    destruct (texts_of_ok a p) as (ts & Ets).
    { intros i Hi. destruct (Hlv i Hi) as (n & Hn & _). eapply ArenaFacts.get_lt; eauto. }
    rewrite Ets. cbn [bind].
    destruct (last_id_ok p Hne) as (t & -> & Ht). cbn [bind].
    destruct (node_rank_ok s t HI (Hlv t Ht)) as (rk & ->). cbn [bind].
    pose proof (Hlv t Ht) as Lt. pose proof Lt as (tn & Htn & _). apply ArenaFacts.get_lt in Htn.
    destruct (graph_node_key_ok a Hok (nav_fuel a) t Lt ltac:(unfold nav_fuel; lia)) as (k & ->). cbn [bind].
    eexists. split; [reflexivity|]. intros x [<-|Hx]; [now left | right; auto].
Qed.

Lemma search_paths_of_ok s ps : Inv s ->
  (forall p, In p ps -> p <> [] /\ Forall (lv (arena_of s)) p) ->
  exists l, search_paths_of s ps = Ok l /\ forall x, In x l -> In (sp_ids x) ps.
Proof.
  intros HI HP. destruct (sp_entries_ok s ps HI HP) as (l0 & E & L).
  unfold search_paths_of. rewrite E. cbn [bind]. eexists. split; [reflexivity|].
  intros x Hx. apply in_map_iff in Hx as (e & <- & He). apply L.
  eapply Permutation_in; [apply Permutation_sym, stable_sort_perm | exact He].
Qed.

Lemma heading_lv s x : PathsFacts.heading s x -> lv (arena_of s) x.
Proof.
  intros H. assert (S : PathsFacts.sec s x) by (destruct H; assumption).
  destruct S as (l & Hk). unfold Paths.kind_at in Hk. unfold arena_of.
  destruct (get (gr_arena (gs_graph s)) x) as [n|] eqn:Hn; [|discriminate].
  injection Hk as Hk. exists n. split; [exact Hn | now rewrite Hk].
Qed.

Theorem search_paths_total s : Inv s ->
  exists ps, search_paths true s = Ok ps /\
    forall x, In x ps -> sp_ids x <> [] /\ Forall (lv (arena_of s)) (sp_ids x).
Proof.
  intros HI. destruct (Inv_C18 s HI) as (_ & _ & _ & _ & G). destruct (G true) as (ps & Hps & Hs & _).
  unfold search_paths. rewrite Hps. cbn [bind].
  assert (HP : forall p, In p ps -> p <> [] /\ Forall (lv (arena_of s)) p).
  { intros p Hp. destruct (Hs p Hp) as (_ & Hh & first & rest & _ & _ & _ & -> & _). split; [discriminate|].
    eapply Forall_impl; [|exact Hh]. intros x. apply heading_lv. }
  destruct (search_paths_of_ok s ps HI HP) as (l & -> & L). exists l. split; [reflexivity|].
  intros x Hx. apply HP. now apply L.
Qed.

(* ================================================================================================ *)
(* S1b — the line map: every id `get_node_id_at` can return is a node of the note's tree             *)
(* ================================================================================================ *)

Lemma refresh_title_maps g k : gr_maps (refresh_title g k) = gr_maps g.
Proof.
  unfold refresh_title. destruct (alookup k (gr_keys g)); [|reflexivity].
  destruct (extract_ref_text (gr_arena g) n); reflexivity.
Qed.

Lemma refresh_all_maps (l : list (string * nat)) : forall g,
  gr_maps (fold_left (fun g kv => refresh_title g (fst kv)) l g) = gr_maps g.
Proof.
  induction l as [|kv l IH]; intros g; cbn [fold_left]; [reflexivity|]. now rewrite IH, refresh_title_maps.
Qed.

(* the id the line map of [key] hands to the code actions is a node of a live note *)
Definition line_target_ok (g : graph) (key : string) (line : nat) : bool :=
  match get_node_id_at g key line with
  | Ok (Some target) =>
      match key_of g target with
      | Ok k => match collect_key g k with Ok t => contains t target | Panic _ => false end
      | Panic _ => false
      end
  | _ => true
  end.

(* the entries the builder adds to nodes_map name nodes it has just allocated *)
Definition MapR (st st' : bst) : Prop :=
  length (b_arena st) <= length (b_arena st') /\
  forall e, In e (b_map st') -> In e (b_map st) \/ length (b_arena st) <= fst e < length (b_arena st').

Lemma MapR_refl st : MapR st st.
Proof. split; [lia | auto]. Qed.

Lemma MapR_trans s1 s2 s3 : MapR s1 s2 -> MapR s2 s3 -> MapR s1 s3.
Proof.
  intros [L1 M1] [L2 M2]. split; [lia|]. intros e He. destruct (M2 e He) as [H|H]; [|right; lia].
  destruct (M1 e H) as [H'|H']; [now left | right; lia].
Qed.

Lemma MapR_same s1 s1' s2 s2' :
  b_arena s1' = b_arena s1 -> b_map s1' = b_map s1 -> b_arena s2' = b_arena s2 -> b_map s2' = b_map s2 ->
  MapR s1 s2 -> MapR s1' s2'.
Proof. unfold MapR. intros -> -> -> ->. auto. Qed.

Lemma add_node_shape st k st' : add_node st k = Ok st' ->
  length (b_arena st') = S (length (b_arena st)) /\ b_cur st' = length (b_arena st) /\ b_map st' = b_map st.
Proof.
  unfold add_node. intros H. apply bind_inv in H as (a' & H1 & H). injection H as <-. cbn [b_arena b_cur b_map].
  destruct (HistoryWF.link_shape _ _ _ _ _ H1) as (x & ->).
  rewrite app_length, set_nth_length. cbn [length]. repeat split; lia.
Qed.

Definition mapr_ok (F : bst -> res bst) : Prop := forall st st', F st = Ok st' -> MapR st st'.

Lemma add_node_MapR k : mapr_ok (fun st => add_node st k).
Proof.
  intros st st' H. destruct (add_node_shape _ _ _ H) as (L & _ & M). split; [lia|]. rewrite M. auto.
Qed.

Lemma add_then_lines_MapR k lr : mapr_ok (fun st => do st1 <- add_node st k; Ok (set_lines_range st1 lr)).
Proof.
  intros st st' H. apply bind_inv in H as (st1 & H1 & H). injection H as <-.
  destruct (add_node_shape _ _ _ H1) as (L & C & M). unfold MapR, set_lines_range. cbn [b_arena b_map]. split; [lia|].
  intros e He. apply in_app_iff in He as [He|[<-|[]]]; [left; now rewrite <- M | right; cbn [fst]; lia].
Qed.

Lemma fold_MapR {X} (step : bst -> X -> res bst) l :
  (forall x, In x l -> mapr_ok (fun s => step s x)) ->
  mapr_ok (fun st => fold_left (fun acc x => do s <- acc; step s x) l (Ok st)).
Proof.
  intros Hs st st' H.
  apply (fold_bind_inv step MapR) with (l := l); auto using MapR_refl.
  - intros a b c; apply MapR_trans.
  - intros x s s' Hx E. eapply Hs; eauto.
Qed.

Section BuilderMap.
  Variable dir : string.

  Lemma builder_map : forall f,
    (forall b, mapr_ok (block dir f b)) /\
    (forall b, mapr_ok (section_block dir f b)) /\
    (forall it, mapr_ok (process_section dir f it)) /\
    (forall L bs, mapr_ok (process_sections dir f L bs)) /\
    (forall bs, mapr_ok (process_blocks dir f bs)).
  Proof.
    induction f as [|f (IHb & IHsb & IHs & IHss & IHbs)].
    - split; [|split; [|split; [|split]]]; unfold mapr_ok; intros; discriminate.
    - assert (Items : forall its, mapr_ok (fun st => fold_left (fun acc it => do s <- acc; process_section dir f it s) its (Ok st))).
      { intros its. apply fold_MapR. intros it _. apply IHs. }
      assert (Lst : forall k its, mapr_ok (fun st =>
                 do st <- add_node st k;
                 let st := set_insert st true in
                 let id := b_cur st in
                 do st <- fold_left (fun acc it => do s <- acc; process_section dir f it s) its (Ok st);
                 Ok (set_insert (set_id st id) false))).
      { intros k its st st' H. apply bind_inv in H as (st1 & H1 & H). cbv zeta in H.
        apply bind_inv in H as (st2 & H2 & H). injection H as <-.
        apply add_node_MapR in H1. apply Items in H2.
        eapply MapR_trans; [exact H1|]. eapply MapR_same; [| | | |exact H2]; reflexivity. }
      split; [|split; [|split; [|split]]].
      + (* block *)
        intros b st st' H. rewrite block_S in H.
        destruct b as [lr l|lr lang text|lr bs|its|its|lr lv l|lr|lr h al rows]; try discriminate.
        * destruct (para_is_ref l).
          -- destruct l as [|i r]; try discriminate. destruct i; try discriminate. destruct r; try discriminate.
             eapply add_then_lines_MapR; eauto.
          -- eapply add_then_lines_MapR; eauto.
        * eapply add_then_lines_MapR; eauto.
        * apply bind_inv in H as (st1 & H1 & H). cbv zeta in H. apply bind_inv in H as (inner & H2 & H).
          injection H as <-.
          assert (R1 : MapR st (set_lines_range st1 lr)).
          { apply (add_then_lines_MapR KQuote lr). rewrite H1. reflexivity. }
          apply IHbs in H2. destruct H2 as [L2 M2]. cbn [b_arena b_map set_lines_range] in L2, M2.
          destruct R1 as [L1 M1]. cbn [b_arena set_lines_range b_map] in L1, M1.
          split; cbn [b_arena b_map set_lines_range]; [lia|].
          (* the line map of the nested builder is kept (32e2d7f): its entries are slots of the quote *)
          intros e He. apply in_app_iff in He as [He|He].
          -- destruct (M1 e He) as [X|X]; [now left | right; lia].
          -- destruct (M2 e He) as [[]|X]. right. lia.
        * eapply Lst; eauto.
        * eapply Lst; eauto.
        * eapply add_then_lines_MapR; eauto.
        * eapply add_then_lines_MapR; eauto.
      + (* section_block *)
        intros b st st' H. rewrite section_block_S in H.
        destruct b as [lr l|lr lang text|lr bs|its|its|lr lv l|lr|lr h al rows]; try discriminate.
        * eapply add_then_lines_MapR; eauto.
        * eapply Items; eauto.
        * eapply Items; eauto.
        * eapply add_then_lines_MapR; eauto.
      + (* process_section *)
        intros it st st' H. rewrite process_section_S in H. destruct it as [|h body].
        * injection H as <-. apply MapR_refl.
        * destruct (starts_with_header (h :: body)).
          -- apply bind_inv in H as (st1 & H1 & H). cbv zeta in H. apply bind_inv in H as (st2 & H2 & H).
             injection H as <-. apply IHsb in H1. apply IHbs in H2.
             eapply MapR_trans; [exact H1|]. eapply MapR_same; [| | | |exact H2]; reflexivity.
          -- apply bind_inv in H as (st1 & H1 & H). cbv zeta in H. apply bind_inv in H as (st2 & H2 & H).
             injection H as <-. apply add_node_MapR in H1. apply IHbs in H2.
             eapply MapR_trans; [exact H1|]. eapply MapR_same; [| | | |exact H2]; reflexivity.
      + (* process_sections *)
        intros L bs st st' H. rewrite process_sections_S in H. destruct bs as [|h r].
        * injection H as <-. apply MapR_refl.
        * destruct (span_section L r) as [body rest]. apply bind_inv in H as (st1 & H1 & H).
          apply IHs in H1. apply IHss in H. eapply MapR_trans; eauto.
      + (* process_blocks *)
        intros bs st st' H. rewrite process_blocks_S in H. destruct bs as [|b0 bs0].
        * injection H as <-. apply MapR_refl.
        * cbv zeta in H. destruct (span_pre (b0 :: bs0)) as [pre rest].
          apply bind_inv in H as (st1 & H1 & H).
          assert (E1 : MapR st st1).
          { apply (fold_MapR (fun s b => block dir f b s) pre) in H1; [|intros b _; apply IHb].
            eapply MapR_same; [| | | |exact H1]; reflexivity. }
          destruct rest as [|h r]; [injection H as <-; exact E1|].
          destruct (header_level h) as [L|]; [|injection H as <-; exact E1].
          apply IHss in H. eapply MapR_trans; eauto.
  Qed.
End BuilderMap.

(* Graph::build_key + SectionsBuilder: every entry of the note's nodes_map is a slot allocated for
   this note *)
Theorem build_document_map a key bs st : build_document a key bs = Ok st ->
  forall e, In e (b_map st) -> length a < fst e < length (b_arena st).
Proof.
  unfold build_document. intros H e He.
  destruct (builder_map (key_parent key) (fuel_for bs)) as (_ & _ & _ & _ & HB).
  apply HB in H. destruct H as [_ M]. destruct (M e He) as [X|X]; [destruct X|].
  cbn [build_key b_arena] in X. rewrite app_length in X. cbn [length] in X. lia.
Qed.

(* ---------- the walk of a note's tree: stability ---------------------------------------------------- *)

Lemma subtree_agree_in a a' : forall f r y,
  (forall id, In id (subtree_ids f a r) -> get a' id = get a id) ->
  In y (subtree_ids f a r) -> In y (subtree_ids f a' r).
Proof.
  induction f as [|f IH]; intros r y H Hy; [destruct Hy|].
  rewrite ForestFacts.subtree_ids_S in H, Hy. rewrite ForestFacts.subtree_ids_S.
  destruct (get a r) as [n|] eqn:Hn; [|destruct Hy].
  rewrite (H r (or_introl eq_refl)), Hn. destruct Hy as [<-|Hy]; [now left|]. right.
  apply in_app_iff in Hy. apply in_app_iff. destruct Hy as [Hy|Hy].
  - left. destruct (g_child n) as [c|]; [|destruct Hy]. apply IH; [|exact Hy].
    intros id Hid. apply H. right. apply in_app_iff. now left.
  - right. destruct (is_dock (g_kind n)); [destruct Hy|]. destruct (g_next n) as [x|]; [|destruct Hy].
    apply IH; [|exact Hy]. intros id Hid. apply H. right. apply in_app_iff. now right.
Qed.

Lemma subtree_mono a : forall f f' r y, f <= f' -> In y (subtree_ids f a r) -> In y (subtree_ids f' a r).
Proof.
  induction f as [|f IH]; intros f' r y Hf Hy; [destruct Hy|]. destruct f' as [|f']; [lia|].
  rewrite ForestFacts.subtree_ids_S in Hy. rewrite ForestFacts.subtree_ids_S.
  destruct (get a r) as [n|]; [|destruct Hy]. destruct Hy as [<-|Hy]; [now left|]. right.
  apply in_app_iff in Hy. apply in_app_iff. destruct Hy as [Hy|Hy].
  - left. destruct (g_child n) as [c|]; [|destruct Hy]. apply (IH f'); [lia | exact Hy].
  - right. destruct (is_dock (g_kind n)); [destruct Hy|]. destruct (g_next n) as [x|]; [|destruct Hy].
    apply (IH f'); [lia | exact Hy].
Qed.

Lemma subtree_in_range a : forall f r y, In y (subtree_ids f a r) -> y < length a.
Proof.
  induction f as [|f IH]; intros r y Hy; [destruct Hy|]. rewrite ForestFacts.subtree_ids_S in Hy.
  destruct (get a r) as [n|] eqn:Hn; [|destruct Hy]. destruct Hy as [<-|Hy]; [eapply ArenaFacts.get_lt; eauto|].
  apply in_app_iff in Hy as [Hy|Hy].
  - destruct (g_child n) as [c|]; [|destruct Hy]. eapply IH; eauto.
  - destruct (is_dock (g_kind n)); [destruct Hy|]. destruct (g_next n) as [x|]; [|destruct Hy]. eapply IH; eauto.
Qed.

(* ---------- the invariant of the line maps ---------------------------------------------------------- *)

(* every id in the nodes_map of a key is a node of the tree of that key *)
Definition maps_own (g : graph) : Prop :=
  forall key m root e, alookup key (gr_maps g) = Some m -> alookup key (gr_keys g) = Some root -> In e m ->
    In (fst e) (subtree_ids (S (length (gr_arena g))) (gr_arena g) root).

Lemma maps_own_ext g g' :
  gr_arena g' = gr_arena g -> gr_keys g' = gr_keys g -> gr_maps g' = gr_maps g -> maps_own g -> maps_own g'.
Proof. unfold maps_own. intros -> -> ->. auto. Qed.

Lemma built_map_owned a1 key bs st : arena_ok a1 = true -> build_document a1 key bs = Ok st ->
  forall e, In e (b_map st) -> In (fst e) (subtree_ids (S (length (b_arena st))) (b_arena st) (length a1)).
Proof.
  intros Hok Hb e He. pose proof (build_document_map a1 key bs st Hb e He) as Hr.
  destruct (BuilderWF.build_document_owned a1 key bs Hok) as (st' & Hb' & _ & Perm).
  rewrite Hb in Hb'. injection Hb' as <-.
  eapply Permutation_in; [apply Permutation_sym; exact Perm|]. apply in_seq. lia.
Qed.

(* one note built on top of a well-formed arena (Graph::from_markdown without the deletion; import) *)
Lemma build_note_own g key meta bs g' :
  arena_ok (gr_arena g) = true -> maps_own g -> build_note g key meta bs = Ok g' -> maps_own g'.
Proof.
  intros Hok HO H. unfold build_note in H. apply bind_inv in H as (st & Hb & E). injection E as <-.
  intros k m root e. cbn [gr_arena gr_keys gr_maps]. destruct (String.eqb k key) eqn:Ek.
  - apply String.eqb_eq in Ek. subst k. rewrite !LibraryFacts.alookup_ainsert_same. intros [= <-] [= <-] He.
    eapply built_map_owned; eauto.
  - rewrite !LibraryFacts.alookup_ainsert_other by exact Ek. intros Hm Hr He.
    pose proof (HO k m root e Hm Hr He) as Hin.
    pose proof (HistoryWF.build_document_frame _ _ _ _ Hb) as Hfirst.
    pose proof (HistoryWF.firstn_eq_length _ _ Hfirst) as Hlen.
    apply (subtree_mono _ (S (length (gr_arena g)))); [lia|].
    apply (subtree_agree_in (gr_arena g)); [|exact Hin].
    intros id Hid. apply subtree_in_range in Hid.
    transitivity (get (firstn (length (gr_arena g)) (b_arena st)) id); [symmetry; now apply HistoryWF.get_firstn | now rewrite Hfirst].
Qed.

(* Graph::update_key *)
Lemma update_key_own g key meta bs g' :
  graph_inv g -> maps_own g -> update_key g key meta bs = Ok g' -> maps_own g'.
Proof.
  intros Hinv HO H. pose proof H as H0.
  unfold update_key in H0. apply bind_inv in H0 as (a1 & Hdel & H0).
  unfold from_blocks in H0. apply bind_inv in H0 as (g1 & Hbn & E). injection E as <-.
  unfold build_note in Hbn. cbn [gr_arena gr_keys gr_maps gr_titles gr_meta] in Hbn.
  apply bind_inv in Hbn as (st & Hb & E). injection E as <-.
  assert (H1 : arena_ok a1 = true /\ length a1 = length (gr_arena g)).
  { destruct (alookup key (gr_keys g)) as [root|] eqn:Hl.
    - destruct (ready_deleted g key root a1 Hinv Hl Hdel) as [(Hok & _) Hlen]. auto.
    - injection Hdel as <-. destruct (ready_fresh g key Hinv Hl) as (Hok & _). auto. }
  destruct H1 as (Hok1 & Hlen1).
  eapply maps_own_ext; [apply HistoryWF.refresh_title_arena | apply HistoryWF.refresh_title_keys | apply refresh_title_maps |].
  intros k m root e. cbn [gr_arena gr_keys gr_maps]. destruct (String.eqb k key) eqn:Ek.
  - apply String.eqb_eq in Ek. subst k. rewrite !LibraryFacts.alookup_ainsert_same. intros [= <-] [= <-] He.
    eapply built_map_owned; eauto.
  - rewrite !LibraryFacts.alookup_ainsert_other by exact Ek. intros Hm Hr He.
    pose proof (HO k m root e Hm Hr He) as Hin.
    assert (Hne : k <> key) by (intros ->; now rewrite String.eqb_refl in Ek).
    destruct Hinv as [Hwf _].
    destruct (HistoryWF.update_frame g key meta bs _ k root Hwf H Hne Hr) as [_ Hfr].
    rewrite HistoryWF.refresh_title_arena in Hfr. cbn [gr_arena] in Hfr.
    pose proof (HistoryWF.build_document_frame _ _ _ _ Hb) as Hfirst.
    pose proof (HistoryWF.firstn_eq_length _ _ Hfirst) as Hlen.
    apply (subtree_mono _ (S (length (gr_arena g)))); [lia|].
    apply (subtree_agree_in (gr_arena g)); [|exact Hin]. exact Hfr.
Qed.

Lemma import_own notes g : import notes = Ok g -> maps_own g.
Proof.
  intros H. unfold import in H. apply bind_inv in H as (g1 & Hf & E). injection E as <-.
  destruct (refresh_all_arena_keys (gr_keys g1) g1) as [Ea Ek].
  eapply maps_own_ext; [exact Ea | exact Ek | apply refresh_all_maps |].
  assert (P : arena_ok (gr_arena g1) = true /\ all_live (gr_arena g1) /\ maps_own g1); [|tauto].
  refine (HistoryWF.fold_inv
            (fun g (n : string * option string * list dblock) =>
               let '(name, meta, bs) := n in build_note g (key_name name) meta bs)
            (fun g => arena_ok (gr_arena g) = true /\ all_live (gr_arena g) /\ maps_own g) notes _ empty_graph g1 _ Hf).
  - intros [[name meta] bs] s0 s1 _ (Hok & Hl & HO) Hb.
    destruct (build_note_live s0 _ meta bs s1 (conj Hok Hl) Hb) as [Hok' Hl'].
    split; [exact Hok'|]. split; [exact Hl'|]. exact (build_note_own s0 _ meta bs s1 Hok HO Hb).
  - split; [reflexivity|]. split; [intros i n Hn; destruct i; discriminate|].
    intros k m root e Hm. discriminate Hm.
Qed.

(* ---------- `collect` reaches every node of the walk ------------------------------------------------ *)

Section CollectComplete.
  Variable a : arena.
  Hypothesis Hok : arena_ok a = true.
  Variable nf : nat -> gkind -> option node.
  Hypothesis Hnf : forall i k, is_emptyk k = false -> nf i k <> None.

  Lemma collect_fuel_none f id : collect_fuel f nf a id = Ok None ->
    exists n, get a id = Some n /\ nf id (g_kind n) = None.
  Proof.
    destruct f as [|f]; [discriminate|]. rewrite collect_fuel_S. destruct (get a id) as [n|]; [|discriminate].
    destruct (nf id (g_kind n)) eqn:E; [|eauto].
    destruct (match g_child n with None => Ok [] | Some c => sibling_ids f a c end); cbn [bind]; [|discriminate].
    match goal with |- (do kids <- ?X; _) = _ -> _ => destruct X end; cbn [bind]; discriminate.
  Qed.

  Lemma chain_complete f :
    (forall id t, collect_fuel f nf a id = Ok (Some t) -> forall G y, In y (own a G id) -> In y (some_ids t)) ->
    forall f' c ids kids, sibling_ids f' a c = Ok ids -> kids_fold a nf f ids = Ok kids ->
    forall G y, In y (subtree_ids G a c) -> In y (flat_map some_ids kids).
  Proof.
    intros Q. induction f' as [|f' IH]; intros c ids kids Hs Hk G y Hy; [discriminate|].
    rewrite sibling_ids_S in Hs. destruct (get a c) as [n|] eqn:Hn; [|discriminate].
    destruct (is_emptyk (g_kind n)) eqn:He; [destruct (g_kind n); discriminate|].
    rewrite (nonempty_match (g_kind n) _ _ He) in Hs.
    destruct G as [|G']; [destruct Hy|]. rewrite ForestFacts.subtree_ids_S, Hn in Hy.
    assert (Hc : forall r kr, kids_fold a nf f r = Ok kr ->
              (do kr0 <- Ok kr; do t <- collect_fuel f nf a c; Ok (match t with Some t => t :: kr0 | None => kr0 end)) = Ok kids ->
              exists t, collect_fuel f nf a c = Ok (Some t) /\ kids = t :: kr).
    { intros r kr _ H. cbn [bind] in H. destruct (collect_fuel f nf a c) as [[t|]|] eqn:Ec; cbn [bind] in H; try discriminate.
      - injection H as <-. eauto.
      - exfalso. destruct (collect_fuel_none f c Ec) as (n' & Hn' & E'). rewrite Hn in Hn'. injection Hn' as <-.
        now apply (Hnf c (g_kind n) He). }
    assert (Hself : forall t, collect_fuel f nf a c = Ok (Some t) ->
              y = c \/ In y (match g_child n with Some c0 => subtree_ids G' a c0 | None => [] end) -> In y (some_ids t)).
    { intros t Et Hyc. apply (Q c t Et G'). unfold own, child_walk. rewrite Hn. destruct Hyc as [->|Hyc]; [now left | now right]. }
    destruct (g_next n) as [nx|] eqn:Hx.
    - destruct (sibling_ids f' a nx) as [r|] eqn:E; [|discriminate]. cbn [bind] in Hs. injection Hs as <-.
      rewrite kids_fold_cons in Hk. destruct (kids_fold a nf f r) as [kr|] eqn:Kr; [|discriminate].
      destruct (Hc r kr Kr Hk) as (t & Et & ->). cbn [flat_map]. apply in_app_iff.
      destruct Hy as [<-|Hy]; [left; apply (Hself t Et); now left|].
      apply in_app_iff in Hy as [Hy|Hy]; [left; apply (Hself t Et); now right|].
      right. destruct (is_dock (g_kind n)); [destruct Hy|]. eapply IH; eauto.
    - injection Hs as <-. rewrite kids_fold_cons in Hk. cbn [kids_fold fold_right] in Hk.
      destruct (Hc [] [] eq_refl Hk) as (t & Et & ->). cbn [flat_map]. rewrite app_nil_r.
      destruct Hy as [<-|Hy]; [apply (Hself t Et); now left|].
      apply in_app_iff in Hy as [Hy|Hy]; [apply (Hself t Et); now right|].
      destruct (is_dock (g_kind n)); destruct Hy.
  Qed.

  Lemma collect_complete : forall f id t, collect_fuel f nf a id = Ok (Some t) ->
    forall G y, In y (own a G id) -> In y (some_ids t).
  Proof.
    induction f as [|f IH]; intros id t H G y Hy; [discriminate|].
    rewrite collect_fuel_S in H. unfold own in Hy. destruct (get a id) as [n|] eqn:Hn; [|destruct Hy].
    destruct (nf id (g_kind n)) as [nd|]; [|discriminate].
    unfold child_walk in Hy. destruct (g_child n) as [c|] eqn:Hc.
    - destruct (sibling_ids f a c) as [ids|] eqn:Hs; [|discriminate]. cbn [bind] in H.
      fold (kids_fold a nf f ids) in H. destruct (kids_fold a nf f ids) as [kids|] eqn:K; [|discriminate].
      cbn [bind] in H. injection H as <-. rewrite some_ids_T. cbn [app].
      destruct Hy as [<-|Hy]; [now left|]. right. eapply (chain_complete f IH f c ids kids Hs K); eauto.
    - cbn [bind] in H. injection H as <-. destruct Hy as [<-|[]]. cbn. now left.
  Qed.
End CollectComplete.

(* Actions.key_of follows the same prev links as ArenaWF.to_document *)
Lemma key_of_owner a r rn key : get a r = Some rn -> g_kind rn = KDocument key ->
  forall f y, ArenaWF.to_document f a y = Ok r -> key_of_fuel f a y = Ok key.
Proof.
  intros Hr Hk. induction f as [|f IH]; intros y H; [discriminate|].
  cbn [ArenaWF.to_document] in H. cbn [key_of_fuel]. destruct (get a y) as [n|] eqn:Hn; [|discriminate].
  destruct (g_kind n) eqn:K; try discriminate;
    try (destruct (g_prev n) as [p|]; [now apply IH | discriminate]).
  injection H as ->. rewrite Hr in Hn. injection Hn as <-. rewrite Hk in K. now injection K as ->.
Qed.

(* a node of the walk of a note's root: the note is its owner, and `collect` of the note holds it *)
Lemma walk_node_in_tree g key root id :
  wf_b (gr_arena g) (gr_keys g) = true -> alookup key (gr_keys g) = Some root ->
  In id (subtree_ids (S (length (gr_arena g))) (gr_arena g) root) ->
  key_of g id = Ok key /\ exists t, collect_key g key = Ok t /\ contains t id = true.
Proof.
  intros Hwf Hk Hin. set (a := gr_arena g) in *.
  destruct (proj1 (wf_b_spec _ _) Hwf) as (Hok & Hkeys & _).
  destruct (proj1 (key_ok_spec a (key, root)) (Hkeys _ (HistoryWF.alookup_In _ _ _ Hk))) as (rn & Hr & Hrk).
  cbn [fst snd] in Hr, Hrk.
  destruct (proj1 (subtree_owner_iff a Hok root rn key Hr Hrk id) Hin) as [Hl Ho].
  pose proof Hl as (n0 & Hn0 & _). apply ArenaFacts.get_lt in Hn0.
  split.
  - unfold key_of. fold a. apply (key_of_owner a root rn key Hr Hrk).
    apply (to_document_more a (S id)); [exact Ho | lia].
  - assert (Hlr : lv a root) by (exists rn; split; [exact Hr | now rewrite Hrk]).
    destruct (collect_total (get_key_title g) a root Hok Hlr) as (t & Ht).
    exists t. unfold collect_key. rewrite Hk. split; [exact Ht|].
    apply contains_in. unfold collect in Ht.
    destruct (collect_fuel (S (length a)) (fun _ k => pointer_node (get_key_title g) k) a root) as [[t'|]|] eqn:E; try discriminate.
    cbn [bind] in Ht. injection Ht as ->.
    apply (collect_complete a (fun _ k => pointer_node (get_key_title g) k)
             (fun _ k => pointer_node_some (get_key_title g) k) (S (length a)) root t E (length a)).
    unfold own, child_walk. rewrite Hr. rewrite ForestFacts.subtree_ids_S, Hr in Hin.
    destruct Hin as [<-|Hin]; [now left|]. right. apply in_app_iff in Hin as [Hin|Hin]; [exact Hin|].
    rewrite Hrk in Hin. destruct Hin.
Qed.

(* HEADLINE of S1b: with the line-map invariant, the id under any line of an existing note is a node
   of a live note's tree: the side condition of the code-action handler always holds *)
Theorem line_target_ok_holds g key line :
  wf_b (gr_arena g) (gr_keys g) = true -> maps_own g -> key_exists g key = true ->
  line_target_ok g key line = true.
Proof.
  intros Hwf HO Hk. unfold line_target_ok. destruct (get_node_id_at g key line) as [[target|]|] eqn:E; try reflexivity.
  unfold get_node_id_at in E. destruct (alookup key (gr_maps g)) as [m|] eqn:Hm; [|discriminate].
  injection E as E. destruct (find (fun e => range_contains (snd e) line) (rev m)) as [e|] eqn:F; [|discriminate].
  injection E as <-. apply find_some in F as [Hin _]. apply in_rev in Hin.
  unfold key_exists in Hk. destruct (alookup key (gr_keys g)) as [root|] eqn:Hr; [|discriminate].
  destruct (walk_node_in_tree g key root (fst e) Hwf Hr (HO key m root e Hm Hr Hin)) as (-> & t & -> & ->).
  reflexivity.
Qed.

(* ================================================================================================ *)
(* S2 — the server invariant                                                                         *)
(* ================================================================================================ *)

(* every key has a line map (`nodes_map.get(key).expect(..)` in get_node_id_at) *)
Definition maps_dom (g : graph) : Prop :=
  forall k, alookup k (gr_keys g) = None <-> alookup k (gr_maps g) = None.

Definition SInv (sv : sstate) : Prop :=
  Inv (ss_gs sv) /\ maps_dom (gs_graph (ss_gs sv)) /\ maps_own (gs_graph (ss_gs sv)) /\
  search_paths true (ss_gs sv) = Ok (ss_paths sv).

Lemma build_note_dom g key meta bs g' : maps_dom g -> build_note g key meta bs = Ok g' -> maps_dom g'.
Proof.
  intros D H. unfold build_note in H. apply bind_inv in H as (st & _ & E). injection E as <-.
  intros k. cbn [gr_keys gr_maps]. destruct (String.eqb k key) eqn:Ek.
  - apply String.eqb_eq in Ek. subst k. rewrite !LibraryFacts.alookup_ainsert_same. split; discriminate.
  - rewrite !LibraryFacts.alookup_ainsert_other by exact Ek. apply D.
Qed.

Lemma update_key_dom g key meta bs g' : maps_dom g -> update_key g key meta bs = Ok g' -> maps_dom g'.
Proof.
  intros D H. unfold update_key in H. apply bind_inv in H as (a1 & _ & H).
  unfold from_blocks in H. apply bind_inv in H as (g1 & Hb & E). injection E as <-.
  apply build_note_dom in Hb; [|exact D].
  intros k. rewrite refresh_title_keys, refresh_title_maps. apply Hb.
Qed.

Lemma import_dom notes g : import notes = Ok g -> maps_dom g.
Proof.
  intros H. unfold import in H. apply bind_inv in H as (g1 & Hf & E). injection E as <-.
  intros k. destruct (refresh_all_arena_keys (gr_keys g1) g1) as [_ ->]. rewrite refresh_all_maps.
  revert k. change (maps_dom g1).
  refine (HistoryWF.fold_inv
            (fun g (n : string * option string * list dblock) =>
               let '(name, meta, bs) := n in build_note g (key_name name) meta bs)
            maps_dom notes _ empty_graph g1 _ Hf).
  - intros [[name meta] bs] s0 s1 _ Hs Hb. eapply build_note_dom; eauto.
  - intros k. cbn. tauto.
Qed.

(* Server::new on notes with pairwise distinct keys returns and establishes the invariant *)
Theorem server_new_total notes docs :
  distinct_keys notes ->
  exists sv, server_new notes docs = Ok sv /\ SInv sv /\ import_state_v true notes = Ok (ss_gs sv) /\ ss_docs sv = docs.
Proof.
  intros Hd. destruct (import_state_step notes Hd) as (s & Hs & HI & Hg).
  destruct (search_paths_total s HI) as (ps & Hps & _).
  exists (SS s docs ps). unfold server_new. rewrite Hs. cbn [bind]. rewrite Hps. cbn [bind].
  split; [reflexivity|]. split; [|auto]. split; [exact HI|]. cbn [ss_gs].
  split; [eapply import_dom; eauto|]. split; [eapply import_own; eauto | exact Hps].
Qed.

(* a notification: returns, keeps the invariant (the server keeps serving); its graph part is
   Index.update_state_v, i.e. Library.update_key *)
Theorem did_change_total sv n :
  SInv sv -> n <> NChangeNone ->
  exists sv', did_change sv n = Ok sv' /\ SInv sv' /\
    match n with
    | NChange key meta bs d => update_state_v true (ss_gs sv) key meta bs = Ok (ss_gs sv')
    | _ => sv' = sv
    end.
Proof.
  intros (HI & D & O & P) Hn. destruct n as [key meta bs d| |]; [|congruence|].
  - destruct (update_state_step (ss_gs sv) key meta bs HI) as (s' & Hs & HI' & Hg & _).
    destruct (search_paths_total s' HI') as (ps & Hps & _).
    exists (SS s' (ainsert key d (ss_docs sv)) ps). cbn [did_change]. rewrite Hs. cbn [bind]. rewrite Hps. cbn [bind].
    split; [reflexivity|]. split; [|reflexivity]. split; [exact HI'|]. cbn [ss_gs].
    split; [eapply update_key_dom; eauto|]. split; [|exact Hps].
    eapply update_key_own; [exact (proj1 HI) | exact O | exact Hg].
  - exists sv. split; [reflexivity|]. split; [|reflexivity]. exact (conj HI (conj D (conj O P))).
Qed.

Lemma apply_note_inv sv n : SInv sv -> SInv (apply_note sv n).
Proof.
  intros H. unfold apply_note. destruct n as [key meta bs d| |].
  - destruct (did_change_total sv (NChange key meta bs d) H ltac:(discriminate)) as (sv' & -> & H' & _). exact H'.
  - exact H.
  - exact H.
Qed.

Definition changes (ns : list note) : Prop := Forall (fun n => n <> NChangeNone) ns.

Theorem server_run_total ns : forall sv, SInv sv -> changes ns ->
  exists sv', server_run sv ns = Ok sv' /\ SInv sv' /\ sv' = fold_left apply_note ns sv.
Proof.
  induction ns as [|n r IH]; intros sv H C.
  - exists sv. auto.
  - inversion C as [|? ? Hn Cr]; subst.
    destruct (did_change_total sv n H Hn) as (sv1 & E1 & H1 & _).
    destruct (IH sv1 H1 Cr) as (sv' & E & H' & F). exists sv'.
    cbn [server_run fold_left]. rewrite E1. cbn [bind]. unfold apply_note at 2. rewrite E1. auto.
Qed.

(* the states of the headline theorems: Server::new on [notes] with the texts [docs], then the
   notifications [ns] *)
Definition sreached (notes : list (string * option string * list dblock)) (docs : list (string * doc))
           (ns : list note) (sv : sstate) : Prop :=
  exists sv0, server_new notes docs = Ok sv0 /\ server_run sv0 ns = Ok sv.

Theorem sreached_total notes docs ns :
  distinct_keys notes -> changes ns -> exists sv, sreached notes docs ns sv /\ SInv sv.
Proof.
  intros Hd C. destruct (server_new_total notes docs Hd) as (sv0 & E0 & H0 & _).
  destruct (server_run_total ns sv0 H0 C) as (sv & E & H & _). exists sv. split; [exists sv0; auto | exact H].
Qed.

Theorem sreached_SInv notes docs ns sv :
  distinct_keys notes -> sreached notes docs ns sv -> SInv sv.
Proof.
  intros Hd (sv0 & E0 & E). destruct (server_new_total notes docs Hd) as (sv0' & E0' & H0 & _).
  rewrite E0 in E0'. injection E0' as <-. clear E0.
  revert sv0 H0 E. induction ns as [|n r IH]; intros sv0 H0 E; cbn [server_run] in E.
  - now injection E as <-.
  - apply bind_inv in E as (sv1 & E1 & E). apply (IH sv1); [|exact E].
    destruct n as [key meta bs d| |]; [|discriminate|].
    + destruct (did_change_total sv0 (NChange key meta bs d) H0 ltac:(discriminate)) as (sv1' & E1' & H1 & _).
      rewrite E1 in E1'. now injection E1' as <-.
    + injection E1 as <-. exact H0.
Qed.

(* ================================================================================================ *)
(* S3 — the handlers, one by one, at a state of the invariant                                        *)
(* ================================================================================================ *)

Section Handlers.
  Variable cf : config.
  Variable sv : sstate.
  Hypothesis HS : SInv sv.

  Let s := ss_gs sv.
  Let g := gs_graph s.
  Let a := gr_arena g.

  Lemma H_Inv : Inv s. Proof. exact (proj1 HS). Qed.
  Lemma H_ok : arena_ok a = true. Proof. exact (Inv_arena_ok s H_Inv). Qed.
  Lemma H_wf : wf_b a (gr_keys g) = true. Proof. destruct H_Inv as ([W _] & _). exact W. Qed.
  Lemma H_idx : IdxInv s. Proof. exact (proj2 (proj2 H_Inv)). Qed.

  Lemma root_live key root : alookup key (gr_keys g) = Some root ->
    exists n, get a root = Some n /\ g_kind n = KDocument key.
  Proof.
    intros Hk. destruct (proj1 (wf_b_spec _ _) H_wf) as (_ & Hkeys & _).
    apply HistoryWF.alookup_In in Hk. exact (proj1 (key_ok_spec a (key, root)) (Hkeys _ Hk)).
  Qed.

  Lemma root_lv key root : alookup key (gr_keys g) = Some root -> lv a root.
  Proof. intros Hk. destruct (root_live key root Hk) as (n & Hn & K). exists n. split; [exact Hn | now rewrite K]. Qed.

  Lemma block_refs_lv k : exists l, block_refs_to s k = Ok l /\ forall x, In x l -> lv a x.
  Proof.
    destruct (getters_exact s H_idx k) as [E _]. eexists. split; [exact E|].
    intros x Hx. apply exact_refs_In in Hx. exact (is_ref_alive _ _ _ Hx).
  Qed.

  Lemma inline_refs_lv k : exists l, inline_refs_to s k = Ok l /\ forall x, In x l -> lv a x.
  Proof.
    destruct (getters_exact s H_idx k) as [_ E]. eexists. split; [exact E|].
    intros x Hx. apply exact_inline_In in Hx. exact (is_inl_alive _ _ _ Hx).
  Qed.

  Lemma lv_lt x : lv a x -> x < length a.
  Proof. intros (n & Hn & _). eapply ArenaFacts.get_lt; eauto. Qed.

  (* ---- inlay hints ---- *)
  Lemma block_references_in_ok key : key_exists g key = true ->
    exists l, block_references_in g key = Ok l /\ forall x, In x l -> lv a x.
  Proof.
    unfold key_exists. destruct (alookup key (gr_keys g)) as [root|] eqn:Hk; [intros _ | discriminate].
    unfold block_references_in. rewrite Hk. fold a.
    destruct (all_sub_nodes_total a H_ok (S (length a)) root (root_lv key root Hk) ltac:(lia)) as (ids & -> & L).
    cbn [bind]. destruct (filter_live_ok a ids (fun i Hi => lv_lt i (L i Hi))) as (l1 & -> & L1). cbn [bind].
    destruct (filter_res_ok (fun id => do k <- Paths.kind_at a id; Ok (is_refk k)) l1) as (l2 & E2).
    { intros x Hx. destruct (kind_at_lv a x (L x (L1 x Hx))) as (k & -> & _). cbn [bind]. eauto. }
    exists l2. split; [exact E2|]. intros x Hx. destruct (filter_res_In _ _ _ _ E2 Hx) as [Hin _]. auto.
  Qed.

  Theorem inlay_hints_total key : key_exists g key = true -> exists v, handle_inlay_hints s key = Ok v.
  Proof.
    intros Hk. unfold handle_inlay_hints, container_hint. fold g.
    destruct (block_refs_lv key) as (bl & -> & Lb). cbn [bind].
    destruct (mapm_ok (container_ref_text g) bl) as (cs & ->).
    { intros x Hx. unfold container_ref_text. fold a. destruct (node_key_live a H_ok x (Lb x Hx)) as (k & ->). cbn [bind]. eauto. }
    cbn [bind]. destruct (inline_refs_lv key) as (il & -> & _). cbn [bind].
    unfold block_reference_hints. fold g a. destruct (block_references_in_ok key Hk) as (refs & -> & Lr). cbn [bind].
    match goal with |- exists v, (do b <- mapm ?F ?L; _) = _ => destruct (mapm_ok F L) as (hs & ->) end.
    { intros [id line] Hx. apply in_flat_map in Hx as (id' & Hid & Hx).
      destruct (node_line_range s id') as [r|]; [|destruct Hx]. destruct Hx as [E|[]]. injection E as <- <-.
      cbn [fst snd]. destruct (kind_at_lv a id' (Lr id' Hid)) as (k & -> & _). cbn [bind].
      destruct k; cbn [bind]; eauto. destruct (block_refs_lv key0) as (l & -> & _). cbn [bind]. eauto. }
    cbn [bind]. eauto.
  Qed.

  (* ---- references ---- *)
  Theorem references_total key : base_ok (cf_base cf) = true -> exists v, handle_references (cf_base cf) s key = Ok v.
  Proof.
    intros Hb. unfold handle_references.
    destruct (block_refs_lv key) as (bl & -> & Lb). cbn [bind].
    destruct (inline_refs_lv key) as (il & -> & Li). cbn [bind].
    apply mapm_ok. intros x Hx. apply in_app_iff in Hx.
    assert (L : lv a x) by (destruct Hx; auto).
    unfold location_of. fold g a. destruct (node_key_live a H_ok x L) as (k & ->). cbn [bind fst snd].
    destruct (key_url_ok (cf_base cf) k Hb) as (u & ->). cbn [bind]. eauto.
  Qed.

  (* ---- formatting ---- *)
  Lemma collect_key_ok key : key_exists g key = true -> exists t, collect_key g key = Ok t.
  Proof.
    unfold key_exists, collect_key. destruct (alookup key (gr_keys g)) as [root|] eqn:Hk; [intros _ | discriminate].
    exact (collect_total (get_key_title g) a root H_ok (root_lv key root Hk)).
  Qed.

  Theorem formatting_total key : key_exists g key = true -> exists v, handle_formatting cf s key = Ok v.
  Proof.
    intros Hk. destruct (collect_key_ok key Hk) as (t & Ht). unfold handle_formatting, to_markdown. fold g.
    unfold collect_key in Ht. destruct (alookup key (gr_keys g)); [|discriminate]. rewrite Ht. cbn [bind]. eauto.
  Qed.

  (* ---- document symbols ---- *)
  Lemma nested_symbol_ok q : base_ok (cf_base cf) = true -> q <> [] -> Forall (lv a) q ->
    exists v, nested_symbol (cf_base cf) s q = Ok v.
  Proof.
    intros Hb Hne Hl. rewrite Forall_forall in Hl. unfold nested_symbol. fold g a.
    destruct (last_id_ok q Hne) as (t & -> & Ht). cbn [bind].
    destruct (kind_at_lv a t (Hl t Ht)) as (k & Hk & _). unfold get_text. rewrite Hk. cbn [bind].
    destruct (node_key_live a H_ok t (Hl t Ht)) as (key & ->). cbn [bind].
    destruct (key_url_ok (cf_base cf) key Hb) as (u & ->). cbn [bind]. eauto.
  Qed.

  Theorem document_symbols_total key : base_ok (cf_base cf) = true ->
    exists v, handle_document_symbols (cf_base cf) s key = Ok v.
  Proof.
    intros Hb. unfold handle_document_symbols. fold g a.
    destruct (alookup key (gr_keys g)) as [root|] eqn:Hk; [|eauto].
    destruct (root_live key root Hk) as (n & Hn & _). unfold node_at. rewrite Hn. cbn [bind].
    destruct (child_of n) as [id|]; [|eauto].
    destruct (Inv_C18 s H_Inv) as (_ & _ & _ & _ & G). destruct (G true) as (ps & -> & Hs & _). cbn [bind].
    match goal with |- exists v, (do syms <- mapm ?F ?L; _) = _ => destruct (mapm_ok F L) as (ys & ->) end; [|cbn [bind]; eauto].
    intros q Hq. apply filter_In in Hq as [Hq _]. apply in_map_iff in Hq as (p & <- & Hp).
    apply in_rev in Hp. apply filter_In in Hp as [Hp Hc]. apply andb_prop in Hc as [_ Hlen]. apply Nat.ltb_lt in Hlen.
    destruct (Hs p Hp) as (_ & Hh & _).
    assert (Hlv : Forall (lv a) p) by (eapply Forall_impl; [|exact Hh]; intros x; apply heading_lv).
    destruct p as [|x [|y r]]; cbn [length] in Hlen; try lia. cbn [tl].
    apply nested_symbol_ok; [exact Hb | discriminate | now inversion Hlv].
  Qed.
End Handlers.

Lemma In_firstn_In {A} n (l : list A) x : In x (firstn n l) -> In x l.
Proof. intros H. rewrite <- (firstn_skipn n l). apply in_or_app. now left. Qed.

Lemma global_search_In qe scored p : In p (global_search qe scored) -> In p (map fst scored).
Proof.
  unfold global_search. intros H. apply In_firstn_In in H. apply in_map_iff in H as (x & <- & Hx).
  apply in_map. eapply Permutation_in; [apply Permutation_sym, stable_sort_perm | exact Hx].
Qed.

Section Handlers2.
  Variable cf : config.
  Variable sv : sstate.
  Hypothesis HS : SInv sv.

  Let s := ss_gs sv.
  Let g := gs_graph s.
  Let a := gr_arena g.

  (* ---- definition, prepare rename ---- *)
  Lemma site_of_ok key p : IweV.Pos.v_empty_item (cf_pos cf) = true ->
    exists r, site_of (cf_pos cf) (ss_docs sv) key p = Ok r.
  Proof.
    intros Hv. unfold site_of. destruct (alookup key (ss_docs sv)) as [d|]; [|eauto].
    unfold url_at. destruct (PosFacts.link_at_total (cf_pos cf) d p Hv) as (r & ->). cbn [bind]. eauto.
  Qed.

  Theorem definition_total key p : IweV.Pos.v_empty_item (cf_pos cf) = true ->
    exists v, handle_definition cf sv key p = Ok v.
  Proof.
    intros Hv. unfold handle_definition. destruct (site_of_ok key p Hv) as ([url|] & ->); cbn [bind]; [|eauto].
    destruct (full_path_ok (cf_base cf) (rjoin (key_parent key) url)) as (r & ->). cbn [bind]. eauto.
  Qed.

  Theorem prepare_rename_total key p : IweV.Pos.v_empty_item (cf_pos cf) = true ->
    link_end_ok (cf_pos cf) (ss_docs sv) key p = true ->
    exists v, handle_prepare_rename cf sv key p = Ok v.
  Proof.
    intros Hv He. unfold handle_prepare_rename, link_end_ok in *.
    destruct (alookup key (ss_docs sv)) as [d|]; [|eauto].
    destruct (PosFacts.link_at_total (cf_pos cf) d p Hv) as ([i|] & E); rewrite E in *; cbn [bind]; [|eauto].
    destruct (IweV.Pos.key_range i); [cbn [bind]; eauto | discriminate].
  Qed.

  (* ---- workspace symbols ---- *)
  Theorem workspace_symbols_total qe score : base_ok (cf_base cf) = true ->
    exists v, handle_workspace_symbols (cf_base cf) sv qe score = Ok v.
  Proof.
    intros Hb. destruct HS as (HI & _ & _ & HP). destruct (search_paths_total (ss_gs sv) HI) as (ps & Hps & L).
    rewrite HP in Hps. assert (Eps : ps = ss_paths sv) by congruence. subst ps. clear Hps.
    unfold handle_workspace_symbols.
    match goal with |- exists v, (do syms <- mapm ?F ?L; _) = _ => destruct (mapm_ok F L) as (ys & ->) end; [|cbn [bind]; eauto].
    intros x Hx. apply global_search_In in Hx. rewrite map_map in Hx. cbn [fst] in Hx. rewrite map_id in Hx.
    destruct (L x Hx) as [_ Hlv]. rewrite Forall_forall in Hlv.
    destruct (texts_of_ok (gr_arena (gs_graph (ss_gs sv))) (sp_ids x)) as (ts & Ets).
    { intros i Hi. apply (lv_lt sv). apply Hlv, Hi. }
    unfold render_path. rewrite Ets. cbn [bind].
    destruct (key_url_ok (cf_base cf) (sp_key x) Hb) as (u & ->). cbn [bind]. eauto.
  Qed.

  (* ---- code actions ---- *)
  Lemma node_id_at_ok key line : key_exists g key = true -> exists r, get_node_id_at g key line = Ok r.
  Proof.
    unfold key_exists. intros Hk. destruct HS as (_ & D & _).
    unfold get_node_id_at. destruct (alookup key (gr_maps g)) eqn:Hm; [eauto|].
    exfalso. apply (D key) in Hm. change (alookup key (gr_keys g) = None) in Hm. rewrite Hm in Hk. discriminate Hk.
  Qed.

  Theorem code_action_total key line er only :
    key_exists g key = true -> exists v, handle_code_action cf s key line er only = Ok v.
  Proof.
    intros Hk. assert (Ht : line_target_ok g key line = true).
    { apply line_target_ok_holds; [exact (H_wf sv HS) | exact (proj1 (proj2 (proj2 HS))) | exact Hk]. }
    unfold handle_code_action, line_target_ok in *. fold g.
    destruct (node_id_at_ok key line Hk) as ([target|] & E); rewrite E in *; cbn [bind]; [|eauto].
    destruct (er || cf_helix cf); [|eauto].
    destruct (key_of g target) as [k|] eqn:Hkey; [|discriminate].
    destruct (collect_key g k) as [t|] eqn:Hcol; [|discriminate].
    match goal with |- exists v, (do l <- mapm ?F ?L; _) = _ => destruct (mapm_ok F L) as (ys & ->) end; [|cbn [bind]; eauto].
    intros kd _. destruct (C09_action_total (graph_ctx g) kd target k t Hkey Hcol (fun _ => Ht)) as (o & ->).
    cbn [bind]. eauto.
  Qed.

  Lemma doc_change_ok c : base_ok (cf_base cf) = true -> exists d, doc_change cf g c = Ok d.
  Proof.
    intros Hb. destruct c as [key|key parent t|key]; cbn [doc_change];
      destruct (key_url_ok (cf_base cf) key Hb) as (u & ->); cbn [bind]; eauto.
  Qed.

  Lemma resolve_is_domain k kg target :
    is_ok (handle_resolve (graph_ctx g) k kg target) = resolve_domain (graph_ctx g) k kg target.
  Proof.
    apply C12_resolve_panic_domain. intros _ key tree _ Hcol.
    pose proof (graph_ctx_collect_ids g key tree (H_wf sv HS) Hcol) as Hids.
    unfold ids_ok in Hids. now apply andb_prop in Hids as [_ Hd].
  Qed.

  Theorem resolve_total k kg target :
    resolve_domain (graph_ctx g) k kg target = true -> base_ok (cf_base cf) = true ->
    exists v, handle_code_action_resolve cf s (Some k) (Some target) kg = Ok v.
  Proof.
    intros Hd Hb. unfold handle_code_action_resolve. fold g.
    rewrite <- resolve_is_domain in Hd. destruct (handle_resolve (graph_ctx g) k kg target) as [l|]; [|discriminate].
    cbn [bind]. apply mapm_ok. intros c _. now apply doc_change_ok.
  Qed.
End Handlers2.

(* ---- rename ---- *)
Lemma fold_right_ok {X Y} (F : X -> res Y -> res Y) (b : Y) ks :
  (forall k r, In k ks -> exists r', F k (Ok r) = Ok r') -> exists ov, fold_right F (Ok b) ks = Ok ov.
Proof.
  induction ks as [|k ks IH]; intros H; [eexists; reflexivity|]. cbn [fold_right].
  destruct IH as (ov & ->); [intros k' r Hk; apply H; now right|]. apply H. now left.
Qed.

Lemma combine_seq_get {A} (l : list A) : forall b i n,
  In (i, n) (combine (seq b (length l)) l) -> b <= i /\ nth_error l (i - b) = Some n.
Proof.
  induction l as [|x l IH]; intros b i n H; [destruct H|]. cbn [length seq combine] in H.
  destruct H as [E|H].
  - injection E as <- <-. split; [lia|]. now rewrite Nat.sub_diag.
  - destruct (IH (S b) i n H) as [Hle E]. split; [lia|].
    replace (i - b) with (S (i - S b)) by lia. exact E.
Qed.

Lemma alookup_in_some {A} k (v : A) l : In (k, v) l -> exists v', alookup k l = Some v'.
Proof.
  induction l as [|[k' v'] l IH]; intros H; [destruct H|]. cbn [alookup].
  destruct (String.eqb k k') eqn:E; [eauto|]. destruct H as [H|H]; [|auto].
  injection H as -> ->. now rewrite String.eqb_refl in E.
Qed.

Lemma alookup_map_in {B} (f : Rename.tnote -> B) aff k :
  In k (map Rename.tn_key aff) -> exists v, alookup k (map (fun x => (Rename.tn_key x, f x)) aff) = Some v.
Proof.
  intros H. apply in_map_iff in H as (x & <- & Hx). apply (alookup_in_some _ (f x)).
  apply in_map_iff. exists x. auto.
Qed.

Section Handlers3.
  Variable cf : config.
  Variable sv : sstate.
  Hypothesis HS : SInv sv.

  Let s := ss_gs sv.
  Let g := gs_graph s.
  Let a := gr_arena g.

  Lemma tlib_ok : exists L, Rename.tlib_of_graph g (cf_tables cf) = Ok L.
  Proof.
    unfold Rename.tlib_of_graph. apply fold_right_ok. intros kv r Hkv.
    destruct kv as [k root]. cbn [fst]. destruct (alookup_in_some k root _ Hkv) as (r' & Hr).
    destruct (collect_key_ok sv HS k) as (t & Ht).
    { unfold key_exists. fold s g. now rewrite Hr. }
    fold s g in Ht. cbn [bind]. rewrite Ht. cbn [bind]. eauto.
  Qed.

  Lemma index_scan_ok key : exists r, Rename.index_scan a key = Ok r.
  Proof.
    unfold Rename.index_scan.
    assert (H : exists own, Rename.arena_owners a key = Ok own).
    { unfold Rename.arena_owners. apply fold_right_ok. intros [i n] r Hin. cbn [fst snd bind].
      destruct (existsb (String.eqb key) (Rename.kind_ref_keys (g_kind n))) eqn:E; [|eauto].
      destruct (combine_seq_get a 0 i n Hin) as [_ Hn]. rewrite Nat.sub_0_r in Hn.
      assert (L : lv a i).
      { exists n. split; [exact Hn|]. destruct (g_kind n); try reflexivity. discriminate E. }
      pose proof (lv_lt sv i L) as Hlt.
      destruct (owner_fuel_live a (H_ok sv HS) (S (length a)) i L ltac:(fold s g a in Hlt; lia)) as (k & ->).
      cbn [bind]. eauto. }
    destruct H as (own & ->). cbn [bind]. eauto.
  Qed.

  Lemma op_url_ok o : base_ok (cf_base cf) = true -> exists o', op_url (cf_base cf) o = Ok o'.
  Proof.
    intros Hb. destruct o as [k t|k|k|k t|w]; cbn [op_url]; try (eexists; reflexivity);
      destruct (key_url_ok (cf_base cf) k Hb) as (u & ->); cbn [bind]; eauto.
  Qed.

  (* with the dangling-link and the one-key repairs in, every rename request is answered: from
     every note (root or sub-directory) and for every new name (RenameFacts.handle_rename_total);
     the hypothesis `rename_target_ok key new_name` that excluded the sub-directory panic is gone *)
  Theorem rename_total key p new_name :
    IweV.Pos.v_empty_item (cf_pos cf) = true -> base_ok (cf_base cf) = true ->
    Rename.fx_dangling (cf_fx cf) = true -> Rename.fx_subdir (cf_fx cf) = true ->
    exists v, handle_rename cf sv key p new_name = Ok v.
  Proof.
    intros Hv Hb Hd Ht. unfold handle_rename. fold s g.
    destruct tlib_ok as (L & HL).
    destruct (site_of_ok cf sv key p Hv) as (s0 & ->).
    destruct (RenameFacts.handle_rename_total (cf_fx cf) (cf_opts cf) g (cf_tables cf) L key s0 new_name
                Hd Ht HL index_scan_ok) as (r & ->).
    cbn [bind]. destruct r as [m| |ops]; [eauto | eauto |].
    destruct (mapm_ok (op_url (cf_base cf)) ops) as (ops' & ->); [intros o _; now apply op_url_ok|].
    cbn [bind]. eauto.
  Qed.
End Handlers3.

(* ================================================================================================ *)
(* S3 — HEADLINES: the panic domain of the handlers                                                   *)
(* ================================================================================================ *)

(* Soundness of the classifier: at a state of the invariant, a request outside [may_panic] is
   answered.  (Equivalently: a panic implies the class.) *)
Theorem C12_panic_sound cf sv r : SInv sv -> may_panic cf sv r = false -> exists v, handle cf sv r = Ok v.
Proof.
  intros HS Hm. destruct r as [key| |key|key p|qe score|key| |key line er only|k data kg|key|key|key p|key p new_name|c| ];
    cbn [may_panic handle] in *.
  - apply negb_false_iff in Hm. apply rmap_ok. now apply inlay_hints_total.
  - eauto.
  - apply negb_false_iff in Hm. apply rmap_ok. now apply document_symbols_total.
  - apply negb_false_iff in Hm. apply rmap_ok. now apply definition_total.
  - apply negb_false_iff in Hm. apply rmap_ok. now apply workspace_symbols_total.
  - eauto.
  - eauto.
  - apply negb_false_iff in Hm. apply rmap_ok. now apply code_action_total.
  - destruct k as [k|]; [|discriminate]. destruct data as [target|]; [|discriminate].
    apply orb_false_iff in Hm as [H1 H2]. apply negb_false_iff in H1, H2. apply rmap_ok. now apply resolve_total.
  - apply negb_false_iff in Hm. apply rmap_ok. now apply formatting_total.
  - apply negb_false_iff in Hm. apply rmap_ok. now apply references_total.
  - apply orb_false_iff in Hm as [H1 H2]. apply negb_false_iff in H1, H2. apply rmap_ok. now apply prepare_rename_total.
  - apply orb_false_iff in Hm as [Hm H4]. apply orb_false_iff in Hm as [Hm H3]. apply orb_false_iff in Hm as [H1 H2].
    apply negb_false_iff in H1, H2, H3, H4. apply rmap_ok. now apply rename_total.
  - apply orb_false_iff in Hm as [H1 H2]. apply negb_false_iff in H1, H2.
    destruct (cf_command cf (ss_gs sv) c) as [l|]; [|discriminate]. cbn [bind]. apply rmap_ok.
    apply mapm_ok. intros ch _. now apply doc_change_ok.
  - discriminate.
Qed.
Print Assumptions C12_panic_sound.

Theorem C12_handler_panic_domain cf sv r site :
  SInv sv -> handle cf sv r = Panic site -> may_panic cf sv r = true.
Proof.
  intros HS H. destruct (may_panic cf sv r) eqn:E; [reflexivity|].
  destruct (C12_panic_sound cf sv r HS E) as (v & Hv). congruence.
Qed.
Print Assumptions C12_handler_panic_domain.

(* ---------- the readable form: requests about existing notes ------------------------------------- *)

(* the tree the check runs on: library directory absolute, `line_range` of a list repaired
   (d2c35b3), rename of a dangling link refused (fix-rename-dangling), the new name of a rename
   read once from the directory of the note under the cursor (one-key repair of handle_rename) *)
Definition config_ok (cf : config) : Prop :=
  base_ok (cf_base cf) = true /\ IweV.Pos.v_empty_item (cf_pos cf) = true /\ Rename.fx_dangling (cf_fx cf) = true /\
  Rename.fx_subdir (cf_fx cf) = true.

Definition request_ok (cf : config) (sv : sstate) (r : request) : Prop :=
  let g := gs_graph (ss_gs sv) in
  match r with
  | RInlayHint key | RFormatting key | RCodeAction key _ _ _ => key_exists g key = true
  | RCodeActionResolve k data kg =>
      (* the action was offered: same kind, same node; the key generator can draw what the kind needs *)
      exists k' target title, k = Some k' /\ data = Some target /\
        action (graph_ctx g) k' target = Ok (Some title) /\
        (forall key tree, key_of g target = Ok key -> collect_key g key = Ok tree ->
                          kg_has kg (draws_needed k' tree target) = true)
  | RPrepareRename key p => link_end_ok (cf_pos cf) (ss_docs sv) key p = true
  | RCommand c => is_ok (cf_command cf (ss_gs sv) c) = true
  | RUnknown => False
  | _ => True
  end.

Theorem C12_total_inv cf sv r : SInv sv -> config_ok cf -> request_ok cf sv r -> exists v, handle cf sv r = Ok v.
Proof.
  intros HS (Hb & Hv & Hd & Hs) Hr. apply C12_panic_sound; [exact HS|].
  destruct r as [key| |key|key p|qe score|key| |key line er only|k data kg|key|key|key p|key p new_name|c| ];
    cbn [may_panic request_ok] in *; try reflexivity; try (now rewrite ?Hr, ?Hb, ?Hv, ?Hd, ?Hs).
  - destruct Hr as (k' & target & title & -> & -> & Ha & Hkg). rewrite Hb. cbn [negb orb]. rewrite orb_false_r.
    apply negb_false_iff. rewrite <- (resolve_is_domain sv HS).
    destruct (C09_offered_resolves_graph (gs_graph (ss_gs sv)) k' kg target title (H_wf sv HS) Ha)
      as (key & tree & Hk & Hc & _ & Hres).
    destruct (Hres (Hkg key tree Hk Hc)) as (l & -> & _). reflexivity.
Qed.

(* C12_handlers_total: Server::new on notes with distinct keys, any notifications: every request
   about existing notes is answered by the handler (no panic) *)
Theorem C12_handlers_total cf notes docs ns sv r :
  distinct_keys notes -> sreached notes docs ns sv -> config_ok cf -> request_ok cf sv r ->
  exists v, handle cf sv r = Ok v.
Proof. intros Hd Hr. apply C12_total_inv. eapply sreached_SInv; eauto. Qed.
Print Assumptions C12_handlers_total.

(* references, symbols, definition, completion, inline values: no panic whatever the note is *)
Corollary C12_unknown_key_harmless cf notes docs ns sv key p :
  distinct_keys notes -> sreached notes docs ns sv -> config_ok cf ->
  (exists v, handle cf sv (RReferences key) = Ok v) /\ (exists v, handle cf sv (RDocumentSymbol key) = Ok v) /\
  (exists v, handle cf sv (RDefinition key p) = Ok v) /\ (exists v, handle cf sv (RCompletion key) = Ok v).
Proof. intros Hd Hr Hc. repeat split; eapply C12_handlers_total; eauto; exact I. Qed.

(* ================================================================================================ *)
(* S3b — the classes of [may_panic] are real: general where the panic is forced, a witness else      *)
(* ================================================================================================ *)

Definition panics {A} (r : res A) : Prop := exists site, r = Panic site.

Lemma rmap_panics {A B} (f : A -> B) r : panics r -> panics (rmap f r).
Proof. intros (s & ->). exists s. reflexivity. Qed.

(* unknown key: inlay hints (`maybe_key(key).expect("to have key")` in get_block_references_in),
   formatting (`collect(&key)`), code actions (`nodes_map.get(key).expect(..)`) ALWAYS panic *)
Theorem inlay_unknown_key_panics cf sv key :
  SInv sv -> key_exists (gs_graph (ss_gs sv)) key = false -> handle cf sv (RInlayHint key) = Panic "to have key".
Proof.
  intros HS Hk. cbn [handle]. unfold handle_inlay_hints, container_hint.
  destruct (block_refs_lv sv HS key) as (bl & -> & Lb). cbn [bind].
  destruct (mapm_ok (container_ref_text (gs_graph (ss_gs sv))) bl) as (cs & ->).
  { intros x Hx. unfold container_ref_text. destruct (node_key_live _ (H_ok sv HS) x (Lb x Hx)) as (k & ->). cbn [bind]. eauto. }
  cbn [bind]. destruct (inline_refs_lv sv HS key) as (il & -> & _). cbn [bind].
  unfold block_reference_hints, block_references_in. unfold key_exists in Hk.
  destruct (alookup key (gr_keys (gs_graph (ss_gs sv)))); [discriminate|]. reflexivity.
Qed.

Theorem formatting_unknown_key_panics cf sv key :
  key_exists (gs_graph (ss_gs sv)) key = false -> handle cf sv (RFormatting key) = Panic "to have key".
Proof.
  intros Hk. cbn [handle]. unfold handle_formatting, to_markdown. unfold key_exists in Hk.
  destruct (alookup key (gr_keys (gs_graph (ss_gs sv)))); [discriminate|]. reflexivity.
Qed.

Theorem code_action_unknown_key_panics cf sv key line er only :
  SInv sv -> key_exists (gs_graph (ss_gs sv)) key = false ->
  handle cf sv (RCodeAction key line er only) = Panic "to have key".
Proof.
  intros (_ & D & _) Hk. cbn [handle]. unfold handle_code_action, get_node_id_at. unfold key_exists in Hk.
  destruct (alookup key (gr_keys (gs_graph (ss_gs sv)))) eqn:E; [discriminate|]. apply D in E. rewrite E. reflexivity.
Qed.

(* codeAction/resolve: a missing `data` / `kind`, and exactly the (kind, node, key generator) outside
   ActionsTotal.resolve_domain - in particular every stale id of the five non-inline kinds
   (ActionsTotal.C12_not_offered_panics) *)
Theorem resolve_panic_exact cf sv k target kg :
  SInv sv -> base_ok (cf_base cf) = true ->
  is_ok (handle cf sv (RCodeActionResolve (Some k) (Some target) kg)) =
  resolve_domain (graph_ctx (gs_graph (ss_gs sv))) k kg target.
Proof.
  intros HS Hb. destruct (resolve_domain (graph_ctx (gs_graph (ss_gs sv))) k kg target) eqn:E.
  - destruct (resolve_total cf sv HS k kg target E Hb) as (v & Hv). cbn [handle]. now rewrite Hv.
  - cbn [handle]. unfold handle_code_action_resolve. rewrite <- (resolve_is_domain sv HS) in E.
    destruct (handle_resolve _ k kg target); [discriminate | reflexivity].
Qed.

Theorem resolve_missing_field_panics cf sv k data kg :
  k = None \/ data = None -> panics (handle cf sv (RCodeActionResolve k data kg)).
Proof.
  intros [-> | ->]; cbn [handle]; unfold handle_code_action_resolve; [destruct data|]; eexists; reflexivity.
Qed.

Theorem stale_action_panics cf sv k target kg :
  SInv sv -> k <> InlineSection -> k <> InlineQuote ->
  offered (graph_ctx (gs_graph (ss_gs sv))) k target = false ->
  panics (handle cf sv (RCodeActionResolve (Some k) (Some target) kg)).
Proof.
  intros HS N1 N2 Ho. cbn [handle]. unfold handle_code_action_resolve.
  pose proof (C12_not_offered_panics _ k kg target N1 N2 Ho) as E.
  destruct (handle_resolve _ k kg target); [discriminate|]. eexists. reflexivity.
Qed.

Theorem unknown_method_panics cf sv : handle cf sv RUnknown = Panic "unhandled request".
Proof. reflexivity. Qed.

Theorem empty_change_panics sv : panics (did_change sv NChangeNone).
Proof. eexists. reflexivity. Qed.

(* ---------- a concrete server: Reachable.ex_notes, five edits ---------------------------------------- *)
Module Witness.
  Import IweV.Pos.
  Definition lk (r : irange) (u : string) : pinl := PNode (KLink Regular u) r [PStr 1].
  Definition docs : list (string * doc) :=
    [("a", [BHeader (0,1) [PStr 1]; BPara (1,2) [lk ((1,0),(1,6)) "b"; lk ((1,7),(2,0)) "b"]]);
     ("b", [BHeader (0,1) [PStr 1]; BList [[]; [BPara (2,3) [PStr 1]]]]);
     ("d/c", [BHeader (0,1) [PStr 1]; BPara (1,2) [lk ((1,0),(1,9)) "../a"; lk ((1,10),(1,20)) "nowhere"]])].
  Definition notes_of_ops (ops : list (string * option string * list dblock)) : list note :=
    map (fun o => match o with (k, m, bs) => NChange k m bs [] end) ops.

  Definition cf_at (base : string) (v : variant) (fx : Rename.fixes) : config :=
    CF (Opts "") (fun _ => []) fx v base false None (fun _ _ => Panic "no model configured").
  Definition cf0 : config := cf_at "/lib" repaired (Rename.FX false true true true).     (* /repo *)

  Definition sv0 : res sstate := server_new ex_notes docs.
  Definition sv1 : res sstate := do s <- sv0; server_run s (notes_of_ops ex_ops).
  Definition on (sv : res sstate) (cf : config) (r : request) : res response := do s <- sv; handle cf s r.
End Witness.
Import Witness.

Lemma witness_reached : exists sv, sv0 = Ok sv /\ sreached ex_notes docs [] sv /\ SInv sv.
Proof.
  destruct (server_new_total ex_notes docs ex_premises) as (sv & E & HS & _).
  exists sv. split; [exact E|]. split; [exists sv; split; [exact E | reflexivity] | exact HS].
Qed.

(* a relative library directory: every handler that builds a URI panics in `expect("to work")` *)
Theorem relative_base_panics :
  on sv0 (cf_at "lib" IweV.Pos.repaired (Rename.FX false true true true)) (RReferences "b") = Panic "key_to_url: to work" /\
  on sv1 (cf_at "lib" IweV.Pos.repaired (Rename.FX false true true true)) (RDocumentSymbol "e") = Panic "key_to_url: to work" /\
  on sv0 (cf_at "lib" IweV.Pos.repaired (Rename.FX false true true true)) (RWorkspaceSymbol true (fun _ => 0%Z))
    = Panic "key_to_url: to work" /\
  on sv0 (cf_at "lib" IweV.Pos.repaired (Rename.FX false true true true)) (RRename "a" (1, 2) "new") = Panic "key_to_url: to work" /\
  on sv0 (cf_at "lib" IweV.Pos.repaired (Rename.FX false true true true)) (RCodeActionResolve (Some SectionToList) (Some 1) KSeq)
    = Panic "key_to_url: to work".
Proof. repeat split; vm_compute; reflexivity. Qed.

(* as found (before d2c35b3), a list whose first item is empty: definition, prepare rename and
   rename panic in DocumentBlock::line_range, whatever the position *)
Theorem empty_first_item_panics_as_found :
  let cf := cf_at "/lib" IweV.Pos.as_found (Rename.FX false true true true) in
  on sv0 cf (RDefinition "b" (5, 0)) = Panic "line_range: unwrap on None" /\
  on sv0 cf (RPrepareRename "b" (5, 0)) = Panic "line_range: unwrap on None" /\
  on sv0 cf (RRename "b" (5, 0) "new") = Panic "line_range: unwrap on None" /\
  (exists v, on sv0 cf0 (RDefinition "b" (5, 0)) = Ok v).
Proof. repeat split; try (vm_compute; reflexivity). eexists. vm_compute. reflexivity. Qed.

(* prepare rename on a link whose end column is 0 (a link that ends at a line start):
   `end.character - 1` underflows *)
Theorem link_end_zero_panics :
  on sv0 cf0 (RPrepareRename "a" (1, 8)) = Panic "attempt to subtract with overflow" /\
  (exists sv, sv0 = Ok sv /\ link_end_ok (cf_pos cf0) (ss_docs sv) "a" (1, 8) = false).
Proof. split; [vm_compute; reflexivity|]. destruct witness_reached as (sv & E & _). exists sv. split; [exact E|].
  vm_compute in E. injection E as <-. vm_compute. reflexivity.
Qed.

(* rename issued from a note in a sub-directory: before the one-key repair the patch is built
   under `new` and exported under `d/new` - a panic; /repo answers (and files the note as d/new) *)
Theorem rename_subdir_panics :
  on sv0 (cf_at "/lib" IweV.Pos.repaired (Rename.FX false true true false)) (RRename "d/c" (1, 2) "new") = Panic "to have key" /\
  (exists v, on sv0 cf0 (RRename "d/c" (1, 2) "new") = Ok v) /\
  (exists v, on sv0 cf0 (RRename "a" (1, 2) "new") = Ok v).
Proof. repeat split; try (vm_compute; reflexivity); eexists; vm_compute; reflexivity. Qed.

Theorem rename_dangling_panics_as_found :
  on sv0 (cf_at "/lib" IweV.Pos.repaired Rename.as_found) (RRename "d/c" (1, 12) "new") = Panic "to have key" /\
  on sv0 cf0 (RRename "d/c" (1, 12) "new") = Ok (VRename Rename.RNone).
Proof. split; vm_compute; reflexivity. Qed.

(* a stale code action id after an edit: node 1 was a heading of note `a`, is a tombstone now *)
Theorem stale_id_after_edit_panics :
  (exists v, on sv0 cf0 (RCodeActionResolve (Some SectionToList) (Some 1) KSeq) = Ok v) /\
  panics (on sv1 cf0 (RCodeActionResolve (Some SectionToList) (Some 1) KSeq)).
Proof. split; eexists; vm_compute; reflexivity. Qed.

(* non-vacuity of C12_handlers_total: after the five edits, one request of every method about the
   existing notes is answered; the classifier is false on all of them *)
Definition sample : list request :=
  [RInlayHint "b"; RInlineValues; RDocumentSymbol "e"; RDefinition "a" (1, 2); RWorkspaceSymbol true (fun _ => 0%Z);
   RCompletion "d/c"; RCompletionResolve; RCodeAction "a" 0 true None; RCodeAction "a" 5 true None;
   RCodeActionResolve (Some SectionToList) (Some 24) KSeq; RFormatting "a"; RReferences "b";
   RPrepareRename "a" (1, 2); RRename "a" (1, 2) "new"; RRename "a" (1, 2) "b"].

Example handlers_total_nonvacuous :
  exists sv, sreached ex_notes docs (notes_of_ops ex_ops) sv /\ SInv sv /\ config_ok cf0 /\
    forallb (fun r => negb (may_panic cf0 sv r) && is_ok (handle cf0 sv r)) sample = true.
Proof.
  destruct (sreached_total ex_notes docs (notes_of_ops ex_ops) ex_premises) as (sv & R & HS).
  { unfold changes, notes_of_ops. apply Forall_forall. intros n Hn. apply in_map_iff in Hn as ([[k m] bs] & <- & _). discriminate. }
  exists sv. split; [exact R|]. split; [exact HS|]. split; [repeat split; reflexivity|].
  destruct R as (s0 & E0 & E).
  assert (E1 : sv1 = Ok sv) by (unfold sv1, sv0; rewrite E0; exact E).
  clear E0 E HS s0. vm_compute in E1. injection E1 as <-. vm_compute. reflexivity.
Qed.

(* ================================================================================================ *)
(* S4 — the router of Router.v with these handlers                                                    *)
(* ================================================================================================ *)

Section RouterInstance.
  Variable cf : config.

  Notation rstate := (Router.state sstate note request response).
  Notation rsteps := (Router.steps apply_note (handle cf)).

  (* exactly once, for every message list and every schedule (RouterFacts.exactly_once with
     handler := handle cf: the theorem holds for every handler) *)
  Theorem C12_server_exactly_once (msgs : list (msg note request)) (sv0 : sstate) nv tr (st : rstate) :
    rsteps nv Repaired (init msgs sv0) tr st ->
    quiescent apply_note (handle cf) nv Repaired st ->
    Permutation (resp_keys (outbox st)) (req_keys 0 (served msgs)).
  Proof. apply exactly_once. Qed.

  Theorem C12_server_keeps_serving nv wv (st st' : rstate) p :
    step apply_note (handle cf) nv wv st (WCompute p) = Some st' ->
    srv st' = srv st /\ arc st' = arc st /\ inbox st' = inbox st /\ waiting st' = waiting st
    /\ outbox st' = outbox st /\ stopped st' = stopped st /\ length (Router.live st') = length (Router.live st).
  Proof. apply compute_step_frame. Qed.

  (* the invariant holds in the server every request is computed from: notifications never leave it *)
  Lemma server_at_inv (msgs : list (msg note request)) sv0 p :
    SInv sv0 -> SInv (server_at apply_note msgs sv0 p).
  Proof.
    intros H. unfold server_at. generalize (notes_of (firstn p msgs)). intros ns. revert sv0 H.
    induction ns as [|n ns IH]; intros sv0 H; [exact H|]. cbn [fold_left]. apply IH. now apply apply_note_inv.
  Qed.

  (* HEADLINE: on a server started on notes with distinct keys, whatever was sent before, a request
     about existing notes (request_ok in the state of that moment) is answered with the handler's
     RESULT - never with InternalError; shutdown with null; executeCommand with null *)
  Theorem C12_answered_with_result notes docs (msgs : list (msg note request)) sv0 tr (st : rstate) p id b :
    distinct_keys notes -> server_new notes docs = Ok sv0 -> config_ok cf ->
    rsteps Repaired Repaired (init msgs sv0) tr st ->
    In (Resp p id b) (outbox st) ->
    exists q, nth_error msgs p = Some (MReq q) /\ id = r_id q /\
      let sv := server_at apply_note msgs sv0 p in
      SInv sv /\
      match r_kind q with
      | KShutdown => b = BNull
      | KPlain r => request_ok cf sv r -> exists v, handle cf sv r = Ok v /\ b = BResult v
      | KCmd r => request_ok cf sv r -> b = BNull
      end.
  Proof.
    intros Hd Hn Hc Hs Hin.
    destruct (server_new_total notes docs Hd) as (sv0' & E & HS0 & _). rewrite Hn in E. injection E as <-.
    destruct (response_body _ _ _ _ apply_note (handle cf) msgs sv0 tr st p id b Hs Hin) as (q & Hq & Hid & Hb).
    exists q. split; [exact Hq|]. split; [exact Hid|]. cbv zeta.
    pose proof (server_at_inv msgs sv0 p HS0) as HSp. split; [exact HSp|].
    unfold compute, resp_body in Hb. destruct (r_kind q) as [|r|r].
    - exact Hb.
    - intros Hr. destruct (C12_total_inv cf _ r HSp Hc Hr) as (v & Hv). rewrite Hv in Hb. exact Hb.
    - intros Hr. destruct (C12_total_inv cf _ r HSp Hc Hr) as (v & Hv). rewrite Hv in Hb. eauto.
  Qed.

  (* ... and an InternalError answer means the request was of the class [may_panic] *)
  Theorem C12_error_means_class notes docs (msgs : list (msg note request)) sv0 tr (st : rstate) p id :
    distinct_keys notes -> server_new notes docs = Ok sv0 ->
    rsteps Repaired Repaired (init msgs sv0) tr st ->
    In (Resp p id BError) (outbox st) ->
    exists q r, nth_error msgs p = Some (MReq q) /\ (r_kind q = KPlain r \/ r_kind q = KCmd r) /\
      may_panic cf (server_at apply_note msgs sv0 p) r = true.
  Proof.
    intros Hd Hn Hs Hin.
    destruct (server_new_total notes docs Hd) as (sv0' & E & HS0 & _). rewrite Hn in E. injection E as <-.
    destruct (response_body _ _ _ _ apply_note (handle cf) msgs sv0 tr st p id BError Hs Hin) as (q & Hq & Hid & Hb).
    pose proof (server_at_inv msgs sv0 p HS0) as HSp.
    unfold compute, resp_body in Hb. destruct (r_kind q) as [|r|r] eqn:K; [discriminate| |].
    - exists q, r. split; [exact Hq|]. split; [now right|].
      destruct (handle cf (server_at apply_note msgs sv0 p) r) as [v|site] eqn:Hh; [discriminate|].
      eapply C12_handler_panic_domain; eauto.
    - exists q, r. split; [exact Hq|]. split; [now left|].
      destruct (handle cf (server_at apply_note msgs sv0 p) r) as [v|site] eqn:Hh; [discriminate|].
      eapply C12_handler_panic_domain; eauto.
  Qed.
End RouterInstance.
Print Assumptions C12_server_exactly_once.
Print Assumptions C12_answered_with_result.
Print Assumptions C12_error_means_class.


(* ================================================================================================ *)
(* S6 — exact domains, and the link to Reachable.reached                                             *)
(* ================================================================================================ *)

(* inlay hints, formatting, code actions: at a state of the invariant the handler panics EXACTLY when
   the note does not exist (for code actions: whatever the line, the range and the `only` filter) *)
Theorem C12_key_methods_exact cf sv key :
  SInv sv ->
  let ex := key_exists (gs_graph (ss_gs sv)) key in
  is_ok (handle cf sv (RInlayHint key)) = ex /\
  is_ok (handle cf sv (RFormatting key)) = ex /\
  (forall line er only, is_ok (handle cf sv (RCodeAction key line er only)) = ex).
Proof.
  intros HS ex. subst ex. destruct (key_exists (gs_graph (ss_gs sv)) key) eqn:E.
  - repeat split; intros;
      match goal with |- is_ok (handle cf sv ?r) = true =>
        destruct (C12_panic_sound cf sv r HS) as (v & ->); [cbn [may_panic]; now rewrite E | reflexivity] end.
  - split; [now rewrite (inlay_unknown_key_panics cf sv key HS E)|].
    split; [now rewrite (formatting_unknown_key_panics cf sv key E)|].
    intros. now rewrite (code_action_unknown_key_panics cf sv key line er only HS E).
Qed.
Print Assumptions C12_key_methods_exact.

(* the graph part of a server state reached by Server::new and notifications is a state of
   Reachable.reached: every theorem about reached states (C04, C05, C17, C18, C20) applies to it *)
Fixpoint ops_of_notes (ns : list note) : list IndexHistory.op :=
  match ns with
  | [] => []
  | NChange key meta bs _ :: r => (key, meta, bs) :: ops_of_notes r
  | _ :: r => ops_of_notes r
  end.

Lemma server_run_updates ns : forall sv sv', server_run sv ns = Ok sv' ->
  run_updates true (ss_gs sv) (ops_of_notes ns) = Ok (ss_gs sv').
Proof.
  induction ns as [|n r IH]; intros sv sv' H; cbn [server_run] in H.
  - injection H as <-. reflexivity.
  - apply bind_inv in H as (sv1 & H1 & H). destruct n as [key meta bs d| |]; cbn [did_change] in H1.
    + apply bind_inv in H1 as (s1 & Hs & H1). apply bind_inv in H1 as (ps & _ & E). injection E as <-.
      cbn [ops_of_notes run_updates]. rewrite Hs. cbn [bind]. exact (IH _ _ H).
    + discriminate.
    + injection H1 as <-. cbn [ops_of_notes]. exact (IH _ _ H).
Qed.

Theorem sreached_reached notes docs ns sv :
  sreached notes docs ns sv -> reached notes (ops_of_notes ns) (ss_gs sv).
Proof.
  intros (sv0 & H0 & H). unfold server_new in H0. apply bind_inv in H0 as (s0 & Hs0 & H0).
  apply bind_inv in H0 as (ps & _ & E). injection E as <-.
  exists s0. split; [exact Hs0|]. exact (server_run_updates ns _ _ H).
Qed.
Print Assumptions sreached_reached.
Print Assumptions line_target_ok_holds.
Print Assumptions search_paths_total.
Print Assumptions server_new_total.
Print Assumptions did_change_total.
Print Assumptions sreached_total.
Print Assumptions resolve_panic_exact.
Print Assumptions inlay_unknown_key_panics.
Print Assumptions handlers_total_nonvacuous.
