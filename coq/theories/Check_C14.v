(* Check_C14.v — executable side of C14: the case type the harness fills with the
   implementation's observations (library written to disk, loaded by liwe::fs::new_for_path,
   served by iwes::router::server::Server), the correspondence model = observed, and the
   property predicates evaluated on the observations. *)
From IweV Require Import Str RelPath Arena Url Harness.
Local Open Scope string_scope.
Local Open Scope list_scope.
Local Open Scope N_scope.

(* Which BasePath the tree under test has.  [AsFound] = /repo HEAD without
   fix-c14-uri-key.patch; switch [tree_variant] to [Fixed] when that patch is applied. *)
Inductive variant := AsFound | Fixed.
Definition tree_variant : variant := Fixed.

Definition m_url_to_key (v : variant) (base u : string) : string :=
  match v with
  | AsFound => url_to_key_as_found (server_prefix base) u
  | Fixed => url_to_key_fixed base u
  end.
Definition m_key_to_url (v : variant) (base key : string) : res (option string) :=
  match v with
  | AsFound => key_to_url_as_found (server_prefix base) key
  | Fixed => key_to_url_fixed base key
  end.

Record note := Note {
  n_comps : list string;        (* directories ++ [stem]; the file is <base>/<dirs>/<stem>.md, content `# T<i>` *)
  o_uri : option string;        (* Url::from_file_path(<file>).to_string() *)
  o_disk : option string;       (* key under which the loader holds this file's content *)
  o_url_key : option string;    (* BasePath::url_to_key(uri), read off the completion command *)
  o_key_url : option string;    (* BasePath::key_to_url(key of the symbol titled T<i>) *)
  o_open : option string        (* that URI's to_file_path() *)
}.

Inductive case :=
| Skip                                          (* input not usable as file names: nothing ran *)
| Crash (base : string)                         (* Server::new panicked *)
| Case (base : string)                          (* library path as given to loader and server *)
       (notes : list note)
       (o_loaded : option (list string))        (* keys of new_for_path (None: it panicked) *)
       (o_before : option (list (string * string)))  (* (key, title) the server lists *)
       (o_edited : bool)                        (* didChange for note 0's URI returned *)
       (o_after : option (list (string * string)))   (* the same list after that edit *)
       (o_extra : list (string * option string)).    (* other client URIs and their url_to_key *)

Definition seqb := String.eqb.
Definition oeqb := option_eqb String.eqb.
Definition incl_b {A} (eq : A -> A -> bool) (a b : list A) : bool := forallb (fun x => existsb (eq x) b) a.
Definition set_eqb {A} (eq : A -> A -> bool) (a b : list A) : bool := incl_b eq a b && incl_b eq b a.
Definition kv_eqb (a b : string * string) : bool := seqb (fst a) (fst b) && seqb (snd a) (snd b).
Fixpoint nodup_b (l : list string) : bool :=
  match l with [] => true | x :: r => negb (existsb (seqb x) r) && nodup_b r end.

(* update_document on the (key, title) view *)
Fixpoint kv_set (k t : string) (l : list (string * string)) : list (string * string) :=
  match l with
  | [] => [(k, t)]
  | (k', t') :: r => if seqb k k' then (k, t) :: r else (k', t') :: kv_set k t r
  end.

Definition same_file (p q : string) : bool := list_eqb seqb (path_components p) (path_components q).

Definition alnum (a : ascii) : bool := is_alpha a || is_digit a.

(* the key the loader gives to the file a URI denotes, if it is a file under the library *)
Definition denoted_key (base u : string) : option string :=
  match to_file_path u with
  | Some p =>
      match strip_list_prefix (path_components base) (path_components p) with
      | Some rel =>
          match rev rel with
          | name :: rdirs => if has_md_extension name then Some (loader_key (rev rdirs) name) else None
          | [] => None
          end
      | None => None
      end
  | None => None
  end.

(* sub-properties a known-finding class accounts for *)
Definition explains (k : N) : list N :=
  match k with
  | 1 => [1; 2] | 2 => [3] | 3 => [1; 2; 3] | 4 => [1; 2] | 6 => [4] | 7 => [4] | 8 => [4]
  | _ => []
  end.

Definition run_with (v : variant) (c : case) : verdict :=
  match c with
  | Skip => V [] [] [] false
  | Crash _ => V [9] [1] [] false
  | Case base notes o_loaded o_before o_edited o_after o_extra =>
      let mkeys := map (fun n => disk_key (n_comps n)) (filter (fun n => loaded (n_comps n)) notes) in
      let u0 := match notes with n :: _ => o_uri n | [] => None end in
      let k0 := match u0 with Some u => Some (m_url_to_key v base u) | None => None end in
      let any_panic := existsb (fun k => match m_key_to_url v base k with Panic _ => true | _ => false end) mkeys in
      (* a key that Url::join turns into a URL outside the modelled part of the crate (another
         scheme, a host): whether that call panics is not modelled, and one panic empties the whole
         symbol response, so stage 5 is skipped for such a library *)
      let any_oracle := existsb (fun k => match m_key_to_url v base k with Ok None => true | _ => false end) mkeys in
      let corr :=
        (* 1: Url::from_file_path *)
        flag 1 (forallb (fun n => oeqb (file_uri (note_path base (n_comps n))) (o_uri n)) notes) ++
        (* 2: key set of the loader *)
        flag 2 (match o_loaded with Some l => set_eqb seqb l mkeys && nodup_b l | None => false end) ++
        (* 3: key of each file (None only for a file that lost a key collision: the same components twice) *)
        flag 3 (forallb (fun n => match o_disk n with
                                  | Some k => seqb k (disk_key (n_comps n)) && loaded (n_comps n)
                                  | None => negb (loaded (n_comps n)) ||
                                            N.ltb 1 (count_in 0 (map (fun m => if seqb (disk_key (n_comps m)) (disk_key (n_comps n)) then 0 else 1) notes))
                                  end) notes) ++
        (* 4: BasePath::url_to_key on the editor's URI *)
        flag 4 (forallb (fun n => match o_uri n with
                                  | Some u => oeqb (o_url_key n) (Some (m_url_to_key v base u))
                                  | None => true end) notes) ++
        (* 5: BasePath::key_to_url on the loader's key *)
        flag 5 (any_oracle || forallb (fun n => match o_disk n with
                                  | Some k =>
                                      if any_panic then oeqb (o_key_url n) None else
                                      match m_key_to_url v base k with
                                      | Ok (Some t) => oeqb (o_key_url n) (Some t)
                                      | Ok None => true
                                      | Panic _ => oeqb (o_key_url n) None
                                      end
                                  | None => true end) notes) ++
        (* 6: Url::to_file_path of the URI the server produced (file: URLs only; the crate also
           answers for other schemes with a rooted path, which is outside the model) *)
        flag 6 (forallb (fun n => match o_key_url n with
                                  | Some t => negb (starts_with "file://" t) || oeqb (to_file_path t) (o_open n)
                                  | None => oeqb (o_open n) None end) notes) ++
        (* 7: the server's notes before and after didChange(note 0's URI, "# E") *)
        flag 7 (match o_loaded, o_before, o_after, k0 with
                | Some l, Some b, Some a, Some k =>
                    set_eqb seqb (map fst b) l && o_edited && set_eqb kv_eqb a (kv_set k "E" b)
                    && N.eqb (N.of_nat (length a)) (N.of_nat (length (kv_set k "E" b)))
                | _, _, _, _ => false end) ++
        (* 8: url_to_key on other client URIs *)
        flag 8 (forallb (fun e => oeqb (snd e) (Some (m_url_to_key v base (fst e)))) o_extra) in
      let prop :=
        (* 1: the file, its URI and its key name the same note *)
        flag 1 (forallb (fun n => match o_disk n, o_url_key n with
                                  | Some k, Some k' => seqb k k'
                                  | _, _ => false end) notes) ++
        (* 2: an edit notification updates that note and creates no second one *)
        flag 2 (match notes, o_before, o_after with
                | n :: _, Some b, Some a =>
                    match o_disk n with
                    | Some k => set_eqb seqb (map fst a) (map fst b) && existsb (kv_eqb (k, "E")) a
                                && N.eqb (N.of_nat (length a)) (N.of_nat (length b))
                    | None => false
                    end
                | _, _, _ => false end) ++
        (* 3: the URI the server answers with opens the file that was meant *)
        flag 3 (forallb (fun n => match o_open n with
                                  | Some p => same_file p (note_path base (n_comps n))
                                  | None => false end) notes) ++
        (* 4: any client URI of a note file addresses the note the loader made of that file *)
        flag 4 (forallb (fun e => match denoted_key base (fst e) with
                                  | Some k => oeqb (snd e) (Some k)
                                  | None => true end) o_extra) in
      let S := server_prefix base in
      let cls :=
        flag 1 (negb (existsb (fun n => existsb needs_encoding (n_comps n)) notes)) ++
        flag 2 (negb (existsb (fun n => join_reinterprets (n_comps n)) notes)) ++
        flag 3 (negb (base_unsafe base)) ++
        flag 4 (negb (base_trailing_slash base)) ++
        (* (class 5, a stem ending in `.md`, is repaired: F-C14-5) *)
        flag 6 (negb (existsb (fun e => prefix_repeats S (fst e)) o_extra)) ++
        flag 7 (negb (existsb (fun e => uri_has_escape (fst e)) o_extra)) ++
        flag 8 (negb (existsb (fun e => uri_has_query (fst e)) o_extra)) in
      (* a class accounts for particular sub-properties only: the classes are reported when
         together they account for every failing sub-property of the case *)
      let explained := flat_map explains cls in
      let cls := if forallb (fun p => existsb (N.eqb p) explained) prop then cls else [] in
      let nontriv := existsb (fun n => Nat.ltb 1 (length (n_comps n)) ||
                                       existsb (sexists (fun a => negb (alnum a))) (n_comps n)) notes in
      V corr prop cls nontriv
  end.

Definition run (c : case) : verdict := run_with tree_variant c.
Definition run_fixed (c : case) : verdict := run_with Fixed c.
